package main

import (
	"verifcheck/internal/report"
	"verifcheck/internal/rules"
)

type propertyDef struct {
	Decides      string
	NotDecided   string
	Rules        []string
	Trusted      []string
	Assumptions  []string
	ThoroughDeps bool
	Run          func(c *rules.Ctx) []report.Obligation
}

var commonTrusted = []string{
	"go/types, go/ssa, go/packages of golang.org/x/tools v0.29.0",
	"decoded YAML trees are finite, acyclic trees of map[string]any / []any / scalars (yaml.v3)",
	"frozen justifications in /verif/expectations.json (each carries its reason) and open entries of /verif/known_findings.json",
}

var commonAssumptions = []string{
	"every verdict is a structural necessary condition decided from the source; the behavioural statement itself (value equalities, all interleavings) is not decided",
	"dependencies are analysed through their export data only (quick tier)",
}

var allTables = []string{rules.TMerge, rules.TUnique, rules.TTransform, rules.TDefaults, rules.TCast, rules.TResolvers, rules.TChecks}

var properties = map[string]*propertyDef{}

func cat(lists ...[]report.Obligation) []report.Obligation {
	var out []report.Obligation
	for _, l := range lists {
		out = append(out, l...)
	}
	return out
}

func stageIn(names ...string) func(rules.Stage) bool {
	return func(s rules.Stage) bool {
		for _, n := range names {
			if s.Callee == n || (s.Callee == "" && s.Method == n) {
				return true
			}
		}
		return false
	}
}

func def(id string, d *propertyDef) {
	if d.Trusted == nil {
		d.Trusted = commonTrusted
	}
	d.Assumptions = append(append([]string{}, commonAssumptions...), d.Assumptions...)
	properties[id] = d
}

func init() {
	def("C01", &propertyDef{
		Decides:    "in code reachable from the load entry points: (1) every unchecked type assertion, index and slice expression is proved safe, justified, or a listed finding (PANIC-TA, PANIC-IDX, PANIC-EXPL, lemma TAB-L1), no `==` / slices.Contains / map key on two interface values that can both hold a list or a mapping (PANIC-CMP), every kind-restricted reflect.Value method is applied under a test of the receiver's kind (PANIC-REFL), the result of a function that can return (nil, nil) is dereferenced only under a nil test (NILRET), and no function that assigns into a map parameter is handed a map that can be nil (NILMAP); (2) every recursive call cycle is a structural descent on a YAML tree or has a checked guard, every condition-less loop is inventoried (TERM, CYC); (3) the cycle guards for extends, include, aliases and depends_on are present, dominate the recursion they protect and return errors (CYC); (4) errors from reading referenced files are propagated (ERR), every entry of a list of file references (env_file, label_file, configuration files, env files given to dotenv) reaches its reader on every iteration of the loop over the list, with no skipping path (REFS), and, path-sensitively, no error produced by any call in the load scope reaches a return untested (ERRDROP); (5) every return of the load chain is project-xor-error (XOR); (6) each pipeline stage propagates its error and schema validation is wired after every merged document unless SkipValidation (PIPE). A pointer loaded from a struct field (the optional parts of the model and of the options: deploy, resources.limits, Options.Interpolate, ...) is dereferenced only under a dominating non-nil test of the same field path, or after a fresh value was stored there (PANIC-NIL). Entries of the caller's ConfigFiles slice are only read (INPUTS-files): nothing a load caches there can make a later load skip a file that has since gone missing.",
		NotDecided: "termination and stack bounds themselves (TERM inventories arguments); nil dereferences and nil-map writes other than through map parameters; panics inside dependencies; that an error names the missing file; recursion through function values (template substitution) is not in the static call cycles.",
		Rules:      []string{"PANIC-TA", "PANIC-IDX", "PANIC-EXPL", "PANIC-CMP", "PANIC-REFL", "NILRET", "NILMAP", "TAB-L1", "TERM", "CYC", "ERR", "ERRDROP", "REFS", "XOR", "PIPE", "PANIC-NIL", "INPUTS-files"},
		Run: func(c *rules.Ctx) []report.Obligation {
			return cat(rules.OnlyRule(c.INPUTS("INPUTS"), "INPUTS-files"), c.PANICNIL("PANIC-NIL", "LOAD"), c.PanicTA("PANIC-TA", "LOAD"), c.PanicIDX("PANIC-IDX", "LOAD"), c.PanicExpl("PANIC-EXPL", "LOAD"), c.PanicCMP("PANIC-CMP", "LOAD"), c.PanicREFL("PANIC-REFL", "LOAD"), c.NILRET("NILRET", "LOAD"), c.NILMAP("NILMAP", "LOAD"), c.TabL1("TAB-L1"),
				c.TERM("TERM", "LOAD"), c.CYC("CYC"), c.ERR("ERR", "LOAD"), c.ERRDROP("ERRDROP", "LOAD"), c.REFS("REFS"), c.XOR("XOR"), c.PIPE("PIPE", nil))
		},
	})
	def("C02", &propertyDef{
		Decides:    "(1) the seven first-match rule tables have pairwise non-overlapping patterns (A1); (2) no range over a map in code reachable from load / render has an order-sensitive effect that is not sorted, keyed by the iteration key, owned by the iteration value or an error-only exit (ORD); (3) no package-level variable is written after init (GLOB); (4) the raw trees stay trees: no loop stores one loop-invariant map/slice under several keys (TREE), which is what the `disjoint per key` argument of ORD and the in-place mergers rely on; (5) the memoised result of an extends chain is never merged into: the base handed to ExtendService is a fresh deep clone, so the outcome does not depend on which service of the file is visited first (EXT-1); (6) a load does not write its inputs, so an earlier load cannot change a later one: no write to the caller's ConfigDetails.Environment, and a pre-parsed ConfigFile.Config only enters the in-place pipeline through a conversion that returns a new tree (INPUTS; one open finding). A lookup-miss-store memo table remembers only values that depend on nothing but their key (MEMO). No range over a map anywhere in the module is left through a `break` while the iterations that go on have effects: which entries would be processed would depend on the iteration order (MAPALL; none of the 117 ranges has a break today). A package-level variable written under a mutex is read under the same mutex (GLOB-read).",
		NotDecided: "determinism of dependencies (yaml/json encoders sorting keys is trusted); OS and file-system nondeterminism; the order in which listeners / visitors are called; which error message is returned when several entries are invalid.",
		Rules:      []string{"A1", "ORD", "GLOB", "TREE", "EXT-1", "INPUTS", "MEMO", "MAPALL"},
		Run: func(c *rules.Ctx) []report.Obligation {
			return cat(c.MAPALL("MAPALL"), c.MEMO("MEMO"), c.A1("A1", allTables...), c.ORD("ORD", "LOAD", "RENDER"), c.GLOB("GLOB"), c.TREE("TREE", "LOAD"), rules.OnlyRule(c.EXT("EXT"), "EXT-1"), c.INPUTS("INPUTS"))
		},
	})
	def("C03", &propertyDef{
		Decides:    "form coverage: for every attribute path of schema/compose-spec.json and every YAML kind the schema admits there, the code that consumes it has an arm for that kind: the canonical transformer registered for the path, else the custom decoder of the model type, else the plain Go kind under strict mapstructure + the repo's cast hook (A3); every schema attribute has a model field (A7); every transformer row denotes a schema path (A2); the bind-vs-volume decision of the volume short syntax is controlled by conditions computed from the source only (CLASSIFY); when several scalar spellings of one short form are accepted (a number and a string) they are all handed to the same parser of package types / format (SIBARM); command strings are split by shellwords.Parse only (SHELLSPLIT); a key is resolved from the environment only when it has no value at all (bare `KEY`, null), decided by nil / separator-absence / type tests and never by an emptiness test, so `KEY=` stays explicitly empty (INHERIT); a short list converted to its mapping form gives every name its own attribute map, never one object under several keys (TREE, packages override and transform). KEY=VALUE strings are cut at the first `=` only (KVSPLIT). Which transformer / decoder handles a value is decided by matching its whole path, never by its last segment alone, so a resource that is named like an attribute (`dns`, `ssh`, `build`) still gets the handler of its position (PATHLAST). Where the duplicate-removal key of a short form is one of its separator-delimited segments, it is made of the very segments the canonical transformer stores under the attribute the key of the long form reads, so both spellings of one entry get one key (IDXKEY: services.*.devices; segment algebra over strings.Split / strings.Cut).",
		NotDecided: "that two spellings produce equal values: port-range pairing, what counts as a path in the bind-vs-volume classification, KEY=VALUE splitting, durations, byte sizes and shell-word splitting are value-level grammars; rejection of near-miss strings.",
		Rules:      []string{"A3", "A7", "A2", "CLASSIFY", "SIBARM", "INHERIT", "SHELLSPLIT", "TREE", "KVSPLIT", "PATHLAST", "IDXKEY"},
		Run: func(c *rules.Ctx) []report.Obligation {
			return cat(c.IDXKEY("IDXKEY"), c.PATHLAST("PATHLAST"), c.KVSPLIT("KVSPLIT"), rules.Only(c.TREE("TREE", "LOAD"), "override.", "transform.", "inventory"), c.SHELLSPLIT("SHELLSPLIT"), c.INHERIT("INHERIT"), c.A3("A3"), c.A7("A7"), c.A2("A2", rules.TTransform), c.CLASSIFY("CLASSIFY"), c.SIBARM("SIBARM", "transform", "types"))
		},
	})
	def("C04", &propertyDef{
		Decides:    "merge coverage (A4): every attribute below services/networks/volumes/secrets/configs that the schema lets be spelled as list-or-mapping or string-or-list has a converting merger; every uniqueItems list is de-duplicated after the append (unicity indexer, mapping-producing or replacing merger), the de-duplication keeping, per key, the position of its first occurrence in the output list (position-map idiom, proved by PANIC-IDX over package override); command, entrypoint and healthcheck.test are bound to the replacing merger; each indexer has an arm for every item kind, and builds its key with verbs that print every admissible YAML type of a field alike (FMTVERB); mergeLogging consults the presence of `driver` on both sides before replacing instead of merging (LOGMERGE). The two tables are exclusive and have no dead rows (A1, A2). Stage order Apply(!reset) < Merge < EnforceUnicity < validate < Canonical < EnforceUnicity holds on every path and each stage's error is propagated (PIPE); every YAML document of a file runs through the pipeline (MULTIDOC). A float of the document is turned into the text of a KEY=VALUE entry the way fmt does it, in the mergers as in the decoders (FMTFLOAT). A merger that walks the entries of its base list appends each of them (or what it builds from it) on every iteration: entries no override matches survive (MERGEKEEP). An indexer made by a factory never joins an empty default directory with path.Join, which would drop the leading slash from the key of one spelling only (KEYABS). Every entry of a mapping is examined for a recorded `!reset`/`!override` path and every key of an override is merged: no range over a map in the reset processor or package override is left through a `break` while other iterations have effects (MAPALL).",
		NotDecided: "the merged values themselves; `!reset` inside sequences; that what a later file does not mention is preserved.",
		Rules:      []string{"A4", "PANIC-IDX", "FMTVERB", "A1", "A2", "PIPE", "MULTIDOC", "TREEPATH", "TREE", "LOGMERGE", "FMTFLOAT", "MERGEKEEP", "KEYABS", "MAPALL"},
		Run: func(c *rules.Ctx) []report.Obligation {
			return cat(rules.Only(c.MAPALL("MAPALL"), "loader.(*ResetProcessor)", "override.", "inventory"), c.KEYABS("KEYABS"), c.MERGEKEEP("MERGEKEEP"), c.FMTFLOAT("FMTFLOAT"), c.LOGMERGE("LOGMERGE"), c.A4("A4"), rules.Only(c.PanicIDX("PANIC-IDX", "LOAD"), "override."), c.FMTVERB("FMTVERB", "override"), c.TREEPATH("TREEPATH"), c.TREE("TREE", "LOAD"), c.A1("A1", rules.TMerge, rules.TUnique), c.A2("A2", rules.TMerge, rules.TUnique),
				c.PIPE("PIPE", stageIn("Apply", "override.Merge", "override.EnforceUnicity", "schema.Validate", "transform.Canonical", "loader.OmitEmpty")), c.MULTIDOC("MULTIDOC"))
		},
	})
	def("C05", &propertyDef{
		Decides:    "in the function that calls override.ExtendService: the base is a fresh deep clone (ownership analysis of deepClone), every return of the merged service is dominated by delete(merged,\"extends\") and by the memoising store, missing bases have error returns, the other file is loaded with ResolvePaths=false and resolved once against loader.Dir(refPath) on every success path, ApplyExtends stores the result for every service (EXT); the recursion is guarded by a successful cycleTracker.Add (CYC); the mergers that ExtendService runs never store one map or slice under several keys, so refining one inherited entry cannot change its siblings (TREE, package override). Whether the file named by `extends.file` is loaded depends on presence, type, nil and error tests only (EXT-7). The post-processors of the chain accumulate: the list applied to the base and handed down is the received list extended with append (EXT-8). The base file of an `extends` is loaded under the switches the caller set: the copy of Options handed to the nested load takes every field from the field of the same name (CLONE). The directory an extended file's relative paths are anchored to comes from ResourceLoader.Dir, whose every return is computed from filepath.Dir of the path or from a path that passed an is-a-directory test (LOADERDIR).",
		NotDecided: "that the result equals base-then-local by the override rules (merge values); per-attribute path anchoring.",
		Rules:      []string{"EXT", "CYC", "TREEPATH", "TREE", "EXT-7", "EXT-8", "CLONE", "LOADERDIR"},
		Run: func(c *rules.Ctx) []report.Obligation {
			return cat(c.LOADERDIR("LOADERDIR"), c.CLONE("CLONE"), rules.Only(c.TREE("TREE", "LOAD"), "override.", "loader.", "inventory"), c.EXT("EXT"), rules.Only(c.CYC("CYC"), "extends ::"), c.TREEPATH("TREEPATH"))
		},
	})
	def("C06", &propertyDef{
		Decides:    "import stores a resource only when absent, differing redefinitions return an error (INC-1); the default `.env` of an included project is the one of its project directory (INCENV); every field of loader.Options is copied, from the field of the same name, by (*Options).clone, so a nested load (include, extends) runs under the switches the caller set (CLONE); every entry of an include section is loaded: no iteration over the entries reaches the next without the nested load (REFS); the resource kinds imported / named / rendered equal the resource maps of types.Project (A10); the include chain is compared, extended and handed to the nested load (CYC); the nested load works on cloned options with ResolvePaths, SkipNormalization and SkipConsistencyCheck forced, its environment is Clone(parent).Merge(env file) (INC-4); `include` is deleted and the nested model imported on every success path (INC-5); included env_file errors are propagated (ERR); a secret / config attribute is filled from the environment only on the ok edge of the lookup, so the second pass over an imported model (parent environment only) cannot blank what the included project's own environment resolved (ENVPRES). A relative env_file / project_directory of an include entry is anchored at the directory of the local resource loader, not at the (below the first level: relative) workingDir parameter alone (INC-6). Environment-sourced attributes are resolved by every (nested) model load, in loadYamlModel, where the included project's own environment is in force (PIPE: the ResolveEnvironment stage). The directory a resource loader names for an included file (the working directory of the nested load) is computed from filepath.Dir of the path, or is the path where an is-a-directory test of it succeeded: no return of a Dir implementation hands the argument back as given (LOADERDIR). What the load of an included model adds to a config / secret after its own validation (the value resolved from the environment) is not an attribute the exclusivity check of that section counts, so the imported resource validates again in the including model (REVALID).",
		NotDecided: "equivalence with the pasted model; directory anchoring values.",
		Rules:      []string{"INC", "A10", "CYC", "ERR", "REFS", "CLONE", "INCENV", "ENVPRES", "PIPE", "LOADERDIR", "REVALID"},
		Run: func(c *rules.Ctx) []report.Obligation {
			return cat(c.REVALID("REVALID"), c.LOADERDIR("LOADERDIR"), c.PIPE("PIPE", stageIn("loader.ResolveEnvironment")), c.ENVPRES("ENVPRES"), c.INCENV("INCENV"), c.CLONE("CLONE"), c.INC("INC"), c.A10("A10"), rules.Only(c.CYC("CYC"), "include ::"), rules.Only(c.ERR("ERR", "LOAD"), "loader.ApplyInclude ::"), rules.Only(c.REFS("REFS", "loader"), "loader.ApplyInclude ::"),
				c.RangeGuard("INC-4", "types.(Mapping).Merge", true))
		},
	})
	def("C07", &propertyDef{
		Decides:    "the operator table, the operator class of the braced-substitution regex and the separator each bound function partitions on agree row by row (TPL-1); defaults, replacements and error messages go through Substitute (TPL-2); no value obtained from the variable mapping flows back into the template argument of Substitute*/ReplaceAllStringFunc (TPL-3); an empty name yields InvalidTemplateError (TPL-4); the brace-matching scan looks at every byte: its index advances by exactly one per iteration (TPL-7); index/slice/assertion safety in packages template and interpolation (PANIC-IDX, PANIC-TA); Substitute keeps no state: no package-level variable of template / interpolation is written after init, directly or through a copy of its slice header, map or pointer (GLOB). A memo of variable lookups in packages template / interpolation hands out what it stored, not the fact that it stored something (MEMO). The replacement callback, which the regexp engine calls once per match, saves its failure only while none is saved: the error returned is that of the first failing substitution, so it carries the variable and message the reader meets first (FIRSTERR).",
		NotDecided: "the semantics of each operator (set/unset/empty tables), brace matching, first-operator-wins, verbatim copying of literal text: value-level. This is the narrowest claim of the set.",
		Rules:      []string{"TPL", "PANIC-IDX", "PANIC-TA", "GLOB", "MEMO", "FIRSTERR"},
		Run: func(c *rules.Ctx) []report.Obligation {
			return cat(c.FIRSTERR("FIRSTERR", "template.", "interpolation."), rules.Only(c.MEMO("MEMO"), "template.", "interpolation.", "inventory"), c.BRACESCAN("TPL-7"), c.TPL("TPL"), c.PanicIDX("PANIC-IDX", "TEMPLATE"), c.PanicTA("PANIC-TA", "TEMPLATE"), rules.Only(c.GLOB("GLOB"), "template.", "interpolation.", "inventory"))
		},
	})
	def("C08", &propertyDef{
		Decides:    "recursiveInterpolate substitutes only in the string arm, stores mapping values under the unchanged range key and returns other scalars unchanged (INT-1); for every schema path that admits a string beside a typed scalar and whose model type is a Go scalar, a string is convertible: cast-table row of a fitting kind, decode-time hook covering the Go kind, or a decoder with a string arm, and every cast row names an existing path of a fitting kind (A5); the cast table is exclusive (A1); no substituted value re-enters substitution, so a `$` inside a value or an already interpolated default is not expanded again (TPL-3); the text-to-boolean conversion maps exactly true/y/yes/on to true and false/n/no/off to false, through constant results (BOOLTAB); every field of loader.Options is copied, from the field of the same name, by (*Options).clone, so a nested load (include, extends) runs under the switches the caller set (CLONE). Every strconv.ParseInt / ParseUint / ParseFloat asks for a size at least as wide as the type its result is used as (the int64 / float64 itself, or the target of the conversion applied first): a typed value supplied as text is not rejected where the literal fits (PARSEWIDTH).",
		NotDecided: "`$$` escaping equivalence; that both mechanisms convert a text to the same value; error text naming the path.",
		Rules:      []string{"INT-1", "A5", "A1", "TPL-3", "TREEPATH", "CLONE", "BOOLTAB", "PARSEWIDTH"},
		Run: func(c *rules.Ctx) []report.Obligation {
			return cat(c.PARSEWIDTH("PARSEWIDTH"), c.BOOLTAB("BOOLTAB"), c.CLONE("CLONE"), c.INT1("INT-1"), c.A5("A5"), c.A1("A1", rules.TCast), rules.OnlyRule(c.TPL("TPL"), "TPL-3"), c.TREEPATH("TREEPATH"))
		},
	})
	def("C09", &propertyDef{
		Decides:    "every model field has equal yaml and json keys (or json \"-\"); a type has both or neither of MarshalYAML/MarshalJSON; the kind a custom MarshalYAML emits is admitted by the schema where the type is used (A6); every schema attribute has a model field (A7); Project.MarshalJSON enumerates the resource kinds of the struct (A10); renderers and the parsers that read them back agree on their literal separators and host lists are sorted (CODEC); rendering leaves the project untouched: MarshalYAML / MarshalJSON and what they call write nothing reachable from the receiver, so a second rendering starts from the same project (IMM-I1); decoders of signed integer model types do not parse with an unsigned parser (NUMSIGN); no renderer chooses a spelling by the sign of an integer field (SIGNCMP); a key is resolved from the environment only when it has no value at all (bare `KEY`, null), decided by nil / separator-absence / type tests and never by an emptiness test, so `KEY=` stays explicitly empty (INHERIT), which is what keeps an explicitly empty value of a rendering from inheriting on reload. An attribute that has a documented default and takes part in the key under which a unique list is de-duplicated enters that key with the default when it is absent, so the first load and the reload (where defaults are spelled out) de-duplicate alike (KEYDFLT). The renderers of package types keep no package-level state (no pooled buffer, no cache): the bytes of one rendering cannot be overwritten by the next (GLOB, package types). A constant default is only given to fields whose zero value a user cannot mean or which are rendered even when zero (OMITDFLT), so a project with an explicit false / 0 re-renders and reloads unchanged. A hand-written rendering that copies struct fields into a map under constant keys agrees with the type it renders: the key is the name the field's tag gives it, a section guarded by `len(x.G) > 0` renders that very G, and all fields of one map are read from one object (MARSHALMAP: Project.MarshalJSON, Config.MarshalJSON, EnvFile.MarshalYAML).",
		NotDecided: "equality of the reloaded project; byte-identity of a second rendering beyond map order and receiver immutability.",
		Rules:      []string{"A6", "A7", "A10", "CODEC", "IMM-I1", "INHERIT", "NUMSIGN", "SIGNCMP", "KEYDFLT", "GLOB", "OMITDFLT", "MARSHALMAP"},
		Run: func(c *rules.Ctx) []report.Obligation {
			return cat(c.MARSHALMAP("MARSHALMAP"), c.OMITDFLT("OMITDFLT"), rules.Only(c.GLOB("GLOB"), "types.", "inventory"), c.KEYDFLT("KEYDFLT"), c.SIGNCMP("SIGNCMP"), c.NUMSIGN("NUMSIGN"), c.INHERIT("INHERIT"), c.A6("A6"), c.A7("A7"), c.A10("A10"), c.CODEC("CODEC"), c.IMMRender("IMM"))
		},
	})
	def("C10", &propertyDef{
		Decides:    "checkConsistency has an error return that depends on the model fields of each of the 20 rules of the statement (INV) and ends in graph.CheckCycle; searchCycle is guarded by path membership and errors on a hit (CYC); checkConsistency runs unless SkipConsistencyCheck and validation.Validate unless SkipValidation, errors propagated (PIPE); the switches are the caller's: loader.Options fields are written only by option setters or on an Options value the function created / cloned, never through a *Options received from the caller (GATEW); the error for several exclusive sources of a secret / config does not depend on `driver` / `external` (SRCEXCL); every field of loader.Options is copied, from the field of the same name, by (*Options).clone, so a nested load (include, extends) runs under the switches the caller set (CLONE); validation.checks rows denote schema paths and are exclusive (A1, A2). Every attribute a validation check tests as a boolean or number has an interpolation cast row at its path, so the check sees the typed value also when it was written as a variable (CHKCAST). An error of checkConsistency that is only reported when an optional section is present has a condition that reads inside that section (INV-guard): a nil guard in front of a rule that does not need it switches the rule off for models without the section. Paired settings are tested for being set with != 0, never by sign (INV-sign). Where a consistency rule (or a helper it calls, such as GetScale) follows an optional pointer setting, the test that dominates the access is a test of that very field path: a rule that tests one setting and reads another has a dead or a wrong branch (PANIC-NIL over everything reachable from checkConsistency, scalar pointers included).",
		NotDecided: "that each condition is the right condition (an inverted comparison survives); acceptance implies consistency for fragments arriving through override / extends / include.",
		Rules:      []string{"INV", "CYC", "PIPE", "GATEW", "A1", "A2", "CLONE", "TREE", "EXTVAL", "SRCEXCL", "CHKCAST", "INV-guard", "INV-sign", "PANIC-NIL"},
		Run: func(c *rules.Ctx) []report.Obligation {
			return cat(c.PANICNIL("PANIC-NIL", "CONSISTENCY"), c.INVSIGN("INV-sign"), c.CHKCAST("CHKCAST"), c.SRCEXCL("SRCEXCL"), c.EXTVAL("EXTVAL"), c.TREE("TREE", "LOAD"), c.CLONE("CLONE"), c.INV("INV"), rules.Only(c.CYC("CYC"), "depends_on ::"), c.PIPE("PIPE", stageIn("loader.checkConsistency", "validation.Validate")), c.GATEW("GATEW"),
				c.A1("A1", rules.TChecks), c.A2("A2", rules.TChecks))
		},
	})
	def("C11", &propertyDef{
		Decides:    "in everything reachable from SetDefaultValues, Canonical and Normalize every update of a map the function did not create is guarded by an absence test, an alias test, derives from the previous value, or is the current entry of a range (DFLT); SetDefaultValues and Normalize are gated by their flags and propagate errors (PIPE); the defaultValues rows denote schema paths (A2); defaults filled in for several entries are separate objects: no loop stores one loop-invariant map under several keys, so refining one entry later cannot change its siblings (TREE); a resource keeps its bare key as name on the strength of the value of `external`, not of the presence of the key (EXTVAL); whether a service uses the `default` network is decided by the presence of the key, never by a nil test of its value (NETPRES); every field of loader.Options is copied, from the field of the same name, by (*Options).clone, so a nested load (include, extends) runs under the switches the caller set (CLONE). The unicity key of a list item uses, for an attribute the defaults handler of the same list fills in, the same constant when the attribute is absent: implicit and explicit spellings of one entry collapse to one (KEYDFLT). Paths handed to the defaults table are built with Path.Next, which escapes the separator, so a service whose name contains `.` still matches the patterns (TREEPATH).",
		NotDecided: "that the default values are the specification's (\"tcp\", \"ingress\", <project>_<key>); that `default` is added iff some service uses it.",
		Rules:      []string{"DFLT", "PIPE", "A2", "TREE", "CLONE", "EXTVAL", "NETPRES", "KEYDFLT", "TREEPATH"},
		Run: func(c *rules.Ctx) []report.Obligation {
			return cat(c.TREEPATH("TREEPATH"), c.KEYDFLT("KEYDFLT"), c.NETPRES("NETPRES"), c.EXTVAL("EXTVAL"), c.CLONE("CLONE"), c.DFLT("DFLT", []string{"transform.SetDefaultValues", "transform.Canonical", "loader.Normalize"}, []string{"loader.load"}),
				c.PIPE("PIPE", stageIn("transform.SetDefaultValues", "loader.Normalize")), c.A2("A2", rules.TDefaults), c.TREE("TREE", "LOAD"))
		},
	})
	def("C12", &propertyDef{
		Decides:    "each path-bearing attribute named by the statement matches exactly one resolver row and no resolver sits on another attribute (A9); resolver patterns are exclusive and denote schema paths (A1, A2); each origin resolves against its own base: main files against config.WorkingDir gated by ResolvePaths, included projects against loader.Dir / project_directory (ORIGIN), extended files against loader.Dir(refPath) with the nested load not resolving (EXT-5); the base of an `extends` is a deep copy, so the in-place rewriting of a path-bearing mapping is applied once per service and never to an object two services share (EXT-1); a build context containing `://` is returned unchanged on the strength of a plain substring test (URLCTX); no branch of the resolver methods is decided by the base directory, so whether a path is rewritten depends on the path alone (PATHPURE); the home directory replaces exactly the leading `~` (TILDE); the resolvers bound to mount sources and secret / config files consult the Windows-absolute test (A9-win). No resolver of package paths decides by searching a value for a keyword as a substring (KEYWORD). Files and directories are told apart with IsDir, never with IsRegular (KINDTEST). The develop watch path has its symbolic-link prefix replaced by the target of that very prefix: filepath.EvalSymlinks is applied to the value whose link test guards the call, not to a longer path (SYMEVAL).",
		NotDecided: "absolute / known-remote-prefix / Windows detection, `~` expansion, idempotence: value-level string predicates.",
		Rules:      []string{"A9", "A1", "A2", "ORIGIN", "EXT-5", "EXT-1", "PIPE", "TREEPATH", "URLCTX", "PATHPURE", "TILDE", "KEYWORD", "KINDTEST", "SYMEVAL"},
		Run: func(c *rules.Ctx) []report.Obligation {
			return cat(c.SYMEVAL("SYMEVAL"), c.KINDTEST("KINDTEST"), c.KEYWORD("KEYWORD"), c.TILDE("TILDE"), c.PATHPURE("PATHPURE"), c.A9("A9"), c.TREEPATH("TREEPATH"), c.URLCTX("URLCTX"), c.A1("A1", rules.TResolvers), c.A2("A2", rules.TResolvers), c.ORIGIN("ORIGIN"), rules.OnlyRule(c.EXT("EXT"), "EXT-5", "EXT-1"),
				c.PIPE("PIPE", stageIn("paths.ResolveRelativePaths")))
		},
	})
	def("C13", &propertyDef{
		Decides:    "the spawn in visit is gated by ready then enter; in the spawned closure the visitor precedes done, done precedes the hand-off send, and every exit sends (TRV-1/2); ready returns true only after the loop over all dependencies and the direction tables are mirror images (TRV-4); vertexVisited is stored only in done, enter is a test-and-set (TRV-5); status and results are accessed only under the mutex, in the constructor or after the join (R3); walk returns eg.Wait() after any spawn, channel capacity is len-derived with one send per closure (FAN); the cycle error returns before walk (TRV-7) and the cycle search compares every child with the current path before anything can prune it, recursing only when it is not on the path (CYC); the errgroup limit is maxConcurrency + the coordinator (TRV-10); the coordinator's counter starts at the number of vertices, drops by one per received vertex and stops the coordinator at zero (TRV-8); a skipped vertex is decided from state that the walk does not change (TRV-11); every mutex or semaphore slot taken is given back on every path to an exit (PAIR); fields of graph/vertex/Options are not written in the concurrent phase (RONLY); the traversal does not write through the *Project argument (IMM-I1). A limit set on an errgroup has one extra slot per closure that only waits for the others, and that closure is started on every path that reaches Wait (FAN-LIMIT). Package graph writes nothing through the service copy a vertex carries (TRV-9b): its maps are the project's own. The extra slot of the limit stays taken as long as walk may start a visit: a return of the coordinating closure taken because the context was cancelled is preceded by a receive from a channel that walk closes after the last point where it starts a visit (FAN-SLOT).",
		NotDecided: "liveness under every completion order, exactly-once, the interleaving space itself: the domain of model checking / schedule exploration.",
		Rules:      []string{"TRV", "R3", "FAN", "RONLY", "IMM", "PAIR", "CYC", "FAN-LIMIT", "FAN-SLOT"},
		Run: func(c *rules.Ctx) []report.Obligation {
			return cat(c.FanSlot("FAN-SLOT"), c.TRVPayload("TRV-9b"), c.FanLimit("FAN-LIMIT"), rules.Only(c.CYC("CYC"), "depends_on ::"), c.TRV("TRV"), c.R3("R3", "graph"), c.FanOut("FAN", "graph"),
				c.ROnly("RONLY", "graph", []string{"graph.walk"}, map[string]bool{"traversal.status": true, "traversal.results": true}), c.TRVSkip("TRV-11"), c.TRVCount("TRV-8"), c.PAIR("PAIR", "graph"), c.IMMGraph("IMM"))
		},
	})
	def("C14", &propertyDef{
		Decides:    "for every exported method of types.Project (found from the method set) no store, map update, delete, append, copy or writing callee is applied to memory owned by the receiver (I1), and no value owned by the receiver is stored into memory that reaches a returned *Project (I2); values handed to caller-supplied callbacks are copies. The analysis runs through the generated deep-copy code, so a field copied shallowly there makes every derivation fail I2.",
		NotDecided: "that the result carries every field not affected by the operation beyond copy completeness; opaque extension payloads (exempt by the statement).",
		Rules:      []string{"IMM-I1", "IMM-I2", "DC"},
		Run: func(c *rules.Ctx) []report.Obligation {
			return cat(c.IMMDerive("IMM"), c.DC("DC"))
		},
	})
	def("C15", &propertyDef{
		Decides:    "WithProfiles ranges over AllServices() and stores every service on exactly one edge of HasProfile into the map assigned to Services resp. DisabledServices (PART-1); WithServicesDisabled records the service in DisabledServices before deleting it from Services, under the presence test, and deletes DependsOn[name] in all remaining services (PART-2, DEP); WithSelectedServices keeps or disables every service (PART-3); WithServicesEnabled re-partitions through WithProfiles on every path where a name was given (PART-4); the profile predicate compares every selected profile with `*` (PROFSTAR); no map range in the selection operations has an order-sensitive effect (ORD). The lookup that withServices ranges over returns the services it found on every path, so an optional dependency on a service that is not enabled does not drop its siblings (PART-FOUND). Pruning looks at every place a service can reference a top-level resource: the collection fields of ServiceConfig and of the structs it holds that carry the name of a resource map of Project (Networks, Volumes, Secrets, Configs, Build.Secrets) are each ranged over by WithoutUnnecessaryResources, and the names collected from a field named R filter Project.R and nothing else (PRUNEREFS; the field list comes from the types).",
		NotDecided: "the profile predicate, the dependency closure on arbitrary graphs, pruning exactly the referenced resources: set-valued semantics.",
		Rules:      []string{"PART", "ORD", "PROFSTAR", "PART-FOUND", "PRUNEREFS"},
		Run: func(c *rules.Ctx) []report.Obligation {
			return cat(c.PRUNEREFS("PRUNEREFS"), c.PARTFOUND("PART-FOUND"), c.PROFSTAR("PROFSTAR"), c.PART("PART"), c.ORD("ORD", "SELECT"))
		},
	})
	def("C16", &propertyDef{
		Decides:    "OverrideBy writes unconditionally, Resolve only valueless keys (LAY-1); env/label files are applied in slice order onto a fresh accumulator and the service's own entries are the argument of the last OverrideBy, whose result is stored (LAY-2); the lookup handed to the env-file parser reads the accumulator then the project environment (LAY-3); file references are dropped only under the discard flag (LAY-4); loadEnvFile returns (nil,nil) only for a missing, not-required file (LAY-gate); a variable lookup counts as found on its boolean result alone (never on the value being non-empty) and lookup functions keep no memo (LOOKUP); a key is resolved from the environment only when it has no value at all (bare `KEY`, null), decided by nil / separator-absence / type tests and never by an emptiness test, so `KEY=` stays explicitly empty (INHERIT). The two resolution methods write nothing the receiver owns and return nothing that aliases it (IMM-I1 / I2): in particular the in-place Resolve of value-less keys runs on a copy, so a later resolution against another environment starts from the same value-less keys. Every service and every entry is resolved: no range over a map in the environment resolution or package types is left through a `break` while other iterations have effects (MAPALL). The default `required: true` of a long-form env_file entry is written only under a test that this very key is absent, so an explicit `required: false` is kept and a missing key means required (DFLT, transform.transformEnvFile*).",
		NotDecided: "dotenv semantics, cross-references between layers, that discarding removes only the file references.",
		Rules:      []string{"LAY", "LOOKUP", "INHERIT", "IMM-I1", "IMM-I2", "MAPALL", "DFLT"},
		Run: func(c *rules.Ctx) []report.Obligation {
			return cat(rules.Containing(c.DFLT("DFLT", []string{"transform.SetDefaultValues", "transform.Canonical", "loader.Normalize"}, []string{"loader.load"}), "transformEnvFile"), rules.Only(c.MAPALL("MAPALL"), "loader.resolveServicesEnvironment", "types.", "inventory"), c.IMMResolve("IMM"), c.INHERIT("INHERIT"), c.LAY("LAY"), c.RangeGuard("LAY-1", "types.(MappingWithEquals).OverrideBy", false), c.RangeGuard("LAY-1", "types.(MappingWithEquals).Resolve", true),
				c.LOOKUP("LOOKUP", "dotenv", "types", "loader", "cli"))
		},
	})
	def("C17", &propertyDef{
		Decides:    "name precedence in withNamePrecedenceLoad (explicit, COMPOSE_PROJECT_NAME, directory) with the right imperative flags (NAME-1); projectName validates an imperative name without consulting files, exports the name on every exit, interpolates (unless SkipInterpolation) and normalises the file name, uses it only when non-empty, last file wins (NAME-2); load rejects an empty name, WithName rejects non-normal names (NAME-3); NormalizeProjectName trims the leading `_` / `-` from the already filtered text (NAME-5); WithOsEnv and Mapping.Merge write only absent keys, WithEnv and later .env files overwrite, the .env lookup consults the current environment first (ENV). The KEY=VALUE entries of the explicit and OS layers are cut at their first `=` (Cut / SplitN 2), never split on every `=`, so a variable whose value contains `=` stays in its layer (KVSPLIT). Every configuration file is decoded when the name is looked for: no iteration over the files reaches the next one without the YAML decoder (REFS), so no textual pre-filter decides whether a file sets a name. Every OS / .env variable is considered for the project environment: no range over a map in packages cli / dotenv is left through a `break` while other iterations have effects (MAPALL).",
		NotDecided: "the regex itself, directory-name normalisation results, the option call order chosen by the caller.",
		Rules:      []string{"NAME", "ENV", "KVSPLIT", "REFS", "MAPALL"},
		Run: func(c *rules.Ctx) []report.Obligation {
			return cat(rules.Only(c.MAPALL("MAPALL"), "cli.", "dotenv.", "inventory"), rules.Containing(c.REFS("REFS", "loader"), "yaml.v3.NewDecoder"), c.KVSPLIT("KVSPLIT"), c.NAME("NAME"), c.RangeGuard("ENV", "cli.WithOsEnv", true), c.RangeGuard("ENV", "types.(Mapping).Merge", true),
				c.RangeGuard("ENV", "cli.WithEnv$1", false), c.RangeGuard("ENV", "dotenv.GetEnvFromFile", false))
		},
	})
	def("C18", &propertyDef{
		Decides:    "every index and slice expression and every unchecked assertion reachable from the exported functions of package dotenv (and the part of template they reach) is in bounds for every byte string (PANIC-IDX, PANIC-TA, PANIC-EXPL); recursions and condition-less loops are inventoried (TERM); the quoted-value scan succeeds only at the matching quote and every exit after the scan carries an error, an invalid key rune is an error (ERRRET); no error of the parse scope reaches a return untested (ERRDROP); every env file named is read (REFS); a variable counts as found on the boolean result of the lookup alone and lookup functions keep no memo (LOOKUP); escape sequences are decoded in a single scan of the value as written (ESC). The blank class of the grammar (dotenv.isSpace) is the constant set TAB VT FF CR SPACE NEL NBSP, decided by comparisons with constants only (BLANKSET). Nothing rewrites the source of an env file before the quote-aware scanner sees it (SRCREWRITE). Every blank the key scan lets through is removed from the end of the key: the class handed to strings.TrimRightFunc contains the class the scan skips, decided by interpreting both rune predicates for every rune below U+3100 (KEYTRIM).",
		NotDecided: "that the returned map is the grammar's (quoting, escapes, inline comments, lookup precedence): needs a reference evaluator.",
		Rules:      []string{"PANIC-IDX", "PANIC-TA", "PANIC-EXPL", "TERM", "ERRRET", "ERRDROP", "REFS", "LOOKUP", "ESC", "BLANKSET", "SRCREWRITE", "KEYTRIM"},
		Run: func(c *rules.Ctx) []report.Obligation {
			return cat(c.KEYTRIM("KEYTRIM"), c.SRCREWRITE("SRCREWRITE"), c.BLANKSET("BLANKSET"), c.ESC("ESC"), c.PanicIDX("PANIC-IDX", "DOTENV"), c.PanicTA("PANIC-TA", "DOTENV"), c.PanicExpl("PANIC-EXPL", "DOTENV"), c.TERM("TERM", "DOTENV"), c.ERRRET("ERRRET"), c.ERRDROP("ERRDROP", "DOTENV"), c.REFS("REFS", "dotenv"), c.LOOKUP("LOOKUP", "dotenv"))
		},
	})
	def("C19", &propertyDef{
		Decides:    "no package-level variable is written outside init (GLOB); for every function that spawns goroutines: state written by a spawned closure is not touched by the spawner between spawn and Wait nor by a sibling closure without a common mutex (R2), the owner returns Wait()'s error on every path after a spawn (R4), channels sent on from closures have len-derived capacity and one send per closure (R5); mutex-guarded fields are only accessed under the mutex, in constructors or after the join (R3); graph structures are read-only during the walk (RONLY); the structure of the dependency-ordered traversal (gating by ready then enter, visitor before done before hand-off, status values, counter, limit) as in C13 (TRV). Wherever a limit is set on an errgroup on which a collector that only receives is started, the limit counts the collector (n + 1) and the collector is started before every Wait (FAN-LIMIT). A package-level variable that is written while a package-level mutex is held is also read only while that mutex is held (GLOB-read: loader.versionWarning under versionWarningMu). The coordinating closure of a limited errgroup keeps its slot on cancellation until the starter has stopped starting workers (FAN-SLOT).",
		NotDecided: "data-race freedom of dependencies (logrus, gojsonschema globals); that each load returns what it would return alone beyond the absence of shared writable state; channel happens-before is not modelled.",
		Rules:      []string{"GLOB", "FAN", "R3", "RONLY", "PAIR", "INPUTS", "TRV", "FAN-LIMIT", "FAN-SLOT"},
		Run: func(c *rules.Ctx) []report.Obligation {
			return cat(c.FanSlot("FAN-SLOT"), c.FanLimit("FAN-LIMIT"), c.TRV("TRV"), c.GLOB("GLOB"), c.FanOut("FAN"), c.R3("R3", "graph", "types"), c.PAIR("PAIR", "graph", "loader"), c.INPUTS("INPUTS"),
				c.ROnly("RONLY", "graph", []string{"graph.walk"}, map[string]bool{"traversal.status": true, "traversal.results": true}))
		},
	})
	def("C20", &propertyDef{
		Decides:    "each of the four secret/config marshallers blanks Content on the edge where it must not be rendered and reads the rendered copy afterwards (SEC-1); they exist with value receivers (SEC-2); marshallContent is written in one function, under the explicit option, on a deep copy (SEC-3); the decoder hook moves the carrier key to Content and deletes it (SEC-4); the renderers keep no package-level state (no pooled buffer a returned rendering could alias) (GLOB); no decision of the pipeline is keyed on the last path segment alone, which at depth two is a user-chosen resource name (PATHLAST); the loops that resolve environment-sourced secrets and configs carry nothing from one resource to the next (ORD on loader.resolve*); environment values looked up for secrets/configs are stored only under the carrier key resp. `content` (SEC-5); the project renderers do not write through the project (IMM-I1). What the loader stores under a constant key and reads back by type assertion (the `#extensions` mapping that carries an environment secret) is stored with a type the reader asserts, so the hand-over cannot fail silently (SEC-6). The loader never deletes the `environment` attribute of a resource, on which the blanking of its value by the renderers depends (SEC-7). The decode hook removes the carrier of a secret value from the extensions whenever it is there, whatever else the secret declares (SEC-8). The JSON rendering takes every section, the secrets among them, from the copy the marshal options were applied to and never from the receiver, and the secrets section is guarded by and keyed as the Secrets field (MARSHALMAP on Project.MarshalJSON).",
		NotDecided: "non-occurrence of the value in the bytes (a second struct field, a user extension literally named x-#value, a value present elsewhere in the model); exact reproduction with WithSecretContent.",
		Rules:      []string{"SEC", "IMM-I1", "GLOB", "ORD", "PATHLAST", "MARSHALMAP"},
		Run: func(c *rules.Ctx) []report.Obligation {
			return cat(rules.Only(c.MARSHALMAP("MARSHALMAP"), "types.(*Project)."), c.CARRIER("SEC-8"), c.SECKEEP("SEC-7"), c.KEYTYPE("SEC-6"), c.PATHLAST("PATHLAST"), c.SEC("SEC"), c.IMMRender("IMM"), rules.Only(c.GLOB("GLOB"), "types.", "inventory"), rules.Only(c.ORD("ORD", "LOAD"), "loader.resolve"))
		},
	})
}
