package main

import (
	"verifcheck/internal/report"
	"verifcheck/internal/rules"
)

type propertyDef struct {
	Decides      string
	NotDecided   string
	Rules        []string
	Trusted      []string
	Assumptions  []string
	ThoroughDeps bool
	Run          func(c *rules.Ctx) []report.Obligation
}

var commonTrusted = []string{
	"go/types, go/ssa, go/packages of golang.org/x/tools v0.29.0",
	"decoded YAML trees are acyclic map[string]any / []any / scalar trees (yaml.v3)",
	"frozen justifications in /verif/expectations.json (each carries its reason)",
}

var properties = map[string]*propertyDef{}

func init() {
	properties["C01"] = &propertyDef{
		Decides:    "no unchecked type assertion on input-derived data in code reachable from the load entry points outside the proved / justified / known set (PANIC-TA)",
		NotDecided: "termination, stack bounds, nil dereferences, panics inside dependencies",
		Rules:      []string{"PANIC-TA"},
		Trusted:    commonTrusted,
		Run: func(c *rules.Ctx) []report.Obligation {
			return c.PanicTA("PANIC-TA", "LOAD")
		},
	}
}
