package main

import (
	"verifcheck/internal/report"
	"verifcheck/internal/rules"
)

type propertyDef struct {
	Decides      string
	NotDecided   string
	Rules        []string
	Trusted      []string
	Assumptions  []string
	ThoroughDeps bool
	Run          func(c *rules.Ctx) []report.Obligation
}

var commonTrusted = []string{
	"go/types, go/ssa, go/packages of golang.org/x/tools v0.29.0",
	"decoded YAML trees are acyclic map[string]any / []any / scalar trees (yaml.v3)",
	"frozen justifications in /verif/expectations.json (each carries its reason)",
}

var properties = map[string]*propertyDef{}

func init() {
	properties["T00"] = &propertyDef{Decides: "debug", Run: func(c *rules.Ctx) []report.Obligation {
		var o []report.Obligation
		o = append(o, c.A1("A1", "override.mergeSpecials", "override.unique", "transform.transformers", "transform.defaultValues", "loader.interpolateTypeCastMapping", "paths.relativePathsResolver.resolvers", "validation.checks")...)
		o = append(o, c.A2("A2", "override.mergeSpecials", "override.unique", "transform.transformers", "transform.defaultValues", "loader.interpolateTypeCastMapping", "paths.relativePathsResolver.resolvers", "validation.checks", "loader.omitempty", "loader.userDefinedKeys")...)
		o = append(o, c.A4("A4")...)
		o = append(o, c.A5("A5")...)
		o = append(o, c.A6("A6")...)
		o = append(o, c.A7("A7")...)
		o = append(o, c.A9("A9")...)
		o = append(o, c.A10("A10")...)
		o = append(o, c.A3("A3")...)
		return o
	}}
	properties["T14"] = &propertyDef{Decides: "debug", Run: func(c *rules.Ctx) []report.Obligation { return c.IMMDerive("IMM") }}
	properties["T19"] = &propertyDef{Decides: "debug", Run: func(c *rules.Ctx) []report.Obligation { return c.GLOB("GLOB") }}
	properties["T13"] = &propertyDef{Decides: "debug", Run: func(c *rules.Ctx) []report.Obligation {
		o := append(c.R3("R3", "graph", "types"), c.FanOut("FAN")...)
		o = append(o, c.TRV("TRV")...)
		o = append(o, c.ROnly("RONLY", "graph", []string{"graph.walk"}, map[string]bool{"traversal.status": true, "traversal.results": true})...)
		return o
	}}
	properties["T20"] = &propertyDef{Decides: "debug", Run: func(c *rules.Ctx) []report.Obligation { return c.SEC("SEC") }}
	properties["T02"] = &propertyDef{Decides: "debug", Run: func(c *rules.Ctx) []report.Obligation { return c.ORD("ORD", "LOAD", "RENDER", "SELECT", "GRAPH") }}
	properties["T01"] = &propertyDef{Decides: "debug", Run: func(c *rules.Ctx) []report.Obligation {
		o := c.XOR("XOR")
		o = append(o, c.PIPE("PIPE", nil)...)
		o = append(o, c.ERR("ERR", "LOAD")...)
		o = append(o, c.CYC("CYC")...)
		o = append(o, c.TERM("TERM", "LOAD", "RENDER", "SELECT", "GRAPH", "DOTENV", "TEMPLATE")...)
		return o
	}}
	properties["T11"] = &propertyDef{Decides: "debug", Run: func(c *rules.Ctx) []report.Obligation {
		o := c.DFLT("DFLT", []string{"transform.SetDefaultValues", "transform.Canonical", "loader.Normalize"}, []string{"loader.load"})
		o = append(o, c.RangeGuard("LAY-1", "types.(Mapping).Merge", true)...)
		o = append(o, c.RangeGuard("LAY-1", "types.(MappingWithEquals).Resolve", true)...)
		o = append(o, c.RangeGuard("LAY-1", "cli.WithOsEnv", true)...)
		o = append(o, c.RangeGuard("LAY-1", "types.(MappingWithEquals).OverrideBy", false)...)
		return o
	}}
	properties["T05"] = &propertyDef{Decides: "debug", Run: func(c *rules.Ctx) []report.Obligation { return append(c.EXT("EXT"), c.INC("INC")...) }}
	properties["T07"] = &propertyDef{Decides: "debug", Run: func(c *rules.Ctx) []report.Obligation { return append(c.TPL("TPL"), c.INV("INV")...) }}
	properties["C01"] = &propertyDef{
		Decides:    "no unchecked type assertion on input-derived data in code reachable from the load entry points outside the proved / justified / known set (PANIC-TA)",
		NotDecided: "termination, stack bounds, nil dereferences, panics inside dependencies",
		Rules:      []string{"PANIC-TA"},
		Trusted:    commonTrusted,
		Run: func(c *rules.Ctx) []report.Obligation {
			return c.PanicTA("PANIC-TA", "LOAD")
		},
	}
}
