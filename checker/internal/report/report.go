// Package report holds obligations, the matching against the committed
// known-findings / expectations files, and evidence output.
package report

import (
	"encoding/json"
	"fmt"
	"os"
	"path/filepath"
	"sort"
	"strings"
)

type Status string

const (
	Discharged Status = "discharged"
	Justified  Status = "justified"
	Known      Status = "known-finding"
	Violation  Status = "violation"
	Info       Status = "info" // reported in evidence, never a verdict
)

// Obligation is one (rule, construct) pair and its verdict.
type Obligation struct {
	Rule   string   `json:"rule"`
	Key    string   `json:"construct"` // line-free identity of the construct
	Pos    string   `json:"pos,omitempty"`
	Status Status   `json:"status"`
	Why    string   `json:"why,omitempty"` // proof argument, reason, or what fails
	Path   []string `json:"call_path,omitempty"`
	Detail any      `json:"detail,omitempty"`
}

// Finding is an entry of known_findings.json.
type Finding struct {
	Properties []string `json:"properties"`
	Rule       string   `json:"rule"`
	Key        string   `json:"construct"`
	Status     string   `json:"status"` // "open"
	What       string   `json:"what"`
	Witness    string   `json:"witness,omitempty"`
}

type FindingsFile struct {
	Comment  string    `json:"comment,omitempty"`
	Findings []Finding `json:"findings"`
	Fixed    []string  `json:"fixed"`
}

// Justification is an entry of expectations.json: an obligation the rule cannot
// discharge by form, confirmed by reading, with its reason.
type Justification struct {
	Rule   string `json:"rule"`
	Key    string `json:"construct"`
	Reason string `json:"reason"`
}

type Expectations struct {
	Comment   string                    `json:"comment,omitempty"`
	Justified []Justification           `json:"justified"`
	Floors    map[string]map[string]int `json:"floors"` // property -> rule -> minimal number of instances
}

func LoadFindings(path string) (*FindingsFile, error) {
	var f FindingsFile
	b, err := os.ReadFile(path)
	if err != nil {
		return nil, err
	}
	if err := json.Unmarshal(b, &f); err != nil {
		return nil, fmt.Errorf("%s: %w", path, err)
	}
	return &f, nil
}

func LoadExpectations(path string) (*Expectations, error) {
	var e Expectations
	b, err := os.ReadFile(path)
	if err != nil {
		return nil, err
	}
	if err := json.Unmarshal(b, &e); err != nil {
		return nil, fmt.Errorf("%s: %w", path, err)
	}
	return &e, nil
}

// Resolve turns undischarged obligations (Status==Violation as produced by a
// rule) into Justified / Known when the committed files list exactly that
// (rule, construct). Entries of the files that match nothing are returned as
// stale (reported as information: the construct is gone or was repaired).
func Resolve(prop string, obs []Obligation, ff *FindingsFile, ex *Expectations) (out []Obligation, stale []string) {
	just := map[string]*Justification{}
	usedJ := map[string]bool{}
	for i := range ex.Justified {
		j := &ex.Justified[i]
		just[j.Rule+"\x00"+j.Key] = j
	}
	known := map[string]*Finding{}
	usedK := map[string]bool{}
	for i := range ff.Findings {
		f := &ff.Findings[i]
		if f.Status != "open" {
			continue
		}
		for _, p := range f.Properties {
			if p == prop {
				known[f.Rule+"\x00"+f.Key] = f
			}
		}
	}
	rules := map[string]bool{}
	for _, o := range obs {
		rules[o.Rule] = true
		if o.Status == Violation {
			k := o.Rule + "\x00" + o.Key
			if j, ok := just[k]; ok {
				o.Status = Justified
				o.Why = strings.TrimSpace(o.Why + " | justified: " + j.Reason)
				usedJ[k] = true
			} else if f, ok := known[k]; ok {
				o.Status = Known
				o.Why = strings.TrimSpace(f.What)
				usedK[k] = true
			}
		} else {
			// a construct that is now discharged by form keeps its entry unused
			_ = o
		}
		out = append(out, o)
	}
	for k, j := range just {
		if !usedJ[k] && rules[j.Rule] {
			stale = append(stale, "justified entry matches no undischarged obligation: "+j.Rule+" "+j.Key)
		}
	}
	for k, f := range known {
		if !usedK[k] && rules[f.Rule] {
			stale = append(stale, "open finding matches no undischarged obligation (repaired or construct gone): "+f.Rule+" "+f.Key)
		}
	}
	sort.Strings(stale)
	return out, stale
}

// SortObligations orders by rule, construct.
func SortObligations(obs []Obligation) {
	sort.SliceStable(obs, func(i, j int) bool {
		if obs[i].Rule != obs[j].Rule {
			return obs[i].Rule < obs[j].Rule
		}
		if obs[i].Key != obs[j].Key {
			return obs[i].Key < obs[j].Key
		}
		return obs[i].Pos < obs[j].Pos
	})
}

// DedupKeys appends #n to repeated (rule,key) pairs, in the given order, so that
// every obligation has a unique identity.
func DedupKeys(obs []Obligation) {
	seen := map[string]int{}
	for i := range obs {
		k := obs[i].Rule + "\x00" + obs[i].Key
		seen[k]++
		if seen[k] > 1 {
			obs[i].Key = fmt.Sprintf("%s #%d", obs[i].Key, seen[k])
		}
	}
}

// Evidence is the file written per property and run.
type Evidence struct {
	PropertyID  string         `json:"property_id"`
	Tier        string         `json:"tier"`
	Seed        int            `json:"seed"`
	Level       string         `json:"level"`
	Coverage    map[string]any `json:"coverage"`
	Assumptions []string       `json:"assumptions"`
	WallS       float64        `json:"wall_s"`
	Violations  int            `json:"violations"`
}

func WriteJSON(path string, v any) error {
	if err := os.MkdirAll(filepath.Dir(path), 0o755); err != nil {
		return err
	}
	b, err := json.MarshalIndent(v, "", " ")
	if err != nil {
		return err
	}
	tmp := path + ".tmp"
	if err := os.WriteFile(tmp, append(b, '\n'), 0o644); err != nil {
		return err
	}
	return os.Rename(tmp, path)
}
