// Package tab extracts the three sides of the TAB rule family: the JSON schema
// (attribute path -> admitted kinds), the Go model (path -> Go type, keys,
// decoders) and the rule tables (pattern -> function), all from source.
package tab

import (
	"encoding/json"
	"fmt"
	"os"
	"sort"
	"strings"
)

// Kind is a YAML/JSON node kind as the schema names it.
type Kind string

const (
	KNull   Kind = "null"
	KBool   Kind = "boolean"
	KInt    Kind = "integer"
	KNumber Kind = "number"
	KString Kind = "string"
	KArray  Kind = "array"
	KObject Kind = "object"
)

// SchemaNode is what the schema says about one attribute path.
type SchemaNode struct {
	Path        string
	Kinds       map[Kind]bool
	AnyKind     bool            // an alternative without "type" (e.g. {} or enum only)
	UniqueItems bool            // some array alternative has uniqueItems
	Props       map[string]bool // named properties of the object alternatives
	Required    map[string]bool // members some object alternative requires
	Default     any             // the schema's "default" for this attribute, when it gives one
	Pattern     bool            // has patternProperties / additionalProperties schema -> ".*" child
	Open        bool            // additionalProperties: true or absent on an object alternative
	Extensions  bool            // "^x-" pattern allowed
	Formats     map[string]bool // "duration", ...
	Deprecated  bool
}

type Schema struct {
	Nodes map[string]*SchemaNode
	root  map[string]any
}

func (s *Schema) Paths() []string {
	var out []string
	for p := range s.Nodes {
		out = append(out, p)
	}
	sort.Strings(out)
	return out
}

func LoadSchema(path string) (*Schema, error) {
	b, err := os.ReadFile(path)
	if err != nil {
		return nil, err
	}
	var root map[string]any
	if err := json.Unmarshal(b, &root); err != nil {
		return nil, fmt.Errorf("%s: %w", path, err)
	}
	s := &Schema{Nodes: map[string]*SchemaNode{}, root: root}
	if err := s.walk(root, "", nil); err != nil {
		return nil, err
	}
	return s, nil
}

func (s *Schema) node(path string) *SchemaNode {
	n := s.Nodes[path]
	if n == nil {
		n = &SchemaNode{Path: path, Kinds: map[Kind]bool{}, Props: map[string]bool{}, Formats: map[string]bool{}}
		s.Nodes[path] = n
	}
	return n
}

func join(path, seg string) string {
	if path == "" {
		return seg
	}
	return path + "." + seg
}

func (s *Schema) resolve(ref string) (map[string]any, error) {
	if !strings.HasPrefix(ref, "#/") {
		return nil, fmt.Errorf("unsupported $ref %q", ref)
	}
	var cur any = s.root
	for _, part := range strings.Split(ref[2:], "/") {
		m, ok := cur.(map[string]any)
		if !ok {
			return nil, fmt.Errorf("$ref %q does not resolve", ref)
		}
		cur, ok = m[part]
		if !ok {
			return nil, fmt.Errorf("$ref %q does not resolve", ref)
		}
	}
	m, ok := cur.(map[string]any)
	if !ok {
		return nil, fmt.Errorf("$ref %q is not an object", ref)
	}
	return m, nil
}

func (s *Schema) walk(n map[string]any, path string, refStack []string) error {
	if ref, ok := n["$ref"].(string); ok {
		for _, r := range refStack {
			if r == ref {
				return nil // recursive definition: already described on an enclosing path
			}
		}
		t, err := s.resolve(ref)
		if err != nil {
			return err
		}
		return s.walk(t, path, append(append([]string{}, refStack...), ref))
	}
	alts := false
	for _, key := range []string{"oneOf", "anyOf", "allOf"} {
		if l, ok := n[key].([]any); ok {
			alts = true
			for _, a := range l {
				am, ok := a.(map[string]any)
				if !ok {
					return fmt.Errorf("%s: %s alternative is not an object", path, key)
				}
				if err := s.walk(am, path, refStack); err != nil {
					return err
				}
			}
		}
	}
	node := s.node(path)
	if dv, has := n["default"]; has {
		node.Default = dv
	}
	if d, ok := n["deprecated"].(bool); ok && d {
		node.Deprecated = true
	}
	var kinds []Kind
	switch t := n["type"].(type) {
	case string:
		kinds = []Kind{Kind(t)}
	case []any:
		for _, x := range t {
			if str, ok := x.(string); ok {
				kinds = append(kinds, Kind(str))
			}
		}
	case nil:
		_, hasProps := n["properties"]
		_, hasItems := n["items"]
		if hasProps {
			kinds = []Kind{KObject}
		} else if hasItems {
			kinds = []Kind{KArray}
		} else if !alts {
			node.AnyKind = true
		}
	}
	for _, k := range kinds {
		switch k {
		case KNull, KBool, KInt, KNumber, KString, KArray, KObject:
			node.Kinds[k] = true
		default:
			return fmt.Errorf("%s: unknown schema type %q", path, k)
		}
	}
	if f, ok := n["format"].(string); ok {
		node.Formats[f] = true
	}
	isObj := false
	for _, k := range kinds {
		if k == KObject {
			isObj = true
		}
	}
	if req, ok := n["required"].([]any); ok {
		for _, r := range req {
			if name, isS := r.(string); isS {
				if node.Required == nil {
					node.Required = map[string]bool{}
				}
				node.Required[name] = true
			}
		}
	}
	if props, ok := n["properties"].(map[string]any); ok {
		for name, sub := range props {
			node.Props[name] = true
			sm, ok := sub.(map[string]any)
			if !ok {
				return fmt.Errorf("%s.%s: property schema is not an object", path, name)
			}
			if err := s.walk(sm, join(path, name), refStack); err != nil {
				return err
			}
		}
	}
	if pp, ok := n["patternProperties"].(map[string]any); ok {
		for pat, sub := range pp {
			if strings.HasPrefix(pat, "^x-") {
				node.Extensions = true
				continue
			}
			node.Pattern = true
			sm, ok := sub.(map[string]any)
			if !ok {
				return fmt.Errorf("%s: pattern schema is not an object", path)
			}
			if err := s.walk(sm, join(path, "*"), refStack); err != nil {
				return err
			}
		}
	}
	switch ap := n["additionalProperties"].(type) {
	case map[string]any:
		node.Pattern = true
		if err := s.walk(ap, join(path, "*"), refStack); err != nil {
			return err
		}
	case bool:
		if ap && isObj {
			node.Open = true
		}
	case nil:
		if isObj {
			if _, hasPP := n["patternProperties"]; !hasPP {
				if _, hasP := n["properties"]; !hasP {
					node.Open = true
				}
			}
		}
	}
	if items, ok := n["items"].(map[string]any); ok {
		if err := s.walk(items, join(path, "[]"), refStack); err != nil {
			return err
		}
	}
	if u, ok := n["uniqueItems"].(bool); ok && u {
		node.UniqueItems = true
	}
	return nil
}

// KindList renders the kinds sorted.
func (n *SchemaNode) KindList() []string {
	var out []string
	for k := range n.Kinds {
		out = append(out, string(k))
	}
	sort.Strings(out)
	if n.AnyKind {
		out = append(out, "any")
	}
	return out
}

// MatchPattern implements tree.Path.Matches for a concrete schema path against
// a table pattern: equal segment count, "*" in the pattern matches any segment
// (including the list token "[]"), otherwise literal equality. Schema paths
// themselves contain "*" for user-named keys; a pattern literal never equals
// such a segment unless it is "*" too.
func MatchPattern(path, pattern string) bool {
	pp := strings.Split(pattern, ".")
	sp := strings.Split(path, ".")
	if len(pp) != len(sp) {
		return false
	}
	for i := range pp {
		if pp[i] == "*" || pp[i] == sp[i] {
			continue
		}
		return false
	}
	return true
}

// PatternsOverlap reports whether some concrete path is matched by both patterns.
func PatternsOverlap(a, b string) bool {
	ap := strings.Split(a, ".")
	bp := strings.Split(b, ".")
	if len(ap) != len(bp) {
		return false
	}
	for i := range ap {
		if ap[i] == "*" || bp[i] == "*" || ap[i] == bp[i] {
			continue
		}
		return false
	}
	return true
}
