package tab

import (
	"fmt"
	"go/types"
	"reflect"
	"sort"
	"strings"

	"golang.org/x/tools/go/ssa"
	"verifcheck/internal/prog"
)

// ModelNode is what the Go model says about one attribute path.
type ModelNode struct {
	Path     string
	Type     types.Type // Go type at this path (pointers removed)
	TypeStr  string
	Named    string // "types.Duration" when the type (after pointer removal) is a named model type
	YAMLKey  string
	JSONKey  string
	Owner    string // "types.ServiceConfig.Ports": struct and field that introduce the path ("" for map/list children)
	Decoder  *ssa.Function
	MarshalY *ssa.Function
	MarshalJ *ssa.Function
	Pointer  bool
	ExtOnly  bool // field tagged yaml:"-" / json:"-"
}

type Model struct {
	Nodes  map[string]*ModelNode
	Issues []string // tag problems found while walking (reported by A6)
	p      *prog.Program
}

func (m *Model) Paths() []string {
	var out []string
	for p := range m.Nodes {
		out = append(out, p)
	}
	sort.Strings(out)
	return out
}

type tagInfo struct {
	Name      string
	Omit      bool
	Inline    bool
	Present   bool
	OmitEmpty bool
}

// parseTag parses `key:"name,opt,opt"` properly (options are compared as whole words).
func parseTag(tag, key string) tagInfo {
	v, ok := reflect.StructTag(tag).Lookup(key)
	if !ok {
		return tagInfo{}
	}
	parts := strings.Split(v, ",")
	ti := tagInfo{Name: parts[0], Present: true}
	if parts[0] == "-" && len(parts) == 1 {
		ti.Omit = true
	}
	for _, o := range parts[1:] {
		switch o {
		case "inline":
			ti.Inline = true
		case "omitempty":
			ti.OmitEmpty = true
		}
	}
	return ti
}

// ExtractModel walks types.Project.
func ExtractModel(p *prog.Program) (*Model, error) {
	pk := p.PkgByRel["types"]
	if pk == nil {
		return nil, fmt.Errorf("package types not found")
	}
	obj := pk.Types.Scope().Lookup("Project")
	if obj == nil {
		return nil, fmt.Errorf("types.Project not found")
	}
	m := &Model{Nodes: map[string]*ModelNode{}, p: p}
	m.walk(obj.Type(), "", nil, "")
	return m, nil
}

func (m *Model) methodOf(t types.Type, name string) *ssa.Function {
	// look on T and *T
	for _, tt := range []types.Type{t, types.NewPointer(t)} {
		ms := m.p.SSA.MethodSets.MethodSet(tt)
		if sel := ms.Lookup(nil, name); sel != nil {
			if fn := m.p.SSA.MethodValue(sel); fn != nil {
				// unwrap promoted-method wrappers to the declared method
				if fn.Synthetic != "" && fn.Object() != nil {
					if decl := m.p.SSA.FuncValue(fn.Object().(*types.Func)); decl != nil {
						fn = decl
					}
				}
				if m.p.InModule(fn) {
					return fn
				}
			}
		}
		// unexported lookups need the package
		if n, ok := t.(*types.Named); ok && n.Obj().Pkg() != nil {
			if sel := ms.Lookup(n.Obj().Pkg(), name); sel != nil {
				if fn := m.p.SSA.MethodValue(sel); fn != nil && m.p.InModule(fn) {
					return fn
				}
			}
		}
	}
	return nil
}

func (m *Model) walk(t types.Type, path string, stack []types.Type, owner string) {
	ptr := false
	for {
		if pt, ok := t.(*types.Pointer); ok {
			t = pt.Elem()
			ptr = true
			continue
		}
		break
	}
	for _, s := range stack {
		if types.Identical(s, t) {
			return
		}
	}
	node := m.Nodes[path]
	if node == nil {
		node = &ModelNode{Path: path}
		m.Nodes[path] = node
	}
	node.Type = t
	node.TypeStr = m.p.TypeStr(t)
	node.Pointer = ptr
	if owner != "" {
		node.Owner = owner
	}
	if n, ok := t.(*types.Named); ok && n.Obj().Pkg() != nil && m.p.IsModulePkg(n.Obj().Pkg()) {
		node.Named = m.p.Rel(n.Obj().Pkg()) + "." + n.Obj().Name()
		node.Decoder = m.methodOf(t, "DecodeMapstructure")
		node.MarshalY = m.methodOf(t, "MarshalYAML")
		node.MarshalJ = m.methodOf(t, "MarshalJSON")
		stack = append(append([]types.Type{}, stack...), t)
	}
	switch u := t.Underlying().(type) {
	case *types.Struct:
		m.walkStruct(u, t, path, stack)
	case *types.Map:
		m.walk(u.Elem(), join(path, "*"), stack, "")
	case *types.Slice:
		m.walk(u.Elem(), join(path, "[]"), stack, "")
	case *types.Array:
		m.walk(u.Elem(), join(path, "[]"), stack, "")
	}
}

func (m *Model) walkStruct(st *types.Struct, t types.Type, path string, stack []types.Type) {
	tname := m.p.TypeStr(t)
	for i := 0; i < st.NumFields(); i++ {
		f := st.Field(i)
		if !f.Exported() {
			continue
		}
		y := parseTag(st.Tag(i), "yaml")
		j := parseTag(st.Tag(i), "json")
		owner := tname + "." + f.Name()
		if y.Inline || j.Inline {
			// inline map (extensions) or embedded struct: children live at the same path
			if _, isMap := f.Type().Underlying().(*types.Map); isMap {
				continue
			}
			m.walk(f.Type(), path, stack, "")
			continue
		}
		if y.Omit {
			continue
		}
		key := y.Name
		if !y.Present || key == "" {
			// yaml.v3 / mapstructure default: lower-cased field name
			key = strings.ToLower(f.Name())
			if !y.Present {
				m.Issues = append(m.Issues, fmt.Sprintf("%s: no yaml tag (key defaults to %q)", owner, key))
			}
		}
		child := join(path, key)
		m.walk(f.Type(), child, stack, owner)
		n := m.Nodes[child]
		n.YAMLKey = key
		switch {
		case j.Omit:
			n.JSONKey = "-"
		case j.Present && j.Name != "":
			n.JSONKey = j.Name
		default:
			n.JSONKey = f.Name() // encoding/json default
		}
	}
}
