package tab

import (
	"fmt"
	"go/constant"
	"go/token"
	"go/types"
	"sort"
	"strings"

	"golang.org/x/tools/go/ssa"
	"verifcheck/internal/prog"
)

// Row is one entry of a rule table.
type Row struct {
	Pattern string
	Func    string        // FuncID of the bound function, or "callee(args)" for factory calls
	Fn      *ssa.Function // the function that will run (closure body for factories, method for bound methods)
	Args    []string      // constant arguments of a factory call
	Pos     string
	Dup     bool // the same key is assigned more than once (later assignment wins)
}

// TableRef is what the reference snapshot (tables.json) keeps of a table.
type TableRef struct {
	ValType  string   `json:"valtype"`
	Patterns []string `json:"patterns"`
}

// Table is a pattern-keyed map read from the source.
type Table struct {
	ValType string // element type of the map (or "Path" for slices of paths), unqualified: identifies the table when its variable is renamed
	Name    string // "override.mergeSpecials", "paths.relativePathsResolver.resolvers"
	Rows    []Row
	Errs    []string // keys / values that did not fold to constants (undecided)
}

// ExtractTables finds every map keyed by tree.Path (or a slice of tree.Path)
// that is filled with constant keys, and returns them by name.
func ExtractTables(p *prog.Program) (map[string]*Table, error) {
	out := map[string]*Table{}
	get := func(name string) *Table {
		t := out[name]
		if t == nil {
			t = &Table{Name: name}
			out[name] = t
		}
		return t
	}
	ev := &evaluator{p: p}
	for _, f := range p.Funcs {
		for _, b := range f.Blocks {
			for _, in := range b.Instrs {
				switch x := in.(type) {
				case *ssa.MapUpdate:
					mt, ok := x.Map.Type().Underlying().(*types.Map)
					if !ok || !isTreePath(p, mt.Key()) {
						continue
					}
					name := tableName(p, x.Map)
					if name == "" {
						continue // a local working map, not a table
					}
					t := get(name)
					t.ValType = types.TypeString(mt.Elem(), func(*types.Package) string { return "" })
					// `for _, p := range []tree.Path{...} { table[p] = f }`: one row per element of the literal
					if ld, isLoad := x.Key.(*ssa.UnOp); isLoad && ld.Op == token.MUL {
						if ia, isIA := ld.X.(*ssa.IndexAddr); isIA {
							if keys, err := ev.strs(ia.X, nil, 0); err == nil && len(keys) > 0 {
								for _, k := range keys {
									row := Row{Pattern: k, Pos: p.InstrPos(x)}
									describeValue(p, ev, x.Value, &row)
									t.Rows = append(t.Rows, row)
								}
								continue
							}
						}
					}
					key, err := ev.str(x.Key, nil, 0)
					if err != nil {
						t.Errs = append(t.Errs, fmt.Sprintf("%s: key does not fold to a constant: %v", p.InstrPos(x), err))
						continue
					}
					row := Row{Pattern: key, Pos: p.InstrPos(x)}
					describeValue(p, ev, x.Value, &row)
					t.Rows = append(t.Rows, row)
				case *ssa.Store:
					// package-level slices of tree.Path: var omitempty = []tree.Path{...}
					g, ok := x.Addr.(*ssa.Global)
					if !ok {
						continue
					}
					st, ok := g.Type().(*types.Pointer).Elem().Underlying().(*types.Slice)
					if !ok || !isTreePath(p, st.Elem()) {
						continue
					}
					t := get(p.Rel(g.Pkg.Pkg) + "." + g.Name())
					t.ValType = "[]Path"
					vals, err := ev.strs(x.Val, nil, 0)
					if err != nil {
						t.Errs = append(t.Errs, fmt.Sprintf("%s: %v", p.InstrPos(x), err))
						continue
					}
					for _, v := range vals {
						t.Rows = append(t.Rows, Row{Pattern: v, Pos: p.InstrPos(x)})
					}
				}
			}
		}
	}
	for _, t := range out {
		seen := map[string]int{}
		for i := range t.Rows {
			seen[t.Rows[i].Pattern]++
		}
		for i := range t.Rows {
			if seen[t.Rows[i].Pattern] > 1 {
				t.Rows[i].Dup = true
			}
		}
		sort.SliceStable(t.Rows, func(i, j int) bool { return t.Rows[i].Pattern < t.Rows[j].Pattern })
	}
	return out, nil
}

func isTreePath(p *prog.Program, t types.Type) bool {
	n, ok := t.(*types.Named)
	return ok && n.Obj().Name() == "Path" && p.Rel(n.Obj().Pkg()) == "tree"
}

// tableName: what the updated map is. *Global -> "pkg.global"; a MakeMap that is
// stored to a global or a struct field -> that name.
func tableName(p *prog.Program, m ssa.Value) string {
	switch x := m.(type) {
	case *ssa.UnOp:
		if g, ok := x.X.(*ssa.Global); ok {
			return p.Rel(g.Pkg.Pkg) + "." + g.Name()
		}
	case *ssa.MakeMap:
		for _, r := range *x.Referrers() {
			st, ok := r.(*ssa.Store)
			if !ok || st.Val != x {
				continue
			}
			switch a := st.Addr.(type) {
			case *ssa.Global:
				return p.Rel(a.Pkg.Pkg) + "." + a.Name()
			case *ssa.FieldAddr:
				pt := a.X.Type().Underlying().(*types.Pointer).Elem()
				stt := pt.Underlying().(*types.Struct)
				tn := ""
				if n, ok := pt.(*types.Named); ok {
					tn = p.Rel(n.Obj().Pkg()) + "." + n.Obj().Name()
				}
				return tn + "." + stt.Field(a.Field).Name()
			}
		}
	}
	return ""
}

func describeValue(p *prog.Program, ev *evaluator, v ssa.Value, row *Row) {
	switch x := v.(type) {
	case *ssa.Function:
		row.Func, row.Fn = p.FuncID(x), x
	case *ssa.ChangeType:
		describeValue(p, ev, x.X, row)
	case *ssa.MakeInterface:
		describeValue(p, ev, x.X, row)
	case *ssa.MakeClosure:
		fn := x.Fn.(*ssa.Function)
		if strings.HasPrefix(fn.Synthetic, "bound") && fn.Object() != nil {
			// bound method value r.absPath: the method itself
			if m := p.SSA.FuncValue(fn.Object().(*types.Func)); m != nil {
				row.Func, row.Fn = p.FuncID(m), m
				return
			}
		}
		row.Func, row.Fn = p.FuncID(fn), fn
	case *ssa.Call:
		callee := x.Call.StaticCallee()
		if callee == nil {
			row.Func = "dynamic call"
			return
		}
		var args []string
		for _, a := range x.Call.Args {
			if s, err := ev.str(a, nil, 0); err == nil {
				args = append(args, s)
			} else if ss, err := ev.strs(a, nil, 0); err == nil {
				args = append(args, ss...)
			} else {
				args = append(args, "?")
			}
		}
		row.Args = args
		row.Func = p.FuncID(callee) + "(" + strings.Join(args, ",") + ")"
		// the closure the factory returns
		for _, b := range callee.Blocks {
			if ret, ok := b.Instrs[len(b.Instrs)-1].(*ssa.Return); ok && len(ret.Results) == 1 {
				rv := ret.Results[0]
				if ct, ok := rv.(*ssa.ChangeType); ok {
					rv = ct.X // func literal converted to the named handler type
				}
				if mc, ok := rv.(*ssa.MakeClosure); ok {
					row.Fn = mc.Fn.(*ssa.Function)
				}
			}
		}
	default:
		row.Func = fmt.Sprintf("%T", v)
	}
}

// evaluator folds string / []string valued SSA expressions built from
// constants, composite literals, append, strings.Join and calls to small pure
// module helpers (tree.NewPath, iPath, servicePath).
type evaluator struct {
	p *prog.Program
}

type env map[*ssa.Parameter]any // string or []string

func (e *evaluator) str(v ssa.Value, en env, depth int) (string, error) {
	r, err := e.eval(v, en, depth)
	if err != nil {
		return "", err
	}
	s, ok := r.(string)
	if !ok {
		return "", fmt.Errorf("not a string: %T", r)
	}
	return s, nil
}

func (e *evaluator) strs(v ssa.Value, en env, depth int) ([]string, error) {
	r, err := e.eval(v, en, depth)
	if err != nil {
		return nil, err
	}
	s, ok := r.([]string)
	if !ok {
		return nil, fmt.Errorf("not a string slice: %T", r)
	}
	return s, nil
}

func (e *evaluator) eval(v ssa.Value, en env, depth int) (any, error) {
	if depth > 8 {
		return nil, fmt.Errorf("evaluation too deep")
	}
	switch x := v.(type) {
	case *ssa.Const:
		if x.Value == nil {
			if _, ok := x.Type().Underlying().(*types.Slice); ok {
				return []string(nil), nil
			}
			return nil, fmt.Errorf("nil constant")
		}
		if x.Value.Kind() == constant.String {
			return constant.StringVal(x.Value), nil
		}
		return nil, fmt.Errorf("non-string constant %s", x.Value)
	case *ssa.ChangeType:
		return e.eval(x.X, en, depth)
	case *ssa.Convert:
		return e.eval(x.X, en, depth)
	case *ssa.Parameter:
		if val, ok := en[x]; ok {
			return val, nil
		}
		return nil, fmt.Errorf("unbound parameter %s", x.Name())
	case *ssa.Slice:
		if x.Low != nil || x.High != nil {
			return nil, fmt.Errorf("partial slice")
		}
		al, ok := x.X.(*ssa.Alloc)
		if !ok {
			return e.eval(x.X, en, depth)
		}
		arr, ok := al.Type().(*types.Pointer).Elem().Underlying().(*types.Array)
		if !ok {
			return nil, fmt.Errorf("slice of non-array")
		}
		vals := make([]string, arr.Len())
		set := make([]int, arr.Len())
		for _, r := range *al.Referrers() {
			switch ia := r.(type) {
			case *ssa.IndexAddr:
				c, ok := ia.Index.(*ssa.Const)
				if !ok {
					return nil, fmt.Errorf("non-constant index into literal array")
				}
				idx, _ := constant.Int64Val(c.Value)
				for _, rr := range *ia.Referrers() {
					st, ok := rr.(*ssa.Store)
					if !ok || st.Addr != ia {
						return nil, fmt.Errorf("array element escapes")
					}
					s, err := e.str(st.Val, en, depth+1)
					if err != nil {
						return nil, err
					}
					vals[idx] = s
					set[idx]++
				}
			case *ssa.Slice:
			default:
				return nil, fmt.Errorf("literal array escapes (%T)", r)
			}
		}
		for i, n := range set {
			if n != 1 {
				return nil, fmt.Errorf("array element %d stored %d times", i, n)
			}
		}
		return vals, nil
	case *ssa.Call:
		if b, ok := x.Call.Value.(*ssa.Builtin); ok && b.Name() == "append" {
			a, err := e.strs(x.Call.Args[0], en, depth+1)
			if err != nil {
				return nil, err
			}
			c, err := e.strs(x.Call.Args[1], en, depth+1)
			if err != nil {
				return nil, err
			}
			return append(append([]string{}, a...), c...), nil
		}
		callee := x.Call.StaticCallee()
		if callee == nil {
			return nil, fmt.Errorf("dynamic call")
		}
		if callee.String() == "strings.Join" {
			a, err := e.strs(x.Call.Args[0], en, depth+1)
			if err != nil {
				return nil, err
			}
			sep, err := e.str(x.Call.Args[1], en, depth+1)
			if err != nil {
				return nil, err
			}
			return strings.Join(a, sep), nil
		}
		if !e.p.InModule(callee) || len(callee.Blocks) != 1 {
			return nil, fmt.Errorf("call to %s is not a straight-line module helper", callee)
		}
		cen := env{}
		for i, pa := range callee.Params {
			val, err := e.eval(x.Call.Args[i], en, depth+1)
			if err != nil {
				return nil, err
			}
			cen[pa] = val
		}
		ret, ok := callee.Blocks[0].Instrs[len(callee.Blocks[0].Instrs)-1].(*ssa.Return)
		if !ok || len(ret.Results) != 1 {
			return nil, fmt.Errorf("helper %s does not return one value", callee)
		}
		return e.eval(ret.Results[0], cen, depth+1)
	case *ssa.MakeSlice:
		// make([]string, 0, n): the empty slice that the following appends fill
		if n, ok := x.Len.(*ssa.Const); ok && n.Value != nil && n.Value.Kind() == constant.Int {
			if k, _ := constant.Int64Val(n.Value); k == 0 {
				if sl, isSl := x.Type().Underlying().(*types.Slice); isSl {
					if b, isB := sl.Elem().Underlying().(*types.Basic); isB && b.Info()&types.IsString != 0 {
						return []string{}, nil
					}
				}
			}
		}
		return nil, fmt.Errorf("make of a non-empty slice")
	case *ssa.Global:
		return nil, fmt.Errorf("global %s", x.Name())
	}
	return nil, fmt.Errorf("unsupported %T", v)
}
