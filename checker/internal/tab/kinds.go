package tab

import (
	"go/token"
	"go/types"
	"sort"

	"golang.org/x/tools/go/ssa"
	"verifcheck/internal/prog"
)

// SwitchInfo summarises how a function dispatches on the dynamic type of one
// of its `any` parameters.
type SwitchInfo struct {
	Fn        *ssa.Function
	Cases     map[Kind]bool // YAML kinds that have a case (comma-ok test or type-switch arm)
	GoCases   []string
	Unchecked []string // kinds the function asserts without a test (x.(T))
	NilTest   bool     // compares the parameter with nil
	Default   string   // "error", "passthrough", "other", "none" (no test at all)
}

// goKinds maps a Go dynamic type to the YAML kinds that decode to it.
func goKinds(t types.Type) []Kind {
	switch u := t.Underlying().(type) {
	case *types.Basic:
		switch {
		case u.Info()&types.IsString != 0:
			return []Kind{KString}
		case u.Info()&types.IsBoolean != 0:
			return []Kind{KBool}
		case u.Info()&types.IsInteger != 0:
			return []Kind{KInt}
		case u.Info()&types.IsFloat != 0:
			return []Kind{KNumber}
		}
	case *types.Slice:
		return []Kind{KArray}
	case *types.Map:
		return []Kind{KObject}
	}
	return nil
}

// DynTypesOf lists the Go dynamic types yaml.v3 produces for a schema kind.
func DynTypesOf(k Kind) []string {
	switch k {
	case KNull:
		return []string{"nil"}
	case KBool:
		return []string{"bool"}
	case KInt:
		return []string{"int"}
	case KNumber:
		return []string{"int", "float64"}
	case KString:
		return []string{"string"}
	case KArray:
		return []string{"[]any"}
	case KObject:
		return []string{"map[string]any"}
	}
	return nil
}

// AnalyseSwitch inspects fn's dispatch on parameter index pi.
func AnalyseSwitch(p *prog.Program, fn *ssa.Function, pi int) *SwitchInfo {
	si := &SwitchInfo{Fn: fn, Cases: map[Kind]bool{}, Default: "none"}
	if fn == nil || pi >= len(fn.Params) {
		return si
	}
	param := fn.Params[pi]
	var tests []*ssa.TypeAssert
	goSeen := map[string]bool{}
	for _, b := range fn.Blocks {
		for _, in := range b.Instrs {
			switch x := in.(type) {
			case *ssa.TypeAssert:
				if x.X != param {
					continue
				}
				ts := p.TypeStr(x.AssertedType)
				if x.CommaOk {
					tests = append(tests, x)
					if !goSeen[ts] {
						goSeen[ts] = true
						si.GoCases = append(si.GoCases, ts)
					}
					for _, k := range goKinds(x.AssertedType) {
						si.Cases[k] = true
						if k == KNumber {
							// a float64 arm alone does not take the ints a `number` may decode to
						}
					}
				} else {
					si.Unchecked = append(si.Unchecked, ts)
				}
			case *ssa.BinOp:
				if (x.Op == token.EQL || x.Op == token.NEQ) && ((x.X == param && prog.IsNilConst(x.Y)) || (x.Y == param && prog.IsNilConst(x.X))) {
					si.NilTest = true
				}
			}
		}
	}
	sort.Strings(si.GoCases)
	sort.Strings(si.Unchecked)
	if len(tests) == 0 {
		return si
	}
	// default region: blocks in which every test is known to have failed
	si.Default = "other"
	sawErr, sawPass, sawOther := false, false, false
	for _, b := range fn.Blocks {
		ret, ok := b.Instrs[len(b.Instrs)-1].(*ssa.Return)
		if !ok {
			continue
		}
		facts := prog.DominatingFacts(b)
		failed := 0
		for _, t := range tests {
			for _, f := range facts {
				if ex, ok := f.Cond.(*ssa.Extract); ok && ex.Tuple == t && ex.Index == 1 && !f.Val {
					failed++
					break
				}
			}
		}
		if failed != len(tests) {
			continue
		}
		n := len(ret.Results)
		if n > 0 && isErr(ret.Results[n-1].Type()) {
			if nonNilErr(ret.Results[n-1]) {
				sawErr = true
				continue
			}
		}
		if n > 0 && (ret.Results[0] == ssa.Value(param)) {
			sawPass = true
			continue
		}
		sawOther = true
	}
	switch {
	case sawErr && !sawPass && !sawOther:
		si.Default = "error"
	case sawPass && !sawErr && !sawOther:
		si.Default = "passthrough"
	}
	return si
}

func isErr(t types.Type) bool {
	n, ok := t.(*types.Named)
	return ok && n.Obj().Pkg() == nil && n.Obj().Name() == "error"
}

func nonNilErr(v ssa.Value) bool {
	switch x := v.(type) {
	case *ssa.MakeInterface:
		return true
	case *ssa.Call:
		if c := x.Call.StaticCallee(); c != nil {
			switch c.String() {
			case "fmt.Errorf", "errors.New":
				return true
			}
		}
	}
	return false
}

// Accepts reports whether a YAML kind has an arm in the switch. `number`
// needs arms for both float64 and an integer type, since yaml.v3 decodes
// integral numbers to int.
func (si *SwitchInfo) Accepts(k Kind) bool {
	switch k {
	case KNull:
		return si.NilTest
	case KNumber:
		return si.Cases[KNumber] && si.Cases[KInt]
	}
	return si.Cases[k]
}
