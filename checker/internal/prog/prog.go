// Package prog loads /repo (type-checked syntax + SSA) and offers the shared
// program queries the rules are built on: function lookup, call graph,
// reachability from entry sets, post-dominators and control dependence.
package prog

import (
	"crypto/sha1"
	"encoding/hex"
	"encoding/json"
	"fmt"
	"go/ast"
	"go/constant"
	"go/token"
	"go/types"
	"os"
	"path/filepath"
	"sort"
	"strings"

	"golang.org/x/tools/go/callgraph"
	"golang.org/x/tools/go/callgraph/cha"
	"golang.org/x/tools/go/callgraph/vta"
	"golang.org/x/tools/go/packages"
	"golang.org/x/tools/go/ssa"
	"golang.org/x/tools/go/ssa/ssautil"
)

// MinPackages is the floor on the number of packages a load must yield.
const MinPackages = 19

type Program struct {
	Dir      string
	ModPath  string
	Fset     *token.FileSet
	Pkgs     []*packages.Package          // module packages, sorted by path
	PkgByRel map[string]*packages.Package // "loader" -> package ("." for the root)
	SSA      *ssa.Program
	SSAByRel map[string]*ssa.Package
	Funcs    []*ssa.Function // every module function with a body (incl. anonymous, methods, instances), sorted
	funcByID map[string]*ssa.Function
	CG       *callgraph.Graph
	Thorough bool
	inModule map[*ssa.Function]bool
	// alias: (pkg, receiver, current base name) -> the name the function had in the reference snapshot.
	// A function that was only renamed keeps its identity in every key and anchor.
	alias   map[string]FuncSig
	Renames []string
	fresh   map[string]bool // functions of the tree that the reference snapshot does not have (and that are not renames)
}

// SnapshotPath names the reference list of module functions (funcs.json); empty: no rename detection.
var SnapshotPath string

// FuncSig is one entry of the reference snapshot.
type FuncSig struct {
	Pkg  string `json:"pkg"`
	Recv string `json:"recv"`
	Name string `json:"name"`
	Sig  string `json:"sig"`
	FP   string `json:"fp,omitempty"` // body fingerprint: string constants, library callees, shape; names of module functions excluded
}

// fingerprint summarises a body without the names of module functions, so that it survives renames.
func (p *Program) fingerprint(f *ssa.Function) string {
	var items []string
	var scan func(g *ssa.Function)
	nb, ni := 0, 0
	scan = func(g *ssa.Function) {
		nb += len(g.Blocks)
		for _, b := range g.Blocks {
			ni += len(b.Instrs)
			for _, in := range b.Instrs {
				var ops []*ssa.Value
				for _, op := range in.Operands(ops) {
					if op == nil || *op == nil {
						continue
					}
					if k, ok := (*op).(*ssa.Const); ok && k.Value != nil && k.Value.Kind() == constant.String {
						items = append(items, "s:"+constant.StringVal(k.Value))
					}
				}
				if ci, ok := in.(ssa.CallInstruction); ok {
					if cal := ci.Common().StaticCallee(); cal != nil {
						if pk := pkgOf(cal); pk != nil && !p.IsModulePkg(pk.Pkg) {
							items = append(items, "c:"+pk.Pkg.Path()+"."+cal.Name())
						}
					} else if ci.Common().IsInvoke() {
						items = append(items, "i:"+ci.Common().Method.Name())
					}
				}
			}
		}
		for _, af := range g.AnonFuncs {
			scan(af)
		}
	}
	scan(f)
	sort.Strings(items)
	h := sha1.Sum([]byte(fmt.Sprintf("%d/%d/%s", nb, ni, strings.Join(items, "\x00"))))
	return hex.EncodeToString(h[:8])
}

func (p *Program) sigOf(f *ssa.Function) (FuncSig, bool) {
	if f.Parent() != nil {
		return FuncSig{}, false
	}
	g := f
	if o := f.Origin(); o != nil {
		g = o
	}
	pk := pkgOf(g)
	if pk == nil {
		return FuncSig{}, false
	}
	q := func(tp *types.Package) string { return tp.Name() }
	recv := ""
	if r := g.Signature.Recv(); r != nil {
		recv = types.TypeString(r.Type(), q)
	}
	anon := func(t *types.Tuple) *types.Tuple {
		var vs []*types.Var
		for i := 0; i < t.Len(); i++ {
			vs = append(vs, types.NewVar(token.NoPos, nil, "", t.At(i).Type()))
		}
		return types.NewTuple(vs...)
	}
	sig := types.TypeString(types.NewSignatureType(nil, nil, nil, anon(g.Signature.Params()), anon(g.Signature.Results()), g.Signature.Variadic()), q)
	return FuncSig{Pkg: p.Rel(pk.Pkg), Recv: recv, Name: g.Name(), Sig: sig}, true
}

func (p *Program) sigWithFP(f *ssa.Function) (FuncSig, bool) {
	fs, ok := p.sigOf(f)
	if !ok {
		return fs, false
	}
	g := f
	if o := f.Origin(); o != nil {
		g = o
	}
	if g.Blocks != nil {
		fs.FP = p.fingerprint(g)
	} else {
		fs.FP = p.fingerprint(f)
	}
	return fs, true
}

// Snapshot lists the top-level module functions (generic functions once, by their origin).
func (p *Program) Snapshot() []FuncSig {
	seen := map[string]bool{}
	var out []FuncSig
	for _, f := range p.Funcs {
		fs, ok := p.sigWithFP(f)
		if !ok {
			continue
		}
		k := fs.Pkg + "\x00" + fs.Recv + "\x00" + fs.Name
		if !seen[k] {
			seen[k] = true
			out = append(out, fs)
		}
	}
	sort.Slice(out, func(i, j int) bool {
		a, b := out[i], out[j]
		if a.Pkg != b.Pkg {
			return a.Pkg < b.Pkg
		}
		if a.Recv != b.Recv {
			return a.Recv < b.Recv
		}
		return a.Name < b.Name
	})
	return out
}

// detectRenames compares the functions of the tree with the reference snapshot: a function that is in the
// snapshot but not in the tree, and a function that is in the tree but not in the snapshot, are the same
// function renamed when they share package, receiver and signature and the pairing is unambiguous.
func (p *Program) detectRenames() {
	p.alias = map[string]FuncSig{}
	if SnapshotPath == "" {
		return
	}
	b, err := os.ReadFile(SnapshotPath)
	if err != nil {
		return
	}
	var ref []FuncSig
	if json.Unmarshal(b, &ref) != nil {
		return
	}
	key := func(f FuncSig) string { return f.Pkg + "\x00" + f.Recv + "\x00" + f.Name }
	cur := p.Snapshot()
	// renamed types first: a named type that the reference has and the tree lacks, and one the tree has and the
	// reference lacks, in the same package and with the same shape, are one type renamed. Receivers and
	// signatures of the tree are then read with the reference names.
	typeOld := p.detectTypeRenames()
	norm := func(s string) string {
		for cur, old := range typeOld {
			for {
				i := strings.Index(s, cur)
				if i < 0 {
					break
				}
				j := i + len(cur)
				if j < len(s) && (s[j] == '_' || s[j] >= '0' && s[j] <= '9' || s[j] >= 'a' && s[j] <= 'z' || s[j] >= 'A' && s[j] <= 'Z') {
					// a longer identifier: replace nothing here (rare; give up on this occurrence)
					s = s[:i] + "\x01" + s[i+1:]
					continue
				}
				s = s[:i] + old + s[j:]
			}
			s = strings.ReplaceAll(s, "\x01", cur[:1])
		}
		return s
	}
	normalised := func(f FuncSig) FuncSig {
		f.Recv, f.Sig = norm(f.Recv), norm(f.Sig)
		return f
	}
	refSet := map[string]bool{}
	refBy := map[string]FuncSig{}
	for _, f := range ref {
		refSet[key(f)] = true
		refBy[key(f)] = f
	}
	curSet := map[string]bool{}
	var curN []FuncSig
	for _, f := range cur {
		nf := normalised(f)
		curSet[key(nf)] = true
		if key(nf) != key(f) && refSet[key(nf)] {
			// a method of a renamed type, itself unchanged
			p.alias[key(f)] = refBy[key(nf)]
		}
		curN = append(curN, nf)
	}
	group := func(f FuncSig) string { return f.Pkg + "\x00" + f.Recv + "\x00" + f.Sig }
	gone, fresh := map[string][]FuncSig{}, map[string][]FuncSig{}
	for _, f := range ref {
		if !curSet[key(f)] {
			gone[group(f)] = append(gone[group(f)], f)
		}
	}
	for i, f := range curN {
		if !refSet[key(f)] {
			// grouped under the normalised receiver and signature, but kept with the tree's own receiver: the alias
			// is looked up by what the tree says
			fresh[group(f)] = append(fresh[group(f)], FuncSig{Pkg: cur[i].Pkg, Recv: cur[i].Recv, Name: cur[i].Name, Sig: f.Sig, FP: cur[i].FP})
		}
	}
	paired := map[string]bool{}
	for g, olds := range gone {
		news := fresh[g]
		if len(olds) == 1 && len(news) == 1 {
			p.alias[key(news[0])] = olds[0]
			paired[key(news[0])], paired[key(olds[0])] = true, true
			p.Renames = append(p.Renames, fmt.Sprintf("%s.%s%s is %s of the reference tree, renamed", news[0].Pkg, news[0].Recv, news[0].Name, olds[0].Name))
			continue
		}
		// several functions of one signature renamed at once: pair those whose bodies have the same fingerprint
		// (unique on both sides)
		cntOld, cntNew := map[string]int{}, map[string]int{}
		for _, o := range olds {
			cntOld[o.FP]++
		}
		for _, n := range news {
			cntNew[n.FP]++
		}
		for _, o := range olds {
			if o.FP == "" || cntOld[o.FP] != 1 || cntNew[o.FP] != 1 {
				continue
			}
			for _, n := range news {
				if n.FP == o.FP {
					p.alias[key(n)] = o
					paired[key(n)], paired[key(o)] = true, true
					p.Renames = append(p.Renames, fmt.Sprintf("%s.%s%s is %s of the reference tree, renamed (same body)", n.Pkg, n.Recv, n.Name, o.Name))
				}
			}
		}
	}
	// second pass: a function turned into a method (or the reverse), possibly with its parameters reordered:
	// same package, same multiset of receiver and parameter types, same results
	bag := func(f FuncSig) string {
		sig := f.Sig
		i := strings.Index(sig, "(")
		depth, j := 0, i
		for ; j < len(sig); j++ {
			if sig[j] == '(' {
				depth++
			} else if sig[j] == ')' {
				depth--
				if depth == 0 {
					break
				}
			}
		}
		if i < 0 || j >= len(sig) {
			return ""
		}
		var parts []string
		cur, d := "", 0
		for _, ch := range sig[i+1 : j] {
			switch {
			case ch == ',' && d == 0:
				parts = append(parts, strings.TrimSpace(cur))
				cur = ""
				continue
			case ch == '(' || ch == '[' || ch == '{':
				d++
			case ch == ')' || ch == ']' || ch == '}':
				d--
			}
			cur += string(ch)
		}
		if strings.TrimSpace(cur) != "" {
			parts = append(parts, strings.TrimSpace(cur))
		}
		if f.Recv != "" {
			parts = append(parts, f.Recv)
		}
		sort.Strings(parts)
		return f.Pkg + "\x00" + strings.Join(parts, "|") + "\x00" + sig[j+1:]
	}
	gone2, fresh2 := map[string][]FuncSig{}, map[string][]FuncSig{}
	for _, fs := range gone {
		for _, f := range fs {
			if !paired[key(f)] && bag(f) != "" {
				gone2[bag(f)] = append(gone2[bag(f)], f)
			}
		}
	}
	for _, fs := range fresh {
		for _, f := range fs {
			if !paired[key(f)] && bag(f) != "" {
				fresh2[bag(f)] = append(fresh2[bag(f)], f)
			}
		}
	}
	for g, olds := range gone2 {
		news := fresh2[g]
		if len(olds) == 1 && len(news) == 1 {
			p.alias[key(news[0])] = olds[0]
			p.Renames = append(p.Renames, fmt.Sprintf("%s.%s%s is %s%s of the reference tree (function/method form or parameter order changed)", news[0].Pkg, news[0].Recv, news[0].Name, olds[0].Recv, olds[0].Name))
		}
	}
	sort.Strings(p.Renames)
	p.fresh = map[string]bool{}
	for _, fs := range fresh {
		for _, f := range fs {
			if _, renamed := p.alias[key(f)]; !renamed {
				p.fresh[key(f)] = true
			}
		}
	}
}

// IsNewFunc: the function (or the function a closure belongs to) is not in the reference snapshot and is not a
// renamed one: it was added to the tree, typically a helper extracted from an existing function.
func (p *Program) IsNewFunc(f *ssa.Function) bool {
	for f != nil && f.Parent() != nil {
		f = f.Parent()
	}
	if f == nil {
		return false
	}
	fs, ok := p.sigOf(f)
	return ok && p.fresh[fs.Pkg+"\x00"+fs.Recv+"\x00"+fs.Name]
}

// Load type-checks the module in dir and builds SSA. With deps=true the
// dependencies are loaded from source too (thorough tier).
func Load(dir string, deps bool, env []string) (*Program, error) {
	// -trimpath makes the build cache keys independent of the directory: the scratch copies of the self-test (one
	// directory per variant) then reuse the export data of every package the variant does not touch, instead of
	// adding ~6 MB to the cache each (70 GB over one full thorough cycle)
	goflags := strings.TrimSpace(os.Getenv("GOFLAGS") + " -trimpath")
	cfg := &packages.Config{Dir: dir, Tests: false, Env: append(append(os.Environ(), "GOFLAGS="+goflags), env...)}
	if !deps {
		// syntax for the module's packages only; dependencies through export data
		cfg.Mode = packages.LoadSyntax | packages.NeedModule
	} else {
		cfg.Mode = packages.LoadAllSyntax | packages.NeedModule
	}
	pkgs, err := packages.Load(cfg, "./...")
	if err != nil {
		return nil, fmt.Errorf("load: %w", err)
	}
	if len(pkgs) < MinPackages {
		return nil, fmt.Errorf("load: %d packages, floor is %d", len(pkgs), MinPackages)
	}
	var errs []string
	packages.Visit(pkgs, nil, func(p *packages.Package) {
		for _, e := range p.Errors {
			errs = append(errs, e.Error())
		}
	})
	if len(errs) > 0 {
		sort.Strings(errs)
		if len(errs) > 10 {
			errs = errs[:10]
		}
		return nil, fmt.Errorf("load: type errors (a tree that does not type-check gives no verdict):\n  %s", strings.Join(errs, "\n  "))
	}
	p := &Program{Dir: dir, PkgByRel: map[string]*packages.Package{}, SSAByRel: map[string]*ssa.Package{},
		funcByID: map[string]*ssa.Function{}, inModule: map[*ssa.Function]bool{}, Thorough: deps}
	sort.Slice(pkgs, func(i, j int) bool { return pkgs[i].PkgPath < pkgs[j].PkgPath })
	for _, pk := range pkgs {
		if pk.Module == nil {
			return nil, fmt.Errorf("load: package %s has no module", pk.PkgPath)
		}
		if p.ModPath == "" {
			p.ModPath = pk.Module.Path
		}
	}
	p.Pkgs = pkgs
	p.Fset = pkgs[0].Fset
	prog, spkgs := ssautil.AllPackages(pkgs, ssa.InstantiateGenerics)
	prog.Build()
	p.SSA = prog
	for i, pk := range pkgs {
		rel := strings.TrimPrefix(strings.TrimPrefix(pk.PkgPath, p.ModPath), "/")
		if rel == "" {
			rel = "."
		}
		p.PkgByRel[rel] = pk
		if spkgs[i] == nil {
			return nil, fmt.Errorf("load: no SSA for %s", pk.PkgPath)
		}
		p.SSAByRel[rel] = spkgs[i]
	}
	all := ssautil.AllFunctions(prog)
	for f := range all {
		if f.Blocks == nil {
			continue
		}
		if isWrapper(f) {
			continue
		}
		if pk := pkgOf(f); pk != nil && p.IsModulePkg(pk.Pkg) {
			p.Funcs = append(p.Funcs, f)
			p.inModule[f] = true
		}
	}
	// generic origins whose instances are present are dropped: the instances carry the same constructs, concretely typed
	hasInst := map[*ssa.Function]bool{}
	for _, f := range p.Funcs {
		if o := f.Origin(); o != nil {
			hasInst[o] = true
		}
	}
	var keep []*ssa.Function
	for _, f := range p.Funcs {
		g := f
		for g.Parent() != nil {
			g = g.Parent()
		}
		if hasInst[g] {
			delete(p.inModule, f)
			continue
		}
		keep = append(keep, f)
	}
	p.Funcs = keep
	p.detectRenames()
	for _, f := range p.Funcs {
		id := p.FuncID(f)
		if _, dup := p.funcByID[id]; dup {
			return nil, fmt.Errorf("load: duplicate function id %s", id)
		}
		p.funcByID[id] = f
	}
	sort.Slice(p.Funcs, func(i, j int) bool { return p.FuncID(p.Funcs[i]) < p.FuncID(p.Funcs[j]) })
	if deps {
		p.CG = vta.CallGraph(all, cha.CallGraph(prog))
	} else {
		p.CG = cha.CallGraph(prog)
	}
	return p, nil
}

// isWrapper: synthetic forwarding functions (method wrappers, bound-method
// closures, thunks). Package initialisers and generic instances are not wrappers.
func isWrapper(f *ssa.Function) bool {
	s := f.Synthetic
	return strings.HasPrefix(s, "wrapper") || strings.HasPrefix(s, "bound") || strings.HasPrefix(s, "thunk") ||
		strings.HasPrefix(s, "instantiation wrapper")
}

func pkgOf(f *ssa.Function) *ssa.Package {
	for f != nil {
		if f.Pkg != nil {
			return f.Pkg
		}
		if f.Parent() != nil {
			f = f.Parent()
			continue
		}
		if f.Origin() != nil {
			f = f.Origin()
			continue
		}
		// method wrappers / bound thunks: use the object's package
		if o := f.Object(); o != nil && o.Pkg() != nil {
			return f.Prog.Package(o.Pkg())
		}
		return nil
	}
	return nil
}

func (p *Program) IsModulePkg(tp *types.Package) bool {
	return tp != nil && (tp.Path() == p.ModPath || strings.HasPrefix(tp.Path(), p.ModPath+"/"))
}

func (p *Program) InModule(f *ssa.Function) bool { return p.inModule[f] }

// Rel returns the module-relative package path ("loader") of a types.Package.
func (p *Program) Rel(tp *types.Package) string {
	if tp == nil {
		return ""
	}
	if tp.Path() == p.ModPath {
		return "."
	}
	if strings.HasPrefix(tp.Path(), p.ModPath+"/") {
		return strings.TrimPrefix(tp.Path(), p.ModPath+"/")
	}
	return tp.Path()
}

// FuncID is a stable, line-free name: "loader.Load", "types.(*Project).WithProfiles",
// "loader.loadYamlFile$1", "utils.MapKeys[string,any]".
func (p *Program) FuncID(f *ssa.Function) string {
	if f == nil {
		return "<nil>"
	}
	if f.Parent() != nil {
		// anonymous function: parent id + $n suffix taken from its own name
		name := f.Name()
		if i := strings.LastIndex(name, "$"); i >= 0 {
			return p.FuncID(f.Parent()) + name[i:]
		}
		return p.FuncID(f.Parent()) + "$" + name
	}
	pk := pkgOf(f)
	rel := ""
	if pk != nil {
		rel = p.Rel(pk.Pkg)
	}
	name := f.Name()
	base := name
	if o := f.Origin(); o != nil {
		base = o.Name()
	}
	var oldSig *FuncSig
	if len(p.alias) > 0 {
		if fs, ok := p.sigOf(f); ok {
			if old, ok := p.alias[fs.Pkg+"\x00"+fs.Recv+"\x00"+fs.Name]; ok {
				base = old.Name
				name = old.Name
				o := old
				oldSig = &o
			}
		}
	}
	if o := f.Origin(); o != nil {
		var ta []string
		for _, t := range f.TypeArgs() {
			ta = append(ta, types.TypeString(t, func(pk *types.Package) string { return pk.Name() }))
		}
		name = base + "[" + strings.Join(ta, ",") + "]"
	}
	if oldSig != nil {
		// the identity of the reference tree, in the same notation
		if oldSig.Recv == "" {
			return rel + "." + name
		}
		r := oldSig.Recv
		ptr := ""
		if strings.HasPrefix(r, "*") {
			ptr, r = "*", r[1:]
		}
		if i := strings.Index(r, "["); i >= 0 {
			r = r[:i]
		}
		if i := strings.LastIndex(r, "."); i >= 0 {
			r = r[i+1:]
		}
		return fmt.Sprintf("%s.(%s%s).%s", rel, ptr, r, name)
	}
	if recv := f.Signature.Recv(); recv != nil {
		rt := recv.Type()
		ptr := ""
		if pt, ok := rt.(*types.Pointer); ok {
			rt = pt.Elem()
			ptr = "*"
		}
		tn := types.TypeString(rt, func(*types.Package) string { return "" })
		if n, ok := rt.(*types.Named); ok {
			tn = n.Obj().Name() // without type arguments: the instance suffix of the method name carries them
		}
		return fmt.Sprintf("%s.(%s%s).%s", rel, ptr, tn, name)
	}
	return rel + "." + name
}

// Func resolves a FuncID; nil if absent.
func (p *Program) Func(id string) *ssa.Function { return p.funcByID[id] }

// MustFunc resolves or returns an error naming the anchor that no longer resolves.
func (p *Program) MustFunc(id string) (*ssa.Function, error) {
	if f := p.funcByID[id]; f != nil {
		return f, nil
	}
	return nil, fmt.Errorf("anchor %q does not resolve to a function with a body", id)
}

// Pos renders a position relative to the repo root.
func (p *Program) Pos(pos token.Pos) string {
	if !pos.IsValid() {
		return "-"
	}
	ps := p.Fset.Position(pos)
	rel, err := filepath.Rel(p.Dir, ps.Filename)
	if err != nil {
		rel = ps.Filename
	}
	return fmt.Sprintf("%s:%d", rel, ps.Line)
}

// InstrPos finds the best available position for an instruction.
func (p *Program) InstrPos(in ssa.Instruction) string {
	if in == nil {
		return "-"
	}
	if in.Pos().IsValid() {
		return p.Pos(in.Pos())
	}
	if v, ok := in.(ssa.Value); ok {
		for _, r := range *v.Referrers() {
			if r.Pos().IsValid() {
				return p.Pos(r.Pos())
			}
		}
	}
	// fall back to any positioned instruction of the block, then the function
	for _, o := range in.Block().Instrs {
		if o.Pos().IsValid() {
			return p.Pos(o.Pos())
		}
	}
	return p.Pos(in.Parent().Pos())
}

// Callees returns the module-or-not callees of a call site according to the call graph.
func (p *Program) Callees(site ssa.CallInstruction) []*ssa.Function {
	if c := site.Common().StaticCallee(); c != nil {
		return []*ssa.Function{c}
	}
	n := p.CG.Nodes[site.Parent()]
	if n == nil {
		return nil
	}
	var out []*ssa.Function
	seen := map[*ssa.Function]bool{}
	for _, e := range n.Out {
		if e.Site == site && !seen[e.Callee.Func] {
			seen[e.Callee.Func] = true
			out = append(out, e.Callee.Func)
		}
	}
	sort.Slice(out, func(i, j int) bool { return out[i].String() < out[j].String() })
	return out
}

// Reach is the result of a reachability query.
type Reach struct {
	Set    map[*ssa.Function]bool
	Parent map[*ssa.Function]*ssa.Function // BFS tree, for call paths
	Roots  []*ssa.Function
}

// Path returns the call path entry -> ... -> f as FuncIDs.
func (r *Reach) Path(p *Program, f *ssa.Function) []string {
	var rev []string
	for g := f; g != nil; g = r.Parent[g] {
		rev = append(rev, p.FuncID(g))
		if len(rev) > 64 {
			break
		}
	}
	for i, j := 0, len(rev)-1; i < j; i, j = i+1, j-1 {
		rev[i], rev[j] = rev[j], rev[i]
	}
	return rev
}

// Reachable computes module functions reachable from roots: call-graph edges,
// plus every function whose value is taken (closure creation, function value
// operand) inside a reachable function, because those are invoked by
// dependencies whose bodies the quick tier does not see (sort callbacks,
// regexp replace callbacks, errgroup.Go, mapstructure hooks).
func (p *Program) Reachable(roots []*ssa.Function) *Reach {
	r := &Reach{Set: map[*ssa.Function]bool{}, Parent: map[*ssa.Function]*ssa.Function{}, Roots: roots}
	var q []*ssa.Function
	push := func(f, from *ssa.Function) {
		if f == nil || r.Set[f] {
			return
		}
		if !p.inModule[f] {
			// dependencies are not traversed (their bodies are absent in the quick
			// tier); synthetic wrappers and thunks of module functions are.
			if f.Blocks == nil || !isWrapper(f) {
				return
			}
		}
		r.Set[f] = true
		if from != nil {
			r.Parent[f] = from
		}
		q = append(q, f)
	}
	for _, f := range roots {
		push(f, nil)
	}
	for len(q) > 0 {
		f := q[0]
		q = q[1:]
		for _, b := range f.Blocks {
			for _, in := range b.Instrs {
				if site, ok := in.(ssa.CallInstruction); ok {
					for _, c := range p.Callees(site) {
						push(c, f)
					}
				}
				for _, op := range in.Operands(nil) {
					if op == nil || *op == nil {
						continue
					}
					switch v := (*op).(type) {
					case *ssa.Function:
						push(v, f)
					case *ssa.MakeClosure:
						if fn, ok := v.Fn.(*ssa.Function); ok {
							push(fn, f)
						}
					}
				}
			}
		}
	}
	// drop non-module helpers from the visible set
	for f := range r.Set {
		if !p.inModule[f] {
			delete(r.Set, f)
		}
	}
	return r
}

// Sorted returns the reachable functions sorted by id.
func (r *Reach) Sorted(p *Program) []*ssa.Function {
	var out []*ssa.Function
	for f := range r.Set {
		out = append(out, f)
	}
	sort.Slice(out, func(i, j int) bool { return p.FuncID(out[i]) < p.FuncID(out[j]) })
	return out
}

// MethodsNamed returns every module method (value or pointer receiver) with the given name.
func (p *Program) MethodsNamed(names ...string) []*ssa.Function {
	want := map[string]bool{}
	for _, n := range names {
		want[n] = true
	}
	var out []*ssa.Function
	for _, f := range p.Funcs {
		if f.Signature.Recv() != nil && f.Parent() == nil && want[f.Name()] {
			out = append(out, f)
		}
	}
	return out
}

// ExportedFuncs returns exported package-level functions (no receiver) of a module package.
func (p *Program) ExportedFuncs(rel string) []*ssa.Function {
	var out []*ssa.Function
	for _, f := range p.Funcs {
		if f.Parent() == nil && f.Signature.Recv() == nil && f.Pkg != nil && p.Rel(f.Pkg.Pkg) == rel &&
			ast.IsExported(f.Name()) {
			out = append(out, f)
		}
	}
	return out
}

// MethodsOf returns the declared methods of the named type rel.Name (both receiver kinds).
func (p *Program) MethodsOf(rel, typeName string, exportedOnly bool) []*ssa.Function {
	var out []*ssa.Function
	for _, f := range p.Funcs {
		recv := f.Signature.Recv()
		if recv == nil || f.Parent() != nil {
			continue
		}
		rt := recv.Type()
		if pt, ok := rt.(*types.Pointer); ok {
			rt = pt.Elem()
		}
		nt, ok := rt.(*types.Named)
		if !ok || nt.Obj().Name() != typeName || p.Rel(nt.Obj().Pkg()) != rel {
			continue
		}
		if exportedOnly && !ast.IsExported(f.Name()) {
			continue
		}
		out = append(out, f)
	}
	return out
}

// FileOf returns the *ast.File and package holding pos.
func (p *Program) FileOf(pos token.Pos) (*ast.File, *packages.Package) {
	for _, pk := range p.Pkgs {
		for _, f := range pk.Syntax {
			if f.Pos() <= pos && pos <= f.End() {
				return f, pk
			}
		}
	}
	return nil, nil
}

// RefName is the plain name of a function as the reference tree knows it (a renamed function keeps its old
// name): "mergeMappings", "clone". Closures get their parent's name with the $n suffix.
func (p *Program) RefName(f *ssa.Function) string {
	id := p.FuncID(f)
	if i := strings.LastIndex(id, ")."); i >= 0 {
		id = id[i+2:]
	} else if i := strings.Index(id, "."); i >= 0 {
		id = id[i+1:]
	}
	if i := strings.Index(id, "["); i >= 0 {
		j := strings.LastIndex(id, "]")
		if j > i {
			id = id[:i] + id[j+1:]
		}
	}
	return id
}

// TypeSig is one named type of the reference snapshot (types.json).
type TypeSig struct {
	Pkg   string `json:"pkg"`
	Name  string `json:"name"`
	Shape string `json:"shape"`
}

// TypeSnapshot lists the named types of the module with a shape that does not mention their own name:
// the underlying type, with the field types (not names) for structs.
func (p *Program) TypeSnapshot() []TypeSig {
	var out []TypeSig
	q := func(tp *types.Package) string { return tp.Name() }
	for _, pk := range p.Pkgs {
		scope := pk.Types.Scope()
		for _, name := range scope.Names() {
			tn, ok := scope.Lookup(name).(*types.TypeName)
			if !ok || tn.IsAlias() {
				continue
			}
			shape := ""
			switch u := tn.Type().Underlying().(type) {
			case *types.Struct:
				var fs []string
				for i := 0; i < u.NumFields(); i++ {
					fs = append(fs, types.TypeString(u.Field(i).Type(), q))
				}
				shape = "struct{" + strings.Join(fs, ";") + "}"
			default:
				shape = types.TypeString(u, q)
			}
			if nt, ok := tn.Type().(*types.Named); ok {
				shape += fmt.Sprintf("/%d methods", nt.NumMethods())
			}
			out = append(out, TypeSig{Pkg: p.Rel(pk.Types), Name: name, Shape: shape})
		}
	}
	sort.Slice(out, func(i, j int) bool {
		if out[i].Pkg != out[j].Pkg {
			return out[i].Pkg < out[j].Pkg
		}
		return out[i].Name < out[j].Name
	})
	return out
}

// detectTypeRenames returns "pkgname.CurrentName" -> "pkgname.ReferenceName" for unambiguous pairs.
func (p *Program) detectTypeRenames() map[string]string {
	res := map[string]string{}
	if SnapshotPath == "" {
		return res
	}
	b, err := os.ReadFile(filepath.Join(filepath.Dir(SnapshotPath), "types.json"))
	if err != nil {
		return res
	}
	var ref []TypeSig
	if json.Unmarshal(b, &ref) != nil {
		return res
	}
	cur := p.TypeSnapshot()
	k := func(t TypeSig) string { return t.Pkg + "\x00" + t.Name }
	curSet, refSet := map[string]bool{}, map[string]bool{}
	for _, t := range cur {
		curSet[k(t)] = true
	}
	for _, t := range ref {
		refSet[k(t)] = true
	}
	gone, fresh := map[string][]TypeSig{}, map[string][]TypeSig{}
	for _, t := range ref {
		if !curSet[k(t)] {
			gone[t.Pkg+"\x00"+t.Shape] = append(gone[t.Pkg+"\x00"+t.Shape], t)
		}
	}
	for _, t := range cur {
		if !refSet[k(t)] {
			fresh[t.Pkg+"\x00"+t.Shape] = append(fresh[t.Pkg+"\x00"+t.Shape], t)
		}
	}
	for g, olds := range gone {
		news := fresh[g]
		if len(olds) == 1 && len(news) == 1 {
			pkgName := olds[0].Pkg
			if i := strings.LastIndex(pkgName, "/"); i >= 0 {
				pkgName = pkgName[i+1:]
			}
			res[pkgName+"."+news[0].Name] = pkgName + "." + olds[0].Name
			p.Renames = append(p.Renames, fmt.Sprintf("type %s.%s is %s of the reference tree, renamed", olds[0].Pkg, news[0].Name, olds[0].Name))
		}
	}
	return res
}

// FieldSig is one struct field of the reference snapshot (fields.json).
type FieldSig struct {
	Pkg   string `json:"pkg"`  // import path
	Type  string `json:"type"` // named struct type
	Name  string `json:"name"`
	FType string `json:"ftype"`
	Index int    `json:"index"`
}

// FieldSnapshot lists the fields of the named struct types of the module.
func (p *Program) FieldSnapshot() []FieldSig {
	var out []FieldSig
	q := func(tp *types.Package) string { return tp.Name() }
	for _, pk := range p.Pkgs {
		scope := pk.Types.Scope()
		for _, name := range scope.Names() {
			tn, ok := scope.Lookup(name).(*types.TypeName)
			if !ok {
				continue
			}
			st, ok := tn.Type().Underlying().(*types.Struct)
			if !ok {
				continue
			}
			for i := 0; i < st.NumFields(); i++ {
				out = append(out, FieldSig{Pkg: pk.Types.Path(), Type: name, Name: st.Field(i).Name(), FType: types.TypeString(st.Field(i).Type(), q), Index: i})
			}
		}
	}
	return out
}

// FieldRenames returns "pkgpath.Type.currentName" -> reference name for fields that the reference has and the
// tree lacks, paired with a field of the same struct and type that the tree has and the reference lacks
// (unambiguous pairs only). Types renamed as a whole are looked up under their reference name.
func (p *Program) FieldRenames() map[string]string {
	res := map[string]string{}
	if SnapshotPath == "" {
		return res
	}
	b, err := os.ReadFile(filepath.Join(filepath.Dir(SnapshotPath), "fields.json"))
	if err != nil {
		return res
	}
	var ref []FieldSig
	if json.Unmarshal(b, &ref) != nil {
		return res
	}
	typeOld := p.detectTypeRenames() // "pkgname.Cur" -> "pkgname.Old"
	oldTypeName := func(pkgPath, cur string) string {
		pn := pkgPath
		if i := strings.LastIndex(pn, "/"); i >= 0 {
			pn = pn[i+1:]
		}
		if o, ok := typeOld[pn+"."+cur]; ok {
			return o[strings.Index(o, ".")+1:]
		}
		return cur
	}
	type tk struct{ pkg, typ string }
	refBy, curBy := map[tk][]FieldSig{}, map[tk][]FieldSig{}
	for _, f := range ref {
		refBy[tk{f.Pkg, f.Type}] = append(refBy[tk{f.Pkg, f.Type}], f)
	}
	for _, f := range p.FieldSnapshot() {
		curBy[tk{f.Pkg, f.Type}] = append(curBy[tk{f.Pkg, f.Type}], f)
	}
	for k, cfs := range curBy {
		rfs := refBy[tk{k.pkg, oldTypeName(k.pkg, k.typ)}]
		if rfs == nil {
			continue
		}
		has := func(fs []FieldSig, n string) bool {
			for _, f := range fs {
				if f.Name == n {
					return true
				}
			}
			return false
		}
		goneBy, freshBy := map[string][]FieldSig{}, map[string][]FieldSig{}
		for _, f := range rfs {
			if !has(cfs, f.Name) {
				goneBy[f.FType] = append(goneBy[f.FType], f)
			}
		}
		for _, f := range cfs {
			if !has(rfs, f.Name) {
				freshBy[f.FType] = append(freshBy[f.FType], f)
			}
		}
		for ft, olds := range goneBy {
			news := freshBy[ft]
			if len(olds) == 1 && len(news) == 1 {
				res[k.pkg+"."+k.typ+"."+news[0].Name] = olds[0].Name
				p.Renames = append(p.Renames, fmt.Sprintf("field %s.%s.%s is %s of the reference tree, renamed", k.pkg, k.typ, news[0].Name, olds[0].Name))
				continue
			}
			// several fields of one type renamed at once: pair by position when the struct kept its layout
			if len(rfs) == len(cfs) {
				for _, o := range olds {
					for _, n := range news {
						if n.Index == o.Index {
							res[k.pkg+"."+k.typ+"."+n.Name] = o.Name
							p.Renames = append(p.Renames, fmt.Sprintf("field %s.%s.%s is %s of the reference tree, renamed (same position)", k.pkg, k.typ, n.Name, o.Name))
						}
					}
				}
			}
		}
	}
	return res
}
