package prog

import (
	"fmt"
	"go/constant"
	"go/types"
	"strings"

	"golang.org/x/tools/go/ssa"
)

func constantStringVal(c *ssa.Const) string { return constant.StringVal(c.Value) }

// TypeStr prints a type without package qualification noise ("map[string]any", "types.Project").
func (p *Program) TypeStr(t types.Type) string {
	s := types.TypeString(t, func(pk *types.Package) string { return pk.Name() })
	s = strings.ReplaceAll(s, "interface{}", "any")
	return s
}

// Term renders the provenance of an SSA value: its definition chain with local
// names erased. It identifies a construct independently of line numbers and
// variable names. depth bounds the rendering.
func (p *Program) Term(v ssa.Value, depth int) string { return p.term(v, depth, false) }

// KeyTerm is Term in a coarser form used for construct identities: phi nodes
// and arithmetic are not expanded, so that edits elsewhere in the function do
// not change the identity of a construct.
func (p *Program) KeyTerm(v ssa.Value, depth int) string { return p.term(v, depth, true) }

func (p *Program) term(v ssa.Value, depth int, coarse bool) string {
	if v == nil {
		return "nil"
	}
	if depth <= 0 {
		return "…"
	}
	d := depth - 1
	if coarse {
		switch v.(type) {
		case *ssa.Phi:
			return "Phi"
		case *ssa.BinOp:
			return "BinOp"
		}
	}
	switch x := v.(type) {
	case *ssa.Const:
		if x.Value == nil {
			return "nil"
		}
		return x.Value.ExactString()
	case *ssa.Parameter:
		// a parameter is named by its type, and by its rank among the parameters of that type when there are
		// several: reordering the parameters of a function, or adding one of another type, does not rename it
		ts := p.TypeStr(x.Type())
		rank, same := 0, 0
		for _, pa := range x.Parent().Params {
			if p.TypeStr(pa.Type()) == ts {
				if pa == x {
					rank = same
				}
				same++
			}
		}
		if same > 1 {
			return fmt.Sprintf("Param#%d:%s", rank, ts)
		}
		return "Param:" + ts
	case *ssa.FreeVar:
		for i, fv := range x.Parent().FreeVars {
			if fv == x {
				return fmt.Sprintf("Free#%d:%s", i, p.TypeStr(x.Type()))
			}
		}
		return "Free"
	case *ssa.Global:
		return "Global(" + p.Rel(x.Pkg.Pkg) + "." + x.Name() + ")"
	case *ssa.Function:
		return "Func(" + p.FuncID(x) + ")"
	case *ssa.Builtin:
		return x.Name()
	case *ssa.Alloc:
		return "Alloc:" + p.TypeStr(x.Type().(*types.Pointer).Elem())
	case *ssa.Call:
		var args []string
		for _, a := range x.Call.Args {
			args = append(args, p.term(a, d, coarse))
		}
		name := ""
		if x.Call.IsInvoke() {
			name = "invoke " + x.Call.Method.Name()
			args = append([]string{p.term(x.Call.Value, d, coarse)}, args...)
		} else if c := x.Call.StaticCallee(); c != nil {
			if p.inModule[c] {
				name = p.FuncID(c)
			} else {
				name = c.String()
			}
		} else {
			name = "dyn " + p.term(x.Call.Value, d, coarse)
		}
		return name + "(" + strings.Join(args, ",") + ")"
	case *ssa.TypeAssert:
		ok := ""
		if x.CommaOk {
			ok = ",ok"
		}
		return fmt.Sprintf("TypeAssert[%s%s](%s)", p.TypeStr(x.AssertedType), ok, p.term(x.X, d, coarse))
	case *ssa.Extract:
		return fmt.Sprintf("Extract#%d(%s)", x.Index, p.term(x.Tuple, d, coarse))
	case *ssa.Lookup:
		ok := ""
		if x.CommaOk {
			ok = ",ok"
		}
		return fmt.Sprintf("Lookup%s(%s,%s)", ok, p.term(x.X, d, coarse), p.term(x.Index, d, coarse))
	case *ssa.Index:
		return fmt.Sprintf("Index(%s,%s)", p.term(x.X, d, coarse), p.term(x.Index, d, coarse))
	case *ssa.IndexAddr:
		return fmt.Sprintf("IndexAddr(%s,%s)", p.term(x.X, d, coarse), p.term(x.Index, d, coarse))
	case *ssa.FieldAddr:
		st := x.X.Type().Underlying().(*types.Pointer).Elem().Underlying().(*types.Struct)
		return fmt.Sprintf("FieldAddr(%s).%s", p.term(x.X, d, coarse), st.Field(x.Field).Name())
	case *ssa.Field:
		st := x.X.Type().Underlying().(*types.Struct)
		return fmt.Sprintf("Field(%s).%s", p.term(x.X, d, coarse), st.Field(x.Field).Name())
	case *ssa.UnOp:
		return fmt.Sprintf("%s(%s)", x.Op, p.term(x.X, d, coarse))
	case *ssa.BinOp:
		return fmt.Sprintf("(%s %s %s)", p.term(x.X, d, coarse), x.Op, p.term(x.Y, d, coarse))
	case *ssa.Phi:
		var es []string
		for _, e := range x.Edges {
			es = append(es, p.term(e, d, coarse))
		}
		return "Phi(" + strings.Join(es, "|") + ")"
	case *ssa.MakeInterface:
		return fmt.Sprintf("MakeInterface[%s](%s)", p.TypeStr(x.X.Type()), p.term(x.X, d, coarse))
	case *ssa.ChangeType:
		return fmt.Sprintf("ChangeType[%s](%s)", p.TypeStr(x.Type()), p.term(x.X, d, coarse))
	case *ssa.Convert:
		return fmt.Sprintf("Convert[%s](%s)", p.TypeStr(x.Type()), p.term(x.X, d, coarse))
	case *ssa.ChangeInterface:
		return p.term(x.X, depth, coarse)
	case *ssa.Slice:
		return fmt.Sprintf("Slice(%s,%s,%s)", p.term(x.X, d, coarse), p.term(x.Low, d, coarse), p.term(x.High, d, coarse))
	case *ssa.MakeMap:
		return "MakeMap:" + p.TypeStr(x.Type())
	case *ssa.MakeSlice:
		return "MakeSlice:" + p.TypeStr(x.Type())
	case *ssa.MakeChan:
		return "MakeChan:" + p.TypeStr(x.Type())
	case *ssa.MakeClosure:
		if fn, ok := x.Fn.(*ssa.Function); ok {
			return "Closure(" + p.FuncID(fn) + ")"
		}
		return "Closure"
	case *ssa.Next:
		return "Next(" + p.term(x.Iter, d, coarse) + ")"
	case *ssa.Range:
		return "Range(" + p.term(x.X, d, coarse) + ")"
	case *ssa.Select:
		return "Select"
	}
	return fmt.Sprintf("%T", v)
}
