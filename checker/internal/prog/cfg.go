package prog

import (
	"go/token"
	"go/types"

	"golang.org/x/tools/go/ssa"
)

// FuncInfo caches per-function CFG facts.
type FuncInfo struct {
	Fn      *ssa.Function
	n       int
	pdom    [][]bool // pdom[a][b] : b post-dominates a (b on every path from a to exit)
	reach   [][]bool // reach[a][b]: path a ->+ b (one or more edges)
	exitIdx int
}

var infoCache = map[*ssa.Function]*FuncInfo{}

func Info(fn *ssa.Function) *FuncInfo {
	if fi, ok := infoCache[fn]; ok {
		return fi
	}
	fi := build(fn)
	infoCache[fn] = fi
	return fi
}

func isExit(b *ssa.BasicBlock) bool {
	if len(b.Instrs) == 0 {
		return true
	}
	switch b.Instrs[len(b.Instrs)-1].(type) {
	case *ssa.Return, *ssa.Panic:
		return true
	}
	return len(b.Succs) == 0
}

func build(fn *ssa.Function) *FuncInfo {
	n := len(fn.Blocks)
	fi := &FuncInfo{Fn: fn, n: n, exitIdx: n}
	// post-dominators: PD(exit)={exit}; PD(b) = {b} ∪ ⋂ PD(succ); virtual exit = index n
	N := n + 1
	pd := make([][]bool, N)
	for i := range pd {
		pd[i] = make([]bool, N)
		for j := range pd[i] {
			pd[i][j] = true
		}
	}
	for j := range pd[n] {
		pd[n][j] = j == n
	}
	succs := func(b *ssa.BasicBlock) []int {
		var s []int
		for _, x := range b.Succs {
			s = append(s, x.Index)
		}
		if isExit(b) {
			s = append(s, n)
		}
		return s
	}
	changed := true
	for changed {
		changed = false
		for i := n - 1; i >= 0; i-- {
			b := fn.Blocks[i]
			ss := succs(b)
			nw := make([]bool, N)
			if len(ss) > 0 {
				for j := 0; j < N; j++ {
					nw[j] = true
					for _, s := range ss {
						if !pd[s][j] {
							nw[j] = false
							break
						}
					}
				}
			}
			nw[i] = true
			for j := 0; j < N; j++ {
				if nw[j] != pd[i][j] {
					changed = true
				}
			}
			pd[i] = nw
		}
	}
	fi.pdom = pd
	// reachability (transitive closure)
	rc := make([][]bool, n)
	for i := range rc {
		rc[i] = make([]bool, n)
	}
	for i, b := range fn.Blocks {
		stack := []*ssa.BasicBlock{}
		stack = append(stack, b.Succs...)
		for len(stack) > 0 {
			x := stack[len(stack)-1]
			stack = stack[:len(stack)-1]
			if rc[i][x.Index] {
				continue
			}
			rc[i][x.Index] = true
			stack = append(stack, x.Succs...)
		}
	}
	fi.reach = rc
	return fi
}

// PostDominates reports whether b is on every path from a to a function exit (b != a allowed).
func (fi *FuncInfo) PostDominates(b, a *ssa.BasicBlock) bool { return fi.pdom[a.Index][b.Index] }

// Reaches reports a path of >=1 edges from a to b.
func (fi *FuncInfo) Reaches(a, b *ssa.BasicBlock) bool { return fi.reach[a.Index][b.Index] }

// InLoop reports whether block b can reach itself.
func (fi *FuncInfo) InLoop(b *ssa.BasicBlock) bool { return fi.reach[b.Index][b.Index] }

// CtrlDep is one control dependence: block depends on edge (Branch -> Branch.Succs[Succ]).
type CtrlDep struct {
	Branch *ssa.BasicBlock
	Succ   int
}

// ControlDeps returns the direct control dependences of block b.
func (fi *FuncInfo) ControlDeps(b *ssa.BasicBlock) []CtrlDep {
	var out []CtrlDep
	for _, a := range fi.Fn.Blocks {
		if len(a.Succs) < 2 {
			continue
		}
		for si, s := range a.Succs {
			// b is control dependent on edge a->s iff b postdominates s (or b==s) and b does not strictly postdominate a
			if (s == b || fi.pdom[s.Index][b.Index]) && !(a != b && fi.pdom[a.Index][b.Index]) {
				out = append(out, CtrlDep{a, si})
			}
		}
	}
	return out
}

// TransitiveControlDeps returns the closure of ControlDeps.
func (fi *FuncInfo) TransitiveControlDeps(b *ssa.BasicBlock) []CtrlDep {
	seen := map[CtrlDep]bool{}
	var out []CtrlDep
	var walk func(x *ssa.BasicBlock)
	visited := map[*ssa.BasicBlock]bool{}
	walk = func(x *ssa.BasicBlock) {
		if visited[x] {
			return
		}
		visited[x] = true
		for _, d := range fi.ControlDeps(x) {
			if !seen[d] {
				seen[d] = true
				out = append(out, d)
			}
			walk(d.Branch)
		}
	}
	walk(b)
	return out
}

// Fact is a branch condition known to hold (Val=true) or not hold at a program point.
type Fact struct {
	Cond ssa.Value
	Val  bool
}

// DominatingFacts returns the conditions that are decided on every path to
// block b: for each dominator D of b ending in If(c), if the true successor
// (with D as its only predecessor) dominates b then c holds, if the false
// successor does then !c holds.
func DominatingFacts(b *ssa.BasicBlock) []Fact {
	var out []Fact
	for d := b.Idom(); d != nil; d = d.Idom() {
		iff, ok := d.Instrs[len(d.Instrs)-1].(*ssa.If)
		if !ok {
			continue
		}
		t, f := d.Succs[0], d.Succs[1]
		if t != f {
			if len(t.Preds) == 1 && t.Dominates(b) {
				out = addFact(out, iff.Cond, true)
			} else if len(f.Preds) == 1 && f.Dominates(b) {
				out = addFact(out, iff.Cond, false)
			}
		}
	}
	return out
}

// EdgeFacts: what is known when control passes from pred to succ: the facts dominating pred plus the outcome of
// pred's own branch.
func EdgeFacts(pred, succ *ssa.BasicBlock) []Fact {
	out := DominatingFacts(pred)
	if iff, ok := pred.Instrs[len(pred.Instrs)-1].(*ssa.If); ok && pred.Succs[0] != pred.Succs[1] {
		if pred.Succs[0] == succ {
			out = addFact(out, iff.Cond, true)
		} else if pred.Succs[1] == succ {
			out = addFact(out, iff.Cond, false)
		}
	}
	return out
}

// addFact records that cond has the value val, and what that says about x when cond is `!x`.
func addFact(out []Fact, cond ssa.Value, val bool) []Fact {
	out = append(out, Fact{cond, val})
	for i := 0; i < 4; i++ {
		u, ok := cond.(*ssa.UnOp)
		if !ok || u.Op != token.NOT {
			break
		}
		cond, val = u.X, !val
		out = append(out, Fact{cond, val})
	}
	return out
}

// InstrDominates reports whether instruction a executes before b on every path reaching b.
func InstrDominates(a, b ssa.Instruction) bool {
	if a.Block() == b.Block() {
		for _, in := range a.Block().Instrs {
			if in == a {
				return true
			}
			if in == b {
				return false
			}
		}
		return false
	}
	return a.Block().Dominates(b.Block())
}

// InstrIndex returns the index of in within its block.
func InstrIndex(in ssa.Instruction) int {
	for i, x := range in.Block().Instrs {
		if x == in {
			return i
		}
	}
	return -1
}

// IsNilConst / IsConstString helpers
func IsNilConst(v ssa.Value) bool {
	c, ok := v.(*ssa.Const)
	return ok && c.Value == nil && !isBasicZeroable(c.Type())
}

func isBasicZeroable(t types.Type) bool {
	_, ok := t.Underlying().(*types.Basic)
	return ok
}

// ConstString returns the string value of a constant string operand.
func ConstString(v ssa.Value) (string, bool) {
	c, ok := v.(*ssa.Const)
	if !ok || c.Value == nil {
		return "", false
	}
	if b, ok := c.Type().Underlying().(*types.Basic); ok && b.Info()&types.IsString != 0 {
		return constantStringVal(c), true
	}
	return "", false
}

// BinOpIs matches v as BinOp with the given operator.
func BinOpIs(v ssa.Value, op token.Token) (*ssa.BinOp, bool) {
	b, ok := v.(*ssa.BinOp)
	if !ok || b.Op != op {
		return nil, false
	}
	return b, true
}
