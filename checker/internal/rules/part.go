package rules

import (
	"fmt"
	"go/token"
	"golang.org/x/tools/go/ssa"
	"verifcheck/internal/prog"
	"verifcheck/internal/report"
)

// storedToField: the map value v is assigned to field `field` of some struct in fn.
func storedToField(fn *ssa.Function, v ssa.Value, field string) bool {
	for _, b := range fn.Blocks {
		for _, in := range b.Instrs {
			if st, ok := in.(*ssa.Store); ok && stripConv(st.Val) == stripConv(v) {
				if fa, ok := st.Addr.(*ssa.FieldAddr); ok && fieldName(fa) == field {
					return true
				}
			}
		}
	}
	return false
}

// PART: the enabled/disabled partition of services (C15).
func (c *Ctx) PART(rule string) []report.Obligation {
	var out []report.Obligation
	// ---- PART-1: WithProfiles
	if f := c.P.Func("types.(*Project).WithProfiles"); f != nil {
		loops := findMapLoops(f)
		good, why := false, "expected one range over AllServices() with one keyed store per branch of HasProfile"
		if len(loops) == 1 {
			l := loops[0]
			overAll := isCallTo(c, l.rng.X, "types.(*Project).AllServices")
			var ups []*ssa.MapUpdate
			for b := range l.region {
				for _, in := range b.Instrs {
					if mu, ok := in.(*ssa.MapUpdate); ok {
						ups = append(ups, mu)
					}
				}
			}
			if overAll && len(ups) == 2 && ups[0].Map != ups[1].Map && l.isIterKey(ups[0].Key) && l.isIterKey(ups[1].Key) {
				// the two stores sit on the two edges of the same HasProfile test
				sameIf := len(ups[0].Block().Preds) == 1 && len(ups[1].Block().Preds) == 1 && ups[0].Block().Preds[0] == ups[1].Block().Preds[0] && ups[0].Block() != ups[1].Block()
				if sameIf {
					d := ups[0].Block().Preds[0]
					iff, isIf := d.Instrs[len(d.Instrs)-1].(*ssa.If)
					if isIf && isCallTo(c, iff.Cond, "types.(ServiceConfig).HasProfile") {
						en, dis := ups[0], ups[1]
						if d.Succs[0] != en.Block() {
							en, dis = dis, en
						}
						if storedToField(f, en.Map, "Services") && storedToField(f, dis.Map, "DisabledServices") {
							good = true
						} else {
							why = "the map filled on the HasProfile edge is not the one assigned to Services (or the other to DisabledServices)"
						}
					}
				} else {
					why = "the two stores are not the two alternatives of one test: a service can be lost or land in both sets"
				}
			} else if !overAll {
				why = "the repartition does not start from AllServices() (enabled ∪ disabled)"
			}
		}
		out = append(out, verdict(good, rule+"-1", "WithProfiles :: every known service lands in exactly one set", c.P.Pos(f.Pos()),
			"range over AllServices(); the true edge of HasProfile stores into the map assigned to Services, the false edge into the one assigned to DisabledServices", why))
	} else {
		out = append(out, anchorViolation(rule+"-1", "types.(*Project).WithProfiles"))
	}
	// ---- PART-2 / DEP-1: WithServicesDisabled
	if f := c.P.Func("types.(*Project).WithServicesDisabled"); f != nil {
		var move *ssa.MapUpdate
		var del ssa.Instruction
		for _, b := range f.Blocks {
			for _, in := range b.Instrs {
				if mu, ok := in.(*ssa.MapUpdate); ok && loadedField(mu.Map) == "DisabledServices" {
					move = mu
				}
				if ci, ok := in.(ssa.CallInstruction); ok {
					if bi, ok := ci.Common().Value.(*ssa.Builtin); ok && bi.Name() == "delete" && loadedField(ci.Common().Args[0]) == "Services" {
						del = in
					}
				}
			}
		}
		good := move != nil && del != nil && move.Block() == del.Block() && prog.InstrIndex(move) < prog.InstrIndex(del) && sameKey(move.Key, del.(ssa.CallInstruction).Common().Args[1])
		if good {
			good = factHolds(move.Block(), func(cond ssa.Value, val bool) bool {
				ex, ok := cond.(*ssa.Extract)
				if !ok || ex.Index != 1 || !val {
					return false
				}
				lk, ok := ex.Tuple.(*ssa.Lookup)
				return ok && loadedField(lk.X) == "Services"
			})
		}
		out = append(out, verdict(good, rule+"-2", "WithServicesDisabled :: service moved, not dropped", c.P.Pos(f.Pos()),
			"DisabledServices[name] = service precedes delete(Services, name) in the block guarded by the lookup in Services", "a disabled service is deleted without being recorded in DisabledServices (or is recorded without being removed)"))
		// DEP-1: dependencies on the removed service are deleted in all remaining services
		dep := false
		for _, l := range findMapLoops(f) {
			if loadedField(l.rng.X) != "Services" {
				continue
			}
			for b := range l.region {
				for _, in := range b.Instrs {
					if ci, ok := in.(ssa.CallInstruction); ok {
						if bi, ok := ci.Common().Value.(*ssa.Builtin); ok && bi.Name() == "delete" && loadedField(ci.Common().Args[0]) == "DependsOn" {
							dep = true
						}
					}
				}
			}
		}
		out = append(out, verdict(dep, rule+"-DEP", "WithServicesDisabled :: dependencies on the removed service dropped everywhere", c.P.Pos(f.Pos()),
			"a range over all remaining Services deletes DependsOn[name]", "remaining services keep a depends_on entry for the removed service"))
		// ... for every name given, whether or not it is an enabled service: no iteration of the loop over the
		// names reaches the next one without running the range over Services
		for _, l := range findMapLoops(f) {
			if loadedField(l.rng.X) != "Services" {
				continue
			}
			skip := skipsBlock(f, l.rng.Block())
			if skip == "not inside a loop" {
				// interchanged nesting: for every remaining service, a loop over the names strips each of them
				skip = c.namesInsideServices(f, l)
			}
			// ... and the names iterated are the names given (the parameter itself, not a filtered copy)
			for b := range l.region {
				for _, in := range b.Instrs {
					ci, ok := in.(ssa.CallInstruction)
					if !ok {
						continue
					}
					bi, ok := ci.Common().Value.(*ssa.Builtin)
					if !ok || bi.Name() != "delete" || loadedField(ci.Common().Args[0]) != "DependsOn" {
						continue
					}
					fromParam := false
					if ld, ok := ci.Common().Args[1].(*ssa.UnOp); ok {
						if ia, ok := ld.X.(*ssa.IndexAddr); ok {
							_, fromParam = ia.X.(*ssa.Parameter)
						}
					}
					if !fromParam && skip == "" {
						skip = "the names whose dependencies are stripped are not read from the names parameter but from " + c.P.KeyTerm(ci.Common().Args[1], 3)
					}
				}
			}
			out = append(out, verdict(skip == "", rule+"-DEP", "WithServicesDisabled :: for every name given", c.P.InstrPos(l.rng),
				"every iteration over the names runs the range that strips the dependencies", "a name can be skipped before the dependencies on it are stripped ("+skip+"): services keep depending on a service that is not enabled"))
		}
	} else {
		out = append(out, anchorViolation(rule+"-2", "types.(*Project).WithServicesDisabled"))
	}
	// ---- PART-4: WithServicesEnabled re-partitions whenever names are given
	if f := c.P.Func("types.(*Project).WithServicesEnabled"); f != nil {
		wp := c.callsTo(f, "types.(*Project).WithProfiles")
		good := len(wp) >= 1
		var offending ssa.Instruction
		if good {
			for _, r := range returnsOf(f) {
				dominated := false
				for _, w := range wp {
					if prog.InstrDominates(w, r) {
						dominated = true
					}
				}
				if dominated {
					continue
				}
				// the only return that may skip the re-partition is the one taken when no name was given
				noNames := factHolds(r.Block(), func(cond ssa.Value, val bool) bool {
					bo, ok := cond.(*ssa.BinOp)
					if !ok {
						return false
					}
					call, ok := bo.X.(*ssa.Call)
					if !ok {
						return false
					}
					bi, isB := call.Call.Value.(*ssa.Builtin)
					if !isB || bi.Name() != "len" || len(f.Params) < 2 || call.Call.Args[0] != ssa.Value(f.Params[1]) {
						return false
					}
					k, isC := constInt(bo.Y)
					return isC && k == 0 && (bo.Op == token.EQL && val || bo.Op == token.NEQ && !val || bo.Op == token.GTR && !val)
				})
				if !noNames {
					good = false
					offending = r
				}
			}
		}
		pos := c.P.Pos(f.Pos())
		if offending != nil {
			pos = c.P.InstrPos(offending)
		}
		out = append(out, verdict(good, rule+"-4", "WithServicesEnabled :: services re-partitioned whenever a name is given", pos,
			"every return other than the no-name one is dominated by the WithProfiles call that re-partitions enabled and disabled services", "a return skips the re-partition although names were given: a service that was disabled explicitly (and has no profile) stays disabled without an error"))
	} else {
		out = append(out, anchorViolation(rule+"-4", "types.(*Project).WithServicesEnabled"))
	}
	// ---- PART-3: WithSelectedServices
	if f := c.P.Func("types.(*Project).WithSelectedServices"); f != nil {
		good := false
		for _, l := range findMapLoops(f) {
			if loadedField(l.rng.X) != "Services" {
				continue
			}
			var keep *ssa.MapUpdate
			var drop ssa.CallInstruction
			for b := range l.region {
				for _, in := range b.Instrs {
					if mu, ok := in.(*ssa.MapUpdate); ok && l.isIterKey(mu.Key) && isFreshMap(mu.Map, 3) {
						keep = mu
					}
					if ci, ok := in.(ssa.CallInstruction); ok && c.calleeID(ci.Common()) == "types.(*Project).WithServicesDisabled" {
						drop = ci
					}
				}
			}
			if keep == nil || drop == nil {
				continue
			}
			// opposite edges of one membership test
			var kd, dd *ssa.BasicBlock
			for d := keep.Block(); d != nil; d = d.Idom() {
				if _, isIf := d.Instrs[len(d.Instrs)-1].(*ssa.If); isIf && d.Dominates(drop.Block()) && d != keep.Block() {
					kd = d
					break
				}
			}
			dd = kd
			if kd != nil && dd != nil {
				iff := kd.Instrs[len(kd.Instrs)-1].(*ssa.If)
				ex, isEx := iff.Cond.(*ssa.Extract)
				if isEx && ex.Index == 1 {
					if _, isLk := ex.Tuple.(*ssa.Lookup); isLk {
						t, e := kd.Succs[0], kd.Succs[1]
						if (t == keep.Block() || t.Dominates(keep.Block())) && (e == drop.Block() || e.Dominates(drop.Block())) && storedToField(f, keep.Map, "Services") {
							good = true
						}
					}
				}
			}
		}
		// second shape: the names that are not selected are collected in the range over Services (on the
		// not-found edge of the lookup in the selected set) and handed to one WithServicesDisabled call
		if !good {
			for _, cs := range c.callsTo(f, "types.(*Project).WithServicesDisabled") {
				if len(cs.Common().Args) < 2 {
					continue
				}
				var app *ssa.Call
				scope := f // where the names are collected
				seen := map[ssa.Value]bool{}
				var find func(v ssa.Value, d int)
				find = func(v ssa.Value, d int) {
					if d == 0 || seen[v] || app != nil {
						return
					}
					seen[v] = true
					switch x := v.(type) {
					case *ssa.Phi:
						for _, e := range x.Edges {
							find(e, d-1)
						}
					case *ssa.Call:
						if bi, ok := x.Call.Value.(*ssa.Builtin); ok && bi.Name() == "append" {
							app = x
						} else if cal := x.Call.StaticCallee(); cal != nil && c.P.InModule(cal) && cal.Blocks != nil && d > 1 {
							// the names are collected by a helper: look at what it returns, in its own body
							for _, r := range returnsOf(cal) {
								if len(r.Results) > 0 {
									find(r.Results[0], d-1)
								}
							}
							if app != nil {
								scope = cal
							}
						}
					case *ssa.Slice:
						find(x.X, d-1)
					}
				}
				find(cs.Common().Args[1], 5)
				if app == nil {
					continue
				}
				// the names are also complete when they are read from ServiceNames() of the project
				if sl, ok := app.Call.Args[1].(*ssa.Slice); ok {
					if al, ok := sl.X.(*ssa.Alloc); ok {
						for _, r := range *al.Referrers() {
							ia, ok := r.(*ssa.IndexAddr)
							if !ok {
								continue
							}
							for _, rr := range *ia.Referrers() {
								st, ok := rr.(*ssa.Store)
								if !ok {
									continue
								}
								ld, ok := st.Val.(*ssa.UnOp)
								if !ok {
									continue
								}
								src, ok := ld.X.(*ssa.IndexAddr)
								if !ok {
									continue
								}
								if call, ok := src.X.(*ssa.Call); ok && c.calleeID(&call.Call) == "types.(*Project).ServiceNames" {
									notSel := factHolds(app.Block(), func(cond ssa.Value, val bool) bool {
										switch x := cond.(type) {
										case *ssa.Extract:
											lk, ok := x.Tuple.(*ssa.Lookup)
											return ok && x.Index == 1 && !val && lk.Index == ssa.Value(ld)
										case *ssa.Call:
											cal := x.Call.StaticCallee()
											return cal != nil && c.P.RefName(cal) == "Has" && !val && len(x.Call.Args) == 2 && x.Call.Args[1] == ssa.Value(ld)
										}
										return false
									})
									if notSel {
										good = true
									}
								}
							}
						}
					}
				}
				for _, l := range findMapLoops(scope) {
					if loadedField(l.rng.X) != "Services" || !l.region[app.Block()] {
						continue
					}
					// the appended element is the iteration key
					isKey := false
					if sl, ok := app.Call.Args[1].(*ssa.Slice); ok {
						if al, ok := sl.X.(*ssa.Alloc); ok {
							for _, r := range *al.Referrers() {
								if ia, ok := r.(*ssa.IndexAddr); ok {
									for _, rr := range *ia.Referrers() {
										if st, ok := rr.(*ssa.Store); ok && l.isIterKey(st.Val) {
											isKey = true
										}
									}
								}
							}
						}
					}
					notSelected := factHolds(app.Block(), func(cond ssa.Value, val bool) bool {
						if call, isCall := cond.(*ssa.Call); isCall {
							// the membership test of the set type: !selected.Has(name)
							cal := call.Call.StaticCallee()
							return cal != nil && c.P.RefName(cal) == "Has" && !val && len(call.Call.Args) == 2 && l.isIterKey(call.Call.Args[1])
						}
						ex, ok := cond.(*ssa.Extract)
						if !ok || ex.Index != 1 || val {
							return false
						}
						lk, ok := ex.Tuple.(*ssa.Lookup)
						return ok && l.isIterKey(lk.Index)
					})
					if isKey && notSelected {
						good = true
					}
				}
			}
		}
		out = append(out, verdict(good, rule+"-3", "WithSelectedServices :: each service kept or disabled", c.P.Pos(f.Pos()),
			"inside the range over Services every name that is not in the selected set is passed to WithServicesDisabled (directly, or collected and passed in one call); the others stay in Services", "a service that is not selected is neither kept nor moved to DisabledServices"))
	} else {
		out = append(out, anchorViolation(rule+"-3", "types.(*Project).WithSelectedServices"))
	}
	return out
}

var _ = report.Info

// skipsBlock: b lies in a loop; it returns "" when every path from the loop header back to the header passes
// through b, else a description of where the loop can go round without it. "not in a loop" when b is in none.
// namesInsideServices: the range l over Services is the outer loop. Every iteration of it runs a loop whose
// every iteration reaches delete(DependsOn, name) - or skips it only because the entry is absent.
func (c *Ctx) namesInsideServices(f *ssa.Function, l *mapLoop) string {
	var del ssa.Instruction
	for b := range l.region {
		for _, in := range b.Instrs {
			if ci, ok := in.(ssa.CallInstruction); ok {
				if bi, ok := ci.Common().Value.(*ssa.Builtin); ok && bi.Name() == "delete" && loadedField(ci.Common().Args[0]) == "DependsOn" {
					del = in
				}
			}
		}
	}
	if del == nil {
		return "not inside a loop"
	}
	h2, body2 := naturalLoop(f, del.Block())
	if h2 == nil || h2 == l.head || !l.region[h2] {
		return "not inside a loop"
	}
	// the inner loop is entered on every iteration of the range over Services
	outer := map[*ssa.BasicBlock]bool{l.head: true}
	for b := range l.region {
		outer[b] = true
	}
	if sk := loopSkip(l.head, outer, h2); sk != nil {
		return "the loop over the names can be skipped for a service, " + describeSkip(f, sk)
	}
	// every iteration of the inner loop deletes, unless the entry is absent
	if sk := loopSkip(h2, body2, del.Block()); sk != nil {
		absent := false
		if iff, ok := sk.Instrs[len(sk.Instrs)-1].(*ssa.If); ok {
			if ex, ok := iff.Cond.(*ssa.Extract); ok && ex.Index == 1 {
				if lk, ok := ex.Tuple.(*ssa.Lookup); ok && loadedField(lk.X) == "DependsOn" {
					absent = true
				}
			}
		}
		if !absent && sk != h2 {
			return "a name can be passed over, " + describeSkip(f, sk)
		}
	}
	return ""
}

func describeSkip(fn *ssa.Function, skip *ssa.BasicBlock) string {
	line := 0
	for i := len(skip.Instrs) - 1; i >= 0 && line == 0; i-- {
		line = fn.Prog.Fset.Position(skip.Instrs[i].Pos()).Line
	}
	return "through the block ending at line " + fmt.Sprint(line)
}

// loopSkip: a block of the loop (h, body) from which the header is reached again without passing b.
func loopSkip(h *ssa.BasicBlock, body map[*ssa.BasicBlock]bool, b *ssa.BasicBlock) *ssa.BasicBlock {
	seen := map[*ssa.BasicBlock]bool{}
	var skip *ssa.BasicBlock
	var dfs func(x *ssa.BasicBlock)
	dfs = func(x *ssa.BasicBlock) {
		if skip != nil || seen[x] || !body[x] || x == b {
			return
		}
		seen[x] = true
		for _, s := range x.Succs {
			if s == h {
				skip = x
				return
			}
			dfs(s)
		}
	}
	for _, s := range h.Succs {
		if s == h {
			skip = h
		}
		dfs(s)
	}
	return skip
}

func skipsBlock(fn *ssa.Function, b *ssa.BasicBlock) string {
	h, body := naturalLoop(fn, b)
	if h == nil {
		return "not inside a loop"
	}
	seen := map[*ssa.BasicBlock]bool{}
	var skip *ssa.BasicBlock
	var dfs func(x *ssa.BasicBlock)
	dfs = func(x *ssa.BasicBlock) {
		if skip != nil || seen[x] || !body[x] || x == b {
			return
		}
		seen[x] = true
		for _, s := range x.Succs {
			if s == h {
				skip = x
				return
			}
			dfs(s)
		}
	}
	for _, s := range h.Succs {
		if s == h {
			skip = h
		}
		dfs(s)
	}
	if skip == nil {
		return ""
	}
	line := 0
	for i := len(skip.Instrs) - 1; i >= 0 && line == 0; i-- {
		line = fn.Prog.Fset.Position(skip.Instrs[i].Pos()).Line
	}
	return "through the block ending at line " + fmt.Sprint(line)
}

// PARTFOUND (C15): the traversal behind ForEachService / WithSelectedServices tolerates a name that is not an
// enabled service when it is an optional dependency, and goes on with the services that were found. The lookup it
// ranges over must therefore hand back what it found together with the names it did not find: no return of that
// helper yields a nil service map. (Returning nothing as soon as one name is missing drops the siblings of an
// optional dependency on a disabled service, and their dependencies with them.)
func (c *Ctx) PARTFOUND(rule string) []report.Obligation {
	f := c.P.Func("types.(*Project).withServices")
	if f == nil {
		return []report.Obligation{anchorViolation(rule, "types.(*Project).withServices")}
	}
	var out []report.Obligation
	n := 0
	for _, l := range findMapLoops(f) {
		ex, ok := l.rng.X.(*ssa.Extract)
		if !ok || ex.Index != 0 {
			continue
		}
		call, ok := ex.Tuple.(*ssa.Call)
		if !ok {
			continue
		}
		h := call.Call.StaticCallee()
		if h == nil || !c.P.InModule(h) || h.Blocks == nil {
			continue
		}
		n++
		good, pos := true, c.P.Pos(h.Pos())
		for _, r := range returnsOf(h) {
			if prog.IsNilConst(retValue(r, 0)) {
				good, pos = false, c.P.InstrPos(r)
			}
		}
		out = append(out, verdict(good, rule, "withServices :: the services found are returned whatever else is missing", pos,
			"no return of "+c.P.FuncID(h)+" yields a nil service map", c.P.FuncID(h)+" returns no services at all on some path: withServices, which only refuses required names, then skips the services that were found (the siblings of an optional dependency on a disabled service, and everything they depend on)"))
	}
	if n == 0 {
		out = append(out, bad(rule, "withServices :: lookup of the named services", c.P.Pos(f.Pos()), "withServices does not range over the result of a lookup helper: the rule sees nothing"))
	}
	return out
}
