package rules

import (
	"go/types"

	"golang.org/x/tools/go/ssa"
	"verifcheck/internal/report"
)

// projectParam returns the index of the first parameter of type (*)types.Project, or -1.
func (c *Ctx) projectParam(f *ssa.Function) int {
	for i, pa := range f.Params {
		if c.isTypesNamed(pa.Type(), "Project") {
			return i
		}
	}
	return -1
}

func (c *Ctx) returnsProject(f *ssa.Function) bool {
	res := f.Signature.Results()
	for i := 0; i < res.Len(); i++ {
		if c.isTypesNamed(res.At(i).Type(), "Project") {
			return true
		}
	}
	return false
}

// DeriveTargets: every exported method of types.Project (found from the method
// set, so a new derivation is covered automatically) plus the graph entry points.
func (c *Ctx) DeriveTargets(rule string, out *[]report.Obligation) []immTarget {
	var ts []immTarget
	ms := c.P.MethodsOf("types", "Project", true)
	if len(ms) == 0 {
		*out = append(*out, anchorViolation(rule, "exported methods of types.Project"))
	}
	for _, f := range ms {
		ts = append(ts, immTarget{Fn: f, Src: 0, CheckRet: c.returnsProject(f), WhatSrc: "the receiver project", Callbacks: true})
	}
	for _, f := range c.P.ExportedFuncs("graph") {
		if i := c.projectParam(f); i >= 0 {
			ts = append(ts, immTarget{Fn: f, Src: i, WhatSrc: "the project argument", Callbacks: false})
		}
	}
	return ts
}

// IMMDerive runs I1/I2 over the derivations.
func (c *Ctx) IMMDerive(rule string) []report.Obligation {
	var out []report.Obligation
	ts := c.DeriveTargets(rule, &out)
	out = append(out, c.IMM(rule, ts)...)
	return out
}

var _ = types.Identical

// IMMGraph: the traversal entry points do not write through the *Project argument (TRV-9).
func (c *Ctx) IMMGraph(rule string) []report.Obligation {
	var ts []immTarget
	for _, f := range c.P.ExportedFuncs("graph") {
		if i := c.projectParam(f); i >= 0 {
			ts = append(ts, immTarget{Fn: f, Src: i, WhatSrc: "the project argument"})
		}
	}
	if len(ts) == 0 {
		return []report.Obligation{anchorViolation(rule, "exported functions of package graph taking a *types.Project")}
	}
	return c.IMM(rule, ts)
}

// IMMRender: the project renderers do not modify the project.
func (c *Ctx) IMMRender(rule string) []report.Obligation {
	var ts []immTarget
	for _, id := range []string{"types.(*Project).MarshalYAML", "types.(*Project).MarshalJSON"} {
		f := c.P.Func(id)
		if f == nil {
			return []report.Obligation{anchorViolation(rule, id)}
		}
		ts = append(ts, immTarget{Fn: f, Src: 0, WhatSrc: "the project being rendered"})
	}
	return c.IMM(rule, ts)
}

// Only keeps the obligations whose construct key starts with one of the prefixes.
func Only(obs []report.Obligation, prefixes ...string) []report.Obligation {
	var out []report.Obligation
	for _, o := range obs {
		for _, p := range prefixes {
			if len(o.Key) >= len(p) && o.Key[:len(p)] == p || o.Status == report.Violation && len(o.Key) > 7 && o.Key[:7] == "anchor " {
				out = append(out, o)
				break
			}
		}
	}
	return out
}

// OnlyRule keeps the obligations of the given rule ids (anchor failures are kept).
func OnlyRule(obs []report.Obligation, rules ...string) []report.Obligation {
	var out []report.Obligation
	for _, o := range obs {
		for _, r := range rules {
			if o.Rule == r || (o.Status == report.Violation && len(o.Key) > 7 && o.Key[:7] == "anchor ") {
				out = append(out, o)
				break
			}
		}
	}
	return out
}
