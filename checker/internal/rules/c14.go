package rules

import (
	"go/types"

	"golang.org/x/tools/go/ssa"
	"verifcheck/internal/report"
)

// projectParam returns the index of the first parameter of type (*)types.Project, or -1.
func (c *Ctx) projectParam(f *ssa.Function) int {
	for i, pa := range f.Params {
		if c.isTypesNamed(pa.Type(), "Project") {
			return i
		}
	}
	return -1
}

func (c *Ctx) returnsProject(f *ssa.Function) bool {
	res := f.Signature.Results()
	for i := 0; i < res.Len(); i++ {
		if c.isTypesNamed(res.At(i).Type(), "Project") {
			return true
		}
	}
	return false
}

// DeriveTargets: every exported method of types.Project (found from the method
// set, so a new derivation is covered automatically) plus the graph entry points.
func (c *Ctx) DeriveTargets(rule string, out *[]report.Obligation) []immTarget {
	var ts []immTarget
	ms := c.P.MethodsOf("types", "Project", true)
	if len(ms) == 0 {
		*out = append(*out, anchorViolation(rule, "exported methods of types.Project"))
	}
	for _, f := range ms {
		ts = append(ts, immTarget{Fn: f, Src: 0, CheckRet: c.returnsProject(f), WhatSrc: "the receiver project", Callbacks: true})
	}
	for _, f := range c.P.ExportedFuncs("graph") {
		if i := c.projectParam(f); i >= 0 {
			ts = append(ts, immTarget{Fn: f, Src: i, WhatSrc: "the project argument", Callbacks: false})
		}
	}
	return ts
}

// IMMDerive runs I1/I2 over the derivations.
func (c *Ctx) IMMDerive(rule string) []report.Obligation {
	var out []report.Obligation
	ts := c.DeriveTargets(rule, &out)
	out = append(out, c.IMM(rule, ts)...)
	return out
}

var _ = types.Identical
