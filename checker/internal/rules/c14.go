package rules

import (
	"fmt"
	"go/token"
	"go/types"
	"strings"

	"golang.org/x/tools/go/ssa"
	"verifcheck/internal/report"
)

// projectParam returns the index of the first parameter of type (*)types.Project, or -1.
func (c *Ctx) projectParam(f *ssa.Function) int {
	for i, pa := range f.Params {
		if c.isTypesNamed(pa.Type(), "Project") {
			return i
		}
	}
	return -1
}

func (c *Ctx) returnsProject(f *ssa.Function) bool {
	res := f.Signature.Results()
	for i := 0; i < res.Len(); i++ {
		if c.isTypesNamed(res.At(i).Type(), "Project") {
			return true
		}
	}
	return false
}

// DeriveTargets: every exported method of types.Project (found from the method
// set, so a new derivation is covered automatically) plus the graph entry points.
func (c *Ctx) DeriveTargets(rule string, out *[]report.Obligation) []immTarget {
	var ts []immTarget
	ms := c.P.MethodsOf("types", "Project", true)
	if len(ms) == 0 {
		*out = append(*out, anchorViolation(rule, "exported methods of types.Project"))
	}
	for _, f := range ms {
		ts = append(ts, immTarget{Fn: f, Src: 0, CheckRet: c.returnsProject(f), WhatSrc: "the receiver project", Callbacks: true})
		// a slice or map handed in by the caller is not stored into the result either: the caller (who may have
		// passed a field of the receiver) and the result would share it
		if c.returnsProject(f) {
			for i, pa := range f.Params {
				if i == 0 {
					continue
				}
				switch pa.Type().Underlying().(type) {
				case *types.Slice, *types.Map:
					ts = append(ts, immTarget{Fn: f, Src: i, CheckRet: true, WhatSrc: "the argument " + pa.Name()})
				}
			}
		}
	}
	for _, f := range c.P.ExportedFuncs("graph") {
		if i := c.projectParam(f); i >= 0 {
			ts = append(ts, immTarget{Fn: f, Src: i, WhatSrc: "the project argument", Callbacks: false})
		}
	}
	return ts
}

// IMMDerive runs I1/I2 over the derivations.
func (c *Ctx) IMMDerive(rule string) []report.Obligation {
	var out []report.Obligation
	ts := c.DeriveTargets(rule, &out)
	out = append(out, c.IMM(rule, ts)...)
	return out
}

var _ = types.Identical

// IMMGraph: the traversal entry points do not write through the *Project argument (TRV-9).
func (c *Ctx) IMMGraph(rule string) []report.Obligation {
	var ts []immTarget
	for _, f := range c.P.ExportedFuncs("graph") {
		if i := c.projectParam(f); i >= 0 {
			ts = append(ts, immTarget{Fn: f, Src: i, WhatSrc: "the project argument"})
		}
	}
	if len(ts) == 0 {
		return []report.Obligation{anchorViolation(rule, "exported functions of package graph taking a *types.Project")}
	}
	return c.IMM(rule, ts)
}

// IMMResolve: resolving env files / label files derives a new project and leaves the receiver as it was, so that
// a project can be resolved again (against another environment) from the same starting point (C16).
func (c *Ctx) IMMResolve(rule string) []report.Obligation {
	var ts []immTarget
	for _, id := range []string{"types.(Project).WithServicesEnvironmentResolved", "types.(Project).WithServicesLabelsResolved"} {
		f := c.P.Func(id)
		if f == nil {
			return []report.Obligation{anchorViolation(rule, id)}
		}
		ts = append(ts, immTarget{Fn: f, Src: 0, CheckRet: true, WhatSrc: "the receiver project"})
	}
	return c.IMM(rule, ts)
}

// IMMRender: the project renderers do not modify the project.
func (c *Ctx) IMMRender(rule string) []report.Obligation {
	var ts []immTarget
	for _, id := range []string{"types.(*Project).MarshalYAML", "types.(*Project).MarshalJSON"} {
		f := c.P.Func(id)
		if f == nil {
			return []report.Obligation{anchorViolation(rule, id)}
		}
		ts = append(ts, immTarget{Fn: f, Src: 0, WhatSrc: "the project being rendered"})
	}
	return c.IMM(rule, ts)
}

// Only keeps the obligations whose construct key starts with one of the prefixes.
func Only(obs []report.Obligation, prefixes ...string) []report.Obligation {
	var out []report.Obligation
	for _, o := range obs {
		for _, p := range prefixes {
			if len(o.Key) >= len(p) && o.Key[:len(p)] == p || o.Status == report.Violation && len(o.Key) > 7 && o.Key[:7] == "anchor " {
				out = append(out, o)
				break
			}
		}
	}
	return out
}

// Containing keeps the obligations whose construct contains one of the given texts (anchor failures are kept).
func Containing(obs []report.Obligation, texts ...string) []report.Obligation {
	var out []report.Obligation
	for _, o := range obs {
		for _, t := range texts {
			if strings.Contains(o.Key, t) || (o.Status == report.Violation && len(o.Key) > 7 && o.Key[:7] == "anchor ") {
				out = append(out, o)
				break
			}
		}
	}
	return out
}

// OnlyRule keeps the obligations of the given rule ids (anchor failures are kept).
func OnlyRule(obs []report.Obligation, rules ...string) []report.Obligation {
	var out []report.Obligation
	for _, o := range obs {
		for _, r := range rules {
			if o.Rule == r || (o.Status == report.Violation && len(o.Key) > 7 && o.Key[:7] == "anchor ") {
				out = append(out, o)
				break
			}
		}
	}
	return out
}

// INPUTS: a load does not write what the caller handed in, so the same ConfigDetails can be loaded again, or by
// several goroutines at once.
//
//	INPUTS-env   no map update / delete on the map held by ConfigDetails.Environment anywhere in package loader;
//	INPUTS-cfg   the pre-parsed tree ConfigFile.Config is only handed to the key-conversion function, and that
//	             function returns a new tree: it writes nothing through its argument and its result shares no map
//	             or slice with it (ownership analysis), so the in-place pipeline works on a copy.
func (c *Ctx) INPUTS(rule string) []report.Obligation {
	var out []report.Obligation
	isField := func(v ssa.Value, owner, field string) bool {
		ld, ok := v.(*ssa.UnOp)
		if !ok || ld.Op != token.MUL {
			return false
		}
		fa, ok := ld.X.(*ssa.FieldAddr)
		return ok && fieldName(fa) == field && fieldOwner(fa) == owner
	}
	nEnv, nCfg, nFiles := 0, 0, 0
	var conv *ssa.Function
	for _, fn := range c.P.Funcs {
		if !strings.HasPrefix(c.P.FuncID(fn), "loader.") {
			continue
		}
		for _, b := range fn.Blocks {
			for _, in := range b.Instrs {
				switch x := in.(type) {
				case *ssa.MapUpdate:
					if isField(x.Map, "ConfigDetails", "Environment") {
						nEnv++
						out = append(out, bad(rule+"-env", c.P.FuncID(fn)+" :: writes the caller's ConfigDetails.Environment", c.P.InstrPos(x),
							"the environment map handed in by the caller is written: the caller sees the change, a second load with the same ConfigDetails starts from it, and two concurrent loads sharing the map race"))
					}
				case ssa.CallInstruction:
					com := x.Common()
					if bi, ok := com.Value.(*ssa.Builtin); ok && bi.Name() == "delete" && isField(com.Args[0], "ConfigDetails", "Environment") {
						nEnv++
						out = append(out, bad(rule+"-env", c.P.FuncID(fn)+" :: deletes from the caller's ConfigDetails.Environment", c.P.InstrPos(in), "the environment map handed in by the caller is written"))
					}
				}
				// elements of the caller's ConfigFiles slice are read, never written (the slice is shared with the caller
				// although ConfigDetails is passed by value): bytes cached there make a later load of the same
				// ConfigDetails skip the disk, so a file that has gone missing is no longer reported
				if ia, ok := in.(*ssa.IndexAddr); ok && isField(ia.X, "ConfigDetails", "ConfigFiles") {
					if fa, isFA := ia.X.(*ssa.UnOp).X.(*ssa.FieldAddr); isFA {
						if al, own := fa.X.(*ssa.Alloc); own && al.Heap {
							continue // a ConfigDetails this function builds itself (LoadConfigFiles)
						}
					}
					nFiles++
					var wr string
					var visit func(addr ssa.Value, d int)
					visit = func(addr ssa.Value, d int) {
						if d == 0 || wr != "" {
							return
						}
						for _, r := range *addr.Referrers() {
							switch u := r.(type) {
							case *ssa.Store:
								if u.Addr == addr {
									wr = "store at " + c.P.InstrPos(u)
								} else {
									wr = "its address is stored at " + c.P.InstrPos(u)
								}
							case *ssa.FieldAddr:
								visit(u, d-1)
							case ssa.CallInstruction:
								cal := u.Common().StaticCallee()
								if cal == nil || !c.P.InModule(cal) {
									continue
								}
								for i, a := range u.Common().Args {
									if a == addr && i < len(cal.Params) {
										sum := c.imm().summary(cal, i)
										c.imm().solve()
										if sum.Writes {
											wr = "passed to " + c.P.FuncID(cal) + ", which writes through it (" + sum.WriteAt + ")"
										}
									}
								}
							}
						}
					}
					visit(ia, 3)
					out = append(out, verdict(wr == "", rule+"-files", c.P.FuncID(fn)+" :: an entry of the caller's ConfigFiles is only read", c.P.InstrPos(ia),
						"the element is loaded, nothing is stored through its address", "an entry of ConfigDetails.ConfigFiles, which shares its array with the caller's slice, is written ("+wr+"): what one load leaves there the next load of the same ConfigDetails takes for given - a compose file removed or changed in between is not read again, and its absence is not reported"))
				}
				// uses of ConfigFile.Config
				if v, ok := in.(ssa.Value); ok && isField(v, "ConfigFile", "Config") {
					for _, r := range *v.Referrers() {
						switch u := r.(type) {
						case *ssa.BinOp, *ssa.DebugRef:
						case *ssa.MakeInterface:
							for _, rr := range *u.Referrers() {
								nCfg++
								call, isCall := rr.(*ssa.Call)
								good := isCall && call.Call.StaticCallee() != nil && c.P.InModule(call.Call.StaticCallee())
								if good {
									conv = call.Call.StaticCallee()
								}
								// a closure call forwarding it (processRawYaml(file.Config)) is followed one level
								if isCall && call.Call.StaticCallee() == nil {
									if mc, isMC := call.Call.Value.(*ssa.MakeClosure); isMC {
										cl := mc.Fn.(*ssa.Function)
										if len(cl.Params) > 0 {
											good = true
											for _, pr := range *cl.Params[0].Referrers() {
												if cc, ok := pr.(*ssa.Call); ok && cc.Call.StaticCallee() != nil && c.P.InModule(cc.Call.StaticCallee()) {
													conv = cc.Call.StaticCallee()
												} else if _, isDbg := pr.(*ssa.DebugRef); !isDbg {
													good = false
												}
											}
										}
									}
								}
								out = append(out, verdict(good, rule+"-cfg", c.P.FuncID(fn)+" :: pre-parsed Config handed to the converting copy only", c.P.InstrPos(rr.(ssa.Instruction)),
									"the caller's tree is only passed to the key-conversion function", "the caller's pre-parsed tree is used directly by the in-place pipeline"))
							}
						default:
							nCfg++
							out = append(out, bad(rule+"-cfg", c.P.FuncID(fn)+" :: pre-parsed Config used as "+c.P.KeyTerm(r.(ssa.Value), 1), c.P.InstrPos(r), "the caller's pre-parsed tree is used directly"))
						}
					}
				}
			}
		}
	}
	if conv != nil {
		r := c.imm().analyse(conv, 0, true)
		c.imm().solve()
		r = c.imm().analyse(conv, 0, true)
		fresh := len(r.RetOwned) == 0 && len(r.Events) == 0
		why := "its result shares no map or slice with its argument and it writes nothing through it (ownership analysis)"
		if !fresh {
			why = "it returns (part of) its argument or writes through it"
			if len(r.Events) > 0 {
				why += ": " + r.Events[0].Kind + " at " + c.P.InstrPos(r.Events[0].Instr)
			}
		}
		out = append(out, verdict(fresh, rule+"-cfg", c.P.FuncID(conv)+" :: returns a new tree", c.P.Pos(conv.Pos()), why,
			why+": the pipeline (extends, canonical form, defaults, implicit names) then rewrites the caller's pre-parsed Config in place"))
	} else {
		out = append(out, bad(rule+"-cfg", "ConfigFile.Config :: converting copy", "", "no use of ConfigFile.Config found that hands it to a converting function: the rule sees nothing"))
	}
	out = append(out, report.Obligation{Rule: rule, Key: "inventory", Status: report.Discharged, Why: fmt.Sprintf("%d writes of ConfigDetails.Environment, %d uses of ConfigFile.Config, %d element addresses of ConfigDetails.ConfigFiles in package loader", nEnv, nCfg, nFiles)})
	return out
}

// DC: the generated deep copy knows every field. For each generated function deriveDeepCopy*(dst, src *T) with
// T a struct, every field of T is written in dst (stored, or its address handed to a nested copy): a field added
// to a model type without regenerating the copy is silently dropped by every derivation.
func (c *Ctx) DC(rule string) []report.Obligation {
	var out []report.Obligation
	n, nf := 0, 0
	for _, fn := range c.P.Funcs {
		if !strings.HasPrefix(c.P.FuncID(fn), "types.deriveDeepCopy") || len(fn.Params) != 2 || fn.Parent() != nil {
			continue
		}
		pt, ok := fn.Params[0].Type().(*types.Pointer)
		if !ok || !types.Identical(fn.Params[0].Type(), fn.Params[1].Type()) {
			continue
		}
		st, ok := pt.Elem().Underlying().(*types.Struct)
		if !ok {
			continue
		}
		n++
		touched := map[int]bool{}
		whole := false
		// dst itself, the cell it is spilled to when closures capture it, and the captured variable inside them
		isDst := func(v ssa.Value) bool {
			if v == ssa.Value(fn.Params[0]) {
				return true
			}
			if ld, ok := v.(*ssa.UnOp); ok && ld.Op == token.MUL {
				switch cell := ld.X.(type) {
				case *ssa.Alloc:
					for _, r := range *cell.Referrers() {
						if st, ok := r.(*ssa.Store); ok && st.Addr == ssa.Value(cell) && st.Val == ssa.Value(fn.Params[0]) {
							return true
						}
					}
				case *ssa.FreeVar:
					return cell.Name() == fn.Params[0].Name()
				}
			}
			return false
		}
		var scan func(f *ssa.Function)
		scan = func(f *ssa.Function) {
			for _, b := range f.Blocks {
				for _, in := range b.Instrs {
					switch x := in.(type) {
					case *ssa.FieldAddr:
						if isDst(x.X) {
							touched[x.Field] = true
						}
					case *ssa.Store:
						if isDst(x.Addr) {
							whole = true // *dst = *src (all fields scalar)
						}
					}
				}
			}
			for _, af := range f.AnonFuncs {
				scan(af)
			}
		}
		scan(fn)
		var missing []string
		for i := 0; i < st.NumFields(); i++ {
			nf++
			if !touched[i] && !whole {
				missing = append(missing, st.Field(i).Name())
			}
		}
		tn := types.TypeString(pt.Elem(), func(*types.Package) string { return "" })
		out = append(out, verdict(len(missing) == 0, rule, "deep copy of "+tn+" :: every field copied", c.P.Pos(fn.Pos()),
			fmt.Sprintf("all %d fields are written in the copy", st.NumFields()), "field(s) "+strings.Join(missing, ", ")+" of "+tn+" are not written by the generated deep copy ("+c.P.FuncID(fn)+"): every derivation returns a project without them"))
	}
	if n == 0 {
		out = append(out, bad(rule, "types :: generated deep copy", "", "no deriveDeepCopy function over a struct found: the rule sees nothing"))
	}
	c.Stats[rule+".fields"] = nf
	return out
}
