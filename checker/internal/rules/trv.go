package rules

import (
	"fmt"
	"go/token"
	"go/types"
	"sort"
	"strings"

	"golang.org/x/tools/go/ssa"
	"verifcheck/internal/prog"
	"verifcheck/internal/report"
)

// graphFunc finds the (single) instance or origin of a function of package graph by its base name.
func (c *Ctx) graphFuncs(base string) []*ssa.Function {
	var out []*ssa.Function
	for _, f := range c.P.Funcs {
		id := c.P.FuncID(f)
		if id == base || strings.HasPrefix(id, base+"[") {
			out = append(out, f)
		}
	}
	return out
}

// branchValues: for a function that selects between two alternatives on
// `t.<flag>` (if flag {A} else {B}), returns what is selected when the flag is
// true and when it is false. Alternatives are rendered as "field:<name>" or "call:<callee>".
func (c *Ctx) flagSelect(fn *ssa.Function, flag string) (whenTrue, whenFalse string, okk bool) {
	desc := func(v ssa.Value) string {
		switch x := v.(type) {
		case *ssa.UnOp:
			if f := loadedField(x); f != "" {
				return "field:" + f
			}
		case *ssa.Call:
			if cal := x.Call.StaticCallee(); cal != nil {
				n := cal.Name()
				if o := cal.Origin(); o != nil {
					n = o.Name()
				}
				return "call:" + n
			}
		}
		return ""
	}
	isFlag := func(v ssa.Value) bool { return loadedField(v) == flag }
	// form 1: phi(A, B) selected by If(flag)
	for _, b := range fn.Blocks {
		for _, in := range b.Instrs {
			phi, ok := in.(*ssa.Phi)
			if !ok || len(phi.Edges) != 2 {
				continue
			}
			for i, pred := range b.Preds {
				// find the deciding If among the dominators of pred (or pred itself)
				for d := pred; d != nil; d = d.Idom() {
					iff, ok := d.Instrs[len(d.Instrs)-1].(*ssa.If)
					if !ok || !isFlag(iff.Cond) {
						continue
					}
					// which branch of d leads to pred (or is pred == d with edge directly to b)?
					var val, known bool
					if d == pred {
						val, known = d.Succs[0] == b, true
					} else if d.Succs[0].Dominates(pred) {
						val, known = true, true
					} else if d.Succs[1].Dominates(pred) {
						val, known = false, true
					}
					if known {
						if val {
							whenTrue = desc(phi.Edges[i])
						} else {
							whenFalse = desc(phi.Edges[i])
						}
					}
					break
				}
			}
			if whenTrue != "" && whenFalse != "" {
				return whenTrue, whenFalse, true
			}
		}
	}
	// form 2: if flag { return A }; return B
	whenTrue, whenFalse = "", ""
	for _, r := range returnsOf(fn) {
		if len(r.Results) != 1 {
			continue
		}
		for _, f := range prog.DominatingFacts(r.Block()) {
			if isFlag(f.Cond) {
				if f.Val {
					whenTrue = desc(r.Results[0])
				} else {
					whenFalse = desc(r.Results[0])
				}
			}
		}
	}
	if whenTrue != "" && whenFalse != "" {
		return whenTrue, whenFalse, true
	}
	// form 3: the selection is made by a helper of the same package whose result is ranged over or returned here
	for _, b := range fn.Blocks {
		for _, in := range b.Instrs {
			call, ok := in.(*ssa.Call)
			if !ok {
				continue
			}
			cal := call.Call.StaticCallee()
			if cal == nil || cal == fn || cal.Blocks == nil || cal.Pkg != fn.Pkg && (cal.Origin() == nil || cal.Origin().Pkg != originOf(fn).Pkg) {
				continue
			}
			used := false
			for _, r := range *call.Referrers() {
				switch r.(type) {
				case *ssa.Range, *ssa.Return:
					used = true
				}
			}
			if !used {
				continue
			}
			if t, f, ok := c.flagSelect(cal, flag); ok {
				return t, f, true
			}
		}
	}
	return "", "", false
}

func originOf(f *ssa.Function) *ssa.Function {
	if o := f.Origin(); o != nil {
		return o
	}
	return f
}

// emptinessField: fn returns the vertices v with len(v.<field>) == 0; returns <field>.
func emptinessField(fn *ssa.Function) string {
	// the test may sit in a predicate literal handed to a shared filter
	for _, an := range fn.AnonFuncs {
		if f := emptinessField(an); f != "" {
			return f
		}
	}
	for _, b := range fn.Blocks {
		for _, in := range b.Instrs {
			bo, ok := in.(*ssa.BinOp)
			if !ok || bo.Op != token.EQL {
				continue
			}
			if n, isC := constInt(bo.Y); !isC || n != 0 {
				continue
			}
			if call, ok := bo.X.(*ssa.Call); ok {
				if bi, ok := call.Call.Value.(*ssa.Builtin); ok && bi.Name() == "len" {
					if f := loadedField(call.Call.Args[0]); f != "" {
						return f
					}
				}
			}
		}
	}
	return ""
}

// TRV: structure of the dependency-ordered traversal (C13).
func (c *Ctx) TRV(rule string) []report.Obligation {
	var out []report.Obligation
	one := func(base string) *ssa.Function {
		fs := c.graphFuncs(base)
		if len(fs) == 0 {
			out = append(out, anchorViolation(rule, base))
			return nil
		}
		return fs[0]
	}
	visit, ready, enter, done := one("graph.(*traversal).visit"), one("graph.(*traversal).ready"), one("graph.(*traversal).enter"), one("graph.(*traversal).done")
	walk, adj, ext := one("graph.walk"), one("graph.(*traversal).adjacentNodes"), one("graph.(*traversal).extremityNodes")
	collect := one("graph.CollectInDependencyOrder")
	roots, leaves := one("graph.(*graph).roots"), one("graph.(*graph).leaves")
	if visit == nil || ready == nil || enter == nil || done == nil || walk == nil || adj == nil || ext == nil || collect == nil || roots == nil || leaves == nil {
		return out
	}
	pos := func(f *ssa.Function) string { return c.P.Pos(f.Pos()) }

	// TRV-1: the spawn in visit is dominated by ready(node)==true and enter(node)==true
	sps := spawnsIn(visit)
	if len(sps) != 1 || sps[0].Closure == nil {
		out = append(out, bad(rule+"-1", "visit :: exactly one spawn", pos(visit), fmt.Sprintf("%d spawn sites in visit", len(sps))))
		return out
	}
	sp := sps[0]
	gate := func(callee *ssa.Function, name string) {
		holds := factHolds(sp.In.Block(), func(cond ssa.Value, val bool) bool {
			call, ok := cond.(*ssa.Call)
			return ok && call.Call.StaticCallee() == callee && val
		})
		out = append(out, verdict(holds, rule+"-1", "visit :: spawn gated by "+name, c.P.InstrPos(sp.In),
			"the spawn is reachable only on the true edge of "+name+"(node)",
			"the spawn is not dominated by a successful "+name+"(node): a vertex can be started before its dependencies finished / more than once"))
	}
	gate(ready, "ready")
	gate(enter, "enter")
	// ready is tested before enter (a vertex that is not ready must not be marked entered)
	rc, ec := c.callsOfFn(visit, ready), c.callsOfFn(visit, enter)
	out = append(out, verdict(len(rc) == 1 && len(ec) == 1 && prog.InstrDominates(rc[0], ec[0]), rule+"-1", "visit :: ready before enter", pos(visit),
		"enter(node) is evaluated only after ready(node)", "enter is not dominated by the ready test: an unready vertex would be marked entered and never visited"))

	// TRV-2: in the spawned closure: visitor ... done ... send, on every path
	cl := sp.Closure
	// the spawned closure may only hand over to a method that does the work (one call, whose result it returns)
	if cl != nil && len(cl.Blocks) == 1 {
		var only *ssa.Function
		ncalls := 0
		for _, in := range cl.Blocks[0].Instrs {
			if call, ok := in.(*ssa.Call); ok {
				ncalls++
				if cal := call.Call.StaticCallee(); cal != nil && c.P.InModule(cal) && cal.Blocks != nil {
					only = cal
				}
			}
		}
		if ncalls == 1 && only != nil {
			cl = only
		}
	}
	var visitorCall, doneCall ssa.Instruction
	var send *ssa.Send
	for _, b := range cl.Blocks {
		for _, in := range b.Instrs {
			switch x := in.(type) {
			case *ssa.Call:
				if x.Call.StaticCallee() == done {
					doneCall = in
				} else if x.Call.StaticCallee() == nil && !x.Call.IsInvoke() && loadedField(x.Call.Value) == c.trvRoles().visitor {
					visitorCall = in
				}
			case *ssa.Send:
				send = x
			}
		}
	}
	switch {
	case visitorCall == nil || doneCall == nil || send == nil:
		out = append(out, bad(rule+"-2", "visit$closure :: visitor, done, send present", pos(cl), "the spawned closure does not contain the visitor call, the done call and the hand-off send"))
	default:
		out = append(out, verdict(!reachesInstr(doneCall, visitorCall), rule+"-2", "visit$closure :: visitor before done", c.P.InstrPos(doneCall),
			"no path runs the visitor after done(node)", "done(node) can precede the visitor call: dependents may start while the visit still runs"))
		out = append(out, verdict(prog.InstrDominates(doneCall, send), rule+"-2", "visit$closure :: done before hand-off", c.P.InstrPos(send),
			"the send on the hand-off channel is dominated by done(node)", "the vertex is handed to the coordinator before done(node) recorded it as visited: its dependents are found not ready and never rescheduled"))
		allRets := true
		for _, r := range returnsOf(cl) {
			if !prog.InstrDominates(send, r) {
				allRets = false
			}
		}
		out = append(out, verdict(allRets, rule+"-2", "visit$closure :: hand-off on every exit", c.P.InstrPos(send),
			"every return of the closure is dominated by the send", "some exit of the closure skips the hand-off: the coordinator waits forever"))
	}

	// TRV-4: ready returns true only after the loop over all dependencies; false inside it on status != visited
	var trueRets, falseRets []*ssa.Return
	for _, r := range returnsOf(ready) {
		v := retValue(r, 0)
		if bv, isC := constBool(v); isC {
			if bv {
				trueRets = append(trueRets, r)
			} else {
				falseRets = append(falseRets, r)
			}
		} else {
			out = append(out, bad(rule+"-4", "ready :: constant results", c.P.InstrPos(r), "ready returns a computed value; the rule cannot classify it"))
		}
	}
	var rng *ssa.Range
	for _, b := range ready.Blocks {
		for _, in := range b.Instrs {
			if r, ok := in.(*ssa.Range); ok {
				rng = r
			}
		}
	}
	if rng == nil || len(trueRets) != 1 || len(falseRets) == 0 {
		out = append(out, bad(rule+"-4", "ready :: loop over dependencies", pos(ready), "expected one range over the dependency map, one `return true` and at least one `return false`"))
	} else {
		fi := prog.Info(ready)
		tr := trueRets[0]
		// the true return is outside the loop and dominated by the range
		out = append(out, verdict(prog.InstrDominates(rng, tr) && !fi.InLoop(tr.Block()), rule+"-4", "ready :: true only after the whole loop", c.P.InstrPos(tr),
			"`return true` lies after the range over all dependencies", "`return true` can be reached before all dependencies were inspected"))
		okFalse := true
		for _, fr := range falseRets {
			cd := false
			for _, d := range fi.TransitiveControlDeps(fr.Block()) {
				iff, isIf := d.Branch.Instrs[len(d.Branch.Instrs)-1].(*ssa.If)
				if !isIf {
					continue
				}
				if bo, isB := iff.Cond.(*ssa.BinOp); isB && (bo.Op == token.NEQ || bo.Op == token.EQL) {
					if lk, isL := bo.X.(*ssa.Lookup); isL && loadedField(lk.X) == c.trvRoles().status {
						if n, isC := constInt(bo.Y); isC && n == 1 {
							cd = true
						}
					}
				}
			}
			if !cd {
				okFalse = false
			}
		}
		out = append(out, verdict(okFalse, rule+"-4", "ready :: false iff a dependency is not visited", pos(ready),
			"every `return false` is control dependent on status[dep] != vertexVisited", "a `return false` does not depend on the comparison of status[dep] with vertexVisited"))
		// the map ranged over is the dependency set chosen by direction
		dT, dF, okSel := c.flagSelect(ready, c.trvRoles().inverse)
		nT, nF, okAdj := c.flagSelect(adj, c.trvRoles().inverse)
		sT, sF, okExt := c.flagSelect(ext, c.trvRoles().inverse)
		if !okSel || !okAdj || !okExt {
			out = append(out, bad(rule+"-4", "direction tables", pos(ready), fmt.Sprintf("cannot read the inverse/forward selection of ready (%v), adjacentNodes (%v), extremityNodes (%v)", okSel, okAdj, okExt)))
		} else {
			startField := map[string]string{"call:roots": emptinessField(roots), "call:leaves": emptinessField(leaves)}
			desc := fmt.Sprintf("inverse: deps=%s next=%s start=%s(%s empty); forward: deps=%s next=%s start=%s(%s empty)", dT, nT, sT, startField[sT], dF, nF, sF, startField[sF])
			good := dT != dF && nT != nF && dT == nF && dF == nT && // deps and next are mirror images
				"field:"+startField[sT] == dT && "field:"+startField[sF] == dF // start = vertices without dependencies
			out = append(out, verdict(good, rule+"-4", "direction tables agree", pos(adj), desc,
				"the direction tables disagree ("+desc+"): dependencies, successors and start vertices must be mirror images"))
		}
	}

	// TRV-5: vertexVisited is stored only in done; enter is test-and-set
	for _, f := range c.P.Funcs {
		if !strings.HasPrefix(c.P.FuncID(f), "graph.") {
			continue
		}
		for _, b := range f.Blocks {
			for _, in := range b.Instrs {
				mu, ok := in.(*ssa.MapUpdate)
				if !ok || loadedField(mu.Map) != c.trvRoles().status {
					continue
				}
				n, isC := constInt(mu.Value)
				key := "status store in " + c.P.FuncID(f)
				switch {
				case !isC:
					out = append(out, bad(rule+"-5", key, c.P.InstrPos(in), "non-constant status value"))
				case n == 1:
					out = append(out, verdict(f == done, rule+"-5", key, c.P.InstrPos(in), "vertexVisited is recorded in done", "vertexVisited is recorded outside done: a vertex can appear finished before its visitor returned"))
				default:
					out = append(out, verdict(f == enter, rule+"-5", key, c.P.InstrPos(in), "vertexEntered is recorded in enter", "status is written outside enter/done"))
				}
			}
		}
	}
	// enter: the store is control dependent on the lookup's !ok and both are in one critical section (R3 covers the lock)
	tas := false
	for _, b := range enter.Blocks {
		for _, in := range b.Instrs {
			if mu, ok := in.(*ssa.MapUpdate); ok && loadedField(mu.Map) == c.trvRoles().status {
				tas = factHolds(b, func(cond ssa.Value, val bool) bool {
					ex, ok := cond.(*ssa.Extract)
					if !ok || ex.Index != 1 || val {
						return false
					}
					lk, ok := ex.Tuple.(*ssa.Lookup)
					return ok && loadedField(lk.X) == c.trvRoles().status
				})
			}
		}
	}
	out = append(out, verdict(tas, rule+"-5", "enter :: test-and-set", pos(enter), "status[key] is written only on the absent edge of the lookup, inside the same critical section",
		"enter does not test absence before marking the vertex: a vertex can be entered twice"))

	// TRV-7: the cycle error of newGraph returns before walk
	ng := c.callsTo(collect, "graph.newGraph")
	wk := c.callsTo(collect, "graph.walk")
	if len(ng) != 1 || len(wk) != 1 {
		out = append(out, bad(rule+"-7", "CollectInDependencyOrder :: newGraph then walk", pos(collect), "expected one call to newGraph and one to walk"))
	} else {
		errNil := factHolds(wk[0].Block(), func(cond ssa.Value, val bool) bool {
			bo, ok := cond.(*ssa.BinOp)
			if !ok {
				return false
			}
			ex, ok := bo.X.(*ssa.Extract)
			if !ok || ex.Tuple != ng[0].(ssa.Value) || !prog.IsNilConst(bo.Y) {
				return false
			}
			return (bo.Op == token.EQL) == val
		})
		out = append(out, verdict(errNil, rule+"-7", "CollectInDependencyOrder :: cycle refused before any visit", c.P.InstrPos(wk[0]),
			"walk is reachable only when newGraph (which ends in checkCycle) returned no error", "walk is not guarded by newGraph's error: a cyclic graph is traversed"))
		ngf := one("graph.newGraph")
		if ngf != nil {
			cc := c.callsTo(ngf, "graph.(*graph).checkCycle")
			okc := len(cc) == 1
			if okc {
				for _, r := range returnsOf(ngf) {
					// every return that follows the edge-building loop carries checkCycle's error or an earlier error
					_ = r
				}
			}
			out = append(out, verdict(okc, rule+"-7", "newGraph :: checkCycle", pos(ngf), "newGraph calls checkCycle and returns its error", "newGraph does not call checkCycle"))
		}
	}

	// TRV-10: errgroup limit = maxConcurrency + number of spawned closures in walk that are not visits (the coordinator)
	sl := callSites(walk, func(com *ssa.CallCommon) bool { return staticName(com) == errgroupSetLimit })
	coord := len(spawnsIn(walk))
	if len(sl) != 1 {
		out = append(out, bad(rule+"-10", "walk :: SetLimit", pos(walk), "expected exactly one SetLimit call"))
	} else {
		arg := sl[0].Common().Args[1]
		good := false
		desc := c.P.Term(arg, 4)
		if bo, ok := arg.(*ssa.BinOp); ok && bo.Op == token.ADD {
			if n, isC := constInt(bo.Y); isC && int(n) == coord && loadedField(bo.X) == c.trvRoles().maxConc {
				good = true
			}
		}
		gated := factHolds(sl[0].Block(), func(cond ssa.Value, val bool) bool {
			bo, ok := cond.(*ssa.BinOp)
			return ok && val && bo.Op == token.GTR && loadedField(bo.X) == c.trvRoles().maxConc
		})
		out = append(out, verdict(good && gated, rule+"-10", "walk :: limit = maxConcurrency + coordinators", c.P.InstrPos(sl[0]),
			fmt.Sprintf("SetLimit(%s) with %d non-visit closure(s) spawned by walk, applied only when maxConcurrency > 0", desc, coord),
			fmt.Sprintf("SetLimit(%s) but walk itself spawns %d coordinator closure(s) on the same group: visitors get fewer (deadlock at limit 1) or more slots than configured", desc, coord)))
	}
	// TRV-8 (coordinator): expect is decremented once per received vertex and the coordinator stops at zero
	return out
}

// callsOfFn: calls in fn whose static callee is exactly callee.
func (c *Ctx) callsOfFn(fn, callee *ssa.Function) []ssa.CallInstruction {
	return callSites(fn, func(com *ssa.CallCommon) bool { return com.StaticCallee() == callee })
}

// ROnly: fields of the given struct types are written only in functions that
// are not reachable from the concurrent region (entry functions).
func (c *Ctx) ROnly(rule string, pkg string, region []string, exemptFields map[string]bool) []report.Obligation {
	var out []report.Obligation
	var roots []*ssa.Function
	for _, id := range region {
		fs := c.graphFuncs(id)
		if len(fs) == 0 {
			out = append(out, anchorViolation(rule, id))
		}
		roots = append(roots, fs...)
	}
	reach := c.P.Reachable(roots)
	writers := map[string][]string{}
	guardedW := map[string]bool{}
	for _, f := range c.P.Funcs {
		for _, b := range f.Blocks {
			for _, in := range b.Instrs {
				st, ok := in.(*ssa.Store)
				var fa *ssa.FieldAddr
				if ok {
					fa, _ = st.Addr.(*ssa.FieldAddr)
				}
				if mu, isMU := in.(*ssa.MapUpdate); isMU {
					if u, isU := mu.Map.(*ssa.UnOp); isU {
						fa, _ = u.X.(*ssa.FieldAddr)
					}
				}
				if fa == nil {
					continue
				}
				pt := fa.X.Type().Underlying().(*types.Pointer).Elem()
				n, isNamed := pt.(*types.Named)
				if !isNamed || n.Obj().Pkg() == nil || c.P.Rel(n.Obj().Pkg()) != pkg {
					continue
				}
				k := n.Obj().Name() + "." + fieldName(fa)
				if exemptFields[k] {
					continue
				}
				if _, fresh := fa.X.(*ssa.Alloc); fresh {
					continue // building a new value
				}
				if reach.Set[f] {
					if held := lockedFields(f, in); len(held) > 0 {
						guardedW[k] = true // written under a mutex: R3's business, but the field is mutable during the walk
						if writers[k] == nil {
							writers[k] = []string{}
						}
						continue
					}
					writers[k] = append(writers[k], c.P.FuncID(f)+" ("+c.P.InstrPos(in)+")")
				} else if writers[k] == nil {
					writers[k] = []string{}
				}
			}
		}
	}
	var ks []string
	for k := range writers {
		ks = append(ks, k)
	}
	sort.Strings(ks)
	c.mutableDuringWalk = map[string]bool{}
	for k := range exemptFields {
		c.mutableDuringWalk[k] = true
	}
	for k := range guardedW {
		c.mutableDuringWalk[k] = true
	}
	for _, k := range ks {
		w := writers[k]
		if guardedW[k] && len(w) == 0 {
			out = append(out, ok(rule, pkg+"."+k+" :: written in the concurrent phase only under the mutex", "", "every write reachable from "+strings.Join(region, ", ")+" holds the struct's mutex (lock discipline is R3's obligation)"))
			continue
		}
		out = append(out, verdict(len(w) == 0, rule, pkg+"."+k+" :: not written in the concurrent phase", "",
			"written only by functions that are not reachable from "+strings.Join(region, ", "),
			"written by "+strings.Join(w, ", ")+" which runs concurrently with the visitors"))
	}
	if len(ks) == 0 {
		out = append(out, ok(rule, pkg+" :: no field writes outside constructors", "", "no struct field of package "+pkg+" is written outside freshly allocated values"))
	}
	return out
}

var _ = report.Info

// TRVSkip (TRV-11): whether a vertex is skipped must not depend on the schedule:
// the function that decides it reads no field that is written while the walk is
// running (status, results, or any other mutex-guarded field). Otherwise "visited
// once for each root and each service that depends on one" would hold only for
// some completion orders / directions.
func (c *Ctx) TRVSkip(rule string) []report.Obligation {
	var out []report.Obligation
	fs := c.graphFuncs("graph.(*traversal).skip")
	if len(fs) == 0 {
		return []report.Obligation{anchorViolation(rule, "graph.(*traversal).skip")}
	}
	if c.mutableDuringWalk == nil {
		c.ROnly("RONLY", "graph", []string{"graph.walk"}, map[string]bool{"traversal.status": true, "traversal.results": true})
	}
	skip := fs[0]
	reach := c.P.Reachable([]*ssa.Function{skip})
	var bad2 []string
	for f := range reach.Set {
		for _, b := range f.Blocks {
			for _, in := range b.Instrs {
				if fa, ok := in.(*ssa.FieldAddr); ok {
					k := fieldOwner(fa) + "." + fieldName(fa)
					if c.mutableDuringWalk[k] {
						bad2 = append(bad2, k+" ("+c.P.InstrPos(in)+")")
					}
				}
			}
		}
	}
	sort.Strings(bad2)
	out = append(out, verdict(len(bad2) == 0, rule, "skip :: decision independent of traversal progress", c.P.Pos(skip.Pos()),
		"skip and what it calls read only the options and the immutable graph structure", "the skip decision reads state that changes during the walk: "+strings.Join(bad2, ", ")+"; which vertices are visited then depends on direction and completion order"))
	return out
}

// TRVCount (TRV-8): the coordinator of walk terminates exactly when every vertex
// was handed over: its counter starts at len(vertices), is decremented by one
// per received vertex (once, in the receive arm of the select), and the
// coordinator returns when it reaches zero.
func (c *Ctx) TRVCount(rule string) []report.Obligation {
	var out []report.Obligation
	ws := c.graphFuncs("graph.walk")
	if len(ws) == 0 {
		return []report.Obligation{anchorViolation(rule, "graph.walk")}
	}
	walk := ws[0]
	sps := spawnsIn(walk)
	if len(sps) != 1 || sps[0].Closure == nil {
		return []report.Obligation{bad(rule, "walk :: one coordinator closure", c.P.Pos(walk.Pos()), fmt.Sprintf("%d closures spawned by walk", len(sps)))}
	}
	co := sps[0].Closure
	// the counter: a captured cell of integer type that the closure stores to
	var cell *ssa.FreeVar
	var decs []*ssa.Store
	for _, b := range co.Blocks {
		for _, in := range b.Instrs {
			st, ok := in.(*ssa.Store)
			if !ok {
				continue
			}
			fv, ok := st.Addr.(*ssa.FreeVar)
			if !ok || !isIntType(fv.Type().(*types.Pointer).Elem()) {
				continue
			}
			cell = fv
			decs = append(decs, st)
		}
	}
	if cell == nil {
		if obs := c.trvCountDelegated(rule, walk, co); obs != nil {
			return obs
		}
		return []report.Obligation{bad(rule, "walk$coordinator :: counter", c.P.Pos(co.Pos()), "the coordinator does not update a captured integer counter")}
	}
	okDec := len(decs) == 1
	if okDec {
		bo, isB := decs[0].Val.(*ssa.BinOp)
		okDec = isB && bo.Op == token.SUB
		if okDec {
			k, isC := constInt(bo.Y)
			u, isU := bo.X.(*ssa.UnOp)
			okDec = isC && k == 1 && isU && u.X == ssa.Value(cell)
		}
	}
	// in the receive arm: the store's block is control dependent on the select's chosen index
	inRecv := false
	if okDec {
		for _, d := range prog.Info(co).TransitiveControlDeps(decs[0].Block()) {
			if iff, ok := d.Branch.Instrs[len(d.Branch.Instrs)-1].(*ssa.If); ok {
				if bo, ok := iff.Cond.(*ssa.BinOp); ok {
					if ex, ok := bo.X.(*ssa.Extract); ok {
						if _, isSel := ex.Tuple.(*ssa.Select); isSel && ex.Index == 0 {
							inRecv = true
						}
					}
				}
			}
		}
	}
	out = append(out, verdict(okDec && inRecv, rule, "walk$coordinator :: one decrement per received vertex", c.P.Pos(co.Pos()),
		"the captured counter is decremented by exactly 1, once, in the receive arm of the select", "the coordinator's counter is not decremented exactly once per received vertex: it stops early (visits are abandoned) or never (walk hangs)"))
	// returns when zero
	zero := false
	for _, r := range returnsOf(co) {
		if factHolds(r.Block(), func(cond ssa.Value, val bool) bool {
			bo, ok := cond.(*ssa.BinOp)
			if !ok {
				return false
			}
			k, isC := constInt(bo.Y)
			if !isC || !isCounter(bo.X, cell) {
				return false
			}
			// every spelling of "the counter is zero" for a counter that only counts down from a positive value
			switch {
			case val && (bo.Op == token.EQL || bo.Op == token.LEQ) && k == 0, val && bo.Op == token.LSS && k == 1:
				return true
			case !val && (bo.Op == token.NEQ || bo.Op == token.GTR) && k == 0, !val && bo.Op == token.GEQ && k == 1:
				return true
			}
			return false
		}) {
			zero = true
		}
	}
	out = append(out, verdict(zero, rule, "walk$coordinator :: stops when the counter reaches zero", c.P.Pos(co.Pos()),
		"a return of the coordinator lies on the `counter == 0` edge", "the coordinator does not stop when every vertex was handed over"))
	// initial value = len(g.vertices)
	init := false
	if bd, ok := c.bindingOf(cell).(*ssa.Alloc); ok {
		for _, r := range *bd.Referrers() {
			if st, ok := r.(*ssa.Store); ok && st.Addr == ssa.Value(bd) && derivedFromLen(st.Val, 3) {
				if call, ok := st.Val.(*ssa.Call); ok && loadedField(call.Call.Args[0]) == c.trvRoles().vertices {
					init = true
				}
			}
		}
	}
	out = append(out, verdict(init, rule, "walk :: counter starts at the number of vertices", c.P.Pos(walk.Pos()),
		"expect := len(g.vertices)", "the counter is not initialised with the number of vertices"))
	return out
}

// isCounter reports whether v is the value of the captured counter cell: a load
// of it, or the decremented value just stored to it.
func isCounter(v ssa.Value, cell *ssa.FreeVar) bool {
	switch v := v.(type) {
	case *ssa.UnOp:
		return v.Op == token.MUL && v.X == ssa.Value(cell)
	case *ssa.BinOp:
		if v.Op == token.SUB {
			for _, r := range *v.Referrers() {
				if st, ok := r.(*ssa.Store); ok && st.Addr == ssa.Value(cell) && st.Val == ssa.Value(v) {
					return true
				}
			}
		}
	}
	return false
}

// trvRoles resolves the fields the traversal rules talk about by their type and position in the structs of package
// graph, not by name: the struct with a sync.Mutex is the traversal state; its map[string]int field is the status
// table, its function-typed field the visitor; the struct it embeds holds the options (the bool is the direction,
// the int the concurrency limit); the graph is the struct with a map of vertex pointers.
type trvRoleNames struct{ status, visitor, inverse, maxConc, vertices string }

func (c *Ctx) trvRoles() *trvRoleNames {
	if c.trvRoleCache != nil {
		return c.trvRoleCache
	}
	r := &trvRoleNames{status: "status", visitor: "visitor", inverse: "inverse", maxConc: "maxConcurrency", vertices: "vertices"}
	c.trvRoleCache = r
	pk := c.P.PkgByRel["graph"]
	if pk == nil {
		return r
	}
	scope := pk.Types.Scope()
	for _, name := range scope.Names() {
		tn, ok := scope.Lookup(name).(*types.TypeName)
		if !ok {
			continue
		}
		st, ok := tn.Type().Underlying().(*types.Struct)
		if !ok {
			continue
		}
		hasMutex := false
		for i := 0; i < st.NumFields(); i++ {
			if isSyncType(st.Field(i).Type()) {
				hasMutex = true
			}
		}
		if hasMutex {
			for i := 0; i < st.NumFields(); i++ {
				f := st.Field(i)
				switch ft := f.Type().Underlying().(type) {
				case *types.Map:
					if isIntType(ft.Elem()) {
						r.status = refFieldName(tn.Type(), st, i)
					}
				case *types.Signature:
					r.visitor = refFieldName(tn.Type(), st, i)
				case *types.Pointer:
					if ost, ok := ft.Elem().Underlying().(*types.Struct); ok && f.Embedded() {
						for j := 0; j < ost.NumFields(); j++ {
							of := ost.Field(j)
							if bt, ok := of.Type().Underlying().(*types.Basic); ok {
								switch {
								case bt.Kind() == types.Bool:
									r.inverse = refFieldName(ft.Elem(), ost, j)
								case bt.Info()&types.IsInteger != 0:
									r.maxConc = refFieldName(ft.Elem(), ost, j)
								}
							}
						}
					}
				}
			}
			continue
		}
		for i := 0; i < st.NumFields(); i++ {
			f := st.Field(i)
			if mt, ok := f.Type().Underlying().(*types.Map); ok && st.NumFields() == 1 {
				if _, isPtr := mt.Elem().Underlying().(*types.Pointer); isPtr {
					r.vertices = refFieldName(tn.Type(), st, i)
				}
			}
		}
	}
	return r
}

// trvCountDelegated: the coordinator closure hands its work to a function of the package and passes the number of
// vertices as an argument; the counter is then that function's parameter, carried round its loop.
func (c *Ctx) trvCountDelegated(rule string, walk, co *ssa.Function) []report.Obligation {
	var out []report.Obligation
	var g *ssa.Function
	var arg ssa.Value
	var param *ssa.Parameter
	for _, cs := range callSites(co, func(com *ssa.CallCommon) bool {
		cal := com.StaticCallee()
		return cal != nil && c.P.InModule(cal) && cal.Blocks != nil
	}) {
		cal := cs.Common().StaticCallee()
		for i, a := range cs.Common().Args {
			if isIntType(a.Type()) && i < len(cal.Params) {
				g, arg, param = cal, a, cal.Params[i]
			}
		}
	}
	if g == nil {
		return nil
	}
	// the loop-carried counter: phi(param, phi - 1)
	var ph *ssa.Phi
	var dec *ssa.BinOp
	for _, b := range g.Blocks {
		for _, in := range b.Instrs {
			x, ok := in.(*ssa.Phi)
			if !ok || !isIntType(x.Type()) {
				continue
			}
			fromParam := false
			var d *ssa.BinOp
			nOther := 0
			for _, e := range x.Edges {
				switch {
				case e == ssa.Value(param):
					fromParam = true
				case e == ssa.Value(x):
				default:
					if bo, isB := e.(*ssa.BinOp); isB && bo.Op == token.SUB && bo.X == ssa.Value(x) {
						if k, isC := constInt(bo.Y); isC && k == 1 {
							d = bo
							continue
						}
					}
					nOther++
				}
			}
			if fromParam && d != nil && nOther == 0 {
				ph, dec = x, d
			}
		}
	}
	if ph == nil {
		return nil
	}
	inRecv := false
	for _, d := range prog.Info(g).TransitiveControlDeps(dec.Block()) {
		if iff, ok := d.Branch.Instrs[len(d.Branch.Instrs)-1].(*ssa.If); ok {
			if bo, ok := iff.Cond.(*ssa.BinOp); ok {
				if ex, ok := bo.X.(*ssa.Extract); ok {
					if _, isSel := ex.Tuple.(*ssa.Select); isSel && ex.Index == 0 {
						inRecv = true
					}
				}
			}
		}
	}
	out = append(out, verdict(inRecv, rule, "walk$coordinator :: one decrement per received vertex", c.P.Pos(g.Pos()),
		"the counter parameter of "+c.P.FuncID(g)+" is decremented by exactly 1, once per turn, in the receive arm of the select", "the coordinator's counter is not decremented exactly once per received vertex: it stops early (visits are abandoned) or never (walk hangs)"))
	zero := false
	for _, r := range returnsOf(g) {
		if factHolds(r.Block(), func(cond ssa.Value, val bool) bool {
			bo, ok := cond.(*ssa.BinOp)
			if !ok || (bo.X != ssa.Value(dec) && bo.X != ssa.Value(ph)) {
				return false
			}
			k, isC := constInt(bo.Y)
			if !isC {
				return false
			}
			switch {
			case val && (bo.Op == token.EQL || bo.Op == token.LEQ) && k == 0, val && bo.Op == token.LSS && k == 1:
				return true
			case !val && (bo.Op == token.NEQ || bo.Op == token.GTR) && k == 0, !val && bo.Op == token.GEQ && k == 1:
				return true
			}
			return false
		}) {
			zero = true
		}
	}
	out = append(out, verdict(zero, rule, "walk$coordinator :: stops when the counter reaches zero", c.P.Pos(g.Pos()),
		"a return of "+c.P.FuncID(g)+" lies on the `counter == 0` edge", "the coordinator does not stop when every vertex was handed over"))
	// the argument is the number of vertices
	init := false
	v := arg
	if ld, ok := v.(*ssa.UnOp); ok && ld.Op == token.MUL {
		if fv, isFV := ld.X.(*ssa.FreeVar); isFV {
			if bd, isAl := c.bindingOf(fv).(*ssa.Alloc); isAl {
				for _, r := range *bd.Referrers() {
					if st, isSt := r.(*ssa.Store); isSt && st.Addr == ssa.Value(bd) {
						v = st.Val
					}
				}
			}
		}
	}
	if fv, isFV := v.(*ssa.FreeVar); isFV {
		v = c.bindingOf(fv)
	}
	if call, ok := v.(*ssa.Call); ok && derivedFromLen(v, 3) && len(call.Call.Args) > 0 && loadedField(call.Call.Args[0]) == c.trvRoles().vertices {
		init = true
	}
	out = append(out, verdict(init, rule, "walk :: counter starts at the number of vertices", c.P.Pos(walk.Pos()),
		"the coordinator is handed len(g.vertices)", "the counter is not initialised with the number of vertices"))
	return out
}

// TRVPayload (TRV-9b, C13): a vertex carries a shallow copy of the service it stands for (its maps are the
// project's maps). Package graph hands that copy to the visitor and otherwise only reads it: no store, map update,
// delete or append goes through the payload field of a vertex (the field whose declared type is the type parameter
// of the graph). A "clean-up" of the copy - dropping a dangling depends_on entry - edits the caller's project.
func (c *Ctx) TRVPayload(rule string) []report.Obligation {
	var out []report.Obligation
	n := 0
	isPayload := func(fa *ssa.FieldAddr) bool {
		pt, ok := fa.X.Type().Underlying().(*types.Pointer)
		if !ok {
			return false
		}
		nt, ok := pt.Elem().(*types.Named)
		if !ok || nt.Obj().Pkg() == nil || c.P.Rel(nt.Obj().Pkg()) != "graph" {
			return false
		}
		ost, ok := nt.Origin().Underlying().(*types.Struct)
		if !ok || fa.Field >= ost.NumFields() {
			return false
		}
		ft := ost.Field(fa.Field).Type()
		if p2, isP := ft.(*types.Pointer); isP {
			ft = p2.Elem()
		}
		_, isTP := ft.(*types.TypeParam)
		return isTP
	}
	for _, fn := range c.P.Funcs {
		if !strings.HasPrefix(c.P.FuncID(fn), "graph.") {
			continue
		}
		derived := map[ssa.Value]bool{}
		for iter := 0; iter < 6; iter++ {
			for _, b := range fn.Blocks {
				for _, in := range b.Instrs {
					switch x := in.(type) {
					case *ssa.FieldAddr:
						if isPayload(x) || derived[x.X] {
							derived[x] = true
						}
					case *ssa.UnOp:
						if x.Op == token.MUL && derived[x.X] {
							derived[x] = true
						}
					case *ssa.IndexAddr:
						if derived[x.X] {
							derived[x] = true
						}
					case *ssa.Lookup:
						if derived[x.X] {
							derived[x] = true
						}
					case *ssa.Extract:
						if derived[x.Tuple] {
							derived[x] = true
						}
					}
				}
			}
		}
		for _, b := range fn.Blocks {
			for _, in := range b.Instrs {
				what := ""
				switch x := in.(type) {
				case *ssa.Store:
					if fa, ok := x.Addr.(*ssa.FieldAddr); ok && isPayload(fa) {
						continue // installing the payload itself
					}
					if derived[x.Addr] {
						what = "store"
					}
				case *ssa.MapUpdate:
					if derived[x.Map] {
						what = "map update"
					}
				case ssa.CallInstruction:
					if bi, ok := x.Common().Value.(*ssa.Builtin); ok && len(x.Common().Args) > 0 && derived[x.Common().Args[0]] {
						switch bi.Name() {
						case "delete", "append", "copy", "clear":
							what = bi.Name()
						}
					}
				}
				if what != "" {
					n++
					out = append(out, bad(rule, c.P.FuncID(fn)+" :: "+what+" through the service a vertex carries", c.P.InstrPos(in),
						"the vertex holds a shallow copy of the project's service: its maps and slices are the project's, so this "+what+" modifies the project the caller handed in"))
				}
			}
		}
	}
	out = append(out, report.Obligation{Rule: rule, Key: "graph :: the service carried by a vertex is only read and handed to the visitor", Status: report.Discharged, Why: fmt.Sprintf("%d writes through a vertex payload found", n)})
	return out
}
