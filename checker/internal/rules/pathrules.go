package rules

import (
	"fmt"
	"go/ast"
	"go/token"
	"go/types"
	"sort"
	"strings"

	"golang.org/x/tools/go/ssa"
	"verifcheck/internal/prog"
	"verifcheck/internal/report"
)

// ---------------------------------------------------------------- XOR

var xorSet = []string{
	"loader.Load", "loader.LoadWithContext", "loader.LoadModelWithContext", "loader.loadModelWithContext", "loader.load",
	"loader.loadYamlModel", "loader.loadYamlFile", "loader.modelToProject",
	"cli.(*ProjectOptions).LoadProject", "cli.(*ProjectOptions).LoadModel", "cli.ProjectFromOptions",
}

// XOR: project xor error. Every return of the load chain is (nil..., e) with e
// known non-nil, (v..., nil), or forwards the results of another function of the chain.
func (c *Ctx) XOR(rule string) []report.Obligation {
	var out []report.Obligation
	inSet := map[*ssa.Function]bool{}
	for _, id := range xorSet {
		if f := c.P.Func(id); f != nil {
			inSet[f] = true
		} else {
			out = append(out, anchorViolation(rule, id))
		}
	}
	for _, id := range xorSet {
		f := c.P.Func(id)
		if f == nil {
			continue
		}
		for _, r := range returnsOf(f) {
			n := len(r.Results)
			key := fmt.Sprintf("%s :: return %s", id, c.retDesc(r))
			if n < 2 || !isErrorType(r.Results[n-1].Type()) {
				out = append(out, bad(rule, key, c.P.InstrPos(r), "unexpected result shape"))
				continue
			}
			errv := retValue(r, n-1)
			// forward of a whole call tuple?
			if ex, isEx := errv.(*ssa.Extract); isEx {
				if call, isCall := ex.Tuple.(*ssa.Call); isCall && ex.Index == n-1 {
					all := true
					for i := 0; i < n-1; i++ {
						e2, ok := retValue(r, i).(*ssa.Extract)
						if !ok || e2.Tuple != ssa.Value(call) || e2.Index != i {
							all = false
						}
					}
					if all {
						if cal := call.Call.StaticCallee(); cal != nil && inSet[cal] {
							out = append(out, ok(rule, key, c.P.InstrPos(r), "forwards the results of "+c.P.FuncID(cal)+", itself in the checked set"))
							continue
						}
					}
				}
			}
			if isNilOrConst(errv) {
				out = append(out, ok(rule, key, c.P.InstrPos(r), "success return: the error is the nil constant"))
				continue
			}
			if c.dyn.definitelyNonNil(errv, r.Block(), 3) {
				allNil := true
				for i := 0; i < n-1; i++ {
					if !isNilOrConst(retValue(r, i)) {
						allNil = false
					}
				}
				if allNil {
					out = append(out, ok(rule, key, c.P.InstrPos(r), "error return: error known non-nil on this path, every other result is nil"))
				} else {
					out = append(out, bad(rule, key, c.P.InstrPos(r), "returns a non-nil error together with a non-nil value: callers that ignore the error get a half-built result"))
				}
				continue
			}
			out = append(out, bad(rule, key, c.P.InstrPos(r), "cannot establish that the error is nil or that it is non-nil with nil results (neither a constant, nor guarded by err != nil, nor a forwarded call of the chain)"))
		}
	}
	return out
}

func (c *Ctx) retDesc(r *ssa.Return) string {
	var ps []string
	for i := range r.Results {
		ps = append(ps, c.P.KeyTerm(retValue(r, i), 2))
	}
	return "(" + strings.Join(ps, ", ") + ")"
}

// ---------------------------------------------------------------- error propagation helper

// errPropagated: the error produced by call (its last result, or its only
// result) is tested against nil and every path on the non-nil edge reaches a
// return whose error operand is that value or is built from it.
func (c *Ctx) errPropagated(call ssa.CallInstruction) (bool, string) {
	v, isVal := call.(ssa.Value)
	if !isVal {
		return false, "call is a go/defer statement"
	}
	sig := call.Common().Signature()
	n := sig.Results().Len()
	if n == 0 || !isErrorType(sig.Results().At(n-1).Type()) {
		return true, "callee returns no error"
	}
	var errv ssa.Value
	if n == 1 {
		errv = v
	} else {
		for _, r := range *v.Referrers() {
			if ex, ok := r.(*ssa.Extract); ok && ex.Index == n-1 {
				errv = ex
			}
		}
	}
	if errv == nil {
		return false, "the error result is discarded"
	}
	return c.errValuePropagated(errv, 3)
}

func (c *Ctx) errValuePropagated(errv ssa.Value, depth int) (bool, string) {
	fn := errv.(ssa.Instruction).Parent()
	// direct return (return f(...) style) or stored to a result cell
	for _, r := range *errv.Referrers() {
		switch x := r.(type) {
		case *ssa.Return:
			return true, "returned directly"
		case *ssa.Store:
			if _, isAlloc := x.Addr.(*ssa.Alloc); isAlloc {
				// named result / captured err variable: find loads
				for _, ld := range *x.Addr.Referrers() {
					if u, ok := ld.(*ssa.UnOp); ok && depth > 0 {
						if okp, _ := c.errValuePropagated(u, depth-1); okp {
							return true, "through a result variable"
						}
					}
				}
			}
		case *ssa.Phi:
			if depth > 0 {
				if okp, why := c.errValuePropagated(x, depth-1); okp {
					return true, why
				}
			}
		}
	}
	// classified with os.IsNotExist / errors.Is: the matching edge must report it; other errors resurface
	// from the subsequent open of the same file
	for _, r := range *errv.Referrers() {
		call, ok := r.(*ssa.Call)
		if !ok {
			continue
		}
		switch staticName(&call.Call) {
		case "os.IsNotExist", "errors.Is":
		default:
			continue
		}
		for _, rr := range *call.Referrers() {
			iff, ok := rr.(*ssa.If)
			if !ok {
				continue
			}
			match := iff.Block().Succs[0]
			good, any := true, false
			for _, ret := range returnsOf(fn) {
				if !(match == ret.Block() || match.Dominates(ret.Block())) {
					continue
				}
				any = true
				n := len(ret.Results)
				if n == 0 || !c.derivedFrom(retValue(ret, n-1), errv, 4) {
					good = false
				}
			}
			if any && good {
				return true, "classified with " + staticName(&call.Call) + "; the matching edge returns it (wrapped)"
			}
			if any {
				return false, "on the " + staticName(&call.Call) + " edge there is a return that does not carry the error"
			}
		}
	}
	// tested against nil
	for _, r := range *errv.Referrers() {
		bo, ok := r.(*ssa.BinOp)
		if !ok || (bo.Op != token.NEQ && bo.Op != token.EQL) || !(prog.IsNilConst(bo.X) || prog.IsNilConst(bo.Y)) {
			continue
		}
		for _, rr := range *bo.Referrers() {
			iff, ok := rr.(*ssa.If)
			if !ok {
				continue
			}
			nonNil := iff.Block().Succs[0]
			if bo.Op == token.EQL {
				nonNil = iff.Block().Succs[1]
			}
			// every return reachable from the non-nil edge without leaving its dominance region carries the error
			good, any := true, false
			for _, ret := range returnsOf(fn) {
				if !(nonNil == ret.Block() || nonNil.Dominates(ret.Block())) {
					continue
				}
				any = true
				n := len(ret.Results)
				if n == 0 || !c.derivedFrom(retValue(ret, n-1), errv, 4) {
					good = false
				}
			}
			if any && good {
				return true, "tested against nil; the non-nil edge returns it (possibly wrapped)"
			}
			if any {
				return false, "the non-nil edge has a return that does not carry the error"
			}
			// no return dominated: the error branch falls through (e.g. `if err == nil && ...`)
		}
	}
	return false, "the error is neither returned nor tested with a returning branch"
}

// derivedFrom: v is src, a phi of it, or a wrapping call (fmt.Errorf, errors.Join, module helper) that takes it as argument.
func (c *Ctx) derivedFrom(v, src ssa.Value, depth int) bool {
	if v == src {
		return true
	}
	if depth == 0 || v == nil {
		return false
	}
	switch x := v.(type) {
	case *ssa.Phi:
		for _, e := range x.Edges {
			if c.derivedFrom(e, src, depth-1) {
				return true
			}
		}
	case *ssa.Call:
		for _, a := range x.Call.Args {
			if c.derivedFrom(a, src, depth-1) {
				return true
			}
		}
	case *ssa.Extract:
		return c.derivedFrom(x.Tuple, src, depth-1)
	case *ssa.ChangeType:
		return c.derivedFrom(x.X, src, depth-1)
	case *ssa.Convert:
		return c.derivedFrom(x.X, src, depth-1)
	case *ssa.TypeAssert:
		return c.derivedFrom(x.X, src, depth-1)
	case *ssa.Lookup:
		return c.derivedFrom(x.X, src, depth-1)
	case *ssa.MakeInterface:
		return c.derivedFrom(x.X, src, depth-1)
	case *ssa.ChangeInterface:
		return c.derivedFrom(x.X, src, depth-1)
	case *ssa.Slice:
		return c.derivedFrom(x.X, src, depth-1)
	case *ssa.Alloc:
		// variadic argument array: any element stored
		for _, r := range *x.Referrers() {
			if ia, ok := r.(*ssa.IndexAddr); ok {
				for _, rr := range *ia.Referrers() {
					if st, ok := rr.(*ssa.Store); ok && c.derivedFrom(st.Val, src, depth-1) {
						return true
					}
				}
			}
		}
	case *ssa.UnOp:
		if x.Op == token.MUL {
			if al, ok := x.X.(*ssa.Alloc); ok {
				for _, r := range *al.Referrers() {
					if st, ok := r.(*ssa.Store); ok && st.Addr == ssa.Value(al) && c.derivedFrom(st.Val, src, depth-1) {
						return true
					}
				}
			}
		}
	}
	return false
}

// ---------------------------------------------------------------- PIPE

type Stage struct {
	In     string // function that contains the call
	Callee string // FuncID of the stage ("" for the invoke of PostProcessor.Apply)
	Method string // interface method name for invoke stages
	Flag   string // option field that gates it ("" = unconditional)
	When   bool   // the stage runs when the flag has this value
	Extra  string // second gate (field that must be non-nil), informational
}

var pipeStages = []Stage{
	{In: "loader.loadYamlFile$1", Callee: "interpolation.Interpolate", Flag: "SkipInterpolation", When: false},
	{In: "loader.loadYamlFile$1", Callee: "loader.fixEmptyNotNull"},
	{In: "loader.loadYamlFile$1", Callee: "loader.ApplyExtends", Flag: "SkipExtends", When: false},
	{In: "loader.loadYamlFile$1", Method: "Apply"},
	{In: "loader.loadYamlFile$1", Callee: "loader.ApplyInclude", Flag: "SkipInclude", When: false},
	{In: "loader.loadYamlFile$1", Callee: "override.Merge"},
	{In: "loader.loadYamlFile$1", Callee: "override.EnforceUnicity"},
	{In: "loader.loadYamlFile$1", Callee: "schema.Validate", Flag: "SkipValidation", When: false},
	{In: "loader.loadYamlFile$1", Callee: "transform.Canonical"},
	{In: "loader.loadYamlFile$1", Callee: "loader.OmitEmpty"},
	{In: "loader.loadYamlFile$1", Callee: "override.EnforceUnicity"},
	{In: "loader.loadYamlModel", Callee: "loader.loadYamlFile"},
	{In: "loader.loadYamlModel", Callee: "transform.SetDefaultValues", Flag: "SkipDefaultValues", When: false},
	{In: "loader.loadYamlModel", Callee: "validation.Validate", Flag: "SkipValidation", When: false},
	{In: "loader.loadYamlModel", Callee: "paths.ResolveRelativePaths", Flag: "ResolvePaths", When: true},
	{In: "loader.loadYamlModel", Callee: "loader.ResolveEnvironment"},
	{In: "loader.load", Callee: "loader.Normalize", Flag: "SkipNormalization", When: false},
	{In: "loader.modelToProject", Callee: "loader.Transform"},
	{In: "loader.modelToProject", Callee: "types.(*Project).WithProfiles"},
	{In: "loader.modelToProject", Callee: "loader.checkConsistency", Flag: "SkipConsistencyCheck", When: false},
	{In: "loader.modelToProject", Callee: "types.(Project).WithServicesEnvironmentResolved", Flag: "SkipResolveEnvironment", When: false},
	{In: "loader.modelToProject", Callee: "types.(Project).WithServicesLabelsResolved"},
}

// optionFlags: the boolean fields of loader.Options.
func (c *Ctx) optionFlags() map[string]bool {
	res := map[string]bool{}
	pk := c.P.PkgByRel["loader"]
	if pk == nil {
		return res
	}
	if o := pk.Types.Scope().Lookup("Options"); o != nil {
		if st, ok := o.Type().Underlying().(*types.Struct); ok {
			for i := 0; i < st.NumFields(); i++ {
				if b, ok := st.Field(i).Type().Underlying().(*types.Basic); ok && b.Kind() == types.Bool {
					res[st.Field(i).Name()] = true
				}
			}
		}
	}
	return res
}

// flagFacts: option flags decided on every path to block b: field -> value.
func (c *Ctx) flagFacts(b *ssa.BasicBlock, flags map[string]bool) map[string]bool {
	res := map[string]bool{}
	for _, f := range prog.DominatingFacts(b) {
		cond, neg := unwrapNot(f.Cond)
		if fld := loadedField(cond); fld != "" && flags[fld] {
			res[fld] = f.Val != neg
		}
	}
	// short-circuit conditions (a && !b) are lowered to nested ifs, which DominatingFacts already follows
	return res
}

// PIPE: stage wiring.
func (c *Ctx) PIPE(rule string, only func(Stage) bool) []report.Obligation {
	var out []report.Obligation
	flags := c.optionFlags()
	if len(flags) < 8 {
		out = append(out, anchorViolation(rule, "boolean fields of loader.Options"))
	}
	// a stage is called in the pipeline function itself, or in a named step the pipeline function was split into:
	// outer is the call in the pipeline function, inner the stage call inside the step (nil when direct)
	type stageSite struct {
		outer, inner ssa.CallInstruction
		helper       *ssa.Function
	}
	var prev *stageSite
	prevIn := ""
	used := map[ssa.Instruction]bool{}
	for _, st := range pipeStages {
		fn := c.P.Func(st.In)
		name := st.Callee
		if name == "" {
			name = "PostProcessor." + st.Method
		}
		key := st.In + " :: " + name
		if fn == nil {
			out = append(out, anchorViolation(rule, st.In))
			continue
		}
		sitesIn := func(f *ssa.Function) []ssa.CallInstruction {
			var sites []ssa.CallInstruction
			if st.Callee != "" {
				sites = c.callsTo(f, st.Callee)
			} else {
				sites = callSites(f, func(com *ssa.CallCommon) bool { return com.IsInvoke() && com.Method.Name() == st.Method })
			}
			sort.Slice(sites, func(i, j int) bool { return sites[i].Pos() < sites[j].Pos() })
			return sites
		}
		// take the first site not yet used (EnforceUnicity appears twice)
		var site *stageSite
		for _, s := range sitesIn(fn) {
			if !used[s] {
				site = &stageSite{outer: s}
				break
			}
		}
		if site == nil {
			steps := callSites(fn, func(com *ssa.CallCommon) bool {
				cal := com.StaticCallee()
				return cal != nil && c.P.InModule(cal) && cal.Blocks != nil && cal != fn && strings.HasPrefix(c.P.FuncID(cal), "loader.")
			})
			sort.Slice(steps, func(i, j int) bool { return steps[i].Pos() < steps[j].Pos() })
			for _, o := range steps {
				h := o.Common().StaticCallee()
				if c.P.Func(c.P.FuncID(h)) != nil && isPipeFunc(c.P.FuncID(h)) {
					continue // another pipeline function: its stages are checked there
				}
				for _, s := range sitesIn(h) {
					if !used[s] && site == nil {
						site = &stageSite{outer: o, inner: s, helper: h}
					}
				}
			}
		}
		if site == nil {
			if only == nil || only(st) {
				out = append(out, bad(rule, key+" present", c.P.Pos(fn.Pos()), "the stage call is missing from "+st.In))
			}
			continue
		}
		at := site.outer
		if site.inner != nil {
			at = site.inner
		}
		used[at] = true
		if prevIn != st.In {
			prev = nil
		}
		if only == nil || only(st) {
			// gate
			got := c.flagFacts(site.outer.Block(), flags)
			if site.inner != nil {
				for f, v := range c.flagFacts(site.inner.Block(), flags) {
					got[f] = v
				}
			}
			var extra []string
			for f, v := range got {
				if f != st.Flag {
					extra = append(extra, fmt.Sprintf("%s=%v", f, v))
				}
			}
			sort.Strings(extra)
			switch {
			case st.Flag == "" && len(got) == 0:
				out = append(out, ok(rule+"-gate", key+" unconditional", c.P.InstrPos(at), "runs whatever the options are"))
			case st.Flag == "":
				out = append(out, bad(rule+"-gate", key+" unconditional", c.P.InstrPos(at), "the stage became conditional on "+strings.Join(extra, ", ")))
			default:
				v, has := got[st.Flag]
				switch {
				case !has:
					out = append(out, bad(rule+"-gate", key+" gated by "+st.Flag, c.P.InstrPos(at), "the stage is not gated by its option "+st.Flag+": it cannot be switched off (or on) as documented"))
				case v != st.When:
					out = append(out, bad(rule+"-gate", key+" gated by "+st.Flag, c.P.InstrPos(at), fmt.Sprintf("the stage runs when %s=%v, expected %v (inverted gate)", st.Flag, v, st.When)))
				case len(extra) > 0:
					out = append(out, bad(rule+"-gate", key+" gated by "+st.Flag, c.P.InstrPos(at), "the stage additionally depends on "+strings.Join(extra, ", ")))
				default:
					out = append(out, ok(rule+"-gate", key+" gated by "+st.Flag, c.P.InstrPos(at), fmt.Sprintf("reachable exactly on the %s=%v edge (besides earlier error exits)", st.Flag, st.When)))
				}
			}
			// error propagated (through the step, when there is one)
			okp, why := c.errPropagated(at)
			if okp && site.inner != nil {
				okp, why = c.errPropagated(site.outer)
				why = "out of the step " + c.P.FuncID(site.helper) + " and then: " + why
			}
			if okp {
				out = append(out, ok(rule+"-err", key+" error propagated", c.P.InstrPos(at), why))
			} else {
				out = append(out, bad(rule+"-err", key+" error propagated", c.P.InstrPos(at), "the stage's error is dropped: "+why))
			}
			// order
			if prev != nil {
				prevAt := prev.outer
				if prev.inner != nil {
					prevAt = prev.inner
				}
				pk := "order " + st.In + " :: " + c.stageName(prevAt) + " < " + name
				// compare where both are visible: inside the same step, or in the pipeline function
				a, b2, in := prev.outer, site.outer, fn
				if prev.inner != nil && site.inner != nil && prev.outer == site.outer {
					a, b2, in = prev.inner, site.inner, site.helper
				}
				switch {
				case a == b2:
					out = append(out, bad(rule+"-order", pk, c.P.InstrPos(at), "the two stages are reached through one call and cannot be ordered"))
				case reachesInstr(b2, a) && !prog.Info(in).InLoop(b2.Block()):
					out = append(out, bad(rule+"-order", pk, c.P.InstrPos(at), "the later stage can run before the earlier one"))
				case !reachesInstr(a, b2):
					out = append(out, bad(rule+"-order", pk, c.P.InstrPos(at), "no path runs the two stages in the documented order"))
				default:
					out = append(out, ok(rule+"-order", pk, c.P.InstrPos(at), "every path that runs both runs them in this order"))
				}
			}
		}
		prev, prevIn = site, st.In
	}
	return out
}

func isPipeFunc(id string) bool {
	for _, st := range pipeStages {
		if st.In == id {
			return true
		}
	}
	return false
}

func (c *Ctx) stageName(ci ssa.CallInstruction) string {
	if id := c.calleeID(ci.Common()); id != "" {
		return id
	}
	if ci.Common().IsInvoke() {
		return "PostProcessor." + ci.Common().Method.Name()
	}
	return "call"
}

// ---------------------------------------------------------------- ERR

var fileFuncs = map[string]bool{
	"os.ReadFile": true, "os.Open": true, "os.Stat": true, "os.Lstat": true, "io.ReadAll": true,
}

var fileFuncsModule = map[string]bool{
	"dotenv.GetEnvFromFile": true, "dotenv.ReadFile": true, "dotenv.ParseWithLookup": true, "dotenv.Read": true, "dotenv.ReadWithLookup": true,
	"types.loadEnvFile": true, "types.loadLabelFile": true, "types.loadMappingFile": true, "loader.loadYamlFile": true, "loader.loadYamlModel": true,
	"loader.getExtendsBaseFromFile": true, "loader.LoadConfigFiles": true, "cli.(*ProjectOptions).ReadConfigFiles": true,
}

// ERR: errors from reading referenced files are returned.
func (c *Ctx) ERR(rule string, entry ...string) []report.Obligation {
	var out []report.Obligation
	r, missing := c.Reach(entry...)
	for _, m := range missing {
		out = append(out, anchorViolation(rule, m))
	}
	n := 0
	for _, f := range r.Sorted(c.P) {
		for _, b := range f.Blocks {
			for _, in := range b.Instrs {
				call, ok := in.(*ssa.Call)
				if !ok {
					continue
				}
				name := ""
				if cal := call.Call.StaticCallee(); cal != nil {
					if fileFuncs[cal.String()] {
						name = cal.String()
					} else if c.P.InModule(cal) && fileFuncsModule[c.P.FuncID(cal)] {
						name = c.P.FuncID(cal)
					}
				} else if call.Call.IsInvoke() && call.Call.Method.Name() == "Load" && recvTypeName(call.Call.Value.Type()) == "ResourceLoader" {
					name = "ResourceLoader.Load"
				}
				if name == "" {
					continue
				}
				n++
				key := c.P.FuncID(f) + " :: " + name + "(" + c.argDesc(call) + ")"
				if okp, why := c.errPropagated(call); okp {
					out = append(out, ok2(rule, key, c.P.InstrPos(in), why))
				} else {
					out = append(out, bad(rule, key, c.P.InstrPos(in), "a file error is not reported to the caller: "+why))
				}
			}
		}
	}
	c.Stats[rule+".sites"] = n
	return out
}

func (c *Ctx) argDesc(call *ssa.Call) string {
	var ps []string
	for _, a := range call.Call.Args {
		ps = append(ps, c.P.KeyTerm(a, 2))
	}
	s := strings.Join(ps, ",")
	if len(s) > 80 {
		s = s[:80] + "…"
	}
	return s
}

// ---------------------------------------------------------------- CYC

// guardedRecursion: every recursive call of fn to itself is dominated by guard(call block).
func (c *Ctx) recursiveCalls(fn *ssa.Function) []ssa.CallInstruction {
	return callSites(fn, func(com *ssa.CallCommon) bool { return com.StaticCallee() == fn })
}

// errNilFactFor: block b is reached only when the error result of call was nil.
func errNilFactFor(b *ssa.BasicBlock, call ssa.Value, errIdx int, single bool) bool {
	return factHolds(b, func(cond ssa.Value, val bool) bool {
		bo, ok := cond.(*ssa.BinOp)
		if !ok || (bo.Op != token.EQL && bo.Op != token.NEQ) {
			return false
		}
		var other ssa.Value
		if prog.IsNilConst(bo.Y) {
			other = bo.X
		} else if prog.IsNilConst(bo.X) {
			other = bo.Y
		}
		isErr := false
		if single {
			isErr = other == call
		} else if ex, ok := other.(*ssa.Extract); ok {
			isErr = ex.Tuple == call && ex.Index == errIdx
		}
		return isErr && (bo.Op == token.EQL) == val
	})
}

func (c *Ctx) CYC(rule string) []report.Obligation {
	var out []report.Obligation
	need := func(id string) *ssa.Function {
		f := c.P.Func(id)
		if f == nil {
			fs := c.graphFuncs(id)
			if len(fs) > 0 {
				return fs[0]
			}
			out = append(out, anchorViolation(rule, id))
		}
		return f
	}
	// (1) extends: the recursion is dominated by a successful cycleTracker.Add
	if f := need("loader.applyServiceExtends"); f != nil {
		adds := c.callsTo(f, "loader.(*cycleTracker).Add")
		rec := c.recursiveCalls(f)
		good := len(adds) == 1 && len(rec) >= 1
		if good {
			for _, rc := range rec {
				if !prog.InstrDominates(adds[0], rc) || !errNilFactFor(rc.Block(), adds[0].(ssa.Value), 1, false) {
					good = false
				}
				// the tracker handed down is the one Add returned
				if good && !c.derivedFrom(rc.Common().Args[4], adds[0].(ssa.Value), 3) {
					good = false
				}
			}
		}
		out = append(out, verdict(good, rule, "extends :: recursion guarded by cycleTracker.Add", c.P.Pos(f.Pos()),
			"every recursive call of applyServiceExtends is dominated by tracker.Add(...) returning no error, and passes the extended tracker on",
			"a recursive call of applyServiceExtends is not guarded by a successful tracker.Add (or does not pass the new tracker): an extends cycle recurses forever"))
		// the chain is recorded as (file that defines the service being resolved, that service): the file is the
		// one the context names, and the services of another file are resolved in a context naming that file
		if len(adds) == 1 && len(rec) >= 1 {
			a := adds[0].Common().Args
			fromCtx := func(v ssa.Value) bool {
				ta, ok := v.(*ssa.TypeAssert)
				if !ok {
					return false
				}
				call, ok := ta.X.(*ssa.Call)
				return ok && call.Call.IsInvoke() && call.Call.Method.Name() == "Value"
			}
			keyOK := len(a) == 3 && fromCtx(a[1]) && len(f.Params) > 1 && a[2] == ssa.Value(f.Params[1])
			out = append(out, verdict(keyOK, rule, "extends :: the tracker records (defining file, service being resolved)", c.P.InstrPos(adds[0]),
				"Add receives the file named by the context and the name parameter", "the tracker key mixes the file of the base with the name of the extending service (or the other way round): same-named services in two files collide and acyclic chains are rejected, depending on visit order"))
			var wv ssa.Value
			for _, cs := range callSites(f, func(com *ssa.CallCommon) bool { return staticName(com) == "context.WithValue" }) {
				if mi, ok := cs.Common().Args[1].(*ssa.MakeInterface); ok && strings.HasSuffix(c.P.TypeStr(mi.X.Type()), "ComposeFileKey") {
					wv = cs.(ssa.Value)
				}
			}
			ctxOK := wv != nil
			if ctxOK {
				for _, rc := range rec {
					if !c.derivedFrom(rc.Common().Args[0], wv, 3) {
						ctxOK = false
					}
				}
			}
			// ... and names it by the very reference the file is loaded by: a name recomputed on the side (joined to a
			// directory, cleaned) is not the name the next hop will compute for the same file once paths were
			// rebased, so the tracker never sees a repetition
			if ctxOK {
				named := false
				wcall := wv.(*ssa.Call)
				val := wcall.Call.Args[2]
				if mi, ok := val.(*ssa.MakeInterface); ok {
					val = mi.X
				}
				for _, cs := range callSites(f, func(com *ssa.CallCommon) bool {
					cal := com.StaticCallee()
					return cal != nil && c.P.InModule(cal) && cal != f && len(c.callsTo(cal, "loader.loadYamlFile")) > 0
				}) {
					for _, a := range cs.Common().Args {
						if a == val {
							named = true
						}
						// ... or inside a struct of parameters built for the call
						var al *ssa.Alloc
						switch x := a.(type) {
						case *ssa.Alloc:
							al = x
						case *ssa.UnOp:
							al, _ = x.X.(*ssa.Alloc)
						}
						if al != nil {
							for _, r := range *al.Referrers() {
								if fa, isFA := r.(*ssa.FieldAddr); isFA {
									for _, rr := range *fa.Referrers() {
										if st, isSt := rr.(*ssa.Store); isSt && st.Val == val {
											named = true
										}
									}
								}
							}
						}
					}
				}
				out = append(out, verdict(named, rule, "extends :: the extended file is tracked under the reference it is loaded by", c.P.InstrPos(wcall),
					"the value stored in the context is the reference handed to the function that loads the file", "the name under which the extended file is tracked is computed separately from the reference it is loaded by ("+c.P.KeyTerm(val, 3)+"): the two can disagree (references inside an extended file are already rebased), a cycle is then never recognised and the resolution recurses without bound"))
			}
			out = append(out, verdict(ctxOK, rule, "extends :: services of an extended file are resolved in the context of that file", c.P.Pos(f.Pos()),
				"the recursive call receives a context that names the extended file when the base comes from another file", "hops inside an extended file are recorded under the top-level file name: services of the two files with the same name collide"))
		}
		if add := need("loader.(*cycleTracker).Add"); add != nil {
			// Add returns an error when the pair is already in ct.loaded: an error return control dependent on an == over serviceRef
			found := false
			for _, r := range returnsOf(add) {
				if c.dyn.definitelyNonNil(retValue(r, 1), r.Block(), 2) {
					for _, d := range prog.Info(add).TransitiveControlDeps(r.Block()) {
						if iff, ok := d.Branch.Instrs[len(d.Branch.Instrs)-1].(*ssa.If); ok {
							if bo, ok := iff.Cond.(*ssa.BinOp); ok && bo.Op == token.EQL && d.Succ == 0 {
								found = true
							}
						}
					}
				}
			}
			out = append(out, verdict(found, rule, "extends :: Add errors on a repeated (file, service)", c.P.Pos(add.Pos()),
				"Add has an error return on the true edge of an equality over the visited references", "Add no longer reports a repeated reference"))
		}
	}
	// (2) aliases: resolveReset on an alias is dominated by checkForCycle == nil
	if f := need("loader.(*ResetProcessor).resolveReset"); f != nil {
		chk := c.callsTo(f, "loader.(*ResetProcessor).checkForCycle")
		good := len(chk) == 1
		var aliasRec ssa.CallInstruction
		for _, rc := range c.recursiveCalls(f) {
			if loadedField(rc.Common().Args[1]) == "Alias" {
				aliasRec = rc
			}
		}
		if good && aliasRec != nil {
			good = prog.InstrDominates(chk[0], aliasRec) && errNilFactFor(aliasRec.Block(), chk[0].(ssa.Value), 0, true)
		} else {
			good = false
		}
		out = append(out, verdict(good, rule, "alias :: expansion guarded by checkForCycle", c.P.Pos(f.Pos()),
			"the recursion into node.Alias is dominated by checkForCycle(...) == nil", "the alias expansion is not guarded by checkForCycle: a self-referencing anchor recurses forever"))
		// exact guard: a set of alias targets being expanded, keyed by the node itself; membership is an error
		// (independent of any path heuristics), and the target is marked before the recursion
		exact := false
		if aliasRec != nil {
			target := aliasRec.Common().Args[1]
			var test *ssa.Lookup
			var mark *ssa.MapUpdate
			for _, b := range f.Blocks {
				for _, in := range b.Instrs {
					switch x := in.(type) {
					case *ssa.Lookup:
						if sameLoadedField(x.Index, target) && isNodeKeyedMap(x.X.Type()) {
							test = x
						}
					case *ssa.MapUpdate:
						if sameLoadedField(x.Key, target) && isNodeKeyedMap(x.Map.Type()) {
							if bv, isC := constBool(x.Value); isC && bv {
								mark = x
							}
						}
					}
				}
			}
			if test != nil && mark != nil && prog.InstrDominates(mark, aliasRec) && prog.InstrDominates(test, mark) {
				// the recursion lies on the absent edge of the test and the present edge returns an error
				absent := factHolds(aliasRec.Block(), func(cond ssa.Value, val bool) bool { return cond == ssa.Value(test) && !val })
				errOnHit := false
				for _, r := range returnsOf(f) {
					if c.dyn.definitelyNonNil(retValue(r, 1), r.Block(), 2) && factHolds(r.Block(), func(cond ssa.Value, val bool) bool { return cond == ssa.Value(test) && val }) {
						errOnHit = true
					}
				}
				exact = absent && errOnHit
			}
		}
		out = append(out, verdict(exact, rule, "alias :: target on the expansion stack is an error", c.P.Pos(f.Pos()),
			"resolveReset keeps a set keyed by the alias target, returns an error when the target is already in it, and marks it before recursing",
			"alias cycles are only recognised by the path heuristics of checkForCycle (which exempt merge keys): `x-a: &a {<<: *a}` recurses until the stack is exhausted"))
	}
	// (3) depends_on: searchCycle stops on a vertex already on the path
	if f := need("graph.searchCycle"); f != nil {
		rec := c.recursiveCalls(f)
		good := len(rec) == 1
		if good {
			good = factHolds(rec[0].Block(), func(cond ssa.Value, val bool) bool {
				bo, ok := cond.(*ssa.BinOp)
				if !ok || bo.Op != token.GEQ || val {
					return false
				}
				call, ok := bo.X.(*ssa.Call)
				return ok && strings.HasSuffix(staticName(&call.Call), "slices.Index")
			})
		}
		errOnHit := false
		for _, r := range returnsOf(f) {
			if c.dyn.definitelyNonNil(retValue(r, 0), r.Block(), 2) && factHolds(r.Block(), func(cond ssa.Value, val bool) bool {
				bo, ok := cond.(*ssa.BinOp)
				return ok && bo.Op == token.GEQ && val
			}) {
				errOnHit = true
			}
		}
		// the path-membership test is the first decision of the loop body: nothing may prune a child before
		// it was compared with the current path (a visited-set test placed first hides back edges)
		firstTest := false
		for _, ci := range callSites(f, func(com *ssa.CallCommon) bool { return strings.HasSuffix(staticName(com), "slices.Index") }) {
			firstTest = true
			for d := ci.Block().Idom(); d != nil; d = d.Idom() {
				iff, isIf := d.Instrs[len(d.Instrs)-1].(*ssa.If)
				if !isIf {
					continue
				}
				if !prog.Info(f).InLoop(d) {
					break
				}
				// loop conditions (index < len) are fine; any other branch inside the loop before the path test is not
				if bo, ok := iff.Cond.(*ssa.BinOp); ok && bo.Op == token.LSS {
					continue
				}
				if ex, ok := iff.Cond.(*ssa.Extract); ok {
					if _, isNext := ex.Tuple.(*ssa.Next); isNext {
						continue
					}
				}
				firstTest = false
			}
		}
		out = append(out, verdict(firstTest, rule, "depends_on :: path membership tested before any pruning", c.P.Pos(f.Pos()),
			"inside the loop over the children nothing branches before the slices.Index(path, child) test", "a child can be skipped (e.g. by a visited set) before it is compared with the current path: the edge that closes a cycle is then never seen"))
		out = append(out, verdict(good && errOnHit, rule, "depends_on :: searchCycle guarded by path membership", c.P.Pos(f.Pos()),
			"the recursive call is unreachable when the child is already on the path, and that case returns an error", "searchCycle recurses into a vertex that is already on the path, or does not report it"))
	}
	// (4) checkConsistency ends in CheckCycle
	if f := need("loader.checkConsistency"); f != nil {
		good := true
		n := 0
		for _, r := range returnsOf(f) {
			ev := retValue(r, 0)
			if call, ok := ev.(*ssa.Call); ok && c.calleeID(&call.Call) == "graph.CheckCycle" {
				n++
				continue
			}
			if !c.dyn.definitelyNonNil(ev, r.Block(), 2) {
				good = false
			}
		}
		out = append(out, verdict(good && n == 1, rule, "depends_on :: checkConsistency ends in graph.CheckCycle", c.P.Pos(f.Pos()),
			"every return of checkConsistency is either an error or the result of graph.CheckCycle(project)", "checkConsistency can succeed without running graph.CheckCycle"))
	}
	// (5) include: the error return depends on an element of `included` equal to the loaded path, and `included` is threaded
	if f := need("loader.ApplyInclude"); f != nil {
		incl := f.Params[len(f.Params)-1]
		// the membership test in its library form: slices.Contains(chain, path)
		chainContains := func(v ssa.Value) (*ssa.Call, bool) {
			call, ok := v.(*ssa.Call)
			if !ok || !strings.HasSuffix(staticName(&call.Call), "slices.Contains") || len(call.Call.Args) != 2 {
				return nil, false
			}
			if call.Call.Args[0] == ssa.Value(incl) || c.derivedFrom(call.Call.Args[0], incl, 4) {
				return call, true
			}
			return nil, false
		}
		found := false
		for _, r := range returnsOf(f) {
			if !c.dyn.definitelyNonNil(retValue(r, 0), r.Block(), 2) {
				continue
			}
			for _, d := range prog.Info(f).TransitiveControlDeps(r.Block()) {
				iff, ok := d.Branch.Instrs[len(d.Branch.Instrs)-1].(*ssa.If)
				if !ok || d.Succ != 0 {
					continue
				}
				if bo, ok := iff.Cond.(*ssa.BinOp); ok && bo.Op == token.EQL {
					// one side is an element of the chain, the other the path the resource loader returned
					if (c.elementOf(bo.X, incl) && c.isLoadedPath(bo.Y)) || (c.elementOf(bo.Y, incl) && c.isLoadedPath(bo.X)) {
						found = true
					}
				}
				if call, ok := chainContains(iff.Cond); ok && c.isLoadedPath(call.Call.Args[1]) {
					found = true
				}
			}
		}
		// the comparison must apply to every file the resource loader returned: the deciding conditions of the
		// error return may only be loops, the loader's Accept, error tests and the equality itself
		var extra []string
		for _, r := range returnsOf(f) {
			if !c.dyn.definitelyNonNil(retValue(r, 0), r.Block(), 2) {
				continue
			}
			isCycleRet := false
			var conds []ssa.Value
			seenB := map[*ssa.BasicBlock]bool{}
			work := []*ssa.BasicBlock{r.Block()}
			first := true
			for len(work) > 0 {
				blk := work[0]
				work = work[1:]
				for _, d := range prog.Info(f).ControlDeps(blk) {
					if seenB[d.Branch] || (!first && !d.Branch.Dominates(r.Block())) {
						continue
					}
					seenB[d.Branch] = true
					if iff, ok := d.Branch.Instrs[len(d.Branch.Instrs)-1].(*ssa.If); ok {
						conds = append(conds, iff.Cond)
						if bo, ok := iff.Cond.(*ssa.BinOp); ok && bo.Op == token.EQL && (c.elementOf(bo.X, incl) || c.elementOf(bo.Y, incl)) {
							isCycleRet = true
						}
						if _, ok := chainContains(iff.Cond); ok {
							isCycleRet = true
						}
					}
					if d.Branch.Dominates(r.Block()) {
						work = append(work, d.Branch)
					}
				}
				first = false
			}
			if !isCycleRet {
				continue
			}
			for _, cd := range conds {
				switch x := cd.(type) {
				case *ssa.Call:
					if x.Call.IsInvoke() && x.Call.Method.Name() == "Accept" {
						continue
					}
					if _, ok := chainContains(x); ok {
						continue
					}
				case *ssa.Extract: // range `ok`
					if _, isNext := x.Tuple.(*ssa.Next); isNext {
						continue
					}
				case *ssa.BinOp:
					if (x.Op == token.EQL || x.Op == token.NEQ) && (prog.IsNilConst(x.X) || prog.IsNilConst(x.Y)) {
						continue // err != nil
					}
					if x.Op == token.EQL && (c.elementOf(x.X, incl) || c.elementOf(x.Y, incl)) {
						continue
					}
					if x.Op == token.LSS {
						if call, ok := x.Y.(*ssa.Call); ok {
							if bi, ok := call.Call.Value.(*ssa.Builtin); ok && bi.Name() == "len" {
								continue // slice range loop condition
							}
						}
					}
				}
				extra = append(extra, c.P.Term(cd, 3))
			}
		}
		out = append(out, verdict(found && len(extra) == 0, rule, "include :: cycle check applies to every loaded file", c.P.Pos(f.Pos()),
			"the error return depends only on the loops over the include's files and loaders, Accept, error tests and the comparison itself",
			"the include-cycle comparison is only made when "+strings.Join(extra, " and ")+" holds: an include whose cycle closes through another entry / project_directory form recurses until the stack is exhausted"))
		out = append(out, verdict(found, rule, "include :: cycle error on a path already being included", c.P.Pos(f.Pos()),
			"ApplyInclude has an error return on the true edge of `element of included == path returned by the resource loader`", "ApplyInclude no longer compares the loaded path with the chain of files being included"))
		// threaded to the nested load
		thr := false
		for _, ci := range c.callsTo(f, "loader.loadYamlModel") {
			if c.derivedFrom(ci.Common().Args[len(ci.Common().Args)-1], incl, 4) || ci.Common().Args[len(ci.Common().Args)-1] == ssa.Value(incl) {
				thr = true
			}
		}
		out = append(out, verdict(thr, rule, "include :: chain handed to the nested load", c.P.Pos(f.Pos()),
			"the nested loadYamlModel receives the `included` chain", "the nested load starts with a fresh chain: an include cycle is never seen"))
	}
	// (6) ForEachService: the recursion over dependencies is cut by the `seen` set
	if f := need("types.(*Project).withServices"); f != nil {
		rec := c.recursiveCalls(f)
		good := len(rec) == 1
		if good {
			var mark ssa.Instruction
			for _, b := range f.Blocks {
				for _, in := range b.Instrs {
					if mu, ok := in.(*ssa.MapUpdate); ok && sameParam(mu.Map, paramByType(f, "map[string]bool", "map[string]struct{}")) {
						if bv, isC := constBool(mu.Value); isC && bv {
							mark = in
						}
					}
				}
			}
			notSeen := factHolds(rec[0].Block(), func(cond ssa.Value, val bool) bool {
				lk, ok := cond.(*ssa.Lookup)
				return ok && sameParam(lk.X, paramByType(f, "map[string]bool", "map[string]struct{}")) && !val
			})
			good = mark != nil && prog.InstrDominates(mark, rec[0]) && notSeen && func() bool {
				sp := paramByType(f, "map[string]bool", "map[string]struct{}")
				for _, a := range rec[0].Common().Args {
					if sameParam(a, sp) {
						return true
					}
				}
				return false
			}()
		}
		out = append(out, verdict(good, rule, "depends_on :: service walk guarded by the seen set", c.P.Pos(f.Pos()),
			"the recursive call is reachable only for a name not yet in `seen`, which is marked before recursing, and the same set is passed down",
			"the dependency walk can revisit a service: a dependency cycle (possible when consistency checks are skipped) recurses forever"))
	}
	if f := need("loader.loadYamlFile$1"); f != nil {
		// included = append(included, file.Filename) before ApplyInclude(..., included)
		good := false
		for _, ci := range c.callsTo(f, "loader.ApplyInclude") {
			last := ci.Common().Args[len(ci.Common().Args)-1]
			if call, ok := c.loadOrigin(last).(*ssa.Call); ok {
				if bi, ok := call.Call.Value.(*ssa.Builtin); ok && bi.Name() == "append" {
					good = true
				}
			}
		}
		out = append(out, verdict(good, rule, "include :: current file appended to the chain", c.P.Pos(f.Pos()),
			"processRawYaml passes append(included, file.Filename) to ApplyInclude", "the file being loaded is not added to the include chain before its includes are followed"))
	}
	return out
}

// isLoadedPath: v is the first result of an invoke of ResourceLoader.Load.
func (c *Ctx) isLoadedPath(v ssa.Value) bool {
	for i := 0; i < 4; i++ {
		switch x := v.(type) {
		case *ssa.Extract:
			if call, ok := x.Tuple.(*ssa.Call); ok && call.Call.IsInvoke() && call.Call.Method.Name() == "Load" && x.Index == 0 {
				return true
			}
			return false
		case *ssa.Phi:
			for _, e := range x.Edges {
				if c.isLoadedPath(e) {
					return true
				}
			}
			return false
		case *ssa.UnOp:
			if cv := c.cellValue(x.X); cv != nil {
				v = cv
				continue
			}
			return false
		default:
			return false
		}
	}
	return false
}

// sameLoadedField: both values are loads of the same field of the same object (node.Alias ... node.Alias).
func sameLoadedField(a, b ssa.Value) bool {
	if a == b {
		return true
	}
	ua, ok1 := a.(*ssa.UnOp)
	ub, ok2 := b.(*ssa.UnOp)
	if !ok1 || !ok2 {
		return false
	}
	fa, ok1 := ua.X.(*ssa.FieldAddr)
	fb, ok2 := ub.X.(*ssa.FieldAddr)
	return ok1 && ok2 && fa.X == fb.X && fa.Field == fb.Field
}

func isNodeKeyedMap(t types.Type) bool {
	m, ok := t.Underlying().(*types.Map)
	if !ok {
		return false
	}
	p, ok := m.Key().(*types.Pointer)
	return ok && recvTypeName(p) == "Node"
}

// loadOrigin: the value last stored into the cell a load reads (same block), or v itself.
func (c *Ctx) loadOrigin(v ssa.Value) ssa.Value {
	u, ok := v.(*ssa.UnOp)
	if !ok || u.Op != token.MUL {
		return v
	}
	var best *ssa.Store
	for _, r := range *u.X.Referrers() {
		if st, ok := r.(*ssa.Store); ok && st.Addr == u.X && st.Block() == u.Block() && prog.InstrIndex(st) < prog.InstrIndex(u) {
			if best == nil || prog.InstrIndex(best) < prog.InstrIndex(st) {
				best = st
			}
		}
	}
	if best != nil {
		return best.Val
	}
	return v
}

// elementOf: v is an element (range value / index) of slice s.
func (c *Ctx) elementOf(v ssa.Value, s ssa.Value) bool {
	for i := 0; i < 4; i++ {
		switch x := v.(type) {
		case *ssa.UnOp:
			v = x.X
		case *ssa.IndexAddr:
			return c.sameOrLoaded(x.X, s)
		case *ssa.Index:
			return c.sameOrLoaded(x.X, s)
		case *ssa.Extract:
			if nx, ok := x.Tuple.(*ssa.Next); ok {
				if rg, ok := nx.Iter.(*ssa.Range); ok {
					return c.sameOrLoaded(rg.X, s)
				}
			}
			return false
		default:
			return false
		}
	}
	return false
}

func (c *Ctx) sameOrLoaded(v, s ssa.Value) bool {
	if v == s {
		return true
	}
	if u, ok := v.(*ssa.UnOp); ok && u.Op == token.MUL {
		// load of a cell that was initialised from the parameter
		if al, ok := u.X.(*ssa.Alloc); ok {
			for _, r := range *al.Referrers() {
				if st, ok := r.(*ssa.Store); ok && st.Val == s {
					return true
				}
			}
		}
	}
	if p, ok := v.(*ssa.Phi); ok {
		for _, e := range p.Edges {
			if e == s {
				return true
			}
		}
	}
	return false
}

// ---------------------------------------------------------------- TERM

// TERM inventories recursive call cycles and condition-less loops in reachable
// code; structural descent is discharged automatically, the rest needs a guard
// (checked by CYC) or a justification.
func (c *Ctx) TERM(rule string, entry ...string) []report.Obligation {
	var out []report.Obligation
	r, missing := c.Reach(entry...)
	for _, m := range missing {
		out = append(out, anchorViolation(rule, m))
	}
	fns := r.Sorted(c.P)
	idx := map[*ssa.Function]int{}
	for i, f := range fns {
		idx[f] = i
	}
	// static call edges among reachable module functions (closures count as part of their parent for edges out)
	adj := make([][]int, len(fns))
	type edge struct {
		site ssa.CallInstruction
		from *ssa.Function
		to   *ssa.Function
	}
	var edges []edge
	for i, f := range fns {
		for _, b := range f.Blocks {
			for _, in := range b.Instrs {
				ci, ok := in.(ssa.CallInstruction)
				if !ok {
					continue
				}
				cal := ci.Common().StaticCallee()
				if cal == nil {
					continue
				}
				if j, ok := idx[cal]; ok {
					adj[i] = append(adj[i], j)
					edges = append(edges, edge{ci, f, cal})
				}
			}
		}
		for _, a := range f.AnonFuncs {
			if j, ok := idx[a]; ok {
				adj[i] = append(adj[i], j)
			}
		}
	}
	comp := sccs(adj)
	members := map[int][]int{}
	for v, cidx := range comp {
		members[cidx] = append(members[cidx], v)
	}
	var cids []int
	for cidx := range members {
		cids = append(cids, cidx)
	}
	sort.Ints(cids)
	nrec := 0
	for _, cidx := range cids {
		ms := members[cidx]
		self := false
		if len(ms) == 1 {
			for _, j := range adj[ms[0]] {
				if j == ms[0] {
					self = true
				}
			}
			if !self {
				continue
			}
		}
		nrec++
		var names []string
		in := map[*ssa.Function]bool{}
		for _, m := range ms {
			names = append(names, c.P.FuncID(fns[m]))
			in[fns[m]] = true
		}
		sort.Strings(names)
		key := "recursion :: " + strings.Join(names, " <-> ")
		// structural descent: every cycle inside the SCC contains a call that passes a sub-structure
		// (element / field / map value) of a YAML-tree typed parameter. Remove the descending edges;
		// what remains must be acyclic.
		local := map[*ssa.Function]int{}
		for i, m := range ms {
			local[fns[m]] = i
		}
		rest := make([][]int, len(ms))
		var offending string
		for _, e := range edges {
			if !in[e.from] || !in[e.to] {
				continue
			}
			desc := false
			for _, a := range e.site.Common().Args {
				if descends(a, e.from, 6) {
					desc = true
				}
			}
			if !desc {
				rest[local[e.from]] = append(rest[local[e.from]], local[e.to])
				if offending == "" || e.from == e.to {
					offending = c.P.InstrPos(e.site)
				}
			}
		}
		structural := true
		rc := sccs(rest)
		cnt := map[int]int{}
		for _, x := range rc {
			cnt[x]++
		}
		for v, x := range rc {
			if cnt[x] > 1 {
				structural = false
			}
			for _, w := range rest[v] {
				if w == v {
					structural = false
				}
			}
		}
		if structural {
			out = append(out, ok(rule, key, c.P.Pos(fns[ms[0]].Pos()), "structural descent: every call cycle passes an element/field/map value selected from a YAML-tree parameter (finite, acyclic decoded tree)"))
		} else {
			out = append(out, bad(rule, key, offending, "recursion that is not a structural descent on a YAML tree; needs a guard (CYC) or a written termination argument"))
		}
	}
	c.Stats[rule+".recursive_sccs"] = nrec
	// depth: a function that calls itself on the rest of a text it is consuming (a suffix of its own string / byte
	// parameter) uses one stack frame per piece consumed. Termination is not the issue - the depth is: it grows
	// with the length of the input, and stack exhaustion is a fatal error that cannot be recovered from.
	// (Recursion over the decoded YAML tree is bounded by its nesting depth, which the YAML decoder limits.)
	for _, e := range edges {
		if e.from != e.to {
			continue
		}
		for i, a := range e.site.Common().Args {
			sl, ok := a.(*ssa.Slice)
			if !ok || sl.Low == nil || sl.High != nil || i >= len(e.from.Params) || !isByteSeq(sl.Type()) {
				continue
			}
			// the sliced value is the same parameter, possibly re-sliced on the way
			base := sl.X
			for d := 0; d < 6; d++ {
				if s2, isS := base.(*ssa.Slice); isS {
					base = s2.X
					continue
				}
				break
			}
			if base == ssa.Value(e.from.Params[i]) {
				out = append(out, bad(rule, "depth :: "+c.P.FuncID(e.from), c.P.InstrPos(e.site),
					"the function calls itself on the rest of the text it consumes: one stack frame per piece, so the depth grows with the length of the input and a long enough file exhausts the stack (fatal, not recoverable); a loop does the same in constant stack"))
			}
		}
	}
	// condition-less for loops
	for _, f := range fns {
		if f.Syntax() == nil {
			continue
		}
		var loops []*ast.ForStmt
		ast.Inspect(f.Syntax(), func(n ast.Node) bool {
			if fl, ok := n.(*ast.FuncLit); ok && fl != f.Syntax() {
				return false // closures are functions of their own
			}
			if fs, ok := n.(*ast.ForStmt); ok && fs.Cond == nil {
				loops = append(loops, fs)
			}
			return true
		})
		if len(loops) == 0 {
			continue
		}
		// a loop that consumes a string terminates: some loop-carried string / slice is strictly shorter on every
		// way back to the loop head (the remainder after a found, non-empty separator; a re-slice from a low
		// bound proved >= 1)
		shrinks := c.shrinkingLoops(f)
		for _, fs := range loops {
			if shrinks[c.P.Fset.Position(fs.Body.Lbrace).Line] || shrinks[c.P.Fset.Position(fs.Pos()).Line] {
				out = append(out, ok(rule, "loop :: for{} in "+c.P.FuncID(f), c.P.Pos(fs.Pos()), "a loop-carried string is strictly shorter on every back edge: the loop consumes its input"))
				continue
			}
			out = append(out, bad(rule, "loop :: for{} in "+c.P.FuncID(f), c.P.Pos(fs.Pos()), "loop without a condition: termination rests on its internal breaks/returns"))
		}
	}
	return out
}

// descends: v is obtained from a parameter of fn by selection (element, field, map value, range value).
func descends(v ssa.Value, fn *ssa.Function, depth int) bool {
	sel := false
	for i := 0; i < depth; i++ {
		switch x := v.(type) {
		case *ssa.Parameter:
			return sel && x.Parent() == fn && yamlTreeType(x.Type())
		case *ssa.FreeVar:
			return false
		case *ssa.Extract:
			switch t := x.Tuple.(type) {
			case *ssa.Next:
				sel = true
				if rg, ok := t.Iter.(*ssa.Range); ok {
					v = rg.X
					continue
				}
				return false
			case *ssa.TypeAssert:
				v = t.X
				continue
			case *ssa.Lookup:
				sel = true
				v = t.X
				continue
			}
			return false
		case *ssa.TypeAssert:
			v = x.X
		case *ssa.MakeInterface:
			v = x.X
		case *ssa.ChangeType:
			v = x.X
		case *ssa.Lookup:
			sel = true
			v = x.X
		case *ssa.Index:
			sel = true
			v = x.X
		case *ssa.Field:
			sel = true
			v = x.X
		case *ssa.UnOp:
			if x.Op != token.MUL {
				return false
			}
			switch a := x.X.(type) {
			case *ssa.IndexAddr:
				sel = true
				v = a.X
			case *ssa.FieldAddr:
				sel = true
				v = a.X
			default:
				return false
			}
		default:
			return false
		}
	}
	return false
}

// yamlTreeType: any, map[string]any, []any, *yaml.Node and named types over them: values that
// come out of the YAML decoder and are therefore finite and acyclic.
func yamlTreeType(t types.Type) bool {
	if p, ok := t.(*types.Pointer); ok {
		if n, ok := p.Elem().(*types.Named); ok && n.Obj().Name() == "Node" && n.Obj().Pkg() != nil && strings.HasSuffix(n.Obj().Pkg().Path(), "yaml.v3") {
			return true
		}
		return false
	}
	switch u := t.Underlying().(type) {
	case *types.Interface:
		return u.NumMethods() == 0
	case *types.Map:
		return yamlTreeType(u.Elem())
	case *types.Slice:
		return yamlTreeType(u.Elem())
	}
	return false
}

// sccs: Tarjan; returns component index per vertex.
func sccs(adj [][]int) []int {
	n := len(adj)
	index := make([]int, n)
	low := make([]int, n)
	on := make([]bool, n)
	comp := make([]int, n)
	for i := range index {
		index[i] = -1
		comp[i] = -1
	}
	var stack []int
	cur, nc := 0, 0
	var strong func(v int)
	strong = func(v int) {
		index[v], low[v] = cur, cur
		cur++
		stack = append(stack, v)
		on[v] = true
		for _, w := range adj[v] {
			if index[w] < 0 {
				strong(w)
				if low[w] < low[v] {
					low[v] = low[w]
				}
			} else if on[w] && index[w] < low[v] {
				low[v] = index[w]
			}
		}
		if low[v] == index[v] {
			for {
				w := stack[len(stack)-1]
				stack = stack[:len(stack)-1]
				on[w] = false
				comp[w] = nc
				if w == v {
					break
				}
			}
			nc++
		}
	}
	for v := 0; v < n; v++ {
		if index[v] < 0 {
			strong(v)
		}
	}
	return comp
}

var _ = report.Info

// errUntestedExit: a path from the call to a return of the function that neither
// tests the call's error against nil, nor hands it to another call, nor returns
// it. Returns the position of the offending return ("" when none).
func (c *Ctx) errUntestedExit(call ssa.CallInstruction) string {
	v, isVal := call.(ssa.Value)
	if !isVal {
		return ""
	}
	sig := call.Common().Signature()
	n := sig.Results().Len()
	if n == 0 || !isErrorType(sig.Results().At(n-1).Type()) {
		return ""
	}
	var errv ssa.Value
	if n == 1 {
		errv = v
	} else {
		for _, r := range *v.Referrers() {
			if ex, ok := r.(*ssa.Extract); ok && ex.Index == n-1 {
				errv = ex
			}
		}
	}
	if errv == nil {
		return c.P.InstrPos(call) // discarded outright
	}
	// values that stand for the error: itself and phis of it
	alias := map[ssa.Value]bool{errv: true}
	for changed := true; changed; {
		changed = false
		for a := range alias {
			for _, r := range *a.Referrers() {
				if phi, ok := r.(*ssa.Phi); ok && !alias[phi] {
					alias[phi] = true
					changed = true
				}
			}
		}
	}
	// blocks in which the error is consumed: tested, passed to a call, stored, or returned
	type edge struct{ from, to *ssa.BasicBlock }
	cleared := map[*ssa.BasicBlock]bool{}
	for a := range alias {
		for _, r := range *a.Referrers() {
			switch x := r.(type) {
			case *ssa.BinOp:
				if (x.Op == token.EQL || x.Op == token.NEQ) && (prog.IsNilConst(x.X) || prog.IsNilConst(x.Y)) {
					for _, rr := range *x.Referrers() {
						if iff, ok := rr.(*ssa.If); ok {
							cleared[iff.Block()] = true
						}
					}
				}
			case *ssa.Return:
				cleared[x.Block()] = true
			case ssa.CallInstruction:
				// asking what KIND of error it is (errors.Is / errors.As / an IsXxx predicate: one bool result) does not
				// consume it: on the `no` edge the error is still pending
				if res := x.Common().Signature().Results(); res.Len() == 1 {
					if bt, ok := res.At(0).Type().Underlying().(*types.Basic); ok && bt.Kind() == types.Bool {
						// ... but on the `yes` edge the kind was recognised: consumed there
						if pv, isV := r.(ssa.Value); isV {
							for _, rr := range *pv.Referrers() {
								cond, neg := rr, false
								if u, isU := rr.(*ssa.UnOp); isU && u.Op == token.NOT {
									neg = true
									for _, r3 := range *u.Referrers() {
										cond = r3
									}
								}
								if iff, ok := cond.(*ssa.If); ok {
									yes := iff.Block().Succs[0]
									if neg {
										yes = iff.Block().Succs[1]
									}
									if len(yes.Preds) == 1 {
										cleared[yes] = true
									}
								}
							}
						}
						continue
					}
				}
				cleared[r.Block()] = true
			case *ssa.Store, *ssa.MakeInterface, *ssa.MapUpdate, *ssa.Send:
				cleared[r.Block()] = true
			}
		}
	}
	start := call.Block()
	if cleared[start] {
		// consumed later in the same block?
		for a := range alias {
			for _, r := range *a.Referrers() {
				if r.Block() == start && prog.InstrIndex(r) > prog.InstrIndex(call) {
					if _, isPhi := r.(*ssa.Phi); !isPhi {
						return ""
					}
				}
			}
		}
	}
	seen := map[*ssa.BasicBlock]bool{}
	stack := append([]*ssa.BasicBlock{}, start.Succs...)
	if len(start.Succs) == 0 {
		if ret, ok := start.Instrs[len(start.Instrs)-1].(*ssa.Return); ok {
			return c.P.InstrPos(ret)
		}
	}
	for len(stack) > 0 {
		b := stack[len(stack)-1]
		stack = stack[:len(stack)-1]
		if seen[b] || b == call.Parent().Recover {
			continue
		}
		seen[b] = true
		if cleared[b] {
			continue
		}
		if b == start {
			continue // back at the call: the error is produced again
		}
		if ret, ok := b.Instrs[len(b.Instrs)-1].(*ssa.Return); ok {
			return c.P.InstrPos(ret)
		}
		stack = append(stack, b.Succs...)
	}
	return ""
}

// shrinkingLoops returns the source lines of the loops of fn (line of the first instruction of the header block
// and of the `for` statement) for which a ranking argument holds: a header phi of string or slice type whose
// value on every back edge is (a) the remainder strings.Cut returns after a non-empty constant separator, on a
// path where the separator was found, or (b) a re-slice `x[low:]` of the phi with low >= 1 provable.
func (c *Ctx) shrinkingLoops(fn *ssa.Function) map[int]bool {
	res := map[int]bool{}
	var solver *idxSolver
	for _, h := range fn.Blocks {
		var back []int
		for i, p := range h.Preds {
			if h.Dominates(p) {
				back = append(back, i)
			}
		}
		if len(back) == 0 {
			continue
		}
		ok := false
		for _, in := range h.Instrs {
			phi, isPhi := in.(*ssa.Phi)
			if !isPhi {
				break
			}
			switch phi.Type().Underlying().(type) {
			case *types.Slice:
			case *types.Basic:
				if !isStringType(phi.Type()) {
					continue
				}
			default:
				continue
			}
			all := true
			for _, i := range back {
				e := phi.Edges[i]
				pred := h.Preds[i]
				shorter := false
				switch x := e.(type) {
				case *ssa.Extract:
					if call, isCall := x.Tuple.(*ssa.Call); isCall && staticName(&call.Call) == "strings.Cut" && x.Index == 1 && call.Call.Args[0] == ssa.Value(phi) {
						if sep, isC := prog.ConstString(call.Call.Args[1]); isC && sep != "" {
							// the back edge is taken only when the separator was found
							shorter = factHolds(pred, func(cond ssa.Value, val bool) bool {
								ex, isEx := cond.(*ssa.Extract)
								return isEx && ex.Tuple == ssa.Value(call) && ex.Index == 2 && val
							})
						}
					}
				case *ssa.Slice:
					if x.X == ssa.Value(phi) && x.Low != nil && x.High == nil {
						if solver == nil {
							solver = c.newIdxSolver(fn)
						}
						solver.factsAt(pred)
						shorter = solver.lb(vn(x.Low), zeroNode, -1)
					}
				}
				if !shorter {
					all = false
				}
			}
			if all {
				ok = true
			}
		}
		if ok {
			for _, in := range h.Instrs {
				if in.Pos().IsValid() {
					res[c.P.Fset.Position(in.Pos()).Line] = true
				}
			}
			// the `for` keyword sits just before the first statement of the body
			for _, in := range h.Instrs {
				if _, isPhi := in.(*ssa.Phi); !isPhi && in.Pos().IsValid() {
					l := c.P.Fset.Position(in.Pos()).Line
					res[l-1] = true
					break
				}
			}
		}
	}
	return res
}
