package rules

import (
	"fmt"
	"go/token"
	"go/types"
	"sort"
	"strings"

	"golang.org/x/tools/go/ssa"

	"verifcheck/internal/prog"
	"verifcheck/internal/report"
	"verifcheck/internal/tab"
)

// Rules written after the "incomplete feature" round (DESIGN §0.17): a feature that is added in most of the places
// its siblings are handled in, and forgotten in one. Each rule states an agreement between two such places.

// callsModule: fn (or a module callee, two levels down) calls a function whose base name is one of names.
func (c *Ctx) callsNamed(fn *ssa.Function, depth int, names ...string) bool {
	if fn == nil || fn.Blocks == nil || depth > 2 {
		return false
	}
	for _, cs := range callSites(fn, func(com *ssa.CallCommon) bool { return true }) {
		cal := cs.Common().StaticCallee()
		if cal == nil {
			continue
		}
		for _, n := range names {
			if c.P.RefName(cal) == n || cal.Name() == n {
				return true
			}
		}
		if c.P.InModule(cal) && c.callsNamed(cal, depth+1, names...) {
			return true
		}
	}
	return false
}

// ---------------------------------------------------------------------------
// SEQDICT (C11, C04, C03): mergeToSequence reads a mapping as a dictionary and
// turns it into `key=value` strings. A path it is bound to may admit an object
// only if that object IS a dictionary (pattern / additional properties), never a
// record with named properties: the members of a record would become bogus
// entries `path=...`, `required=...`.
// ---------------------------------------------------------------------------

func (c *Ctx) SEQDICT(rule string) []report.Obligation {
	var out []report.Obligation
	d := c.tab()
	if d.err != nil {
		return c.tabErr(rule)
	}
	merge := c.table(rule, TMerge, &out)
	if merge == nil {
		return out
	}
	n := 0
	for _, r := range merge.Rows {
		if r.Fn == nil || !c.callsNamed(r.Fn, 0, "convertIntoSequence") {
			continue
		}
		for _, sp := range d.schema.Paths() {
			if !tab.MatchPattern(sp, r.Pattern) {
				continue
			}
			node := d.schema.Nodes[sp]
			if node == nil || !node.Kinds[tab.KObject] {
				continue
			}
			n++
			var props []string
			for p := range node.Props {
				props = append(props, p)
			}
			sort.Strings(props)
			out = append(out, verdict(len(props) == 0, rule, TMerge+" :: "+sp+" merged as a sequence: its mapping form is a dictionary", r.Pos,
				"the object alternative has no named properties: every member is a key of the dictionary",
				"the schema admits at this path an object with the named members ["+strings.Join(props, ", ")+"], and "+r.Func+" turns a mapping into `key=value` strings: the members of one entry become bogus entries"))
		}
	}
	c.Stats[rule+".paths"] = n
	if n == 0 {
		out = append(out, bad(rule, TMerge+" :: paths merged as sequences that admit a mapping", "", "none found: the rule sees nothing"))
	}
	return out
}

// ---------------------------------------------------------------------------
// IDXPATH (C16, C04): an attribute whose entries are file paths (it has a row in
// the path resolvers table) is identified by the whole path. An indexer that
// cuts the entry at `=` (keyValueIndexer) takes two different files below
// `dir=a/` and `dir=b/`... for one.
// ---------------------------------------------------------------------------

func (c *Ctx) IDXPATH(rule string) []report.Obligation {
	var out []report.Obligation
	uniq := c.table(rule, TUnique, &out)
	res := c.table(rule, TResolvers, &out)
	if uniq == nil || res == nil {
		return out
	}
	cuts := func(fn *ssa.Function) string {
		for _, cs := range callSites(fn, func(com *ssa.CallCommon) bool {
			switch staticName(com) {
			case "strings.Cut", "strings.Split", "strings.SplitN", "strings.Index", "strings.IndexByte", "strings.IndexRune":
				return true
			}
			return false
		}) {
			args := cs.Common().Args
			if len(args) >= 2 && isShortString(args[0]) {
				if sep, ok := constStr(args[1]); ok {
					return sep
				}
				if k, ok := constInt(args[1]); ok {
					return string(rune(k))
				}
			}
		}
		return ""
	}
	n := 0
	for _, ur := range uniq.Rows {
		if ur.Fn == nil {
			continue
		}
		isPath := ""
		for _, rr := range res.Rows {
			if rr.Pattern == ur.Pattern || rr.Pattern == ur.Pattern+".*" || strings.HasPrefix(rr.Pattern, ur.Pattern+".*.") {
				isPath = rr.Pattern
			}
		}
		if isPath == "" {
			continue
		}
		if d := c.tab(); d.err == nil {
			if node := d.schema.Nodes[ur.Pattern]; node != nil && node.Kinds[tab.KObject] {
				continue // the attribute also has a mapping form: its entries are NAME=path pairs, keyed by the name
			}
		}
		n++
		sep := cuts(ur.Fn)
		out = append(out, verdict(sep == "", rule, TUnique+" :: "+ur.Pattern+" entries are paths: keyed by the whole entry", ur.Pos,
			ur.Func+" does not cut the short form (resolver row "+isPath+")",
			fmt.Sprintf("the entries are file paths (resolver row %s) but %s keys them by the text before %q: two files whose paths agree up to that character count as one, and the earlier one is silently replaced", isPath, ur.Func, sep)))
	}
	c.Stats[rule+".rows"] = n
	if n == 0 {
		out = append(out, bad(rule, TUnique+" :: rows over path attributes", "", "none found: the rule sees nothing"))
	}
	return out
}

// ---------------------------------------------------------------------------
// MERGESYM (C05, C04): a special merger receives the base and the override
// before either went through the canonical transformation (a local `extends`
// merges two raw services). Whatever conversion it applies to one operand it
// applies to the other: the module functions the override flows into are the
// functions the base flows into.
// ---------------------------------------------------------------------------

func (c *Ctx) MERGESYM(rule string) []report.Obligation {
	var out []report.Obligation
	merge := c.table(rule, TMerge, &out)
	if merge == nil {
		return out
	}
	seen := map[*ssa.Function]bool{}
	n := 0
	for _, r := range merge.Rows {
		fn := r.Fn
		if fn == nil || seen[fn] || len(fn.Params) < 2 {
			continue
		}
		seen[fn] = true
		// the two operands: the first two parameters of interface type
		var ops []*ssa.Parameter
		for _, p := range fn.Params {
			if types.IsInterface(p.Type()) && len(ops) < 2 {
				ops = append(ops, p)
			}
		}
		if len(ops) != 2 {
			continue
		}
		conv := func(p *ssa.Parameter) map[string]bool {
			m := map[string]bool{}
			for _, u := range *p.Referrers() {
				ci, ok := u.(ssa.CallInstruction)
				if !ok {
					continue
				}
				cal := ci.Common().StaticCallee()
				if cal == nil || !c.P.InModule(cal) {
					continue
				}
				// a converter: takes the operand alone (not both operands: that is a delegate merger)
				both := 0
				for _, a := range ci.Common().Args {
					if a == ssa.Value(ops[0]) || a == ssa.Value(ops[1]) {
						both++
					}
				}
				if both == 1 {
					m[c.P.FuncID(cal)] = true
				}
			}
			// closures defined in the merger (toBuild := func(c any) ...) called with the operand
			for _, u := range *p.Referrers() {
				if call, ok := u.(*ssa.Call); ok {
					if mc, isMC := call.Call.Value.(*ssa.MakeClosure); isMC {
						m["closure "+mc.Fn.Name()] = true
					}
					if fnv, isFn := call.Call.Value.(*ssa.Function); isFn && fnv.Parent() == fn {
						m["closure "+fnv.Name()] = true
					}
				}
			}
			return m
		}
		a, b := conv(ops[0]), conv(ops[1])
		// the YAML kinds an operand is told apart into by the merger itself (type switch / assertions)
		asserted := func(p *ssa.Parameter) map[string]bool {
			m := map[string]bool{}
			for _, u := range *p.Referrers() {
				if ta, ok := u.(*ssa.TypeAssert); ok && ta.X == ssa.Value(p) {
					m["kind "+c.P.TypeStr(ta.AssertedType)] = true
				}
			}
			return m
		}
		ka, kb := asserted(ops[0]), asserted(ops[1])
		if len(ka) > 0 && len(kb) > 0 {
			for k := range ka {
				a[k] = true
			}
			for k := range kb {
				b[k] = true
			}
		}
		if len(a) == 0 && len(b) == 0 {
			continue
		}
		n++
		var onlyA, onlyB []string
		for k := range a {
			if !b[k] {
				onlyA = append(onlyA, k)
			}
		}
		for k := range b {
			if !a[k] {
				onlyB = append(onlyB, k)
			}
		}
		sort.Strings(onlyA)
		sort.Strings(onlyB)
		out = append(out, verdict(len(onlyA) == 0 && len(onlyB) == 0, rule, c.P.FuncID(fn)+" :: base and override go through the same conversions", c.P.Pos(fn.Pos()),
			"both operands are converted by the same functions",
			fmt.Sprintf("only the base is handled as %v, only the override as %v: the other operand is taken as already canonical, which it is not when two raw services are merged (local extends, `---` documents)", onlyA, onlyB)))
	}
	c.Stats[rule+".mergers"] = n
	if n == 0 {
		out = append(out, bad(rule, TMerge+" :: mergers that convert their operands", "", "none found: the rule sees nothing"))
	}
	return out
}

// ---------------------------------------------------------------------------
// EDGEPAIR (C13, C19): a vertex of the dependency graph records an edge twice,
// in the `children` map of one end and in the `parents` map of the other. The
// struct type tells which fields mirror each other (two fields of one identical
// map-of-vertices type). A function that inserts into one of them inserts into
// the other in the same block.
// ---------------------------------------------------------------------------

func (c *Ctx) EDGEPAIR(rule string) []report.Obligation {
	var out []report.Obligation
	n := 0
	mirror := func(st *types.Struct, i int) int {
		t := st.Field(i).Type()
		if _, isMap := t.Underlying().(*types.Map); !isMap {
			return -1
		}
		other, cnt := -1, 0
		for j := 0; j < st.NumFields(); j++ {
			if j != i && types.Identical(st.Field(j).Type(), t) {
				other = j
				cnt++
			}
		}
		if cnt != 1 {
			return -1
		}
		// a map whose elements point back to the struct: adjacency
		m := t.Underlying().(*types.Map)
		if pt, ok := m.Elem().Underlying().(*types.Pointer); ok {
			if est, ok := pt.Elem().Underlying().(*types.Struct); ok && est == st {
				return other
			}
		}
		return -1
	}
	for _, fn := range c.P.Funcs {
		if !strings.HasPrefix(c.P.FuncID(fn), "graph.") {
			continue
		}
		for _, b := range fn.Blocks {
			type w struct {
				st    *types.Struct
				field int
				in    ssa.Instruction
			}
			var ws []w
			for _, in := range b.Instrs {
				mu, ok := in.(*ssa.MapUpdate)
				if !ok {
					continue
				}
				fr, ok := fieldLoad(mu.Map)
				if !ok {
					continue
				}
				if mirror(fr.owner, fr.idx) >= 0 {
					ws = append(ws, w{fr.owner, fr.idx, in})
				}
			}
			for _, x := range ws {
				n++
				m := mirror(x.st, x.field)
				paired := false
				for _, y := range ws {
					if y.st == x.st && y.field == m {
						paired = true
					}
				}
				out = append(out, verdict(paired, rule, c.P.FuncID(fn)+" :: edge recorded in ."+x.st.Field(x.field).Name()+" and in its mirror ."+x.st.Field(m).Name(), c.P.InstrPos(x.in),
					"both adjacency maps are updated together", "an edge is recorded in ."+x.st.Field(x.field).Name()+" only: whatever reads ."+x.st.Field(m).Name()+" (the wake-up of dependents, the start vertices of the other direction) does not see it"))
			}
		}
	}
	c.Stats[rule+".edge writes"] = n
	if n == 0 {
		out = append(out, anchorViolation(rule, "a write to an adjacency map of a graph vertex"))
	}
	return out
}

// ---------------------------------------------------------------------------
// IDEMP (C09, C03): rendering always emits the long form, so a reload sends it
// through the mapping arm of the canonical transformer. The canonical form must
// be a fixed point: every attribute the mapping arm fills in when absent is
// already present in every mapping the string arm produces.
// ---------------------------------------------------------------------------

func (c *Ctx) IDEMP(rule string) []report.Obligation {
	var out []report.Obligation
	trans := c.table(rule, TTransform, &out)
	if trans == nil {
		return out
	}
	n := 0
	seen := map[*ssa.Function]bool{}
	for _, r := range trans.Rows {
		fn := r.Fn
		if fn == nil || seen[fn] || len(fn.Params) == 0 {
			continue
		}
		seen[fn] = true
		// attributes filled in on the mapping the function received (directly, or in a helper it hands it to)
		defaulted := map[string]bool{}
		var scan func(f *ssa.Function, isInput func(ssa.Value) bool, depth int)
		scan = func(f *ssa.Function, isInput func(ssa.Value) bool, depth int) {
			for _, b := range f.Blocks {
				for _, in := range b.Instrs {
					switch x := in.(type) {
					case *ssa.MapUpdate:
						k, ok := constStr(stripMI(x.Key))
						if !ok || !isInput(x.Map) {
							continue
						}
						// filled in when ABSENT: on the miss edge of a comma-ok lookup of this key (rewriting a key that is
						// present canonicalises a nested value and is idempotent by itself)
						absent := factHolds(b, func(cond ssa.Value, val bool) bool {
							ex, isE := cond.(*ssa.Extract)
							if !isE || ex.Index != 1 || val {
								return false
							}
							lk, isL := ex.Tuple.(*ssa.Lookup)
							if !isL {
								return false
							}
							k2, ok2 := constStr(lk.Index)
							return ok2 && k2 == k
						})
						if absent {
							defaulted[k] = true
						}
					case *ssa.Call:
						cal := x.Call.StaticCallee()
						if cal == nil || !c.P.InModule(cal) || cal.Blocks == nil || depth >= 1 {
							continue
						}
						for i, a := range x.Call.Args {
							if isInput(a) && i < len(cal.Params) {
								pa := cal.Params[i]
								scan(cal, func(v ssa.Value) bool { return derivesFrom(v, pa, 0) && !isFreshMap(v, 3) }, depth+1)
							}
						}
					}
				}
			}
		}
		input := fn.Params[0]
		scan(fn, func(v ssa.Value) bool {
			if isFreshMap(v, 3) {
				return false
			}
			return derivesFrom(v, input, 0)
		}, 0)
		if len(defaulted) == 0 {
			continue
		}
		// the mappings built for a short form: map literals (MakeMap) with their constant keys
		lits := map[*ssa.MakeMap]map[string]bool{}
		scope := []*ssa.Function{fn}
		for _, cs := range callSites(fn, func(com *ssa.CallCommon) bool { return true }) {
			if cal := cs.Common().StaticCallee(); cal != nil && c.P.InModule(cal) && cal.Blocks != nil && strings.HasPrefix(c.P.FuncID(cal), "transform.") {
				scope = append(scope, cal)
			}
		}
		var allBlocks []*ssa.BasicBlock
		for _, f := range scope {
			allBlocks = append(allBlocks, f.Blocks...)
		}
		for _, b := range allBlocks {
			for _, in := range b.Instrs {
				if mu, ok := in.(*ssa.MapUpdate); ok {
					if mm, isMM := mu.Map.(*ssa.MakeMap); isMM {
						if k, ok := constStr(stripMI(mu.Key)); ok {
							if lits[mm] == nil {
								lits[mm] = map[string]bool{}
							}
							lits[mm][k] = true
						}
					}
				}
			}
		}
		var mms []*ssa.MakeMap
		for mm := range lits {
			// only mappings that are returned as the canonical form
			returned := false
			for _, u := range valueUses(mm, 3) {
				if _, isRet := u.(*ssa.Return); isRet {
					returned = true
				}
			}
			if returned {
				mms = append(mms, mm)
			}
		}
		sort.Slice(mms, func(i, j int) bool { return mms[i].Pos() < mms[j].Pos() })
		for i, mm := range mms {
			n++
			var missing []string
			for k := range defaulted {
				if !lits[mm][k] {
					missing = append(missing, k)
				}
			}
			sort.Strings(missing)
			key := fmt.Sprintf("%s :: canonical mapping #%d built from a short form carries what the mapping arm fills in", c.P.FuncID(fn), i+1)
			out = append(out, verdict(len(missing) == 0, rule, key, c.P.InstrPos(mm),
				"every attribute the mapping arm defaults is set in this literal: transforming the result again changes nothing",
				fmt.Sprintf("the mapping arm fills in %v when absent, and this mapping built for a short form does not set them: the rendered long form reloads with attributes the first load did not have", missing)))
		}
	}
	c.Stats[rule+".literals"] = n
	if n == 0 {
		out = append(out, bad(rule, TTransform+" :: transformers that both build a mapping and default attributes", "", "none found: the rule sees nothing"))
	}
	return out
}

// ---------------------------------------------------------------------------
// KINDARM (C08): a value written through a variable reaches the code that runs
// after interpolation with the Go type its row of the cast table produces
// (int64, float32 ...), a literal with the type the YAML decoder produces (int,
// float64). A type switch over the raw value of an attribute that distinguishes
// numeric kinds has an arm for the kind its caster yields.
// ---------------------------------------------------------------------------

func (c *Ctx) KINDARM(rule string) []report.Obligation {
	var out []report.Obligation
	cast := c.table(rule, TCast, &out)
	if cast == nil {
		return out
	}
	// last segment of a cast path -> Go type names its casters return
	produced := map[string]map[string]bool{}
	for _, r := range cast.Rows {
		if r.Fn == nil {
			continue
		}
		segs := strings.Split(r.Pattern, ".")
		last := segs[len(segs)-1]
		for _, ret := range returnsOf(r.Fn) {
			v := stripMI(retValue(ret, 0))
			if v == nil || isNilOrConst(v) && v.Type() == nil {
				continue
			}
			if b, ok := v.Type().Underlying().(*types.Basic); ok && b.Info()&types.IsNumeric != 0 {
				if produced[last] == nil {
					produced[last] = map[string]bool{}
				}
				produced[last][b.Name()] = true
			}
		}
	}
	numeric := map[string]bool{"int": true, "int8": true, "int16": true, "int32": true, "int64": true, "uint": true, "uint8": true, "uint16": true, "uint32": true, "uint64": true, "float32": true, "float64": true}
	n := 0
	// type switches: chains of TypeAssert (comma-ok) on one value
	armsOf := func(fn *ssa.Function, v ssa.Value) map[string]bool {
		arms := map[string]bool{}
		for _, u := range *v.Referrers() {
			if ta, ok := u.(*ssa.TypeAssert); ok && ta.X == v {
				if b, ok := ta.AssertedType.Underlying().(*types.Basic); ok {
					arms[b.Name()] = true
				}
			}
		}
		return arms
	}
	for _, fn := range c.P.Funcs {
		id := c.P.FuncID(fn)
		if !(strings.HasPrefix(id, "loader.") || strings.HasPrefix(id, "transform.") || strings.HasPrefix(id, "override.")) {
			continue
		}
		for _, b := range fn.Blocks {
			for _, in := range b.Instrs {
				lk, ok := in.(*ssa.Lookup)
				if !ok {
					continue
				}
				for _, k := range c.constKeys(lk.Index) {
					if produced[k] == nil {
						continue
					}
					// the looked-up value, switched on here or in a helper it is handed to
					var val ssa.Value = lk
					if lk.CommaOk {
						for _, u := range *lk.Referrers() {
							if ex, ok := u.(*ssa.Extract); ok && ex.Index == 0 {
								val = ex
							}
						}
					}
					check := func(where *ssa.Function, v ssa.Value, pos string) {
						arms := armsOf(where, v)
						hasNum := false
						for a := range arms {
							if numeric[a] {
								hasNum = true
							}
						}
						if !hasNum {
							return
						}
						n++
						var missing []string
						for t := range produced[k] {
							if !arms[t] {
								missing = append(missing, t)
							}
						}
						sort.Strings(missing)
						var have []string
						for a := range arms {
							have = append(have, a)
						}
						sort.Strings(have)
						out = append(out, verdict(len(missing) == 0, rule, c.P.FuncID(where)+" :: kinds of `"+k+"` told apart", pos,
							fmt.Sprintf("arms %v cover what the cast table produces for this attribute", have),
							fmt.Sprintf("the switch has arms %v, but written through a variable `%s` arrives as %v (its row of the cast table): that spelling takes the default arm while the literal takes a numeric one", have, k, missing)))
					}
					check(fn, val, c.P.InstrPos(lk))
					for _, u := range *val.Referrers() {
						call, ok := u.(*ssa.Call)
						if !ok {
							continue
						}
						cal := call.Call.StaticCallee()
						if cal == nil || !c.P.InModule(cal) || cal.Blocks == nil {
							continue
						}
						for i, a := range call.Call.Args {
							if a == val && i < len(cal.Params) {
								check(cal, cal.Params[i], c.P.InstrPos(call))
							}
						}
					}
				}
			}
		}
	}
	c.Stats[rule+".switches"] = n
	out = append(out, ok(rule, "inventory :: type switches over cast attributes", "", fmt.Sprintf("%d switches over the raw value of an attribute that has a numeric cast row", n)))
	return out
}

// ---------------------------------------------------------------------------
// LOOKUPDROP (C20, C16): `v, _ := env.Resolve(name)` followed by a store of v
// writes the zero value when the name is absent. Where the target is a field of
// the model, an absent variable thereby erases what the field held (a secret's
// value carried over from an included project). The found flag of a lookup
// whose value is stored into a model field is tested.
// ---------------------------------------------------------------------------

func (c *Ctx) LOOKUPDROP(rule string, pkgs ...string) []report.Obligation {
	var out []report.Obligation
	n := 0
	for _, fn := range c.P.Funcs {
		id := c.P.FuncID(fn)
		in := false
		for _, p := range pkgs {
			if strings.HasPrefix(id, p) {
				in = true
			}
		}
		if !in || strings.HasPrefix(id, "types.deriveDeepCopy") {
			continue
		}
		for _, b := range fn.Blocks {
			for _, ins := range b.Instrs {
				var tuple ssa.Value
				switch x := ins.(type) {
				case *ssa.Call:
					res := x.Call.Signature().Results()
					if res.Len() == 2 {
						if bt, ok := res.At(1).Type().Underlying().(*types.Basic); ok && bt.Kind() == types.Bool {
							tuple = x
						}
					}
				case *ssa.Lookup:
					if x.CommaOk {
						tuple = x
					}
				}
				if tuple == nil {
					continue
				}
				var val, flag *ssa.Extract
				for _, u := range *tuple.Referrers() {
					if ex, ok := u.(*ssa.Extract); ok {
						if ex.Index == 0 {
							val = ex
						} else if ex.Index == 1 {
							flag = ex
						}
					}
				}
				if val == nil {
					continue
				}
				// stored into a field of a struct (through its address) or into an element of a model map
				var stores []ssa.Instruction
				for _, u := range *val.Referrers() {
					if st, ok := u.(*ssa.Store); ok && st.Val == ssa.Value(val) {
						if _, isFA := st.Addr.(*ssa.FieldAddr); isFA {
							stores = append(stores, st)
						}
					}
				}
				if len(stores) == 0 {
					continue
				}
				n++
				used := flag != nil && len(*flag.Referrers()) > 0
				out = append(out, verdict(used, rule, id+" :: found flag of "+c.P.KeyTerm(tuple, 2)+" whose value is stored into a field", c.P.InstrPos(stores[0]),
					"the flag is used", "the value is stored into a field while the flag that tells whether the name exists is dropped: an absent name overwrites the field with the zero value"))
			}
		}
	}
	c.Stats[rule+".lookups"] = n
	out = append(out, ok(rule, "inventory :: lookups whose value is stored into a field", "", fmt.Sprintf("%d", n)))
	return out
}

var _ = prog.IsNilConst
var _ = token.ADD
var _ = report.Discharged

// constKeys: the constant strings a map index can be: a constant, or a string member of the rows of a package-level
// table (a slice / array of structs filled by a composite literal) the function iterates over.
func (c *Ctx) constKeys(v ssa.Value) []string {
	if k, ok := constStr(stripMI(v)); ok {
		return []string{k}
	}
	ld, ok := v.(*ssa.UnOp)
	if !ok || ld.Op != token.MUL {
		return nil
	}
	fa, ok := ld.X.(*ssa.FieldAddr)
	if !ok {
		return nil
	}
	// the global the row comes from
	var g *ssa.Global
	var find func(x ssa.Value, depth int)
	find = func(x ssa.Value, depth int) {
		if g != nil || depth > 8 {
			return
		}
		switch y := x.(type) {
		case *ssa.Global:
			g = y
		case *ssa.UnOp:
			find(y.X, depth+1)
		case *ssa.IndexAddr:
			find(y.X, depth+1)
		case *ssa.FieldAddr:
			find(y.X, depth+1)
		case *ssa.Slice:
			find(y.X, depth+1)
		case *ssa.Alloc:
			for _, r := range *y.Referrers() {
				if st, ok := r.(*ssa.Store); ok && st.Addr == ssa.Value(y) {
					find(st.Val, depth+1)
				}
			}
		}
	}
	find(fa.X, 0)
	if g == nil || g.Pkg == nil {
		return nil
	}
	init := g.Pkg.Func("init")
	if init == nil {
		return nil
	}
	// the backing array stored into the global, and the constant stores to that member of its elements
	var out []string
	for _, b := range init.Blocks {
		for _, in := range b.Instrs {
			st, ok := in.(*ssa.Store)
			if !ok {
				continue
			}
			f2, ok := st.Addr.(*ssa.FieldAddr)
			if !ok || f2.Field != fa.Field {
				continue
			}
			ia, ok := f2.X.(*ssa.IndexAddr)
			if !ok {
				continue
			}
			// the array reaches the global through a slice expression
			reaches := false
			for _, r := range *ia.X.Referrers() {
				if sl, ok := r.(*ssa.Slice); ok {
					for _, r2 := range *sl.Referrers() {
						if st2, ok := r2.(*ssa.Store); ok && st2.Addr == ssa.Value(g) {
							reaches = true
						}
					}
				}
			}
			if !reaches {
				continue
			}
			if k, ok := constStr(stripMI(st.Val)); ok {
				out = append(out, k)
			}
		}
	}
	sort.Strings(out)
	return out
}

// ---------------------------------------------------------------------------
// INC-7 (C06): the `.env` file of an included project directory is a default:
// it is used when it exists and is a regular file, and otherwise the include is
// what the pasted model would be. Only DECLARED env files can fail the include
// for being a directory. In ApplyInclude and the helpers it hands the include
// entry to, an error return that depends on an IsDir() test is reached only
// where `env_file` was declared (the emptiness test of the EnvFile field is
// decided, on the non-empty side).
// ---------------------------------------------------------------------------

func (c *Ctx) INC7(rule string) []report.Obligation {
	var out []report.Obligation
	root := c.P.Func("loader.ApplyInclude")
	if root == nil {
		return append(out, anchorViolation(rule, "loader.ApplyInclude"))
	}
	fns := []*ssa.Function{root}
	// the env_file list of the include entry: the EnvFile field, or a parameter of a helper that receives it
	envParams := map[*ssa.Parameter]bool{}
	isEnvFile := func(v ssa.Value) bool {
		if pa, ok := v.(*ssa.Parameter); ok {
			return envParams[pa]
		}
		fr, ok := fieldLoad(v)
		return ok && fr.owner.Field(fr.idx).Name() == "EnvFile"
	}
	for _, cs := range callSites(root, func(com *ssa.CallCommon) bool { return true }) {
		if cal := cs.Common().StaticCallee(); cal != nil && c.P.InModule(cal) && cal.Blocks != nil && strings.HasPrefix(c.P.FuncID(cal), "loader.") && cal.Name() != "loadYamlModel" {
			fns = append(fns, cal)
			for i, a := range cs.Common().Args {
				if i < len(cal.Params) && isEnvFile(a) {
					envParams[cal.Params[i]] = true
				}
			}
		}
	}
	isDirCall := func(v ssa.Value) bool {
		call, ok := v.(*ssa.Call)
		return ok && call.Call.IsInvoke() && call.Call.Method.Name() == "IsDir"
	}
	declared := func(cond ssa.Value, val bool) bool {
		bo, ok := cond.(*ssa.BinOp)
		if !ok {
			return false
		}
		var ln ssa.Value
		zeroOther := false
		for _, side := range [][2]ssa.Value{{bo.X, bo.Y}, {bo.Y, bo.X}} {
			if k, isK := constInt(side[1]); isK && k == 0 {
				ln, zeroOther = side[0], true
			}
		}
		if !zeroOther {
			return false
		}
		call, ok := ln.(*ssa.Call)
		if !ok {
			return false
		}
		if bi, isB := call.Call.Value.(*ssa.Builtin); !isB || bi.Name() != "len" {
			return false
		}
		if !isEnvFile(call.Call.Args[0]) {
			return false
		}
		switch bo.Op {
		case token.EQL:
			return !val
		case token.NEQ, token.GTR:
			return val
		}
		return false
	}
	n := 0
	for _, fn := range fns {
		for _, ret := range returnsOf(fn) {
			ev := errRet(ret)
			if isNilOrConst(ev) {
				continue
			}
			// the return is taken because the path IS a directory (the fact holds on every way to it)
			dependsOnIsDir := factHolds(ret.Block(), func(cond ssa.Value, val bool) bool { return val && isDirCall(cond) })
			isDeclared := false
			if !dependsOnIsDir {
				continue
			}
			n++
			if factHolds(ret.Block(), declared) {
				isDeclared = true
			}
			out = append(out, verdict(isDeclared, rule, c.P.FuncID(fn)+" :: `is a directory` fails the include only for a declared env_file", c.P.InstrPos(ret),
				"the error is reached only where the EnvFile list of the include entry is not empty", "an error return that depends on IsDir() is reached without `env_file` having been declared: the default .env of the included project directory, when it is a directory, now fails the include instead of being ignored"))
		}
	}
	c.Stats[rule+".returns"] = n
	if n == 0 {
		out = append(out, anchorViolation(rule, "an error return of ApplyInclude that depends on IsDir()"))
	}
	return out
}

// ---------------------------------------------------------------------------
// CLIENV (C17): every entry of package cli that hands a ConfigDetails to the
// loader has set its Environment field (from the project options) on the way:
// the project is named, and the model interpolated, with the project
// environment whichever entry point is used (LoadProject, LoadModel).
// ---------------------------------------------------------------------------

func (c *Ctx) CLIENV(rule string) []report.Obligation {
	var out []report.Obligation
	n := 0
	for _, fn := range c.P.Funcs {
		if !strings.HasPrefix(c.P.FuncID(fn), "cli.") {
			continue
		}
		for _, cs := range callSites(fn, func(com *ssa.CallCommon) bool {
			cal := com.StaticCallee()
			return cal != nil && strings.HasPrefix(c.P.FuncID(cal), "loader.Load")
		}) {
			for _, a := range cs.Common().Args {
				nt, ok := a.Type().(*types.Named)
				if !ok || nt.Obj().Name() != "ConfigDetails" {
					continue
				}
				n++
				key := c.P.FuncID(fn) + " :: the ConfigDetails handed to " + c.P.FuncID(cs.Common().StaticCallee()) + " carries the environment"
				ld, isLd := a.(*ssa.UnOp)
				set := false
				if isLd && ld.Op == token.MUL {
					for _, b := range fn.Blocks {
						for _, in := range b.Instrs {
							st, ok := in.(*ssa.Store)
							if !ok {
								continue
							}
							fa, ok := st.Addr.(*ssa.FieldAddr)
							if !ok || fa.X != ld.X {
								continue
							}
							stt := fa.X.Type().Underlying().(*types.Pointer).Elem().Underlying().(*types.Struct)
							if stt.Field(fa.Field).Name() == "Environment" && !isNilOrConst(st.Val) && prog.InstrDominates(st, cs) {
								set = true
							}
						}
					}
				}
				out = append(out, verdict(set, rule, key, c.P.InstrPos(cs), "its Environment field is stored before the call",
					"no store to the Environment field of the ConfigDetails precedes the call: this entry point interpolates the model and names the project with an empty environment, unlike its siblings"))
			}
		}
	}
	c.Stats[rule+".calls"] = n
	if n == 0 {
		out = append(out, anchorViolation(rule, "a call from package cli into the loader with a ConfigDetails"))
	}
	return out
}

// ---------------------------------------------------------------------------
// OMITREQ (C09): a member the schema REQUIRES of an object must be rendered
// also when it is zero: an `omitempty` tag on a numeric or boolean field drops
// `soft: 0`, and the rendering no longer validates. The tags apply when the
// owning type has no marshaller of its own for the format, or when that
// marshaller hands the value itself (its own type) to the encoder.
// ---------------------------------------------------------------------------

func (c *Ctx) OMITREQ(rule string) []report.Obligation {
	var out []report.Obligation
	d := c.tab()
	if d.err != nil {
		return c.tabErr(rule)
	}
	n := 0
	// does the marshaller hand a value of the type's own struct to the encoder / return it?
	ownType := func(fn *ssa.Function, named string) bool {
		if fn == nil {
			return true // no marshaller: the tags apply
		}
		is := func(v ssa.Value) bool {
			v = stripMI(v)
			t := v.Type()
			if pt, ok := t.Underlying().(*types.Pointer); ok {
				t = pt.Elem()
			}
			nt, ok := t.(*types.Named)
			return ok && "types."+nt.Obj().Name() == named
		}
		for _, cs := range callSites(fn, func(com *ssa.CallCommon) bool {
			sn := staticName(com)
			return strings.HasPrefix(sn, "encoding/json.Marshal") || strings.Contains(sn, "yaml") && strings.HasSuffix(sn, ".Marshal")
		}) {
			if len(cs.Common().Args) > 0 && is(cs.Common().Args[0]) {
				return true
			}
		}
		for _, ret := range returnsOf(fn) {
			if len(ret.Results) > 0 {
				if _, isBytes := ret.Results[0].Type().Underlying().(*types.Slice); !isBytes && is(ret.Results[0]) {
					return true
				}
			}
		}
		return false
	}
	for _, sp := range d.schema.Paths() {
		node := d.schema.Nodes[sp]
		if node == nil || len(node.Required) == 0 {
			continue
		}
		mpath := strings.ReplaceAll(sp, ".[]", ".*")
		parent := d.model.Nodes[mpath]
		var reqs []string
		for r := range node.Required {
			reqs = append(reqs, r)
		}
		sort.Strings(reqs)
		for _, r := range reqs {
			mn := d.model.Nodes[mpath+"."+r]
			if mn == nil || mn.Owner == "" {
				continue
			}
			kind := goScalarKind(mn.Type)
			if kind == "" || kind == "string" {
				continue // an empty string / list is not a value the schema accepts for a required member anyway
			}
			if !c.fieldOmitEmpty(mn.Owner) {
				continue
			}
			n++
			named := ""
			var my, mj *ssa.Function
			if parent != nil {
				named, my, mj = parent.Named, parent.MarshalY, parent.MarshalJ
			}
			var bad1 []string
			if ownType(mj, named) {
				bad1 = append(bad1, "JSON")
			}
			if ownType(my, named) {
				bad1 = append(bad1, "YAML")
			}
			out = append(out, verdict(len(bad1) == 0, rule, sp+"."+r+" :: a required member is rendered when it is zero", c.P.Pos(token.NoPos),
				fmt.Sprintf("%s is omitempty, but the marshallers of %s render it explicitly", mn.Owner, named),
				fmt.Sprintf("the schema requires `%s` at %s, field %s (%s) is tagged omitempty, and the %s rendering of %s goes through the tags: a zero value is dropped and the rendering is rejected on reload (`%s is required`)", r, sp, mn.Owner, kind, strings.Join(bad1, " and "), named, r)))
		}
	}
	c.Stats[rule+".members"] = n
	if n == 0 {
		out = append(out, bad(rule, "schema :: required numeric / boolean members tagged omitempty", "", "none found: the rule sees nothing"))
	}
	return out
}

// ---------------------------------------------------------------------------
// MARSHALALL (C09): a hand-written MarshalYAML / MarshalJSON on a struct is a
// second description of the type. A field it never looks at cannot be in the
// rendering: every field that carries a key for the format is read somewhere in
// the marshaller, or the marshaller hands the struct itself to the encoder.
// ---------------------------------------------------------------------------

func (c *Ctx) MARSHALALL(rule string) []report.Obligation {
	var out []report.Obligation
	n := 0
	for _, fn := range c.P.Funcs {
		if fn.Signature.Recv() == nil || (fn.Name() != "MarshalYAML" && fn.Name() != "MarshalJSON") || fn.Blocks == nil {
			continue
		}
		if !strings.HasPrefix(c.P.FuncID(fn), "types.") {
			continue
		}
		format := "yaml"
		if fn.Name() == "MarshalJSON" {
			format = "json"
		}
		rt := fn.Signature.Recv().Type()
		if pt, ok := rt.Underlying().(*types.Pointer); ok {
			rt = pt.Elem()
		}
		named, ok := rt.(*types.Named)
		if !ok {
			continue
		}
		st, ok := named.Underlying().(*types.Struct)
		if !ok {
			continue
		}
		if !c.modelType(named) {
			continue // not part of what a Project holds (the legacy Config document)
		}
		// fields read: FieldAddr / Field on the receiver (or a copy of it), in the method and the module helpers it
		// hands the receiver to; whole: the struct itself reaches an encoder or a conversion to a sibling type
		read := map[int]bool{}
		whole := false
		var scan func(f *ssa.Function, recv ssa.Value, depth int)
		scan = func(f *ssa.Function, recv ssa.Value, depth int) {
			// the receiver, and what a module function makes of it (a copy the options were applied to)
			roots := []ssa.Value{recv}
			for _, b := range f.Blocks {
				for _, in := range b.Instrs {
					if call, ok := in.(*ssa.Call); ok && sameStruct(call.Type(), st) {
						for _, a := range call.Call.Args {
							if derivesFrom(a, recv, 0) {
								roots = append(roots, call)
							}
						}
					}
				}
			}
			isRecv := func(v ssa.Value) bool {
				for _, r := range roots {
					if derivesFrom(v, r, 0) {
						return true
					}
				}
				return false
			}
			for _, b := range f.Blocks {
				for _, in := range b.Instrs {
					switch x := in.(type) {
					case *ssa.FieldAddr:
						if isRecv(x.X) && sameStruct(x.X.Type(), st) {
							for _, u := range *x.Referrers() {
								if ld, ok := u.(*ssa.UnOp); ok && ld.Op == token.MUL && flowsOut(ld, 0) {
									read[x.Field] = true
								}
								// the address itself handed on (a method of the field's type renders it)
								if _, isCall := u.(ssa.CallInstruction); isCall {
									read[x.Field] = true
								}
							}
						}
					case *ssa.Field:
						if isRecv(x.X) && sameStruct(x.X.Type(), st) && flowsOut(x, 0) {
							read[x.Field] = true
						}
					case *ssa.ChangeType, *ssa.Convert:
						// a conversion of the whole struct to a sibling type (type plain T) renders through the tags
						var src ssa.Value
						if ct, ok := x.(*ssa.ChangeType); ok {
							src = ct.X
						} else {
							src = x.(*ssa.Convert).X
						}
						if isRecv(src) && sameStruct(src.Type(), st) {
							whole = true
						}
					case ssa.CallInstruction:
						for _, a := range x.Common().Args {
							av := stripMI(a)
							if isRecv(av) && sameStruct(av.Type(), st) {
								cal := x.Common().StaticCallee()
								if cal != nil && c.P.InModule(cal) && cal.Blocks != nil && depth < 1 && cal != f {
									for i, p := range cal.Params {
										if i < len(x.Common().Args) && x.Common().Args[i] == a {
											scan(cal, p, depth+1)
										}
									}
								} else if cal == nil || !c.P.InModule(cal) {
									whole = true // handed to a library encoder
								}
							}
						}
					case *ssa.Return:
						for _, r := range x.Results {
							rv := stripMI(r)
							if isRecv(rv) && sameStruct(rv.Type(), st) {
								whole = true
							}
						}
					}
				}
			}
		}
		if len(fn.Params) == 0 {
			continue
		}
		scan(fn, fn.Params[0], 0)
		for i := 0; i < st.NumFields(); i++ {
			f := st.Field(i)
			tag := reflectTag(st.Tag(i), format)
			if tag == "" || tag == "-" {
				continue
			}
			n++
			okF := whole || read[i]
			out = append(out, verdict(okF, rule, c.P.FuncID(fn)+" :: looks at ."+f.Name(), c.P.Pos(fn.Pos()),
				"the value of the field flows into what the marshaller returns (or the struct itself is handed to the encoder)",
				"field "+f.Name()+" has the "+format+" key `"+tag+"` but its value never flows into what the hand-written marshaller returns (at most it is tested): whatever it holds is missing from the rendering"))
		}
	}
	c.Stats[rule+".fields"] = n
	if n == 0 {
		out = append(out, anchorViolation(rule, "a hand-written marshaller on a struct of package types"))
	}
	return out
}

func sameStruct(t types.Type, st *types.Struct) bool {
	if pt, ok := t.Underlying().(*types.Pointer); ok {
		t = pt.Elem()
	}
	s2, ok := t.Underlying().(*types.Struct)
	return ok && s2 == st
}

func reflectTag(tag, key string) string {
	for tag != "" {
		i := strings.Index(tag, key+":\"")
		if i < 0 {
			return ""
		}
		if i > 0 && tag[i-1] != ' ' {
			tag = tag[i+1:]
			continue
		}
		rest := tag[i+len(key)+2:]
		j := strings.Index(rest, "\"")
		if j < 0 {
			return ""
		}
		name, _, _ := strings.Cut(rest[:j], ",")
		if name == "" && strings.Contains(rest[:j], "inline") {
			return "(inline)"
		}
		return name
	}
	return ""
}

// modelType: the named type occurs in the type of Project, transitively through fields, elements and pointers.
func (c *Ctx) modelType(t *types.Named) bool {
	if c.modelTypes == nil {
		c.modelTypes = map[*types.TypeName]bool{}
		pk := c.P.PkgByRel["types"]
		if pk != nil && pk.Types != nil {
			if obj := pk.Types.Scope().Lookup("Project"); obj != nil {
				var walk func(t types.Type)
				walk = func(t types.Type) {
					switch x := t.(type) {
					case *types.Named:
						if c.modelTypes[x.Obj()] {
							return
						}
						c.modelTypes[x.Obj()] = true
						walk(x.Underlying())
					case *types.Pointer:
						walk(x.Elem())
					case *types.Slice:
						walk(x.Elem())
					case *types.Array:
						walk(x.Elem())
					case *types.Map:
						walk(x.Key())
						walk(x.Elem())
					case *types.Struct:
						for i := 0; i < x.NumFields(); i++ {
							walk(x.Field(i).Type())
						}
					}
				}
				walk(obj.Type())
			}
		}
	}
	return c.modelTypes[t.Obj()]
}

// ---------------------------------------------------------------------------
// RENDERESC (C09): the loaded model holds `$` where the file said `$$`. A
// rendering that is to reload to the same model writes `$$` again: somewhere in
// what Project.MarshalYAML / MarshalJSON reach, a `$` is replaced by `$$`. None
// does today (open finding): `command: echo $$HOME` renders as `echo $HOME` and
// reloads as `echo /root`.
// ---------------------------------------------------------------------------

func (c *Ctx) RENDERESC(rule string) []report.Obligation {
	var out []report.Obligation
	for _, id := range []string{"types.(*Project).MarshalYAML", "types.(*Project).MarshalJSON"} {
		fn := c.P.Func(id)
		if fn == nil {
			out = append(out, anchorViolation(rule, id))
			continue
		}
		r := c.P.Reachable([]*ssa.Function{fn})
		escapes := ""
		for f := range r.Set {
			if !c.P.InModule(f) {
				continue
			}
			for _, cs := range callSites(f, func(com *ssa.CallCommon) bool {
				switch staticName(com) {
				case "strings.ReplaceAll", "strings.Replace", "strings.NewReplacer":
					return true
				}
				return false
			}) {
				var consts []string
				for _, a := range cs.Common().Args {
					if k, ok := constStr(a); ok {
						consts = append(consts, k)
					}
					// the variadic pairs of NewReplacer
					if sl, ok := a.(*ssa.Slice); ok {
						if al, ok := sl.X.(*ssa.Alloc); ok {
							for _, ar := range *al.Referrers() {
								if ia, ok := ar.(*ssa.IndexAddr); ok {
									for _, rr := range *ia.Referrers() {
										if st, ok := rr.(*ssa.Store); ok {
											if k, ok := constStr(st.Val); ok {
												consts = append(consts, k)
											}
										}
									}
								}
							}
						}
					}
				}
				if contains(consts, "$") && contains(consts, "$$") {
					escapes = c.P.InstrPos(cs)
				}
			}
		}
		out = append(out, verdict(escapes != "", rule, id+" :: writes `$$` for a `$` of the model", c.P.Pos(fn.Pos()),
			"a `$` is replaced by `$$` at "+escapes,
			"nothing reachable from the renderer replaces `$` by `$$`: a value that holds a literal `$` (written `$$` in the file) is rendered bare and interpolated when the rendering is loaded (`command: echo $$HOME` reloads as `echo /root`)"))
	}
	return out
}

// flowsOut: the value ends up in something a marshaller produces: stored, put into a map, returned, handed to a
// call - not merely compared.
func flowsOut(v ssa.Value, depth int) bool {
	if depth > 4 {
		return false
	}
	for _, u := range *v.Referrers() {
		switch x := u.(type) {
		case *ssa.MapUpdate:
			if x.Value == v || x.Key == v {
				return true
			}
		case *ssa.Store:
			if x.Val == v {
				return true
			}
		case *ssa.Return:
			return true
		case ssa.CallInstruction:
			return true
		case *ssa.MakeInterface:
			if flowsOut(x, depth+1) {
				return true
			}
		case *ssa.ChangeType:
			if flowsOut(x, depth+1) {
				return true
			}
		case *ssa.Convert:
			if flowsOut(x, depth+1) {
				return true
			}
		case *ssa.Phi:
			if flowsOut(x, depth+1) {
				return true
			}
		case *ssa.Range:
			return true
		case *ssa.Slice:
			if flowsOut(x, depth+1) {
				return true
			}
		case *ssa.BinOp:
			// concatenation and arithmetic carry the value on; comparisons do not
			switch x.Op {
			case token.ADD, token.SUB, token.MUL, token.QUO:
				if flowsOut(x, depth+1) {
					return true
				}
			}
		}
	}
	return false
}

// ---------------------------------------------------------------------------
// ERRMUST: once a call's error has been seen to be non-nil, the function fails.
// From the non-nil edge of the test of an error, every return that can be
// reached yields a non-nil error (the same error, a wrap of it, or another
// error that is certainly non-nil): no path carries on as if the call had
// succeeded - no `continue` into the next iteration that overwrites it, no
// `return nil`, no replacement by a value that may be nil (ctx.Err()). The
// places where the code deliberately goes on after a failure (an optional file,
// a tolerated absence) are the justified instances of this rule.
// ---------------------------------------------------------------------------

// errCalls: module call sites whose last result is an error, with the Extract of that error.
func errResultOf(call *ssa.Call) *ssa.Extract {
	res := call.Call.Signature().Results()
	if res.Len() < 2 || !isErrorType(res.At(res.Len()-1).Type()) {
		return nil
	}
	for _, u := range *call.Referrers() {
		if ex, ok := u.(*ssa.Extract); ok && ex.Index == res.Len()-1 {
			return ex
		}
	}
	return nil
}

func (c *Ctx) inPkgs(fn *ssa.Function, pkgs []string) bool {
	id := c.P.FuncID(fn)
	if strings.HasPrefix(id, "types.deriveDeepCopy") {
		return false
	}
	for _, p := range pkgs {
		if strings.HasPrefix(id, p) {
			return true
		}
	}
	return false
}

func (c *Ctx) ERRMUST(rule string, pkgs ...string) []report.Obligation {
	var out []report.Obligation
	n := 0
	for _, fn := range c.P.Funcs {
		if fn.Blocks == nil || !c.inPkgs(fn, pkgs) {
			continue
		}
		sig := fn.Signature.Results()
		if sig.Len() == 0 || !isErrorType(sig.At(sig.Len()-1).Type()) {
			continue // the function cannot fail: what it does with an error is ERRDROP's business
		}
		fi := prog.Info(fn)
		for _, b := range fn.Blocks {
			iff, ok := b.Instrs[len(b.Instrs)-1].(*ssa.If)
			if !ok {
				continue
			}
			var ev ssa.Value
			failSucc := 0
			what := ""
			if bo, ok := iff.Cond.(*ssa.BinOp); ok && (bo.Op == token.NEQ || bo.Op == token.EQL) {
				if prog.IsNilConst(bo.Y) {
					ev = bo.X
				} else if prog.IsNilConst(bo.X) {
					ev = bo.Y
				}
				if bo.Op == token.EQL {
					failSucc = 1
				}
			} else {
				// a kind predicate (errors.Is, os.IsNotExist, an IsXxx helper): on its `yes` edge the error is non-nil too
				cond, neg := iff.Cond, false
				if u, isU := cond.(*ssa.UnOp); isU && u.Op == token.NOT {
					cond, neg = u.X, true
				}
				if pc, isCall := cond.(*ssa.Call); isCall {
					if res := pc.Call.Signature().Results(); res.Len() == 1 {
						if bt, okb := res.At(0).Type().Underlying().(*types.Basic); okb && bt.Kind() == types.Bool {
							for _, a := range pc.Call.Args {
								if isErrorType(a.Type()) && !prog.IsNilConst(a) && ev == nil {
									ev = a
								}
							}
							if cal := pc.Call.StaticCallee(); cal != nil {
								what = " (recognised by " + calleeName(cal) + ")"
							}
							if neg {
								failSucc = 1
							}
						}
					}
				}
			}
			if ev == nil || !isErrorType(ev.Type()) {
				continue
			}
			// the error comes from a call (directly, or as the freshly assigned variable)
			ex, isEx := ev.(*ssa.Extract)
			var call *ssa.Call
			if isEx {
				call, _ = ex.Tuple.(*ssa.Call)
			} else if cl, isCall := ev.(*ssa.Call); isCall {
				call = cl
			}
			if call == nil {
				continue
			}
			fail := b.Succs[failSucc]
			n++
			// returns reachable from the failing edge without passing the test again
			var offending []string
			atOnce := false // a success return that only the failing edge leads to, as opposed to going on with the work
			for _, rb := range fn.Blocks {
				ret, isRet := rb.Instrs[len(rb.Instrs)-1].(*ssa.Return)
				if !isRet || !(rb == fail || fi.Reaches(fail, rb)) {
					continue
				}
				rv := errRet(ret)
				if c.certainlyError(rv, rb, ev, 0) {
					continue
				}
				offending = append(offending, c.P.InstrPos(ret))
				if (rb == fail || fail.Dominates(rb)) && len(fail.Preds) == 1 {
					atOnce = true
				}
			}
			if atOnce {
				what += " and the function returns success at once"
			}
			callee := "a function value"
			if cal := call.Call.StaticCallee(); cal != nil {
				callee = calleeName(cal)
			} else if call.Call.IsInvoke() {
				callee = "method " + call.Call.Method.Name()
			}
			key := c.P.FuncID(fn) + " :: a failure of " + callee + what + " fails the function"
			sort.Strings(offending)
			out = append(out, verdict(len(offending) == 0, rule, key, c.P.InstrPos(iff),
				"every return reachable from the non-nil edge yields a non-nil error",
				"after this error was seen to be non-nil the function can still return without a (certainly non-nil) error, at "+strings.Join(offending, ", ")+": the failure is swallowed, overwritten by a later iteration, or replaced by a value that may be nil"))
		}
	}
	c.Stats[rule+".tests"] = n
	return out
}

// certainlyError: the returned value is a non-nil error on every path into block at: the tested error itself, a
// wrap of something, a fresh error, or a phi / variable all of whose sources are.
func (c *Ctx) certainlyError(v ssa.Value, at *ssa.BasicBlock, tested ssa.Value, depth int) bool {
	if v == nil || depth > 6 {
		return false
	}
	if v == tested {
		return true
	}
	if c.dyn.definitelyNonNil(v, at, 2) {
		return true
	}
	switch x := v.(type) {
	case *ssa.Phi:
		for i, e := range x.Edges {
			pred := x.Block().Preds[i]
			if prog.IsNilConst(e) {
				return false
			}
			if !c.certainlyError(e, pred, tested, depth+1) {
				return false
			}
		}
		return true
	case *ssa.Call:
		// a wrap: a call that takes the tested error (or a certainly non-nil one) and returns an error
		for _, a := range x.Call.Args {
			if stripMI(a) == tested {
				return true
			}
			if isErrorType(a.Type()) && !prog.IsNilConst(a) && c.certainlyError(a, at, tested, depth+1) {
				return true
			}
			if sl, ok := a.(*ssa.Slice); ok {
				if al, ok := sl.X.(*ssa.Alloc); ok {
					for _, r := range *al.Referrers() {
						if ia, ok := r.(*ssa.IndexAddr); ok {
							for _, rr := range *ia.Referrers() {
								if st, ok := rr.(*ssa.Store); ok && stripMI(st.Val) == tested {
									return true
								}
							}
						}
					}
				}
			}
		}
	case *ssa.MakeInterface:
		return true
	case *ssa.UnOp:
		// a result cell (named result / defer): every store into it
		if al, ok := x.X.(*ssa.Alloc); ok && x.Op == token.MUL {
			okAll, n := true, 0
			for _, r := range *al.Referrers() {
				if st, isSt := r.(*ssa.Store); isSt && st.Addr == ssa.Value(al) && prog.InstrDominates(st, at.Instrs[len(at.Instrs)-1]) {
					n++
					if !c.certainlyError(st.Val, st.Block(), tested, depth+1) {
						okAll = false
					}
				}
			}
			return okAll && n > 0
		}
	}
	return false
}

// ---------------------------------------------------------------------------
// NAMECANON (C17): an explicitly requested project name is used only when it
// already is in canonical form. In every function of package cli that can
// answer InvalidProjectNameErr, a return without error is reached only where
// the comparison of the name with its normalised form has come out equal.
// ---------------------------------------------------------------------------

func (c *Ctx) NAMECANON(rule string) []report.Obligation {
	var out []report.Obligation
	n := 0
	for _, fn := range c.P.Funcs {
		if !strings.HasPrefix(c.P.FuncID(fn), "cli.") || len(c.callsTo(fn, "loader.InvalidProjectNameErr")) == 0 {
			continue
		}
		for _, ret := range returnsOf(fn) {
			if !isNilOrConst(errRet(ret)) {
				continue
			}
			n++
			canonical := factHolds(ret.Block(), func(cond ssa.Value, val bool) bool {
				bo, ok := cond.(*ssa.BinOp)
				if !ok || (bo.Op != token.EQL && bo.Op != token.NEQ) {
					return false
				}
				for _, side := range [][2]ssa.Value{{bo.X, bo.Y}, {bo.Y, bo.X}} {
					if call, isCall := side[1].(*ssa.Call); isCall {
						if cal := call.Call.StaticCallee(); cal != nil && c.P.RefName(cal) == "NormalizeProjectName" && len(call.Call.Args) == 1 && sameLoad(call.Call.Args[0], side[0]) {
							return (bo.Op == token.EQL) == val
						}
					}
				}
				return false
			})
			out = append(out, verdict(canonical, rule, c.P.FuncID(fn)+" :: accepts a name only in canonical form", c.P.InstrPos(ret),
				"the success return is reached only where name == NormalizeProjectName(name)",
				"a return without error is reached although the name has not been found equal to its normalised form: a requested name that is not canonical is accepted (or silently dropped) instead of rejected"))
		}
	}
	c.Stats[rule+".returns"] = n
	if n == 0 {
		out = append(out, anchorViolation(rule, "a function of package cli that answers InvalidProjectNameErr"))
	}
	return out
}

// ---------------------------------------------------------------------------
// TRV-11 (C13, C19): the status of a vertex only moves forward (absent ->
// entered -> visited). Nothing in package graph deletes an entry of a map held
// by the traversal: a vertex whose entry disappears can be entered again.
// ---------------------------------------------------------------------------

func (c *Ctx) TRVNODELETE(rule string) []report.Obligation {
	var out []report.Obligation
	n := 0
	for _, fn := range c.P.Funcs {
		if !strings.HasPrefix(c.P.FuncID(fn), "graph.") {
			continue
		}
		for _, b := range fn.Blocks {
			for _, in := range b.Instrs {
				switch x := in.(type) {
				case *ssa.MapUpdate:
					if fr, ok := fieldLoad(x.Map); ok && hasMutexField(fr.owner) {
						n++
					}
				case ssa.CallInstruction:
					if bi, ok := x.Common().Value.(*ssa.Builtin); ok && bi.Name() == "delete" {
						if fr, ok := fieldLoad(x.Common().Args[0]); ok && hasMutexField(fr.owner) {
							out = append(out, bad(rule, c.P.FuncID(fn)+" :: deletes an entry of ."+fr.owner.Field(fr.idx).Name(), c.P.InstrPos(in),
								"an entry of the traversal's bookkeeping is removed: a vertex whose status entry is gone looks never-entered and can be started a second time"))
						}
					}
				}
			}
		}
	}
	c.Stats[rule+".bookkeeping writes"] = n
	out = append(out, verdict(n > 0, rule, "inventory :: writes to the traversal's bookkeeping maps", "", fmt.Sprintf("%d map updates, no delete", n), "no write to a bookkeeping map of the traversal found: the rule sees nothing"))
	return out
}

func hasMutexField(st *types.Struct) bool {
	for i := 0; i < st.NumFields(); i++ {
		if nt, ok := st.Field(i).Type().(*types.Named); ok && nt.Obj().Pkg() != nil && nt.Obj().Pkg().Path() == "sync" {
			return true
		}
	}
	return false
}

// sameLoad: the same value, or two loads of the same variable.
func sameLoad(a, b ssa.Value) bool {
	if a == b {
		return true
	}
	la, ok1 := a.(*ssa.UnOp)
	lb, ok2 := b.(*ssa.UnOp)
	return ok1 && ok2 && la.Op == token.MUL && lb.Op == token.MUL && la.X == lb.X
}

// ---------------------------------------------------------------------------
// INC-8 (C20, C06): each entry of an `include` list is loaded with its own
// environment: the parent environment plus what ITS env files define. Nothing
// that feeds the Environment of the nested ConfigDetails is carried over from
// the previous entry: no value merged into it is a loop-carried variable of the
// loop over the entries (a phi at the loop head).
// ---------------------------------------------------------------------------

func (c *Ctx) INC8(rule string) []report.Obligation {
	var out []report.Obligation
	fn := c.P.Func("loader.ApplyInclude")
	if fn == nil {
		return append(out, anchorViolation(rule, "loader.ApplyInclude"))
	}
	n := 0
	scope := []*ssa.Function{fn}
	for _, cs := range callSites(fn, func(com *ssa.CallCommon) bool { return true }) {
		if cal := cs.Common().StaticCallee(); cal != nil && c.P.InModule(cal) && cal.Blocks != nil && strings.HasPrefix(c.P.FuncID(cal), "loader.") && cal.Name() != "loadYamlModel" {
			scope = append(scope, cal)
		}
	}
	for _, sf := range scope {
		fi := prog.Info(sf)
		for _, b := range sf.Blocks {
			for _, in := range b.Instrs {
				st, ok := in.(*ssa.Store)
				if !ok {
					continue
				}
				fa, ok := st.Addr.(*ssa.FieldAddr)
				if !ok || fieldName(fa) != "Environment" {
					continue
				}
				pt, ok := fa.X.Type().Underlying().(*types.Pointer)
				if !ok {
					continue
				}
				if nt, isN := pt.Elem().(*types.Named); !isN || nt.Obj().Name() != "ConfigDetails" {
					continue
				}
				n++
				// walk what feeds the stored value: call arguments, receivers, phis
				var carried []string
				seen := map[ssa.Value]bool{}
				var walk func(v ssa.Value, depth int)
				walk = func(v ssa.Value, depth int) {
					if v == nil || seen[v] || depth > 8 {
						return
					}
					seen[v] = true
					switch x := v.(type) {
					case *ssa.Phi:
						// a phi at the head of a loop with a back edge: carried from the previous iteration
						if fi.InLoop(x.Block()) {
							for i, p := range x.Block().Preds {
								if x.Block().Dominates(p) {
									if _, isMap := x.Type().Underlying().(*types.Map); isMap && !prog.IsNilConst(x.Edges[i]) {
										carried = append(carried, c.P.KeyTerm(x, 1)+" ["+c.P.Pos(x.Pos())+"]")
									}
								}
							}
						}
						for _, e := range x.Edges {
							walk(e, depth+1)
						}
					case *ssa.Call:
						for _, a := range x.Call.Args {
							walk(a, depth+1)
						}
						if x.Call.IsInvoke() {
							walk(x.Call.Value, depth+1)
						}
					case *ssa.Extract:
						walk(x.Tuple, depth+1)
					case *ssa.MakeInterface:
						walk(x.X, depth+1)
					case *ssa.ChangeType:
						walk(x.X, depth+1)
					case *ssa.Convert:
						walk(x.X, depth+1)
					}
				}
				walk(st.Val, 0)
				sort.Strings(carried)
				out = append(out, verdict(len(carried) == 0, rule, "ApplyInclude :: the environment of an included model is built from this entry alone", c.P.InstrPos(st),
					"no loop-carried mapping feeds the Environment of the nested ConfigDetails", "a mapping that survives from one include entry to the next ("+strings.Join(carried, ", ")+") is merged into the environment of the nested load: an entry without env file runs with the variables the previous entry's env file defined"))
			}
		}
	}
	if n == 0 {
		out = append(out, anchorViolation(rule, "the store of ConfigDetails.Environment in loader.ApplyInclude"))
	}
	return out
}

// ---------------------------------------------------------------------------
// CODECINT (C09, C08): a signed integer type of the model that renders itself
// as the decimal TEXT of its value (`fmt.Sprintf("%d", u)` in a string) must
// read that text back: the string arm of its decoder parses a signed decimal
// (strconv.ParseInt / Atoi) and does not only go through a parser of sizes
// with units, which rejects a minus sign (`memswap_limit: -1` means unlimited).
// ---------------------------------------------------------------------------

func (c *Ctx) CODECINT(rule string) []report.Obligation {
	var out []report.Obligation
	n := 0
	for _, my := range c.P.Funcs {
		if my.Signature.Recv() == nil || my.Name() != "MarshalYAML" || !strings.HasPrefix(c.P.FuncID(my), "types.") {
			continue
		}
		rt := my.Signature.Recv().Type()
		if pt, ok := rt.Underlying().(*types.Pointer); ok {
			rt = pt.Elem()
		}
		named, ok := rt.(*types.Named)
		if !ok {
			continue
		}
		bt, ok := named.Underlying().(*types.Basic)
		if !ok || bt.Info()&types.IsInteger == 0 || bt.Info()&types.IsUnsigned != 0 {
			continue
		}
		// renders "%d" of itself as text
		asText := false
		scope := []*ssa.Function{my}
		for _, cs := range callSites(my, func(com *ssa.CallCommon) bool {
			cal := com.StaticCallee()
			return cal != nil && c.P.InModule(cal) && cal.Blocks != nil && cal.Signature.Recv() != nil
		}) {
			scope = append(scope, cs.Common().StaticCallee())
		}
		for _, g := range scope {
			for _, cs := range callSites(g, func(com *ssa.CallCommon) bool {
				switch staticName(com) {
				case "fmt.Sprintf", "strconv.FormatInt", "strconv.Itoa":
					return true
				}
				return false
			}) {
				if staticName(cs.Common()) != "fmt.Sprintf" {
					asText = true
				} else if f, ok := constStr(cs.Common().Args[0]); ok && strings.Contains(f, "%d") {
					asText = true
				}
			}
		}
		if !asText {
			continue
		}
		n++
		dec := c.P.Func("types.(*" + named.Obj().Name() + ").DecodeMapstructure")
		key := "types." + named.Obj().Name() + " :: the decimal text it renders is read back as a signed number"
		if dec == nil {
			out = append(out, bad(rule, key, c.P.Pos(my.Pos()), "no DecodeMapstructure on the type"))
			continue
		}
		signed := false
		for _, cs := range callSites(dec, func(com *ssa.CallCommon) bool {
			sn := staticName(com)
			return sn == "strconv.ParseInt" || sn == "strconv.Atoi"
		}) {
			_ = cs
			signed = true
		}
		out = append(out, verdict(signed, rule, key, c.P.Pos(dec.Pos()), "the decoder parses a signed decimal before anything else",
			"the marshallers render the value as decimal text (`%d`), negative values included, but the decoder never parses a signed decimal: the rendering of a negative value (-1: unlimited) is rejected on reload, and so is the same text supplied through a variable"))
	}
	c.Stats[rule+".types"] = n
	if n == 0 {
		out = append(out, anchorViolation(rule, "an integer model type that renders itself as decimal text"))
	}
	return out
}
