package rules

import (
	"fmt"
	"go/constant"
	"go/token"
	"go/types"
	"regexp"
	"sort"
	"strings"

	"golang.org/x/tools/go/ssa"
	"verifcheck/internal/prog"
	"verifcheck/internal/report"
	"verifcheck/internal/tab"
)

// PanicExpl: explicit panics / process exits / Must* on non-constant input in reachable module code.
func (c *Ctx) PanicExpl(rule string, entry ...string) []report.Obligation {
	var out []report.Obligation
	r, missing := c.Reach(entry...)
	for _, m := range missing {
		out = append(out, anchorViolation(rule, m))
	}
	n := 0
	for _, f := range r.Sorted(c.P) {
		for _, b := range f.Blocks {
			for _, in := range b.Instrs {
				switch x := in.(type) {
				case *ssa.Panic:
					n++
					out = append(out, bad(rule, c.P.FuncID(f)+" :: panic("+c.P.KeyTerm(x.X, 2)+")", c.P.InstrPos(in), "explicit panic reachable from a load entry point"))
				case *ssa.Call:
					name := staticName(&x.Call)
					switch {
					case strings.HasPrefix(name, "log.Fatal") || name == "os.Exit" || strings.HasPrefix(name, "(*github.com/sirupsen/logrus.Logger).Fatal") || strings.HasPrefix(name, "github.com/sirupsen/logrus.Fatal"):
						n++
						out = append(out, bad(rule, c.P.FuncID(f)+" :: "+name, c.P.InstrPos(in), "terminates the process instead of returning an error"))
					case name == "regexp.MustCompile" || name == "text/template.Must":
						if _, isConst := x.Call.Args[0].(*ssa.Const); !isConst {
							n++
							out = append(out, bad(rule, c.P.FuncID(f)+" :: "+name+"(non-constant)", c.P.InstrPos(in), "Must* on a non-constant argument panics on bad input"))
						}
					}
				}
			}
		}
	}
	out = append(out, ok2(rule, "inventory", "", fmt.Sprintf("%d reachable functions scanned, %d explicit panic / exit sites", len(r.Set), n)))
	return out
}

// TabL1: no walker table has a pattern that can match the root path or a bare
// `services.x` path. This is the lemma behind the justified root casts of
// Merge / ExtendService / Canonical / SetDefaultValues (their walkers return
// the map they were given unless a table function takes over).
func (c *Ctx) TabL1(rule string) []report.Obligation {
	var out []report.Obligation
	if c.tab().err != nil {
		return c.tabErr(rule)
	}
	for _, spec := range []struct {
		table string
		segs  int
		root  string
	}{
		{TMerge, 1, "the root path (override.Merge)"},
		{TMerge, 2, "services.<name> (override.ExtendService)"},
		{TTransform, 1, "the root path (transform.Canonical)"},
		{TDefaults, 1, "the root path (transform.SetDefaultValues)"},
		{TCast, 1, "the path `name` (loader.projectName)"},
	} {
		t := c.table(rule, spec.table, &out)
		if t == nil {
			continue
		}
		var hit []string
		for _, r := range t.Rows {
			if len(strings.Split(r.Pattern, ".")) == spec.segs {
				if spec.segs == 2 && !(tab.MatchPattern("services.*", r.Pattern)) {
					continue
				}
				hit = append(hit, r.Pattern)
			}
		}
		out = append(out, verdict(len(hit) == 0, rule, spec.table+" :: no "+fmt.Sprint(spec.segs)+"-segment pattern matching "+spec.root, "",
			fmt.Sprintf("%d rows, none has %d segment(s) matching that path", len(t.Rows), spec.segs),
			fmt.Sprintf("rows %v can match %s: the table function's result is asserted to map[string]any without a check", hit, spec.root)))
	}
	return out
}

// INT1: interpolation touches string values only (C08).
func (c *Ctx) INT1(rule string) []report.Obligation {
	var out []report.Obligation
	f := c.P.Func("interpolation.recursiveInterpolate")
	if f == nil {
		return []report.Obligation{anchorViolation(rule, "interpolation.recursiveInterpolate")}
	}
	// every Substitute call (dynamic call through opts.Substitute) of the package receives the string a value
	// was asserted to hold: directly, or through the string parameter of a helper all of whose callers do so
	var fromStringAssert func(fn *ssa.Function, v ssa.Value, depth int) bool
	fromStringAssert = func(fn *ssa.Function, v ssa.Value, depth int) bool {
		if depth == 0 {
			return false
		}
		switch x := v.(type) {
		case *ssa.TypeAssert:
			return isStringType(x.AssertedType) && types.IsInterface(x.X.Type())
		case *ssa.Extract:
			if ta, ok := x.Tuple.(*ssa.TypeAssert); ok && x.Index == 0 {
				return isStringType(ta.AssertedType) && types.IsInterface(ta.X.Type())
			}
		case *ssa.Parameter:
			idx := -1
			for i, pa := range fn.Params {
				if pa == x {
					idx = i
				}
			}
			callers := 0
			for _, g := range c.P.Funcs {
				for _, cs := range callSites(g, func(com *ssa.CallCommon) bool { return com.StaticCallee() == fn }) {
					callers++
					if idx < 0 || idx >= len(cs.Common().Args) || !fromStringAssert(g, cs.Common().Args[idx], depth-1) {
						return false
					}
				}
			}
			return callers > 0
		}
		return false
	}
	nSubst, good := 0, true
	for _, g := range c.P.Funcs {
		if !strings.HasPrefix(c.P.FuncID(g), "interpolation.") {
			continue
		}
		for _, cs := range callSites(g, func(com *ssa.CallCommon) bool {
			return com.StaticCallee() == nil && !com.IsInvoke() && loadedField(com.Value) == "Substitute"
		}) {
			nSubst++
			if len(cs.Common().Args) == 0 || !fromStringAssert(g, cs.Common().Args[0], 3) {
				good = false
			}
		}
	}
	out = append(out, verdict(good && nSubst > 0, rule, "recursiveInterpolate :: substitution only on string scalars", c.P.Pos(f.Pos()),
		"every Substitute call of the package receives the result of value.(string)", "substitution is applied to something else than a string scalar (or not at all)"))
	// the mapping arm stores under the range key
	keyed := false
	arms := []*ssa.Function{f}
	for _, cs := range callSites(f, func(com *ssa.CallCommon) bool {
		cal := com.StaticCallee()
		return cal != nil && cal != f && c.P.InModule(cal) && strings.HasPrefix(c.P.FuncID(cal), "interpolation.")
	}) {
		arms = append(arms, cs.Common().StaticCallee()) // the arms of the type switch may be helpers of the package
	}
	for _, g := range arms {
		for _, l := range findMapLoops(g) {
			if _, isAny := l.rng.X.Type().Underlying().(*types.Map).Elem().Underlying().(*types.Interface); !isAny {
				continue
			}
			for b := range l.region {
				for _, in := range b.Instrs {
					if mu, ok := in.(*ssa.MapUpdate); ok && l.isIterKey(mu.Key) {
						keyed = true
					}
					if call, ok := in.(*ssa.Call); ok && call.Call.StaticCallee() == nil && loadedField(call.Call.Value) == "Substitute" {
						keyed = false
					}
				}
			}
		}
	}
	out = append(out, verdict(keyed, rule, "recursiveInterpolate :: mapping keys are copied verbatim", c.P.Pos(f.Pos()),
		"the mapping arm stores each interpolated value under the unchanged range key", "mapping keys are rewritten or dropped by interpolation"))
	// where the path has a caster, what is returned is what that caster returns in this very call (not a value
	// remembered from another path: the conversion depends on the path, not on the text alone)
	castOK, nCast := true, 0
	castWhy := ""
	for _, g := range arms {
		for _, cs := range callSites(g, func(com *ssa.CallCommon) bool {
			cal := com.StaticCallee()
			return cal != nil && c.P.InModule(cal) && cal.Signature.Results().Len() == 2 && isBoolType(cal.Signature.Results().At(1).Type()) &&
				strings.Contains(c.P.TypeStr(cal.Signature.Results().At(0).Type()), "Cast")
		}) {
			var caster, found ssa.Value
			for _, r := range *cs.(ssa.Value).Referrers() {
				if ex, ok := r.(*ssa.Extract); ok {
					if ex.Index == 0 {
						caster = ex
					} else {
						found = ex
					}
				}
			}
			if caster == nil || found == nil {
				continue
			}
			nCast++
			for _, r := range returnsOf(g) {
				if !isNilOrConst(errRet(r)) {
					continue
				}
				onOK := factHolds(r.Block(), func(cond ssa.Value, val bool) bool { return cond == found && val })
				if !onOK {
					continue
				}
				v := retValue(r, 0)
				if ex, ok := v.(*ssa.Extract); ok {
					v = ex.Tuple
				}
				call, ok := v.(*ssa.Call)
				if !ok || call.Call.Value != caster {
					castOK, castWhy = false, c.P.InstrPos(r)+": returns "+c.P.KeyTerm(retValue(r, 0), 3)
				}
			}
		}
	}
	out = append(out, verdict(castOK && nCast > 0, rule, "recursiveInterpolate :: a typed attribute gets the result of its own caster", c.P.Pos(f.Pos()),
		"on the caster-found edge every successful return yields the result of calling that caster", "a value for a typed attribute is returned that the caster of this path did not produce in this call ("+castWhy+"): conversions depend on the path, so a value remembered from another attribute has another type"))
	// the default arm returns its input
	def := false
	for _, r := range returnsOf(f) {
		for _, pa := range f.Params {
			if types.IsInterface(pa.Type()) && retValue(r, 0) == ssa.Value(pa) && isNilOrConst(errRet(r)) {
				def = true
			}
		}
	}
	out = append(out, verdict(def, rule, "recursiveInterpolate :: other scalars returned unchanged", c.P.Pos(f.Pos()),
		"a return yields the input value itself with a nil error", "non-string scalars are not passed through unchanged"))
	return out
}

// ERRRET: error side of the dotenv parser (C18).
func (c *Ctx) ERRRET(rule string) []report.Obligation {
	var out []report.Obligation
	if f := c.P.Func("dotenv.(*parser).extractVarValue"); f != nil {
		// the scan of a quoted value may be a step of extractVarValue: the function (extractVarValue itself, or one it
		// calls in package dotenv) whose loop compares a byte of the source
		scans := func(g *ssa.Function) bool {
			gi := prog.Info(g)
			for _, b := range g.Blocks {
				if !gi.InLoop(b) {
					continue
				}
				for _, in := range b.Instrs {
					if bo, ok := in.(*ssa.BinOp); ok && (bo.Op == token.EQL || bo.Op == token.NEQ) && c.P.TypeStr(bo.X.Type()) == "uint8" {
						return true
					}
				}
			}
			return false
		}
		var stepCall *ssa.Call // the call of the scanning step in extractVarValue, when the scan is a step
		if !scans(f) {
			for _, cs := range callSites(f, func(com *ssa.CallCommon) bool {
				cal := com.StaticCallee()
				return cal != nil && cal.Blocks != nil && strings.HasPrefix(c.P.FuncID(cal), "dotenv.")
			}) {
				if g := cs.Common().StaticCallee(); scans(g) {
					stepCall, _ = cs.(*ssa.Call)
					f = g
					break
				}
			}
		}
		// a step without an error result reports failure with a `false` flag that the caller must turn into the error
		flagIdx := -1
		if stepCall != nil {
			res := f.Signature.Results()
			hasErr := false
			for i := 0; i < res.Len(); i++ {
				if isErrorType(res.At(i).Type()) {
					hasErr = true
				}
				if bt, ok := res.At(i).Type().Underlying().(*types.Basic); ok && bt.Kind() == types.Bool {
					flagIdx = i
				}
			}
			if hasErr {
				flagIdx = -1
			}
		}
		flagOf := func(r *ssa.Return) (bool, bool) {
			if flagIdx < 0 || flagIdx >= len(r.Results) {
				return false, false
			}
			return constBool(retValue(r, flagIdx))
		}
		fi := prog.Info(f)
		// returns after the quote loop carry an error; the successful return inside the loop needs char == quote && !escape
		okAfter, okIn, nIn := true, true, 0
		var loopHead *ssa.BasicBlock
		for _, b := range f.Blocks {
			if b.Comment == "for.loop" {
				loopHead = b
			}
		}
		for _, r := range returnsOf(f) {
			errv := errRet(r)
			quoted := factHolds(r.Block(), func(cond ssa.Value, val bool) bool {
				ex, ok := cond.(*ssa.Extract)
				return ok && ex.Index == 1 && !val && isCallToName(ex.Tuple, "hasQuotePrefix")
			})
			_ = quoted
			if loopHead != nil && fi.InLoop(r.Block()) || (loopHead != nil && loopHead.Dominates(r.Block()) && fi.Reaches(r.Block(), loopHead)) {
				continue
			}
			inLoopBody := loopHead != nil && loopHead.Succs[0].Dominates(r.Block())
			flagV, flagKnown := flagOf(r)
			switch {
			case flagIdx >= 0 && inLoopBody && !(flagKnown && flagV):
				// inside the loop a flag-reporting step either succeeds (true) or the flag is not constant
				if !flagKnown {
					okIn = false
				}
			case flagIdx >= 0 && !inLoopBody && loopHead != nil && loopHead.Succs[1].Dominates(r.Block()):
				if !(flagKnown && !flagV) {
					okAfter = false
				}
			case inLoopBody && (isNilOrConst(errv) && flagIdx < 0 || flagIdx >= 0 && flagKnown && flagV):
				nIn++
				// must be on the char == quote edge and the not-escaped edge
				isQuote := factHolds(r.Block(), func(cond ssa.Value, val bool) bool {
					bo, ok := cond.(*ssa.BinOp)
					return ok && ((bo.Op == token.NEQ && !val) || (bo.Op == token.EQL && val)) && c.P.TypeStr(bo.X.Type()) == "uint8"
				})
				if !isQuote {
					okIn = false
				}
			case loopHead != nil && loopHead.Succs[1].Dominates(r.Block()):
				if !c.dyn.definitelyNonNil(errv, r.Block(), 2) {
					okAfter = false
				}
			}
		}
		if flagIdx >= 0 && stepCall != nil {
			// the caller fails on the `false` edge of the flag
			turned := false
			for _, u := range *stepCall.Referrers() {
				ex, ok := u.(*ssa.Extract)
				if !ok || ex.Index != flagIdx {
					continue
				}
				for _, uu := range *ex.Referrers() {
					iff, ok := uu.(*ssa.If)
					if !ok {
						continue
					}
					fail := iff.Block().Succs[1]
					all := true
					for _, r := range returnsOf(stepCall.Parent()) {
						if fail == r.Block() || fail.Dominates(r.Block()) {
							if !c.dyn.definitelyNonNil(errRet(r), r.Block(), 2) {
								all = false
							}
						}
					}
					turned = all
				}
			}
			if !turned {
				okAfter = false
			}
		}
		out = append(out, verdict(okIn && nIn == 1, rule, "extractVarValue :: quoted value ends only at the matching quote", c.P.Pos(f.Pos()),
			"the only error-free return inside the scan loop is on the `char == quote` edge", "the quoted-value scan can succeed without having seen the closing quote"))
		out = append(out, verdict(okAfter && loopHead != nil, rule, "extractVarValue :: unterminated quote is an error", c.P.Pos(f.Pos()),
			"every return after the scan loop carries a non-nil error", "an unterminated quoted value is accepted"))
	} else {
		out = append(out, anchorViolation(rule, "dotenv.(*parser).extractVarValue"))
	}
	// expanded text is final: what expandVariables returns is stored or returned, never scanned again
	// (comment stripping, trimming, un-escaping happen on the source text, before interpolation)
	nexp := 0
	for _, f := range c.P.Funcs {
		if !strings.HasPrefix(c.P.FuncID(f), "dotenv.") {
			continue
		}
		for _, ci := range c.callsTo(f, "dotenv.expandVariables") {
			nexp++
			v := ci.(ssa.Value)
			var rescans []string
			for _, use := range valueUses(v, 4) {
				switch u := use.(type) {
				case *ssa.Return, *ssa.MapUpdate, *ssa.Store, *ssa.If, *ssa.BinOp:
				case ssa.CallInstruction:
					rescans = append(rescans, c.P.InstrPos(u)+" "+staticName(u.Common()))
				default:
					_ = u
				}
			}
			key := c.P.FuncID(f) + " :: result of expandVariables is final"
			out = append(out, verdict(len(rescans) == 0, rule, key, c.P.InstrPos(ci),
				"the interpolated text only flows to the function's results",
				"the interpolated text is processed again as source ("+strings.Join(rescans, ", ")+"): a ` #`, trailing blanks or escapes inside a variable's value are then treated as syntax, and comment text is interpolated"))
		}
	}
	if nexp == 0 {
		out = append(out, anchorViolation(rule, "calls of dotenv.expandVariables"))
	}
	if f := c.P.Func("dotenv.(*parser).locateKeyName"); f != nil {
		good := false
		for _, r := range returnsOf(f) {
			if !c.dyn.definitelyNonNil(errRet(r), r.Block(), 2) {
				continue
			}
			// on the path where the rune is neither letter nor number
			if factHolds(r.Block(), func(cond ssa.Value, val bool) bool {
				return !val && (isCallToName(cond, "IsNumber") || isCallToName(cond, "IsLetter"))
			}) {
				good = true
			}
		}
		out = append(out, verdict(good, rule, "locateKeyName :: invalid key character is an error", c.P.Pos(f.Pos()),
			"an error is returned on the edge where the rune is neither a letter nor a number nor an allowed symbol", "characters outside the key alphabet are accepted in a variable name"))
	} else {
		out = append(out, anchorViolation(rule, "dotenv.(*parser).locateKeyName"))
	}
	return out
}

func isCallToName(v ssa.Value, name string) bool {
	call, ok := v.(*ssa.Call)
	if !ok {
		return false
	}
	cal := call.Call.StaticCallee()
	return cal != nil && cal.Name() == name
}

// sprintfFormats returns the constant format strings of fmt.Sprintf calls in fn.
func sprintfFormats(fn *ssa.Function) []string {
	var out []string
	for _, ci := range callSites(fn, func(com *ssa.CallCommon) bool { return staticName(com) == "fmt.Sprintf" }) {
		if s, ok := prog.ConstString(ci.Common().Args[0]); ok {
			out = append(out, s)
		}
	}
	return out
}

var twoVerbs = regexp.MustCompile(`^%[sqv](.*)%[sqv]$`)

// CODEC: custom renderers and the parsers that read them back agree on their literal separators (C09).
func (c *Ctx) CODEC(rule string) []report.Obligation {
	var out []report.Obligation
	// SSH keys: MarshalYAML renders "<id><sep><path>", transformSSH cuts the list form on a separator
	my := c.P.Func("types.(SSHKey).MarshalYAML")
	ts := c.P.Func("transform.transformSSH")
	if my == nil || ts == nil {
		out = append(out, anchorViolation(rule, "types.(SSHKey).MarshalYAML / transform.transformSSH"))
	} else {
		var rendered []string
		// (the rendering may live in a helper of the package shared by the YAML and JSON marshallers, and may be a
		// concatenation instead of a format)
		renderers := []*ssa.Function{my}
		for _, cs := range callSites(my, func(com *ssa.CallCommon) bool {
			cal := com.StaticCallee()
			return cal != nil && c.P.InModule(cal) && strings.HasPrefix(c.P.FuncID(cal), "types.") && cal != my
		}) {
			renderers = append(renderers, cs.Common().StaticCallee())
		}
		seenSep := map[string]bool{}
		for _, rf := range renderers {
			for _, f := range sprintfFormats(rf) {
				if m := twoVerbs.FindStringSubmatch(f); m != nil && !seenSep[m[1]] {
					seenSep[m[1]] = true
					rendered = append(rendered, m[1])
				}
			}
			for _, b := range rf.Blocks {
				for _, in := range b.Instrs {
					bo, ok := in.(*ssa.BinOp)
					if !ok || bo.Op != token.ADD || !isStringType(bo.Type()) {
						continue
					}
					for _, side := range []ssa.Value{bo.X, bo.Y} {
						if sep, isC := prog.ConstString(side); isC && sep != "" && !seenSep[sep] {
							seenSep[sep] = true
							rendered = append(rendered, sep)
						}
					}
				}
			}
		}
		var cut []string
		// (the cut may live in a helper of the package that parses one entry)
		parsers := []*ssa.Function{ts}
		for _, cs := range callSites(ts, func(com *ssa.CallCommon) bool {
			cal := com.StaticCallee()
			return cal != nil && c.P.InModule(cal) && strings.HasPrefix(c.P.FuncID(cal), "transform.") && cal != ts
		}) {
			parsers = append(parsers, cs.Common().StaticCallee())
		}
		for _, pf := range parsers {
			for _, ci := range callSites(pf, func(com *ssa.CallCommon) bool {
				return staticName(com) == "strings.Cut" || staticName(com) == "strings.SplitN" || staticName(com) == "strings.Split"
			}) {
				if s, ok := prog.ConstString(ci.Common().Args[1]); ok {
					cut = append(cut, s)
				}
			}
		}
		good := len(rendered) == 1 && len(cut) == 1 && rendered[0] == cut[0]
		out = append(out, verdict(good, rule, "ssh key :: rendered separator equals parsed separator", c.P.Pos(my.Pos()),
			fmt.Sprintf("both use %q", cut), fmt.Sprintf("SSHKey.MarshalYAML renders `id%spath` but the list form is parsed by cutting on %q: the rendering does not reload", strings.Join(rendered, "|"), cut)))
	}
	// host lists: the separator passed to AsList by the marshallers is one the decoder splits on
	// the separators the decoder splits on: the constant strings it hands to strings.Cut / Split / Index,
	// directly or by ranging over a literal list (local or package-level)
	seps := map[string]bool{}
	var decoders []*ssa.Function
	seenD := map[*ssa.Function]bool{}
	var addD func(f *ssa.Function, d int)
	addD = func(f *ssa.Function, d int) {
		if f == nil || seenD[f] || d == 0 || f.Blocks == nil {
			return
		}
		seenD[f] = true
		decoders = append(decoders, f)
		for _, cs := range callSites(f, func(com *ssa.CallCommon) bool {
			cal := com.StaticCallee()
			return cal != nil && c.P.InModule(cal) && strings.HasPrefix(c.P.FuncID(cal), "types.")
		}) {
			addD(cs.Common().StaticCallee(), d-1)
		}
	}
	for _, dn := range []string{"types.NewHostsList", "types.(*HostsList).DecodeMapstructure"} {
		addD(c.P.Func(dn), 3)
	}
	for _, df := range decoders {
		for _, cs := range callSites(df, func(com *ssa.CallCommon) bool {
			sn := staticName(com)
			return sn == "strings.Cut" || sn == "strings.SplitN" || sn == "strings.Split" || sn == "strings.Index" || sn == "strings.Contains"
		}) {
			for _, sv := range c.stringValuesThroughParams(cs.Common().Args[1], seenD, 3) {
				seps[sv] = true
			}
		}
	}
	for _, id := range []string{"types.(HostsList).MarshalYAML", "types.(HostsList).MarshalJSON"} {
		f := c.P.Func(id)
		if f == nil {
			out = append(out, anchorViolation(rule, id))
			continue
		}
		// the marshaller, and the value-receiver helpers of the type it hands the list to (a shared sortedList())
		scope := []*ssa.Function{f}
		for _, cs := range callSites(f, func(com *ssa.CallCommon) bool {
			cal := com.StaticCallee()
			return cal != nil && c.P.InModule(cal) && cal.Blocks != nil && cal.Signature.Recv() != nil && types.Identical(cal.Signature.Recv().Type(), f.Signature.Recv().Type())
		}) {
			scope = append(scope, cs.Common().StaticCallee())
		}
		used := ""
		for _, g := range scope {
			for _, ci := range c.callsTo(g, "types.(HostsList).AsList") {
				used, _ = prog.ConstString(ci.Common().Args[1])
			}
		}
		out = append(out, verdict(used != "" && seps[used], rule, id+" :: separator understood by the decoder", c.P.Pos(f.Pos()),
			fmt.Sprintf("renders with %q, the decoder splits on %v", used, sortedKeys(seps)), fmt.Sprintf("renders with %q, the decoder only splits on %v", used, sortedKeys(seps))))
		// sorted before rendering (the list is built by ranging a map)
		sorted := false
		for _, g := range scope {
			for _, ci := range callSites(g, func(com *ssa.CallCommon) bool { return isSortCall(com) }) {
				_ = ci
				sorted = true
			}
		}
		out = append(out, verdict(sorted, rule, id+" :: list sorted before rendering", c.P.Pos(f.Pos()), "sort call present", "the host list is rendered in map-iteration order"))
	}
	return out
}

// ORIGIN: the three origins of relative paths resolve against their own base (C12).
func (c *Ctx) ORIGIN(rule string) []report.Obligation {
	var out []report.Obligation
	// main files: ResolveRelativePaths(dict, config.WorkingDir, ...)
	if f := c.P.Func("loader.loadYamlModel"); f != nil {
		rp := c.callsTo(f, "paths.ResolveRelativePaths")
		good := len(rp) == 1 && loadedField(rp[0].Common().Args[1]) == "WorkingDir"
		out = append(out, verdict(good, rule, "main :: resolved against config.WorkingDir", c.P.Pos(f.Pos()),
			"loadYamlModel calls ResolveRelativePaths(dict, config.WorkingDir, remotes)", "the main model is not resolved against the project working directory"))
	} else {
		out = append(out, anchorViolation(rule, "loader.loadYamlModel"))
	}
	// included project: nested ConfigDetails.WorkingDir is the include's relative working dir
	if f := c.P.Func("loader.ApplyInclude"); f != nil {
		lm := c.callsTo(f, "loader.loadYamlModel")
		good := false
		if len(lm) == 1 {
			if ld, ok := lm[0].Common().Args[1].(*ssa.UnOp); ok {
				for _, b := range f.Blocks {
					for _, in := range b.Instrs {
						if st, ok := in.(*ssa.Store); ok {
							if fa, ok := st.Addr.(*ssa.FieldAddr); ok && fa.X == ld.X && fieldName(fa) == "WorkingDir" {
								// the value must come from loader.Dir(...) / the include's project directory, never from the parent's workingDir parameter
								wd := paramByType(f, "string")
								good = wd != nil && st.Val != ssa.Value(wd) && !c.derivedFrom(st.Val, wd, 3)
								if good {
									good = c.mentionsDirOrProjectDir(st.Val, 5)
								}
							}
						}
					}
				}
			}
		}
		out = append(out, verdict(good, rule, "include :: resolved against the included project directory", c.P.Pos(f.Pos()),
			"the nested ConfigDetails.WorkingDir is loader.Dir(path) / the declared project_directory", "the included model is resolved against the including project's directory"))
	} else {
		out = append(out, anchorViolation(rule, "loader.ApplyInclude"))
	}
	return out
}

// mentionsDirOrProjectDir: the value derives from an invoke of ResourceLoader.Dir or from the ProjectDirectory field.
func (c *Ctx) mentionsDirOrProjectDir(v ssa.Value, depth int) bool {
	if v == nil || depth == 0 {
		return false
	}
	switch x := v.(type) {
	case *ssa.Call:
		if x.Call.IsInvoke() && x.Call.Method.Name() == "Dir" {
			return true
		}
	case *ssa.Phi:
		for _, e := range x.Edges {
			if c.mentionsDirOrProjectDir(e, depth-1) {
				return true
			}
		}
	case *ssa.UnOp:
		if loadedField(x) == "ProjectDirectory" {
			return true
		}
		if al, ok := x.X.(*ssa.Alloc); ok {
			for _, r := range *al.Referrers() {
				if st, ok := r.(*ssa.Store); ok && st.Addr == ssa.Value(al) && c.mentionsDirOrProjectDir(st.Val, depth-1) {
					return true
				}
			}
		}
	}
	return false
}

// MULTIDOC: every YAML document of a file goes through the per-document pipeline (C04).
func (c *Ctx) MULTIDOC(rule string) []report.Obligation {
	f := c.P.Func("loader.loadYamlFile")
	if f == nil {
		return []report.Obligation{anchorViolation(rule, "loader.loadYamlFile")}
	}
	fi := prog.Info(f)
	cl := c.P.Func("loader.loadYamlFile$1")
	dec := callSites(f, func(com *ssa.CallCommon) bool { return strings.HasSuffix(staticName(com), "yaml.v3.Decoder).Decode") })
	var inLoop ssa.CallInstruction
	for _, ci := range callSites(f, func(com *ssa.CallCommon) bool {
		// call of the closure value
		if mc, ok := com.Value.(*ssa.MakeClosure); ok {
			return mc.Fn == ssa.Value(cl)
		}
		if u, ok := com.Value.(*ssa.UnOp); ok {
			if al, ok := u.X.(*ssa.Alloc); ok {
				for _, r := range *al.Referrers() {
					if st, ok := r.(*ssa.Store); ok {
						if mc, ok := st.Val.(*ssa.MakeClosure); ok && mc.Fn == ssa.Value(cl) {
							return true
						}
					}
				}
			}
		}
		return com.StaticCallee() == cl
	}) {
		if fi.InLoop(ci.Block()) {
			inLoop = ci
		}
	}
	good := cl != nil && len(dec) == 1 && inLoop != nil && fi.InLoop(dec[0].Block()) && prog.InstrDominates(dec[0], inLoop)
	eof := false
	for _, ci := range callSites(f, func(com *ssa.CallCommon) bool { return staticName(com) == "errors.Is" }) {
		if g, ok := ci.Common().Args[1].(*ssa.UnOp); ok {
			if gl, ok := g.X.(*ssa.Global); ok && gl.Name() == "EOF" {
				eof = true
			}
		}
	}
	out := []report.Obligation{verdict(good && eof, rule, "loadYamlFile :: one pipeline run per decoded document until EOF", c.P.Pos(f.Pos()),
		"Decode and the per-document closure are called in the same loop, which ends on io.EOF", "only the first YAML document of a file is processed (or the loop does not end on EOF)")}
	// the loop over the documents is left in two ways only: io.EOF, or an error return. Any other way out (a
	// `break` on an empty document, on a flag ...) drops the documents that follow.
	if len(dec) == 1 {
		_, body := naturalLoop(f, dec[0].Block())
		isEOF := func(cond ssa.Value, val bool) bool {
			call, ok := cond.(*ssa.Call)
			if !ok || !val || staticName(call.Common()) != "errors.Is" || len(call.Call.Args) != 2 {
				return false
			}
			if g, ok := call.Call.Args[1].(*ssa.UnOp); ok {
				if gl, ok := g.X.(*ssa.Global); ok && gl.Name() == "EOF" {
					return true
				}
			}
			return false
		}
		var bad1 []string
		nExits := 0
		for b := range body {
			for _, sc := range b.Succs {
				if body[sc] {
					continue
				}
				nExits++
				// an error return
				if ret, ok := sc.Instrs[len(sc.Instrs)-1].(*ssa.Return); ok && len(sc.Instrs) <= 3 {
					if ev := errRet(ret); !isNilOrConst(ev) {
						continue
					}
				}
				eofExit := factHolds(b, isEOF)
				for _, ef := range prog.EdgeFacts(b, sc) {
					if isEOF(ef.Cond, ef.Val) {
						eofExit = true
					}
				}
				if !eofExit {
					bad1 = append(bad1, c.P.Pos(b.Instrs[len(b.Instrs)-1].Pos()))
				}
			}
		}
		sort.Strings(bad1)
		out = append(out, verdict(len(bad1) == 0 && nExits > 0, rule, "loadYamlFile :: the document loop ends only on io.EOF or an error", c.P.InstrPos(dec[0]),
			fmt.Sprintf("%d ways out of the loop: io.EOF and error returns", nExits), "the loop over the `---` documents of a file can be left at "+strings.Join(bad1, ", ")+" although the decoder has not reported io.EOF: the documents that follow are never applied"))
	}
	// the !reset / !override paths recorded while decoding one document must not leak into the next:
	// the processor decoded into is allocated per document, or its UnmarshalYAML clears `paths` first
	perDoc := false
	if len(dec) == 1 {
		for _, a := range dec[0].Common().Args {
			v := a
			if mi, ok := v.(*ssa.MakeInterface); ok {
				v = mi.X
			}
			if u, ok := v.(*ssa.UnOp); ok {
				if cv := c.cellValue(u.X); cv != nil {
					v = cv
				}
			}
			if al, ok := v.(*ssa.Alloc); ok && recvTypeName(al.Type()) == "ResetProcessor" && fi.InLoop(al.Block()) {
				perDoc = true
			}
		}
	}
	clears := false
	if um := c.P.Func("loader.(*ResetProcessor).UnmarshalYAML"); um != nil {
		rr := c.callsTo(um, "loader.(*ResetProcessor).resolveReset")
		for _, b := range um.Blocks {
			for _, in := range b.Instrs {
				if st, ok := in.(*ssa.Store); ok {
					if fa, ok := st.Addr.(*ssa.FieldAddr); ok && fieldName(fa) == "paths" && len(rr) > 0 && prog.InstrDominates(in, rr[0]) {
						if isNilOrConst(st.Val) {
							clears = true
						}
					}
				}
			}
		}
	}
	out = append(out, verdict(perDoc || clears, rule, "loadYamlFile :: reset/override paths are per document", c.P.Pos(f.Pos()),
		"the ResetProcessor a document is decoded into is allocated inside the document loop (or UnmarshalYAML clears its recorded paths)",
		"one ResetProcessor accumulates the !reset / !override paths of all documents of a file: paths recorded for document k are applied again before every later document, deleting what those documents (re)define"))
	return out
}

var _ = report.Info

// TREE: the YAML trees the loader builds stay trees. ORD's "disjoint per key"
// argument and the in-place mergers rely on no map / slice being stored under
// two different keys. Inside a loop, storing a loop-invariant map or slice
// (created before the loop) under a varying key or index makes every entry
// alias one object: a later in-place merge of one entry then changes the others,
// and which change wins depends on iteration order.
func (c *Ctx) TREE(rule string, entry ...string) []report.Obligation {
	var out []report.Obligation
	r, missing := c.Reach(entry...)
	for _, m := range missing {
		out = append(out, anchorViolation(rule, m))
	}
	n := 0
	for _, f := range r.Sorted(c.P) {
		switch c.P.Rel(pkgOfFn(f)) {
		case "override", "transform", "loader", "interpolation", "paths", "validation":
		default:
			continue
		}
		fi := prog.Info(f)
		for _, b := range f.Blocks {
			if !fi.InLoop(b) {
				continue
			}
			for _, in := range b.Instrs {
				var val, key ssa.Value
				switch x := in.(type) {
				case *ssa.MapUpdate:
					val, key = x.Value, x.Key
				case *ssa.Store:
					ia, ok := x.Addr.(*ssa.IndexAddr)
					if !ok {
						continue
					}
					val, key = x.Val, ia.Index
				default:
					continue
				}
				if _, isConst := key.(*ssa.Const); isConst {
					continue
				}
				// the key must vary with the loop (defined inside it); a loop-invariant key names one slot
				kd, kIsInstr := key.(ssa.Instruction)
				if !kIsInstr || !(kd.Block() == b || fi.Reaches(b, kd.Block())) {
					continue
				}
				// the containers the stored value may be (looking through interface conversions and phis)
				for _, v := range containerSources(val, 4) {
					n++
					def, isInstr := v.(ssa.Instruction)
					invariant := !isInstr // parameters / free variables are loop invariant
					if isInstr {
						// defined in a block that the store's block cannot reach again: created once, before the loop
						invariant = def.Block() != b && !fi.Reaches(b, def.Block())
					}
					k := c.P.FuncID(f) + " :: store of " + c.P.KeyTerm(v, 2) + " under a varying key"
					if invariant {
						out = append(out, bad(rule, k, c.P.InstrPos(in), "the same map/slice object (created before the loop) is stored under several keys: the entries alias each other, so an in-place merge or default applied to one of them changes all, and the survivor depends on iteration order"))
					} else {
						out = append(out, ok2(rule, k, c.P.InstrPos(in), "the stored container is created (or selected) per iteration"))
					}
				}
			}
		}
	}
	c.Stats[rule+".stores"] = n
	if n == 0 {
		out = append(out, bad(rule, "inventory", "", "no container store inside a loop found: the rule sees nothing"))
	}
	return out
}

// containerSources: the map / slice typed values v may carry, looking through MakeInterface, ChangeType and phis.
func containerSources(v ssa.Value, depth int) []ssa.Value {
	if v == nil || depth == 0 {
		return nil
	}
	if _, isConst := v.(*ssa.Const); isConst {
		return nil
	}
	switch v.Type().Underlying().(type) {
	case *types.Map, *types.Slice:
		return []ssa.Value{v}
	}
	switch x := v.(type) {
	case *ssa.MakeInterface:
		return containerSources(x.X, depth-1)
	case *ssa.ChangeType:
		return containerSources(x.X, depth-1)
	case *ssa.Phi:
		var out []ssa.Value
		for _, e := range x.Edges {
			out = append(out, containerSources(e, depth-1)...)
		}
		return out
	}
	return nil
}

// NILMAP: no assignment into a map that may be nil. A function that updates one
// of its map parameters directly is a "parameter writer"; at each of its call
// sites the argument must not be a value that can be the nil map: the nil
// constant, or the result of a module function / closure that has a
// `return nil` path, unless a dominating test excludes nil.
func (c *Ctx) NILMAP(rule string, entry ...string) []report.Obligation {
	var out []report.Obligation
	r, missing := c.Reach(entry...)
	for _, m := range missing {
		out = append(out, anchorViolation(rule, m))
	}
	writers := map[*ssa.Function]map[int]bool{}
	for _, f := range r.Sorted(c.P) {
		for _, b := range f.Blocks {
			for _, in := range b.Instrs {
				if mu, ok := in.(*ssa.MapUpdate); ok {
					if pa, ok := mu.Map.(*ssa.Parameter); ok {
						for i, p := range f.Params {
							if p == pa {
								if writers[f] == nil {
									writers[f] = map[int]bool{}
								}
								writers[f][i] = true
							}
						}
					}
				}
			}
		}
	}
	n := 0
	for _, f := range r.Sorted(c.P) {
		if strings.HasPrefix(c.P.FuncID(f), "types.deriveDeepCopy") {
			continue // generated copies allocate their destination maps themselves (make before every call)
		}
		for _, b := range f.Blocks {
			for _, in := range b.Instrs {
				call, ok := in.(*ssa.Call)
				if !ok {
					continue
				}
				cal := call.Call.StaticCallee()
				if cal == nil || writers[cal] == nil {
					continue
				}
				for i := range writers[cal] {
					if i >= len(call.Call.Args) {
						continue
					}
					a := call.Call.Args[i]
					n++
					key := c.P.FuncID(f) + " :: " + c.P.FuncID(cal) + " writes into argument " + c.P.KeyTerm(a, 2)
					why, mayNil := c.mayBeNilMap(a, 4)
					if mayNil && !nonNilFact(b, a) {
						out = append(out, bad(rule, key, c.P.InstrPos(in), c.P.FuncID(cal)+" assigns into this map, which can be nil here ("+why+"): `assignment to entry in nil map`"))
					} else {
						out = append(out, ok2(rule, key, c.P.InstrPos(in), "the argument is a non-nil map on every path (literal, make, checked conversion, or nil excluded by a dominating test)"))
					}
				}
			}
		}
	}
	c.Stats[rule+".call_sites"] = n
	if n == 0 {
		out = append(out, bad(rule, "inventory", "", "no call of a function that writes into a map parameter found: the rule sees nothing"))
	}
	return out
}

func nonNilFact(b *ssa.BasicBlock, v ssa.Value) bool {
	return factHolds(b, func(cond ssa.Value, val bool) bool {
		bo, ok := cond.(*ssa.BinOp)
		if !ok || (bo.Op != token.EQL && bo.Op != token.NEQ) {
			return false
		}
		if (bo.X == v && prog.IsNilConst(bo.Y)) || (bo.Y == v && prog.IsNilConst(bo.X)) {
			return (bo.Op == token.NEQ) == val
		}
		return false
	})
}

// mayBeNilMap: the map value can be nil, with the reason.
func (c *Ctx) mayBeNilMap(v ssa.Value, depth int) (string, bool) {
	if v == nil || depth == 0 {
		return "", false
	}
	switch x := v.(type) {
	case *ssa.Const:
		if x.Value == nil {
			return "nil constant", true
		}
	case *ssa.Phi:
		for _, e := range x.Edges {
			if w, ok := c.mayBeNilMap(e, depth-1); ok {
				return w, true
			}
		}
	case *ssa.ChangeType:
		return c.mayBeNilMap(x.X, depth-1)
	case *ssa.Call:
		var callee *ssa.Function
		if cal := x.Call.StaticCallee(); cal != nil && c.P.InModule(cal) {
			callee = cal
		} else if mc, ok := x.Call.Value.(*ssa.MakeClosure); ok {
			callee = mc.Fn.(*ssa.Function)
		} else if u, ok := x.Call.Value.(*ssa.UnOp); ok {
			if cv := c.cellValue(u.X); cv != nil {
				if mc, ok := cv.(*ssa.MakeClosure); ok {
					callee = mc.Fn.(*ssa.Function)
				}
			}
		}
		if callee == nil || callee.Blocks == nil {
			return "", false
		}
		for _, r := range returnsOf(callee) {
			if len(r.Results) > 0 {
				if cst, ok := retValue(r, 0).(*ssa.Const); ok && cst.Value == nil {
					return c.P.FuncID(callee) + " has a `return nil` path (" + c.P.InstrPos(r) + ")", true
				}
			}
		}
	}
	return "", false
}

// ERRDROP: path-sensitive error discipline over all reachable module code. For
// every call whose last result is an error, no path from the call may reach a
// return of the enclosing function unless the error was tested against nil,
// handed to another call, stored or returned on that path.
func (c *Ctx) ERRDROP(rule string, entry ...string) []report.Obligation {
	var out []report.Obligation
	r, missing := c.Reach(entry...)
	for _, m := range missing {
		out = append(out, anchorViolation(rule, m))
	}
	n := 0
	for _, f := range r.Sorted(c.P) {
		for _, b := range f.Blocks {
			for _, in := range b.Instrs {
				call, ok := in.(*ssa.Call)
				if !ok {
					continue
				}
				sig := call.Call.Signature()
				if sig.Results().Len() == 0 || !isErrorType(sig.Results().At(sig.Results().Len()-1).Type()) {
					continue
				}
				if neverFails(&call.Call) {
					continue
				}
				n++
				if at := c.errUntestedExit(call); at != "" {
					out = append(out, bad(rule, c.P.FuncID(f)+" :: error of "+c.P.KeyTerm(call, 1), c.P.InstrPos(in),
						"a path from this call reaches the return at "+at+" without the error having been tested, passed on, stored or returned: the failure is silently ignored"))
				}
			}
		}
	}
	out = append(out, ok2(rule, "inventory", "", fmt.Sprintf("%d error-returning calls in %d reachable functions: every one not listed is consumed on every path", n, len(r.Set))))
	c.Stats[rule+".calls"] = n
	return out
}

// neverFails: the in-memory writers of the standard library, whose error result is documented to be always nil.
func neverFails(com *ssa.CallCommon) bool {
	switch staticName(com) {
	case "(*strings.Builder).Write", "(*strings.Builder).WriteByte", "(*strings.Builder).WriteRune", "(*strings.Builder).WriteString",
		"(*bytes.Buffer).Write", "(*bytes.Buffer).WriteByte", "(*bytes.Buffer).WriteRune", "(*bytes.Buffer).WriteString":
		return true
	}
	return false
}

// ---------------------------------------------------------------------------
// REFS: every listed file is looked at. For each (function, reader) pair of the
// table, the call of the reader lies in a loop over the list of references, and
// no iteration of that loop can reach the next one without passing through the
// call (a `continue` on a cache hit, a skip under some flag). Leaving the
// function (an error return) is not a skip.
// ---------------------------------------------------------------------------

type RefLoop struct{ Reader, InPkg, What string }

// readers of file references; the loops are found from their call sites, whatever function they live in
var RefLoops = []RefLoop{
	{"types.loadEnvFile", "types", "every env_file entry of every service"},
	{"types.loadLabelFile", "types", "every label_file entry of every service"},
	{"os.Stat", "dotenv", "every env file named by the caller"},
	{"os.ReadFile", "dotenv", "every env file named by the caller"},
	{"dotenv.loadFile", "dotenv", "every env file named by the caller"},
	{"dotenv.ReadFile", "dotenv", "every env file named by the caller"},
	{"loader.loadYamlFile", "loader", "every configuration file of the project"},
	{"loader.loadYamlModel", "loader", "every entry of an include section"},
	{"gopkg.in/yaml.v3.NewDecoder", "loader", "every configuration file scanned for the project name"},
}

// naturalLoop returns the smallest natural loop (header, body) that contains block b.
func naturalLoop(fn *ssa.Function, b *ssa.BasicBlock) (*ssa.BasicBlock, map[*ssa.BasicBlock]bool) {
	var bestH *ssa.BasicBlock
	var best map[*ssa.BasicBlock]bool
	bodies := map[*ssa.BasicBlock]map[*ssa.BasicBlock]bool{}
	for _, t := range fn.Blocks {
		for _, h := range t.Succs {
			if !h.Dominates(t) {
				continue
			}
			body := bodies[h]
			if body == nil {
				body = map[*ssa.BasicBlock]bool{h: true}
				bodies[h] = body
			}
			var up func(x *ssa.BasicBlock)
			up = func(x *ssa.BasicBlock) {
				if body[x] {
					return
				}
				body[x] = true
				for _, p := range x.Preds {
					up(p)
				}
			}
			up(t)
		}
	}
	for h, body := range bodies {
		if body[b] && (best == nil || len(body) < len(best)) {
			bestH, best = h, body
		}
	}
	return bestH, best
}

func (c *Ctx) REFS(rule string, only ...string) []report.Obligation {
	var out []report.Obligation
	for _, rl := range RefLoops {
		if len(only) > 0 {
			keep := false
			for _, p := range only {
				if rl.InPkg == p {
					keep = true
				}
			}
			if !keep {
				continue
			}
		}
		inLoops := 0
		for _, fn := range c.P.Funcs {
			if !strings.HasPrefix(c.P.FuncID(fn), rl.InPkg+".") {
				continue
			}
			for _, cs := range callSites(fn, func(com *ssa.CallCommon) bool { return c.calleeID(com) == rl.Reader }) {
				h, body := naturalLoop(fn, cs.Block())
				if h == nil {
					continue // a single reference, not a list
				}
				inLoops++
				key := c.P.FuncID(fn) + " :: " + rl.Reader + " on every iteration"
				// a path header -> ... -> header inside the loop that avoids the call
				seen := map[*ssa.BasicBlock]bool{}
				var skip *ssa.BasicBlock
				var dfs func(b *ssa.BasicBlock)
				dfs = func(b *ssa.BasicBlock) {
					if skip != nil || seen[b] || !body[b] || b == cs.Block() {
						return
					}
					seen[b] = true
					for _, s := range b.Succs {
						if s == h {
							skip = b
							return
						}
						dfs(s)
					}
				}
				for _, s := range h.Succs {
					if s == h {
						skip = h
					}
					dfs(s)
				}
				why := ""
				if skip != nil {
					last := skip.Instrs[len(skip.Instrs)-1]
					why = fmt.Sprintf("an iteration can reach the next one without calling %s (through the block ending at %s): a reference is skipped without being read, so a missing file goes unreported", rl.Reader, c.P.InstrPos(last))
				}
				out = append(out, verdict(skip == nil, rule, key, c.P.InstrPos(cs), rl.What+" passes through "+rl.Reader+": no path of the loop body reaches the next iteration without the call", why))
			}
		}
		if inLoops == 0 {
			out = append(out, bad(rule, rl.Reader+" :: called in a loop over the references", "", "no loop in package "+rl.InPkg+" calls "+rl.Reader+" any more: "+rl.What+" is not read, or the reader was renamed and the rule sees nothing"))
		}
	}
	return out
}

// ---------------------------------------------------------------------------
// CLASSIFY (C03): "a volume short spec is a bind mount iff its source is a
// path". Every store of a constant to ServiceVolumeConfig.Type in the short
// syntax parser is controlled only by branch conditions computed from the
// Source field of that volume or from the string being parsed: a condition on
// anything else (the mode flags already recorded, a package variable) makes the
// classification depend on more than the source.
// ---------------------------------------------------------------------------

func (c *Ctx) CLASSIFY(rule string) []report.Obligation {
	var out []report.Obligation
	n := 0
	for _, fn := range c.P.Funcs {
		if !strings.HasPrefix(c.P.FuncID(fn), "format.") {
			continue
		}
		for _, b := range fn.Blocks {
			for _, in := range b.Instrs {
				st, isSt := in.(*ssa.Store)
				if !isSt {
					continue
				}
				fa, isFA := st.Addr.(*ssa.FieldAddr)
				if !isFA || fieldName(fa) != "Type" || fieldOwner(fa) != "ServiceVolumeConfig" {
					continue
				}
				val, isConst := prog.ConstString(st.Val)
				if !isConst {
					continue
				}
				n++
				key := fmt.Sprintf("%s :: Type = %q decided by the source only", c.P.FuncID(fn), val)
				var offending []string
				for _, d := range prog.Info(fn).TransitiveControlDeps(b) {
					iff, isIf := d.Branch.Instrs[len(d.Branch.Instrs)-1].(*ssa.If)
					if !isIf {
						continue
					}
					if why := notFromSource(iff.Cond, fa.X, 8); why != "" {
						offending = append(offending, why+" ["+c.P.InstrPos(iff)+"]")
					}
				}
				sort.Strings(offending)
				out = append(out, verdict(len(offending) == 0, rule, key, c.P.InstrPos(st),
					"every branch that decides this store is computed from the volume's Source (or from the text being parsed)",
					"the classification also depends on "+strings.Join(offending, "; ")+": two specs with the same source can get different types"))
			}
		}
	}
	if n == 0 {
		out = append(out, bad(rule, "format :: classification stores", "", "no constant store to ServiceVolumeConfig.Type in package format: the rule sees nothing"))
	}
	return out
}

// notFromSource returns "" when v is computed only from constants, string parameters and the Source field of base.
func notFromSource(v ssa.Value, base ssa.Value, depth int) string {
	if depth == 0 {
		return "a value too deep to follow"
	}
	switch x := v.(type) {
	case *ssa.Const:
		return ""
	case *ssa.Parameter:
		if isStringType(x.Type()) || isIntType(x.Type()) {
			return ""
		}
		return "parameter " + x.Name()
	case *ssa.BinOp:
		if w := notFromSource(x.X, base, depth-1); w != "" {
			return w
		}
		return notFromSource(x.Y, base, depth-1)
	case *ssa.UnOp:
		if x.Op == token.MUL {
			if fa, ok := x.X.(*ssa.FieldAddr); ok {
				if fieldName(fa) == "Source" {
					return ""
				}
				return "field " + fieldName(fa)
			}
			return "a load from memory other than the Source field"
		}
		return notFromSource(x.X, base, depth-1)
	case *ssa.Call:
		if _, isB := x.Call.Value.(*ssa.Builtin); !isB && x.Call.StaticCallee() == nil {
			return "the result of a dynamic call"
		}
		for _, a := range x.Call.Args {
			if w := notFromSource(a, base, depth-1); w != "" {
				return w
			}
		}
		return ""
	case *ssa.Phi:
		for _, e := range x.Edges {
			if w := notFromSource(e, base, depth-1); w != "" {
				return w
			}
		}
		return ""
	case *ssa.Extract:
		return notFromSource(x.Tuple, base, depth-1)
	case *ssa.Convert:
		return notFromSource(x.X, base, depth-1)
	case *ssa.ChangeType:
		return notFromSource(x.X, base, depth-1)
	case *ssa.Lookup:
		if w := notFromSource(x.X, base, depth-1); w != "" {
			return w
		}
		return notFromSource(x.Index, base, depth-1)
	case *ssa.Slice:
		return notFromSource(x.X, base, depth-1)
	case *ssa.Next, *ssa.Range:
		return ""
	}
	return fmt.Sprintf("%T", v)
}

// ---------------------------------------------------------------------------
// TREEPATH: the rule tables (mergers, unicity indexers, transformers, casts,
// path resolvers, defaults) are selected by matching the tree.Path of a value
// against patterns segment by segment. A segment taken from the document (a
// service name, a mapping key) must therefore enter a path through Path.Next,
// which escapes the separator; tree.NewPath joins its arguments verbatim and a
// string conversion does no escaping either. Every call of NewPath with two or
// more arguments has constant arguments only (NewPath(x) alone is Path(x), the
// same as Next on the empty path), a variadic pass-through is checked at its
// callers, and no concatenation is converted to tree.Path outside package tree.
// ---------------------------------------------------------------------------

func (c *Ctx) TREEPATH(rule string) []report.Obligation {
	var out []report.Obligation
	n := 0
	// segs enumerates the segments held by a []string value: (values, number of segments, problem)
	var segs func(fn *ssa.Function, v ssa.Value, depth int) (dyn []string, count int, problem string)
	segs = func(fn *ssa.Function, v ssa.Value, depth int) ([]string, int, string) {
		if depth == 0 {
			return nil, 0, "segments too deep to follow"
		}
		switch s := v.(type) {
		case *ssa.Const:
			return nil, 0, ""
		case *ssa.MakeSlice:
			if k, isC := constInt(s.Len); isC && k == 0 {
				return nil, 0, "" // make([]string, 0, n): filled by the appends that follow
			}
		case *ssa.Slice:
			al, isAlloc := s.X.(*ssa.Alloc)
			if !isAlloc {
				return nil, 0, "path segments come from a slice the rule cannot enumerate"
			}
			var dyn []string
			cnt := 0
			for _, r := range *al.Referrers() {
				if ia, ok := r.(*ssa.IndexAddr); ok {
					for _, rr := range *ia.Referrers() {
						if st, ok := rr.(*ssa.Store); ok && st.Addr == ssa.Value(ia) {
							cnt++
							if _, isC := st.Val.(*ssa.Const); !isC {
								dyn = append(dyn, c.P.KeyTerm(st.Val, 2))
							}
						}
					}
				}
			}
			return dyn, cnt, ""
		case *ssa.Call:
			if bi, isB := s.Call.Value.(*ssa.Builtin); isB && bi.Name() == "append" && len(s.Call.Args) == 2 {
				d1, n1, p1 := segs(fn, s.Call.Args[0], depth-1)
				d2, n2, p2 := segs(fn, s.Call.Args[1], depth-1)
				if p1 != "" {
					return nil, 0, p1
				}
				return append(d1, d2...), n1 + n2, p2
			}
		case *ssa.Parameter:
			// pass-through helper: the segments are those its callers supply
			idx := -1
			for i, pa := range fn.Params {
				if pa == s {
					idx = i
				}
			}
			var dyn []string
			cnt, callers := 0, 0
			for _, g := range c.P.Funcs {
				for _, cs2 := range callSites(g, func(com2 *ssa.CallCommon) bool { return com2.StaticCallee() == fn }) {
					callers++
					if idx < 0 || idx >= len(cs2.Common().Args) {
						return nil, 0, "cannot match the forwarded parameter at " + c.P.InstrPos(cs2)
					}
					d, n2, p := segs(g, cs2.Common().Args[idx], depth-1)
					if p != "" {
						return nil, 0, p
					}
					for _, x := range d {
						dyn = append(dyn, x+" (from "+c.P.FuncID(g)+")")
					}
					if n2 > cnt {
						cnt = n2
					}
				}
			}
			if fn.Object() != nil && fn.Object().Exported() {
				return nil, 0, "exported helper forwards caller-chosen segments to NewPath"
			}
			_ = callers
			return dyn, cnt, ""
		}
		return nil, 0, "path segments come from a value the rule cannot enumerate"
	}
	checkCall := func(fn *ssa.Function, cs ssa.CallInstruction) {
		com := cs.Common()
		key := c.P.FuncID(fn) + " :: " + c.P.KeyTerm(cs.(ssa.Value), 2)
		if len(com.Args) != 1 {
			out = append(out, bad(rule, key, c.P.InstrPos(cs), "unexpected argument list of tree.NewPath"))
			return
		}
		dyn, cnt, problem := segs(fn, com.Args[0], 4)
		n++
		switch {
		case problem != "":
			out = append(out, bad(rule, key, c.P.InstrPos(cs), problem))
		case cnt <= 1:
			out = append(out, ok(rule, key, c.P.InstrPos(cs), "at most one segment: the same as Path(\"\").Next(x)"))
		default:
			sort.Strings(dyn)
			out = append(out, verdict(len(dyn) == 0, rule, key, c.P.InstrPos(cs), "all segments are constants",
				"segment(s) "+strings.Join(dyn, ", ")+" taken from a variable are joined without escaping the separator: a name containing `.` yields a path with more segments, which no rule pattern matches"))
		}
	}
	for _, fn := range c.P.Funcs {
		if strings.HasPrefix(c.P.FuncID(fn), "tree.") {
			continue
		}
		for _, cs := range callSites(fn, func(com *ssa.CallCommon) bool { return c.calleeID(com) == "tree.NewPath" }) {
			checkCall(fn, cs)
		}
		for _, b := range fn.Blocks {
			for _, in := range b.Instrs {
				var x ssa.Value
				var t types.Type
				switch cv := in.(type) {
				case *ssa.ChangeType:
					x, t = cv.X, cv.Type()
				case *ssa.Convert:
					x, t = cv.X, cv.Type()
				default:
					continue
				}
				nt, isN := t.(*types.Named)
				if !isN || nt.Obj().Name() != "Path" || nt.Obj().Pkg() == nil || !strings.HasSuffix(nt.Obj().Pkg().Path(), "/tree") {
					continue
				}
				if bo, isB := x.(*ssa.BinOp); isB && bo.Op == token.ADD {
					n++
					out = append(out, bad(rule, c.P.FuncID(fn)+" :: tree.Path("+c.P.KeyTerm(x, 2)+")", c.P.InstrPos(in),
						"a concatenation is converted to tree.Path: the appended segment is not escaped"))
				}
			}
		}
	}
	c.Stats[rule+".sites"] = n
	return out
}

// ---------------------------------------------------------------------------
// GATEW: the switches of the load (loader.Options fields) are the caller's.
// A store to a field of loader.Options is allowed only (a) in an option setter
// (a function or closure of type func(*Options) writing through its parameter),
// (b) on an Options value the function created itself (a composite literal or
// the result of (*Options).clone()). A store through a *Options received from
// the caller changes the switches of the enclosing load: a nested load that
// sets SkipConsistencyCheck for itself would switch the check off for the
// whole project.
// ---------------------------------------------------------------------------

func (c *Ctx) GATEW(rule string) []report.Obligation {
	var out []report.Obligation
	n := 0
	for _, fn := range c.P.Funcs {
		for _, b := range fn.Blocks {
			for _, in := range b.Instrs {
				st, isSt := in.(*ssa.Store)
				if !isSt {
					continue
				}
				fa, isFA := st.Addr.(*ssa.FieldAddr)
				if !isFA || fieldOwner(fa) != "Options" {
					continue
				}
				pt, isP := fa.X.Type().Underlying().(*types.Pointer)
				if !isP {
					continue
				}
				nt, isN := pt.Elem().(*types.Named)
				if !isN || nt.Obj().Pkg() == nil || !strings.HasSuffix(nt.Obj().Pkg().Path(), "/loader") {
					continue
				}
				// the switches are the boolean fields
				if bt, isB := st.Val.Type().Underlying().(*types.Basic); !isB || bt.Kind() != types.Bool {
					continue
				}
				n++
				key := c.P.FuncID(fn) + " :: Options." + fieldName(fa) + " written"
				base := fa.X
				for {
					if phi, isPhi := base.(*ssa.Phi); isPhi && len(phi.Edges) > 0 {
						base = phi.Edges[0]
						continue
					}
					break
				}
				good, why := false, ""
				switch x := base.(type) {
				case *ssa.Alloc:
					good, why = true, "on an Options value created in this function"
				case *ssa.Call:
					if cal := x.Call.StaticCallee(); cal != nil && c.P.InModule(cal) && (c.P.RefName(cal) == "clone" || c.P.RefName(cal) == "toOptions") {
						good, why = true, "on the result of "+c.P.FuncID(cal)
					}
				case *ssa.Parameter:
					sig := fn.Signature
					if sig.Params().Len() == 1 && sig.Results().Len() == 0 && sig.Recv() == nil {
						good, why = true, "option setter func(*Options)"
					}
					if sig.Recv() != nil && len(fn.Params) > 0 && fn.Params[0] == x && fn.Object() != nil && fn.Object().Exported() {
						good, why = true, "exported setter method of Options, called by the API user on their own options"
					}
				}
				out = append(out, verdict(good, rule, key, c.P.InstrPos(st), why,
					"a field of the caller's Options is written through "+c.P.KeyTerm(base, 2)+": the switch changes for the enclosing load and for every later use of the same Options, not only for the nested load"))
			}
		}
	}
	if n == 0 {
		out = append(out, bad(rule, "Options :: writers", "", "no store to a loader.Options field found: the rule sees nothing"))
	}
	return out
}

// ---------------------------------------------------------------------------
// LOOKUP: variable lookups (functions of type func(string) (string, bool):
// dotenv.LookupFn, template.Mapping, the closures handed to the env-file
// parser) distinguish "set to the empty string" from "unset" through their
// boolean result only, and are pure.
//   LOOKUP-1  in packages dotenv and types, the string result of a call of such a
//             function value is never compared with "" (nor its length with 0):
//             whether a variable was found is decided by ok alone.
//   LOOKUP-2  a function or closure of that type defined in dotenv, types, loader or
//             cli writes no memory outside its own frame (no memo of earlier
//             answers: the layers it reads keep changing while a file is parsed).
// ---------------------------------------------------------------------------

func isLookupSig(t types.Type) bool {
	sig, ok := t.Underlying().(*types.Signature)
	if !ok || sig.Params().Len() != 1 || sig.Results().Len() != 2 || sig.Recv() != nil {
		return false
	}
	return isStringType(sig.Params().At(0).Type()) && isStringType(sig.Results().At(0).Type()) && isBoolType(sig.Results().At(1).Type())
}

func isBoolType(t types.Type) bool {
	b, ok := t.Underlying().(*types.Basic)
	return ok && b.Kind() == types.Bool
}

func (c *Ctx) LOOKUP(rule string, pkgs ...string) []report.Obligation {
	var out []report.Obligation
	inPkgs := func(id string) bool {
		for _, p := range pkgs {
			if strings.HasPrefix(id, p+".") {
				return true
			}
		}
		return false
	}
	n1, n2 := 0, 0
	for _, fn := range c.P.Funcs {
		id := c.P.FuncID(fn)
		if !inPkgs(id) {
			continue
		}
		// LOOKUP-1
		if strings.HasPrefix(id, "dotenv.") || strings.HasPrefix(id, "types.") {
			for _, b := range fn.Blocks {
				for _, in := range b.Instrs {
					call, ok := in.(*ssa.Call)
					if !ok || call.Call.IsInvoke() || call.Call.StaticCallee() != nil || !isLookupSig(call.Call.Value.Type()) {
						continue
					}
					n1++
					var cmp ssa.Instruction
					for _, r := range *call.Referrers() {
						ex, ok := r.(*ssa.Extract)
						if !ok || ex.Index != 0 {
							continue
						}
						for _, u := range *ex.Referrers() {
							switch x := u.(type) {
							case *ssa.BinOp:
								if x.Op == token.EQL || x.Op == token.NEQ {
									if sv, isC := prog.ConstString(x.Y); isC && sv == "" {
										cmp = x
									}
									if sv, isC := prog.ConstString(x.X); isC && sv == "" {
										cmp = x
									}
								}
							case *ssa.Call:
								if bi, isB := x.Call.Value.(*ssa.Builtin); isB && bi.Name() == "len" {
									for _, lu := range *x.Referrers() {
										if bo, isBO := lu.(*ssa.BinOp); isBO {
											if k, isC := constInt(bo.Y); isC && k == 0 {
												cmp = bo
											}
										}
									}
								}
							}
						}
					}
					key := id + " :: found is decided by ok alone for " + c.P.KeyTerm(call, 1)
					if cmp == nil {
						out = append(out, okOb(rule+"-1", key, c.P.InstrPos(call), "the looked-up value is not compared with the empty string"))
					} else {
						out = append(out, bad(rule+"-1", key, c.P.InstrPos(cmp), "the looked-up value is compared with the empty string: a variable set to \"\" in an outer layer is treated like an unset one"))
					}
				}
			}
		}
		// LOOKUP-2
		if isLookupSig(fn.Signature) && fn.Blocks != nil {
			n2++
			var w ssa.Instruction
			for _, b := range fn.Blocks {
				for _, in := range b.Instrs {
					switch x := in.(type) {
					case *ssa.Store:
						if !isLocalAlloc(x.Addr) {
							w = in
						}
					case *ssa.MapUpdate:
						w = in
					case ssa.CallInstruction:
						if bi, isB := x.Common().Value.(*ssa.Builtin); isB && (bi.Name() == "delete" || bi.Name() == "copy") {
							w = in
						}
					}
				}
			}
			key := id + " :: lookup function is pure"
			if w == nil {
				out = append(out, okOb(rule+"-2", key, c.P.Pos(fn.Pos()), "no store, map update or delete outside its own frame"))
			} else {
				out = append(out, bad(rule+"-2", key, c.P.InstrPos(w), "the lookup function writes shared state (a memo of earlier answers): the layers it reads change while files are parsed, so a remembered answer goes stale"))
			}
		}
	}
	// LOOKUP-3: a bare `KEY` line inherits from the lookup, whatever the file assigned before: the statement loop
	// of the dotenv parser fills its result map and never reads it (earlier lines are consulted only by the
	// variable expansion, after the lookup)
	if inPkgs("dotenv.x") {
		if pf := c.P.Func("dotenv.(*parser).parse"); pf != nil {
			outMap := paramByType(pf, "map[string]string")
			var rd ssa.Instruction
			for _, b := range pf.Blocks {
				for _, in := range b.Instrs {
					if lk, ok := in.(*ssa.Lookup); ok && sameParam(lk.X, outMap) {
						rd = lk
					}
				}
			}
			if rd == nil {
				out = append(out, okOb(rule+"-3", "dotenv.(*parser).parse :: the statement loop does not read the map it fills", c.P.Pos(pf.Pos()), "no lookup in the result map: a bare key is resolved by the lookup function only"))
			} else {
				out = append(out, bad(rule+"-3", "dotenv.(*parser).parse :: the statement loop does not read the map it fills", c.P.InstrPos(rd), "the statement loop reads a value assigned by an earlier line: a bare `KEY` (or whatever this read decides) prefers the file over the lookup"))
			}
		}
	}
	if n1 == 0 || n2 == 0 {
		out = append(out, bad(rule, "lookup sites", "", fmt.Sprintf("calls of lookup function values: %d, lookup functions defined: %d: the rule sees nothing", n1, n2)))
	}
	return out
}

func okOb(rule, key, pos, why string) report.Obligation { return ok(rule, key, pos, why) }

// ---------------------------------------------------------------------------
// URLCTX (C12): "URL-like build contexts (any scheme://) are left as written".
// In the resolver of the build-context attributes, a return of the unchanged
// string lies on the true edge of a plain substring test for "://" on that
// string (strings.Contains, strings.Index >= 0, strings.Cut found): the test
// does not depend on the scheme being known or on the rest being parseable.
// ---------------------------------------------------------------------------

func (c *Ctx) URLCTX(rule string) []report.Obligation {
	var out []report.Obligation
	n := 0
	for _, fn := range c.P.Funcs {
		if !strings.HasPrefix(c.P.FuncID(fn), "paths.") || !strings.Contains(strings.ToLower(fn.Name()), "context") || len(fn.Blocks) == 0 {
			continue
		}
		// resolver shape: (value any) (any, error) method of the resolver
		if fn.Signature.Results().Len() != 2 || !isErrorType(fn.Signature.Results().At(1).Type()) {
			continue
		}
		n++
		isSubstr := func(cond ssa.Value, val bool) bool {
			switch x := cond.(type) {
			case *ssa.Call:
				if staticName(&x.Call) == "strings.Contains" && val {
					if s, ok := prog.ConstString(x.Call.Args[1]); ok && s == "://" {
						return true
					}
				}
			case *ssa.BinOp:
				if call, ok := x.X.(*ssa.Call); ok && staticName(&call.Call) == "strings.Index" {
					if s, ok := prog.ConstString(call.Call.Args[1]); ok && s == "://" {
						k, isC := constInt(x.Y)
						switch {
						case isC && k == 0 && x.Op == token.GEQ && val, isC && k == -1 && x.Op == token.NEQ && val, isC && k == -1 && x.Op == token.GTR && val,
							isC && k == 0 && x.Op == token.LSS && !val, isC && k == -1 && x.Op == token.EQL && !val:
							return true
						}
					}
				}
			case *ssa.Extract:
				if call, ok := x.Tuple.(*ssa.Call); ok && staticName(&call.Call) == "strings.Cut" && x.Index == 2 && val {
					if s, ok := prog.ConstString(call.Call.Args[1]); ok && s == "://" {
						return true
					}
				}
			}
			return false
		}
		good := false
		for _, r := range returnsOf(fn) {
			if !isNilOrConst(errRet(r)) {
				continue
			}
			if _, isMI := retValue(r, 0).(*ssa.MakeInterface); !isMI {
				continue
			}
			if factHolds(r.Block(), isSubstr) {
				good = true
			}
			// `if strings.Contains(v, "://") || otherTest(v) { return v, nil }`: the return block is entered straight
			// from the true edge of the substring test (and from the other test), without being dominated by it
			for _, p := range r.Block().Preds {
				if iff, ok := p.Instrs[len(p.Instrs)-1].(*ssa.If); ok && p.Succs[0] == r.Block() && isSubstr(iff.Cond, true) {
					good = true
				}
			}
		}
		out = append(out, verdict(good, rule, c.P.FuncID(fn)+" :: any scheme:// is returned unchanged", c.P.Pos(fn.Pos()),
			"a successful return of the value itself lies on the true edge of a substring test for \"://\"",
			"no return of the unchanged value is decided by a plain substring test for \"://\": a context such as docker-image://alpine:3.20 that a stricter URL test rejects is treated as a local path and rebased"))
	}
	if n == 0 {
		out = append(out, bad(rule, "paths :: build context resolver", "", "no resolver for build contexts found in package paths: the rule sees nothing"))
	}
	return out
}

// ---------------------------------------------------------------------------
// CLONE: a hand-written copy of a struct copies every field from the field of
// the same name. For every method `func (x *T) clone() *T` of the module that
// fills a fresh T from its receiver: each store into field i of the new value
// whose source is a field of the receiver reads field i, and every field of T
// is stored (a field that is not copied silently falls back to its zero value
// in the copy: a switch the caller set is lost for the nested load).
// ---------------------------------------------------------------------------

func (c *Ctx) CLONE(rule string) []report.Obligation {
	var out []report.Obligation
	n := 0
	for _, fn := range c.P.Funcs {
		sig := fn.Signature
		if sig.Recv() == nil || sig.Params().Len() != 0 || sig.Results().Len() != 1 || len(fn.Params) != 1 {
			continue
		}
		rp, ok := sig.Recv().Type().(*types.Pointer)
		if !ok || !types.Identical(sig.Results().At(0).Type(), sig.Recv().Type()) {
			continue
		}
		st, ok := rp.Elem().Underlying().(*types.Struct)
		names := strings.ToLower(fn.Name() + " " + c.P.RefName(fn))
		if !ok || !strings.Contains(names, "clone") && !strings.Contains(names, "copy") {
			continue
		}
		// the fresh value
		var fresh *ssa.Alloc
		for _, b := range fn.Blocks {
			for _, in := range b.Instrs {
				if al, ok := in.(*ssa.Alloc); ok && al.Heap && types.Identical(al.Type(), sig.Recv().Type()) {
					fresh = al
				}
			}
		}
		if fresh == nil {
			continue
		}
		n++
		id := c.P.FuncID(fn)
		stored := map[int]bool{}
		for _, r := range *fresh.Referrers() {
			// `copied := *o`: the whole value, every field from the field of the same name
			if sto, ok := r.(*ssa.Store); ok && sto.Addr == ssa.Value(fresh) {
				if ld, ok := sto.Val.(*ssa.UnOp); ok && ld.Op == token.MUL && ld.X == ssa.Value(fn.Params[0]) {
					for i := 0; i < st.NumFields(); i++ {
						stored[i] = true
						out = append(out, ok2(rule, id+" :: "+st.Field(i).Name()+" copied from the same field", c.P.InstrPos(sto), "the whole value is copied"))
					}
				}
				continue
			}
			fa, ok := r.(*ssa.FieldAddr)
			if !ok {
				continue
			}
			for _, rr := range *fa.Referrers() {
				sto, ok := rr.(*ssa.Store)
				if !ok || sto.Addr != ssa.Value(fa) {
					continue
				}
				stored[fa.Field] = true
				if ld, ok := sto.Val.(*ssa.UnOp); ok && ld.Op == token.MUL {
					if src, ok := ld.X.(*ssa.FieldAddr); ok && src.X == ssa.Value(fn.Params[0]) {
						out = append(out, verdict(src.Field == fa.Field, rule, id+" :: "+st.Field(fa.Field).Name()+" copied from the same field", c.P.InstrPos(sto),
							"copied from the receiver's field of the same name", "field "+st.Field(fa.Field).Name()+" of the copy is filled from the receiver's "+st.Field(src.Field).Name()))
					}
				}
			}
		}
		if len(stored) == 0 {
			n--
			continue // the copy is delegated (generated deep copy): covered by IMM / DC
		}
		for i := 0; i < st.NumFields(); i++ {
			out = append(out, verdict(stored[i], rule, id+" :: "+st.Field(i).Name()+" copied", c.P.Pos(fn.Pos()), "the field is set in the copy",
				"field "+st.Field(i).Name()+" is not copied: the copy silently gets the zero value, whatever the caller set"))
		}
	}
	if n == 0 {
		out = append(out, bad(rule, "clone methods", "", "no hand-written clone method found: the rule sees nothing"))
	}
	return out
}

// ---------------------------------------------------------------------------
// ESC (C18): escape sequences of a double-quoted value are decoded in one
// left-to-right scan. Wherever package dotenv decodes escapes with
// (*regexp.Regexp).ReplaceAllStringFunc, the text scanned is the function's
// parameter itself: a rewriting pass applied first (strings.ReplaceAll of `\$`,
// ...) cannot know whether a backslash is itself escaped, so `\\$VAR` is read
// as `\` + `\$VAR`.
// ---------------------------------------------------------------------------

func (c *Ctx) ESC(rule string) []report.Obligation {
	var out []report.Obligation
	n := 0
	for _, fn := range c.P.Funcs {
		if !strings.HasPrefix(c.P.FuncID(fn), "dotenv.") {
			continue
		}
		for _, cs := range callSites(fn, func(com *ssa.CallCommon) bool { return staticName(com) == "(*regexp.Regexp).ReplaceAllStringFunc" }) {
			n++
			src := cs.Common().Args[1]
			_, isParam := src.(*ssa.Parameter)
			out = append(out, verdict(isParam, rule, c.P.FuncID(fn)+" :: escapes decoded in a single scan of the value", c.P.InstrPos(cs),
				"the text scanned for escape sequences is the parameter itself", "the text scanned for escape sequences was rewritten first ("+c.P.KeyTerm(src, 2)+"): a backslash that is itself escaped is no longer told apart"))
		}
	}
	out = append(out, report.Obligation{Rule: rule, Key: "inventory", Status: report.Discharged, Why: fmt.Sprintf("%d escape-decoding scans in package dotenv", n)})
	// a double-quoted value is always interpolated: once the closing quote of a `"` value is found, every way out
	// of the function passes through expandVariables (the text it is given is the decoded one, which can hold a
	// `$` the raw text did not: an octal escape). A flag computed on the raw bytes cannot stand in for that.
	for _, fn := range c.P.Funcs {
		if !strings.HasPrefix(c.P.FuncID(fn), "dotenv.") {
			continue
		}
		ev := c.callsTo(fn, "dotenv.expandVariables")
		if len(ev) == 0 {
			continue
		}
		fi := prog.Info(fn)
		for _, b := range fn.Blocks {
			iff, ok := b.Instrs[len(b.Instrs)-1].(*ssa.If)
			if !ok {
				continue
			}
			bo, ok := iff.Cond.(*ssa.BinOp)
			if !ok || (bo.Op != token.EQL && bo.Op != token.NEQ) {
				continue
			}
			k, isC := constInt(bo.Y)
			if !isC {
				k, isC = constInt(bo.X)
			}
			if !isC || k != '"' {
				continue
			}
			// only the test made after the value was scanned (the scan loop itself compares bytes with the quote)
			entry := b.Succs[0]
			if bo.Op == token.NEQ {
				entry = b.Succs[1]
			}
			if !fi.InLoop(b) && !fi.Reaches(fn.Blocks[0], b) {
				continue
			}
			reachesCall := false
			for _, cs := range ev {
				if entry == cs.Block() || fi.Reaches(entry, cs.Block()) {
					reachesCall = true
				}
			}
			if !reachesCall {
				continue // a comparison with the quote character that is not the double-quote arm
			}
			good := false
			for _, cs := range ev {
				if entry == cs.Block() || fi.PostDominates(cs.Block(), entry) {
					good = true
				}
			}
			out = append(out, verdict(good, rule, c.P.FuncID(fn)+" :: a double-quoted value is always interpolated", c.P.InstrPos(iff),
				"expandVariables lies on every path out of the double-quote arm", "a path leaves the double-quote arm without interpolating the decoded value (a shortcut decided on the raw text): `\\0044{VAR}` decodes to `${VAR}` and must still be expanded"))
		}
	}
	return out
}

// ---------------------------------------------------------------------------
// EXTVAL (C11): a resource keeps its bare key as name only when it is
// external, i.e. when `external` is true - not when the key is merely present
// (`external: false` is the default written out). In the function of package
// loader that assigns the resource names, the branch between the two name
// stores depends on the value looked up under "external", not only on its
// presence.
// ---------------------------------------------------------------------------

func (c *Ctx) EXTVAL(rule string) []report.Obligation {
	var out []report.Obligation
	n := 0
	for _, fn := range c.P.Funcs {
		if !strings.HasPrefix(c.P.FuncID(fn), "loader.") {
			continue
		}
		// stores under the constant key "name"
		var stores []*ssa.MapUpdate
		for _, b := range fn.Blocks {
			for _, in := range b.Instrs {
				if mu, ok := in.(*ssa.MapUpdate); ok {
					if k, _ := prog.ConstString(mu.Key); k == "name" {
						stores = append(stores, mu)
					}
				}
			}
		}
		var ext *ssa.Lookup
		for _, b := range fn.Blocks {
			for _, in := range b.Instrs {
				if lk, ok := in.(*ssa.Lookup); ok {
					if k, _ := prog.ConstString(lk.Index); k == "external" {
						ext = lk
					}
				}
			}
		}
		// the choice may be a helper that returns the name, the caller storing its result under `name`
		var sites []*ssa.BasicBlock
		if len(stores) >= 2 {
			for _, mu := range stores {
				sites = append(sites, mu.Block())
			}
		} else if ext != nil && len(returnsOf(fn)) >= 2 && c.resultStoredUnder(fn, "name") {
			for _, r := range returnsOf(fn) {
				sites = append(sites, r.Block())
			}
		}
		if len(sites) < 2 || ext == nil {
			continue
		}
		n++
		// a branch condition computed from the looked-up value (not its ok flag) controls at least one of the stores
		valueUsed := false
		for _, sb := range sites {
			for _, d := range prog.Info(fn).TransitiveControlDeps(sb) {
				iff, ok := d.Branch.Instrs[len(d.Branch.Instrs)-1].(*ssa.If)
				if !ok {
					continue
				}
				if derivesFromLookupValue(iff.Cond, ext, 5) {
					valueUsed = true
				}
			}
		}
		out = append(out, verdict(valueUsed, rule, c.P.FuncID(fn)+" :: external decided by its value", c.P.InstrPos(ext),
			"the choice between the bare key and <project>_<key> depends on the value of `external`", "the choice between the bare key and <project>_<key> depends only on the presence of the `external` key: `external: false` keeps the bare key"))
	}
	if n == 0 {
		out = append(out, bad(rule, "loader :: resource naming", "", "no function of package loader chooses between two `name` stores after looking up `external`: the rule sees nothing"))
	}
	// every comma-ok lookup of `external` in the packages that interpret it looks at the value: presence alone
	// says nothing, `external: false` is the default written out
	for _, fn := range c.P.Funcs {
		id := c.P.FuncID(fn)
		if !(strings.HasPrefix(id, "loader.") || strings.HasPrefix(id, "validation.") || strings.HasPrefix(id, "transform.")) {
			continue
		}
		for _, b := range fn.Blocks {
			for _, in := range b.Instrs {
				lk, ok := in.(*ssa.Lookup)
				if !ok || !lk.CommaOk {
					continue
				}
				if k, _ := prog.ConstString(lk.Index); k != "external" {
					continue
				}
				used := false
				for _, r := range *lk.Referrers() {
					if ex, ok := r.(*ssa.Extract); ok && ex.Index == 0 {
						for _, u := range *ex.Referrers() {
							if _, isDbg := u.(*ssa.DebugRef); !isDbg {
								used = true
							}
						}
					}
				}
				out = append(out, verdict(used, rule, id+" :: the value of `external` is looked at", c.P.InstrPos(lk),
					"the looked-up value is used, not only its presence", "only the presence of the `external` key is tested: `external: false` counts as external"))
			}
		}
	}
	return out
}

// resultStoredUnder: some function of the same package stores the result of a call to fn under the constant map key.
func (c *Ctx) resultStoredUnder(fn *ssa.Function, key string) bool {
	for _, g := range c.P.Funcs {
		if pkgOfFn(g) != pkgOfFn(fn) {
			continue
		}
		for _, b := range g.Blocks {
			for _, in := range b.Instrs {
				mu, ok := in.(*ssa.MapUpdate)
				if !ok {
					continue
				}
				if k, _ := prog.ConstString(mu.Key); k != key {
					continue
				}
				v := mu.Value
				if mi, ok := v.(*ssa.MakeInterface); ok {
					v = mi.X
				}
				if call, ok := v.(*ssa.Call); ok && call.Call.StaticCallee() == fn {
					return true
				}
			}
		}
	}
	return false
}

func derivesFromLookupValue(v ssa.Value, lk *ssa.Lookup, depth int) bool {
	if depth == 0 {
		return false
	}
	switch x := v.(type) {
	case *ssa.Extract:
		if x.Tuple == ssa.Value(lk) {
			return x.Index == 0
		}
		return derivesFromLookupValue(x.Tuple, lk, depth-1)
	case *ssa.Lookup:
		return x == lk && !x.CommaOk
	case *ssa.Call:
		for _, a := range x.Call.Args {
			if derivesFromLookupValue(a, lk, depth-1) {
				return true
			}
		}
	case *ssa.BinOp:
		return derivesFromLookupValue(x.X, lk, depth-1) || derivesFromLookupValue(x.Y, lk, depth-1)
	case *ssa.UnOp:
		return derivesFromLookupValue(x.X, lk, depth-1)
	case *ssa.TypeAssert:
		return derivesFromLookupValue(x.X, lk, depth-1)
	case *ssa.Phi:
		for _, e := range x.Edges {
			if derivesFromLookupValue(e, lk, depth-1) {
				return true
			}
		}
	case *ssa.MakeInterface:
		return derivesFromLookupValue(x.X, lk, depth-1)
	}
	return false
}

// ---------------------------------------------------------------------------
// INHERIT: a key inherits its value from the environment only when it has no
// value at all: a bare `KEY` in a list, a null in a mapping. `KEY=` / `KEY: ""`
// is explicitly empty and stays empty. In every function of package loader
// that receives a lookup function and calls it, the call is decided only by
// nil tests, separator-absence tests (strings.Contains / Cut / Index), type
// tests and loop conditions - never by an emptiness test of the value.
// ---------------------------------------------------------------------------

func (c *Ctx) INHERIT(rule string) []report.Obligation {
	var out []report.Obligation
	n := 0
	for _, fn := range c.P.Funcs {
		if !strings.HasPrefix(c.P.FuncID(fn), "loader.") {
			continue
		}
		for _, b := range fn.Blocks {
			for _, in := range b.Instrs {
				call, ok := in.(*ssa.Call)
				if !ok || call.Call.IsInvoke() || call.Call.StaticCallee() != nil {
					continue
				}
				if _, isParam := call.Call.Value.(*ssa.Parameter); !isParam || !isLookupSig(call.Call.Value.Type()) {
					continue
				}
				n++
				var offending []string
				for _, f := range prog.DominatingFacts(b) {
					switch x := f.Cond.(type) {
					case *ssa.BinOp:
						if prog.IsNilConst(x.X) || prog.IsNilConst(x.Y) {
							continue
						}
						if isIntType(x.X.Type()) {
							// index / length comparisons of a split are separator tests unless they test a length against zero
							if lc, isCall := x.X.(*ssa.Call); isCall {
								if bi, isB := lc.Call.Value.(*ssa.Builtin); isB && bi.Name() == "len" && isStringType(lc.Call.Args[0].Type()) {
									offending = append(offending, "the length of a string")
								}
							}
							continue
						}
						if sv, isC := prog.ConstString(x.Y); isC && sv == "" {
							offending = append(offending, "a comparison with the empty string")
							continue
						}
						if sv, isC := prog.ConstString(x.X); isC && sv == "" {
							offending = append(offending, "a comparison with the empty string")
							continue
						}
					case *ssa.Extract:
						switch t := x.Tuple.(type) {
						case *ssa.TypeAssert, *ssa.Next, *ssa.Lookup:
							continue
						case *ssa.Call:
							if sn := staticName(&t.Call); sn == "strings.Cut" || strings.HasPrefix(sn, "strings.") {
								continue
							}
							if t.Call.StaticCallee() == nil {
								continue // the ok of an earlier lookup
							}
							offending = append(offending, "the result of "+calleeName(t.Call.StaticCallee()))
						}
					case *ssa.Call:
						sn := staticName(&x.Call)
						if sn == "strings.Contains" || sn == "strings.HasPrefix" || sn == "strings.ContainsRune" {
							continue
						}
						if cal := x.Call.StaticCallee(); cal != nil {
							offending = append(offending, "the predicate "+calleeName(cal))
						}
					case *ssa.Parameter:
						continue // a flag of the caller (keepEmpty)
					}
				}
				sort.Strings(offending)
				key := c.P.FuncID(fn) + " :: environment consulted only for a key without value"
				out = append(out, verdict(len(offending) == 0, rule, key, c.P.InstrPos(call),
					"the lookup is decided by nil, separator-absence and type tests only", "the lookup also depends on "+strings.Join(offending, ", ")+": an explicitly empty value (`KEY=`, `KEY: \"\"`) is treated like a missing one and inherits from the environment"))
			}
		}
	}
	if n == 0 {
		out = append(out, bad(rule, "loader :: lookups of keys without value", "", "no function of package loader calls a lookup function it received: the rule sees nothing"))
	}
	return out
}

// ---------------------------------------------------------------------------
// PATHPURE (C12): whether a path is rewritten depends on the path alone.
// In the methods of the relative-path resolver, no branch is decided by the
// base directory (the resolver's string field, read directly or through a
// helper method): "already under the base" heuristics make the result depend
// on where the project lives and break absolute paths that merely share a
// prefix with it.
// ---------------------------------------------------------------------------

func (c *Ctx) PATHPURE(rule string) []report.Obligation {
	var out []report.Obligation
	// the resolver type: the struct of package paths that has the resolver table
	var recvT *types.Named
	baseField := -1
	if pk := c.P.PkgByRel["paths"]; pk != nil {
		for _, name := range pk.Types.Scope().Names() {
			tn, ok := pk.Types.Scope().Lookup(name).(*types.TypeName)
			if !ok {
				continue
			}
			st, ok := tn.Type().Underlying().(*types.Struct)
			if !ok {
				continue
			}
			hasTable, strField := false, -1
			for i := 0; i < st.NumFields(); i++ {
				if _, isMap := st.Field(i).Type().Underlying().(*types.Map); isMap {
					hasTable = true
				}
				if isStringType(st.Field(i).Type()) {
					strField = i
				}
			}
			if hasTable && strField >= 0 {
				recvT, baseField = tn.Type().(*types.Named), strField
			}
		}
	}
	if recvT == nil {
		return []report.Obligation{bad(rule, "paths :: resolver type", "", "no struct with a resolver table and a base directory in package paths: the rule sees nothing")}
	}
	isRecv := func(t types.Type) bool {
		if p, ok := t.(*types.Pointer); ok {
			t = p.Elem()
		}
		return types.Identical(t, recvT)
	}
	var methods []*ssa.Function
	for _, fn := range c.P.Funcs {
		if fn.Signature.Recv() != nil && isRecv(fn.Signature.Recv().Type()) && fn.Parent() == nil {
			methods = append(methods, fn)
		}
	}
	// methods that read the base directory and return a bool: predicates on the base
	readsBase := func(fn *ssa.Function) bool {
		for _, b := range fn.Blocks {
			for _, in := range b.Instrs {
				if fa, ok := in.(*ssa.FieldAddr); ok && fa.Field == baseField && isRecv(fa.X.Type()) {
					return true
				}
			}
		}
		return false
	}
	var fromBase func(v ssa.Value, d int) bool
	fromBase = func(v ssa.Value, d int) bool {
		if d == 0 {
			return false
		}
		switch x := v.(type) {
		case *ssa.UnOp:
			if fa, ok := x.X.(*ssa.FieldAddr); ok && fa.Field == baseField && isRecv(fa.X.Type()) {
				return true
			}
			return fromBase(x.X, d-1)
		case *ssa.BinOp:
			return fromBase(x.X, d-1) || fromBase(x.Y, d-1)
		case *ssa.Call:
			if cal := x.Call.StaticCallee(); cal != nil && cal.Signature.Recv() != nil && isRecv(cal.Signature.Recv().Type()) && cal.Signature.Results().Len() == 1 && isBoolType(cal.Signature.Results().At(0).Type()) && readsBase(cal) {
				return true
			}
			for _, a := range x.Call.Args {
				if fromBase(a, d-1) {
					return true
				}
			}
		case *ssa.Extract:
			return fromBase(x.Tuple, d-1)
		case *ssa.Phi:
			for _, e := range x.Edges {
				if fromBase(e, d-1) {
					return true
				}
			}
		}
		return false
	}
	n := 0
	for _, fn := range methods {
		for _, b := range fn.Blocks {
			iff, ok := b.Instrs[len(b.Instrs)-1].(*ssa.If)
			if !ok {
				continue
			}
			n++
			if fromBase(iff.Cond, 5) {
				out = append(out, bad(rule, c.P.FuncID(fn)+" :: decision independent of the base directory", c.P.InstrPos(iff),
					"a branch of the resolver is decided by the base directory: whether a path is rewritten depends on where the project lives (an absolute or already-joined path that shares a prefix with it is treated differently)"))
			}
		}
	}
	out = append(out, report.Obligation{Rule: rule, Key: "resolver methods :: no branch reads the base directory", Status: report.Discharged,
		Why: fmt.Sprintf("%d branches in %d methods of %s inspected", n, len(methods), recvT.Obj().Name())})
	return out
}

// ---------------------------------------------------------------------------
// NUMSIGN (C09): a model type whose underlying type is a signed integer is not
// parsed with an unsigned parser: the default encoding renders negative
// sentinels (count: -1 for "all") that strconv.ParseUint rejects on reload.
// ---------------------------------------------------------------------------

func (c *Ctx) NUMSIGN(rule string) []report.Obligation {
	var out []report.Obligation
	n := 0
	for _, fn := range c.P.Funcs {
		if !strings.HasPrefix(c.P.FuncID(fn), "types.") || fn.Signature.Recv() == nil || fn.Parent() != nil {
			continue
		}
		switch fn.Name() {
		case "DecodeMapstructure", "UnmarshalYAML", "UnmarshalJSON", "UnmarshalText":
		default:
			continue
		}
		rt := fn.Signature.Recv().Type()
		if p, ok := rt.(*types.Pointer); ok {
			rt = p.Elem()
		}
		bt, ok := rt.Underlying().(*types.Basic)
		if !ok || bt.Info()&types.IsInteger == 0 || bt.Info()&types.IsUnsigned != 0 {
			continue
		}
		n++
		var bad1 ssa.Instruction
		for _, cs := range callSites(fn, func(com *ssa.CallCommon) bool { return staticName(com) == "strconv.ParseUint" }) {
			bad1 = cs
		}
		key := c.P.FuncID(fn) + " :: signed value parsed with a signed parser"
		if bad1 == nil {
			out = append(out, okOb(rule, key, c.P.Pos(fn.Pos()), "no strconv.ParseUint in the decoder of a signed integer type"))
		} else {
			out = append(out, bad(rule, key, c.P.InstrPos(bad1), "the decoder of a signed integer type parses with strconv.ParseUint: a negative value the encoder renders (a sentinel such as -1) is rejected on reload"))
		}
	}
	if n == 0 {
		out = append(out, bad(rule, "types :: decoders of signed integer types", "", "no decoder of a signed integer model type found: the rule sees nothing"))
	}
	return out
}

// ---------------------------------------------------------------------------
// Value-shaped clauses with a structural core (round 5).
// ---------------------------------------------------------------------------

// INCENV (C06): without a declared env_file, an included project reads the `.env` of its project directory:
// the path joined with ".env" in ApplyInclude is the entry's ProjectDirectory.
func (c *Ctx) INCENV(rule string) []report.Obligation {
	f := c.P.Func("loader.ApplyInclude")
	if f == nil {
		return []report.Obligation{anchorViolation(rule, "loader.ApplyInclude")}
	}
	var out []report.Obligation
	n := 0
	// ApplyInclude itself and the loader helpers it delegates to (one level), with the arguments they receive
	type site struct {
		fn   *ssa.Function
		call ssa.CallInstruction // the call from ApplyInclude, nil for ApplyInclude itself
	}
	sites := []site{{f, nil}}
	for _, hc := range callSites(f, func(com *ssa.CallCommon) bool {
		cal := com.StaticCallee()
		return cal != nil && c.P.InModule(cal) && strings.HasPrefix(c.P.FuncID(cal), "loader.") && cal.Blocks != nil
	}) {
		sites = append(sites, site{hc.Common().StaticCallee(), hc})
	}
	for _, st := range sites {
		g := st.fn
		for _, cs := range callSites(g, func(com *ssa.CallCommon) bool { return staticName(com) == "path/filepath.Join" }) {
			sl, ok := cs.Common().Args[0].(*ssa.Slice)
			if !ok {
				continue
			}
			al, ok := sl.X.(*ssa.Alloc)
			if !ok {
				continue
			}
			var elems = map[int64]ssa.Value{}
			for _, r := range *al.Referrers() {
				if ia, ok := r.(*ssa.IndexAddr); ok {
					k, _ := constInt(ia.Index)
					for _, rr := range *ia.Referrers() {
						if st, ok := rr.(*ssa.Store); ok && st.Addr == ssa.Value(ia) {
							elems[k] = st.Val
						}
					}
				}
			}
			if s, ok := prog.ConstString(elems[1]); !ok || s != ".env" {
				continue
			}
			n++
			dir := elems[0]
			// inside a helper: the directory is a parameter, bound at the call in ApplyInclude
			if pa, isP := dir.(*ssa.Parameter); isP && st.call != nil {
				for i, gp := range g.Params {
					if gp == pa && i < len(st.call.Common().Args) {
						dir = st.call.Common().Args[i]
					}
				}
			}
			out = append(out, verdict(loadedField(dir) == "ProjectDirectory", rule, "ApplyInclude :: default .env taken from the project directory", c.P.InstrPos(cs),
				"filepath.Join(r.ProjectDirectory, \".env\")", "the default .env of an included project is looked for in "+c.P.KeyTerm(dir, 3)+", not in its project directory"))
		}
	}
	if n == 0 {
		out = append(out, bad(rule, "ApplyInclude :: default .env", c.P.Pos(f.Pos()), "no filepath.Join(dir, \".env\") in ApplyInclude: the rule sees nothing"))
	}
	return out
}

// SRCEXCL (C10): "several of its mutually exclusive sources" is an error whatever else the resource carries: in
// the source checker of package validation, the error returned when more than one source is counted does not
// depend on a lookup of `driver` or `external`.
func (c *Ctx) SRCEXCL(rule string) []report.Obligation {
	var out []report.Obligation
	n := 0
	for _, fn := range c.P.Funcs {
		if !strings.HasPrefix(c.P.FuncID(fn), "validation.") {
			continue
		}
		for _, r := range returnsOf(fn) {
			if len(r.Results) != 1 || !c.dyn.definitelyNonNil(retValue(r, 0), r.Block(), 2) {
				continue
			}
			// the return taken when the count exceeds one
			several := factHolds(r.Block(), func(cond ssa.Value, val bool) bool {
				bo, ok := cond.(*ssa.BinOp)
				if !ok {
					return false
				}
				k, isC := constInt(bo.Y)
				return isC && (bo.Op == token.GTR && k == 1 && val || bo.Op == token.GEQ && k == 2 && val || bo.Op == token.LEQ && k == 1 && !val || bo.Op == token.LSS && k == 2 && !val)
			})
			if !several {
				continue
			}
			n++
			var offending []string
			for _, f := range prog.DominatingFacts(r.Block()) {
				var lk *ssa.Lookup
				switch x := f.Cond.(type) {
				case *ssa.Extract:
					lk, _ = x.Tuple.(*ssa.Lookup)
				case *ssa.BinOp:
					for _, side := range []ssa.Value{x.X, x.Y} {
						if ex, ok := side.(*ssa.Extract); ok {
							if l2, ok := ex.Tuple.(*ssa.Lookup); ok {
								lk = l2
							}
						}
						if l2, ok := side.(*ssa.Lookup); ok {
							lk = l2
						}
					}
				}
				if lk != nil {
					if k, ok := prog.ConstString(lk.Index); ok && (k == "driver" || k == "external") {
						offending = append(offending, "`"+k+"`")
					}
				}
			}
			sort.Strings(offending)
			out = append(out, verdict(len(offending) == 0, rule, c.P.FuncID(fn)+" :: several sources rejected unconditionally", c.P.InstrPos(r),
				"the error for more than one source does not depend on driver / external", "the error for more than one source is only reached after a test of "+strings.Join(offending, ", ")+": a resource with a driver or marked external may combine file, environment and content"))
		}
	}
	if n == 0 {
		out = append(out, bad(rule, "validation :: several-sources error", "", "no error return on `count > 1` in package validation: the rule sees nothing"))
	}
	return out
}

// SIGNCMP (C09): the renderers choose between the spellings of a value with tests that treat negative numbers
// like any other non-zero number (a single ulimit of -1 means unlimited): in the MarshalYAML / MarshalJSON
// methods of package types and the helpers they call, no signed integer field is compared with zero by an
// ordering comparison.
func (c *Ctx) SIGNCMP(rule string) []report.Obligation {
	var out []report.Obligation
	seen := map[*ssa.Function]bool{}
	var fns []*ssa.Function
	var add func(f *ssa.Function, d int)
	add = func(f *ssa.Function, d int) {
		if f == nil || seen[f] || d == 0 || f.Blocks == nil || !strings.HasPrefix(c.P.FuncID(f), "types.") {
			return
		}
		seen[f] = true
		fns = append(fns, f)
		for _, cs := range callSites(f, func(com *ssa.CallCommon) bool { return com.StaticCallee() != nil && c.P.InModule(com.StaticCallee()) }) {
			add(cs.Common().StaticCallee(), d-1)
		}
	}
	for _, f := range c.P.MethodsNamed("MarshalYAML", "MarshalJSON") {
		add(f, 3)
	}
	n := 0
	for _, f := range fns {
		for _, b := range f.Blocks {
			for _, in := range b.Instrs {
				bo, ok := in.(*ssa.BinOp)
				if !ok {
					continue
				}
				switch bo.Op {
				case token.GTR, token.GEQ, token.LSS, token.LEQ:
				default:
					continue
				}
				fld, other := bo.X, bo.Y
				if loadedField(fld) == "" {
					fld, other = bo.Y, bo.X
				}
				k, isC := constInt(other)
				bt, isB := fld.Type().Underlying().(*types.Basic)
				if loadedField(fld) == "" || !isC || (k != 0 && k != 1) || !isB || bt.Info()&types.IsInteger == 0 || bt.Info()&types.IsUnsigned != 0 {
					continue
				}
				n++
				out = append(out, bad(rule, c.P.FuncID(f)+" :: "+loadedField(fld)+" compared with zero by sign", c.P.InstrPos(bo),
					"a renderer decides by the sign of "+loadedField(fld)+": a negative value (-1, the usual `unlimited` sentinel) takes the branch meant for `not set` and is rendered in a form that does not reload to the same value"))
			}
		}
	}
	out = append(out, report.Obligation{Rule: rule, Key: "renderers :: no sign test of an integer field", Status: report.Discharged,
		Why: fmt.Sprintf("%d functions reachable from the marshallers of package types inspected, %d sign tests", len(fns), n)})
	return out
}

// LOGMERGE (C04): logging is merged key by key unless both sides name a driver and the drivers differ. The
// presence of `driver` is looked up with comma-ok on both sides, and both flags take part in the decision.
func (c *Ctx) LOGMERGE(rule string) []report.Obligation {
	f := c.P.Func("override.mergeLogging")
	if f == nil {
		return []report.Obligation{anchorViolation(rule, "override.mergeLogging")}
	}
	fns := []*ssa.Function{f}
	for _, cs := range callSites(f, func(com *ssa.CallCommon) bool {
		cal := com.StaticCallee()
		return cal != nil && c.P.InModule(cal) && strings.HasPrefix(c.P.FuncID(cal), "override.") && c.P.RefName(cal) != "mergeMappings"
	}) {
		fns = append(fns, cs.Common().StaticCallee())
	}
	used := 0
	for _, g := range fns {
		for _, b := range g.Blocks {
			for _, in := range b.Instrs {
				lk, ok := in.(*ssa.Lookup)
				if !ok || !lk.CommaOk {
					continue
				}
				if k, _ := prog.ConstString(lk.Index); k != "driver" {
					continue
				}
				for _, r := range *lk.Referrers() {
					if ex, ok := r.(*ssa.Extract); ok && ex.Index == 1 {
						for _, u := range *ex.Referrers() {
							switch u.(type) {
							case *ssa.If, *ssa.BinOp, *ssa.Phi, *ssa.UnOp, *ssa.Return:
								used++
							}
						}
					}
				}
			}
		}
	}
	return []report.Obligation{verdict(used >= 2, rule, "mergeLogging :: presence of driver consulted on both sides", c.P.Pos(f.Pos()),
		"two comma-ok lookups of `driver` whose flags take part in the decision", "the decision to replace the logging mapping does not consult the presence of `driver` on both sides: when only one side names a driver the base options are dropped instead of merged")}
}

// BOOLTAB (C08): the text-to-boolean conversion of the loader follows the YAML 1.1 table. In loader.toBoolean
// every successful result is a constant, reached from comparisons of the lower-cased text with constants, and
// the constants leading to true are {true, y, yes, on}, those leading to false {false, n, no, off}.
func (c *Ctx) BOOLTAB(rule string) []report.Obligation {
	f := c.P.Func("loader.toBoolean")
	if f == nil {
		return []report.Obligation{anchorViolation(rule, "loader.toBoolean")}
	}
	table := map[string]string{}
	problem := ""
	// each equality test against a constant: where does its true edge lead?
	for _, b := range f.Blocks {
		iff, ok := b.Instrs[len(b.Instrs)-1].(*ssa.If)
		if !ok {
			continue
		}
		bo, ok := iff.Cond.(*ssa.BinOp)
		if !ok || bo.Op != token.EQL {
			continue
		}
		sv, isC := prog.ConstString(bo.Y)
		if !isC {
			sv, isC = prog.ConstString(bo.X)
		}
		if !isC {
			continue
		}
		// follow the true edge through unconditional jumps to a return
		blk := b.Succs[0]
		for i := 0; i < 6; i++ {
			if _, isRet := blk.Instrs[len(blk.Instrs)-1].(*ssa.Return); isRet {
				break
			}
			if _, isJump := blk.Instrs[len(blk.Instrs)-1].(*ssa.Jump); isJump && len(blk.Succs) == 1 {
				blk = blk.Succs[0]
				continue
			}
			break
		}
		ret, isRet := blk.Instrs[len(blk.Instrs)-1].(*ssa.Return)
		if !isRet {
			problem = "the case " + sv + " does not lead straight to a return"
			continue
		}
		rv := retValue(ret, 0)
		if mi, ok := rv.(*ssa.MakeInterface); ok {
			rv = mi.X
		}
		if cmp, isCmp := rv.(*ssa.BinOp); isCmp && (cmp.Op == token.EQL || cmp.Op == token.NEQ) {
			// `return lower == "true", nil` reached knowing lower == sv: the result is sv == "true"
			subject := bo.X
			if _, isC := prog.ConstString(bo.X); isC {
				subject = bo.Y
			}
			other, isC2 := prog.ConstString(cmp.Y)
			side := cmp.X
			if !isC2 {
				other, isC2 = prog.ConstString(cmp.X)
				side = cmp.Y
			}
			if isC2 && side == subject {
				rv = ssa.NewConst(constant.MakeBool((sv == other) == (cmp.Op == token.EQL)), types.Typ[types.Bool])
			}
		}
		if bv, isB := constBool(rv); isB {
			table[sv] = fmt.Sprint(bv)
		} else if !isNilOrConst(retValue(ret, 1)) {
			table[sv] = "error"
		} else {
			table[sv] = "computed"
			problem = "the result for " + sv + " is computed, not a constant"
		}
	}
	// table form: `lit, ok := table[strings.ToLower(value)]` on a package-level map literal; the result is the
	// looked-up value (or one of its fields) on the ok edge, an error on the other
	for _, b := range f.Blocks {
		for _, in := range b.Instrs {
			lk, ok := in.(*ssa.Lookup)
			if !ok || !lk.CommaOk {
				continue
			}
			ld, ok := lk.X.(*ssa.UnOp)
			if !ok {
				continue
			}
			g, ok := ld.X.(*ssa.Global)
			if !ok {
				continue
			}
			rows, err := c.boolMapLiteral(g)
			if err != "" {
				problem = err
				continue
			}
			field, found, rejects := -2, false, false
			for _, ret := range returnsOf(f) {
				okEdge, known := false, false
				for _, fct := range prog.DominatingFacts(ret.Block()) {
					if ex, isE := fct.Cond.(*ssa.Extract); isE && ex.Tuple == ssa.Value(lk) && ex.Index == 1 {
						okEdge, known = fct.Val, true
					}
				}
				if !known {
					continue
				}
				if !okEdge {
					if !isNilOrConst(retValue(ret, 1)) {
						rejects = true
					}
					continue
				}
				rv := retValue(ret, 0)
				if mi, isMI := rv.(*ssa.MakeInterface); isMI {
					rv = mi.X
				}
				switch x := rv.(type) {
				case *ssa.Field:
					if ex, isE := x.X.(*ssa.Extract); isE && ex.Tuple == ssa.Value(lk) && ex.Index == 0 {
						field, found = x.Field, true
					}
				case *ssa.Extract:
					if x.Tuple == ssa.Value(lk) && x.Index == 0 {
						field, found = -1, true
					}
				case *ssa.UnOp:
					// the looked-up struct kept in a local: `lit, ok := table[k]; ...; return lit.value`
					if fa, isFA := x.X.(*ssa.FieldAddr); isFA && x.Op == token.MUL {
						if al, isAl := fa.X.(*ssa.Alloc); isAl {
							stores, fromLookup := 0, false
							for _, ar := range *al.Referrers() {
								if st, isSt := ar.(*ssa.Store); isSt && st.Addr == ssa.Value(al) {
									stores++
									if ex, isE := st.Val.(*ssa.Extract); isE && ex.Tuple == ssa.Value(lk) && ex.Index == 0 {
										fromLookup = true
									}
								}
							}
							fieldWritten := false
							for _, ar := range *al.Referrers() {
								if fa2, isFA2 := ar.(*ssa.FieldAddr); isFA2 {
									for _, fr := range *fa2.Referrers() {
										if st, isSt := fr.(*ssa.Store); isSt && st.Addr == ssa.Value(fa2) {
											fieldWritten = true
										}
									}
								}
							}
							if stores == 1 && fromLookup && !fieldWritten {
								field, found = fa.Field, true
							}
						}
					}
				}
			}
			if !found {
				problem = "the value looked up in " + g.Name() + " is not what is returned"
				continue
			}
			if !rejects {
				problem = "a text that is not in " + g.Name() + " is not rejected"
			}
			for k, r := range rows {
				table[k] = fmt.Sprint(r[field])
			}
		}
	}
	want := map[string]string{"true": "true", "y": "true", "yes": "true", "on": "true", "false": "false", "n": "false", "no": "false", "off": "false"}
	var diffs []string
	for k, v := range want {
		if table[k] != v {
			diffs = append(diffs, fmt.Sprintf("%q -> %s (YAML 1.1: %s)", k, orNone(table[k]), v))
		}
	}
	for k, v := range table {
		if _, known := want[k]; !known && v != "error" {
			diffs = append(diffs, fmt.Sprintf("%q -> %s (not a boolean text)", k, v))
		}
	}
	sort.Strings(diffs)
	if problem != "" {
		diffs = append(diffs, problem)
	}
	return []report.Obligation{verdict(len(diffs) == 0, rule, "toBoolean :: YAML 1.1 truth table", c.P.Pos(f.Pos()),
		"true/y/yes/on lead to the constant true, false/n/no/off to the constant false", "the conversion departs from the YAML 1.1 table: "+strings.Join(diffs, "; "))}
}

// boolMapLiteral reads a package-level map literal keyed by constant strings whose values are booleans or structs
// of booleans: key -> field index -> value (index -1 is the value itself). The map must not be updated anywhere.
func (c *Ctx) boolMapLiteral(g *ssa.Global) (map[string]map[int]bool, string) {
	rows := map[string]map[int]bool{}
	var mk *ssa.MakeMap
	for _, fn := range c.P.Funcs {
		for _, b := range fn.Blocks {
			for _, in := range b.Instrs {
				if mu, ok := in.(*ssa.MapUpdate); ok {
					if ld, ok := mu.Map.(*ssa.UnOp); ok && ld.X == ssa.Value(g) {
						return nil, "the table " + g.Name() + " is updated at run time [" + c.P.InstrPos(mu) + "]"
					}
				}
			}
		}
	}
	init := g.Pkg.Func("init")
	if init == nil {
		return nil, "no initialiser for " + g.Name()
	}
	for _, b := range init.Blocks {
		for _, in := range b.Instrs {
			if st, ok := in.(*ssa.Store); ok && st.Addr == ssa.Value(g) {
				mk, _ = st.Val.(*ssa.MakeMap)
			}
		}
	}
	if mk == nil {
		return nil, g.Name() + " is not initialised with a map literal"
	}
	for _, r := range *mk.Referrers() {
		mu, ok := r.(*ssa.MapUpdate)
		if !ok {
			continue
		}
		k, isC := prog.ConstString(mu.Key)
		if !isC {
			return nil, "a key of " + g.Name() + " is not a constant"
		}
		row := map[int]bool{}
		if bv, isB := constBool(mu.Value); isB {
			row[-1] = bv
		} else if cst, isCst := mu.Value.(*ssa.Const); isCst && cst.Value == nil {
			// the zero value: every field false
		} else if ld, isLd := mu.Value.(*ssa.UnOp); isLd && ld.Op == token.MUL {
			al, isAl := ld.X.(*ssa.Alloc)
			if !isAl {
				return nil, "the row " + k + " of " + g.Name() + " is not a literal"
			}
			for _, ar := range *al.Referrers() {
				fa, isFA := ar.(*ssa.FieldAddr)
				if !isFA {
					continue
				}
				for _, fr := range *fa.Referrers() {
					if st, isSt := fr.(*ssa.Store); isSt && st.Addr == ssa.Value(fa) {
						bv, isB := constBool(st.Val)
						if !isB {
							return nil, "a field of the row " + k + " of " + g.Name() + " is not a constant"
						}
						row[fa.Field] = bv
					}
				}
			}
		} else {
			return nil, "the row " + k + " of " + g.Name() + " is not a literal"
		}
		rows[k] = row
	}
	return rows, ""
}

func orNone(s string) string {
	if s == "" {
		return "no case"
	}
	return s
}

// PROFSTAR (C15): `*` selects everything when it is listed, wherever in the list. In the profile predicate
// (ServiceConfig.HasProfile and what it calls) the comparison with "*" is applied to every element of the
// selected profiles: to the element of a loop over them, or through slices.Contains on them - never to one
// fixed position.
func (c *Ctx) PROFSTAR(rule string) []report.Obligation {
	f := c.P.Func("types.(ServiceConfig).HasProfile")
	if f == nil {
		return []report.Obligation{anchorViolation(rule, "types.(ServiceConfig).HasProfile")}
	}
	prof := paramByType(f, "[]string")
	good, n, why := false, 0, "no comparison with \"*\" found"
	for _, b := range f.Blocks {
		for _, in := range b.Instrs {
			switch x := in.(type) {
			case *ssa.BinOp:
				if x.Op != token.EQL && x.Op != token.NEQ {
					continue
				}
				other := x.X
				if s, ok := prog.ConstString(x.Y); !ok || s != "*" {
					if s, ok := prog.ConstString(x.X); !ok || s != "*" {
						continue
					}
					other = x.Y
				}
				n++
				// an element of the parameter at a position that varies (a loop), not a constant one
				if ld, ok := other.(*ssa.UnOp); ok {
					if ia, ok := ld.X.(*ssa.IndexAddr); ok && sameParam(ia.X, prof) {
						if _, isConst := ia.Index.(*ssa.Const); isConst {
							why = "\"*\" is only looked for at a fixed position of the list"
						} else {
							good = true
						}
					}
				}
			case *ssa.Call:
				sn := staticName(&x.Call)
				if strings.HasSuffix(sn, "slices.Contains") && len(x.Call.Args) == 2 && sameParam(x.Call.Args[0], prof) {
					if s, ok := prog.ConstString(x.Call.Args[1]); ok && s == "*" {
						n++
						good = true
					}
				}
				// slices.ContainsFunc(profiles, func(p string) bool { return p == "*" || ... }): the predicate sees every element
				if (strings.HasSuffix(sn, "slices.ContainsFunc") || strings.HasSuffix(sn, "slices.IndexFunc")) && len(x.Call.Args) == 2 && sameParam(x.Call.Args[0], prof) {
					var pred *ssa.Function
					switch fv := x.Call.Args[1].(type) {
					case *ssa.MakeClosure:
						pred, _ = fv.Fn.(*ssa.Function)
					case *ssa.Function:
						pred = fv
					}
					if pred != nil && len(pred.Params) == 1 {
						for _, pb := range pred.Blocks {
							for _, pin := range pb.Instrs {
								bo, ok := pin.(*ssa.BinOp)
								if !ok || (bo.Op != token.EQL && bo.Op != token.NEQ) {
									continue
								}
								sx, okx := prog.ConstString(bo.X)
								sy, oky := prog.ConstString(bo.Y)
								if (oky && sy == "*" && bo.X == ssa.Value(pred.Params[0])) || (okx && sx == "*" && bo.Y == ssa.Value(pred.Params[0])) {
									n++
									good = true
								}
							}
						}
					}
				}
			}
		}
	}
	// the wildcard test must not be tied to the length of the list
	if good {
		for _, b := range f.Blocks {
			for _, in := range b.Instrs {
				if bo, ok := in.(*ssa.BinOp); ok && (bo.Op == token.EQL) {
					if call, ok := bo.X.(*ssa.Call); ok {
						if bi, isB := call.Call.Value.(*ssa.Builtin); isB && bi.Name() == "len" && sameParam(call.Call.Args[0], prof) {
							if k, isC := constInt(bo.Y); isC && k == 1 {
								good, why = false, "the wildcard is tied to a list of length one"
							}
						}
					}
				}
			}
		}
	}
	return []report.Obligation{verdict(good, rule, "HasProfile :: `*` honoured anywhere in the list", c.P.Pos(f.Pos()),
		"every element of the selected profiles is compared with \"*\"", why+": `*` listed next to another profile no longer enables every service")}
}

// SHELLSPLIT (C03): the string spelling of command / entrypoint is split into words by the shell-words parser
// only. In the decoder of ShellCommand (and its helpers) no other splitter (strings.Fields / Split / FieldsFunc)
// is applied to the text, and shellwords.Parse is called.
func (c *Ctx) SHELLSPLIT(rule string) []report.Obligation {
	f := c.P.Func("types.(*ShellCommand).DecodeMapstructure")
	if f == nil {
		return []report.Obligation{anchorViolation(rule, "types.(*ShellCommand).DecodeMapstructure")}
	}
	fns := []*ssa.Function{f}
	for _, cs := range callSites(f, func(com *ssa.CallCommon) bool {
		cal := com.StaticCallee()
		return cal != nil && c.P.InModule(cal) && strings.HasPrefix(c.P.FuncID(cal), "types.")
	}) {
		fns = append(fns, cs.Common().StaticCallee())
	}
	parses := false
	var other []string
	for _, g := range fns {
		for _, cs := range callSites(g, func(com *ssa.CallCommon) bool { return com.StaticCallee() != nil }) {
			sn := staticName(cs.Common())
			switch {
			case strings.HasSuffix(sn, "shellwords.Parse") || strings.Contains(sn, "shellwords.(*Parser).Parse"):
				parses = true
			case sn == "strings.Fields" || sn == "strings.FieldsFunc" || sn == "strings.Split" || sn == "strings.SplitN":
				other = append(other, sn+" ["+c.P.InstrPos(cs)+"]")
			}
		}
	}
	sort.Strings(other)
	return []report.Obligation{verdict(parses && len(other) == 0, rule, "ShellCommand :: words split by the shell-words parser only", c.P.Pos(f.Pos()),
		"shellwords.Parse is the only splitter applied to the command text", "the command text is (also) split by "+strings.Join(other, ", ")+pick(parses, "", "; shellwords.Parse is not called")+": blanks that the shell grammar does not treat as separators split words, or quoting is not honoured")}
}

// NETPRES (C11): a service uses the `default` network when the key is there, with or without settings (the
// short list syntax and a bare `default:` both leave a null value). In the function of package loader that adds
// the implicit default network, every lookup of the constant key "default" is a comma-ok lookup whose presence
// flag is what is branched on; no branch compares the looked-up value with nil.
func (c *Ctx) NETPRES(rule string) []report.Obligation {
	var out []report.Obligation
	n := 0
	for _, fn := range c.P.Funcs {
		if !strings.HasPrefix(c.P.FuncID(fn), "loader.") {
			continue
		}
		for _, b := range fn.Blocks {
			for _, in := range b.Instrs {
				lk, ok := in.(*ssa.Lookup)
				if !ok {
					continue
				}
				if k, _ := prog.ConstString(lk.Index); k != "default" {
					continue
				}
				n++
				good := lk.CommaOk
				why := "presence decided by the comma-ok flag"
				// the value must not be compared with nil to decide a branch
				var vals []ssa.Value
				if lk.CommaOk {
					for _, r := range *lk.Referrers() {
						if ex, ok := r.(*ssa.Extract); ok && ex.Index == 0 {
							vals = append(vals, ex)
						}
					}
				} else {
					vals = append(vals, lk)
				}
				for _, v := range vals {
					for _, r := range *v.Referrers() {
						if bo, ok := r.(*ssa.BinOp); ok && (prog.IsNilConst(bo.X) || prog.IsNilConst(bo.Y)) {
							good, why = false, "the looked-up value is compared with nil"
						}
					}
				}
				if !lk.CommaOk && good {
					good, why = false, "the key is looked up without the presence flag"
				}
				out = append(out, verdict(good, rule, c.P.FuncID(fn)+" :: use of the `default` network decided by presence", c.P.InstrPos(lk), why,
					why+": a service that lists `default` without settings (null value) is not counted as using it, so the implicit network is not added"))
			}
		}
	}
	if n == 0 {
		out = append(out, bad(rule, "loader :: lookups of the default network", "", "no lookup of the key \"default\" in package loader: the rule sees nothing"))
	}
	return out
}

// TILDE (C12): `~` expands to the home directory: what is joined to it is the path without its first character
// (the `~` the guard found), so that a bare `~` is the home directory itself.
func (c *Ctx) TILDE(rule string) []report.Obligation {
	f := c.P.Func("paths.ExpandUser")
	if f == nil {
		return []report.Obligation{anchorViolation(rule, "paths.ExpandUser")}
	}
	good, why, n := false, "no filepath.Join(home, rest) found", 0
	for _, cs := range callSites(f, func(com *ssa.CallCommon) bool { return staticName(com) == "path/filepath.Join" }) {
		sl, ok := cs.Common().Args[0].(*ssa.Slice)
		if !ok {
			continue
		}
		al, ok := sl.X.(*ssa.Alloc)
		if !ok {
			continue
		}
		var rest ssa.Value
		for _, r := range *al.Referrers() {
			if ia, ok := r.(*ssa.IndexAddr); ok {
				if k, _ := constInt(ia.Index); k == 1 {
					for _, rr := range *ia.Referrers() {
						if st, ok := rr.(*ssa.Store); ok && st.Addr == ssa.Value(ia) {
							rest = st.Val
						}
					}
				}
			}
		}
		if rest == nil {
			continue
		}
		n++
		switch x := rest.(type) {
		case *ssa.Slice:
			if k, isC := constInt(x.Low); isC && k == 1 && x.High == nil && sameParam(x.X, paramByType(f, "string")) {
				good = true
			} else {
				why = "the remainder is not the path from its second character on"
			}
		case *ssa.Call:
			sn := staticName(&x.Call)
			if (sn == "strings.TrimPrefix" || sn == "strings.TrimLeft") && len(x.Call.Args) == 2 {
				if s, ok := prog.ConstString(x.Call.Args[1]); ok && s == "~" && sn == "strings.TrimPrefix" {
					good = true
				} else {
					why = "the prefix removed before joining is not exactly `~`"
				}
			} else {
				why = "the remainder is computed by " + sn
			}
		case *ssa.Extract:
			// rest, found := strings.CutPrefix(p, "~")
			call, isCall := x.Tuple.(*ssa.Call)
			if isCall && x.Index == 0 && staticName(&call.Call) == "strings.CutPrefix" && sameParam(call.Call.Args[0], paramByType(f, "string")) {
				if s, ok := prog.ConstString(call.Call.Args[1]); ok && s == "~" {
					good = true
				} else {
					why = "the prefix removed before joining is not exactly `~`"
				}
			} else {
				why = "the remainder is " + c.P.KeyTerm(rest, 2)
			}
		default:
			why = "the remainder is " + c.P.KeyTerm(rest, 2)
		}
	}
	if n == 0 {
		why = "no filepath.Join(home, rest) found"
	}
	return []report.Obligation{verdict(good, rule, "ExpandUser :: the home directory replaces exactly the leading `~`", c.P.Pos(f.Pos()),
		"filepath.Join(home, p[1:])", why+": a bare `~` (or `~x`) no longer resolves to the home directory")}
}

// PATHLAST (C20, C01): decisions about a position in the model are taken by matching the whole tree.Path against
// patterns. The last segment alone cannot tell an attribute name from a resource name chosen by the user (a
// secret called `labels`): no branch or table lookup of the load pipeline is keyed on Path.Last().
func (c *Ctx) PATHLAST(rule string) []report.Obligation {
	var out []report.Obligation
	n := 0
	for _, fn := range c.P.Funcs {
		id := c.P.FuncID(fn)
		if strings.HasPrefix(id, "tree.") {
			continue
		}
		for _, cs := range callSites(fn, func(com *ssa.CallCommon) bool { return c.calleeID(com) == "tree.(Path).Last" }) {
			v, ok := cs.(ssa.Value)
			if !ok {
				continue
			}
			for _, use := range valueUses(v, 3) {
				decides := false
				switch u := use.(type) {
				case *ssa.BinOp:
					decides = u.Op == token.EQL || u.Op == token.NEQ
				case *ssa.Lookup:
					decides = true
				case *ssa.If:
					decides = true
				}
				if decides {
					n++
					out = append(out, bad(rule, id+" :: decision keyed on the last path segment", c.P.InstrPos(use),
						"a branch or lookup is keyed on Path.Last(): at depth two the last segment is a name chosen by the user, so a resource named like an attribute (`labels`, `options`, `args`) is treated as that attribute"))
				}
			}
		}
	}
	out = append(out, report.Obligation{Rule: rule, Key: "pipeline :: no decision keyed on Path.Last()", Status: report.Discharged, Why: fmt.Sprintf("%d decisions on the last segment found", n)})
	return out
}

// ENVPRES (C06, C20): a resource attribute is filled from the environment only when the variable is set. Wherever
// package loader stores the value it looked up in a types.Mapping into a map of the model, the lookup is comma-ok
// and the store lies on its ok edge: an unset variable leaves the attribute alone (so a value resolved by an
// earlier pass - the included project's own environment - is not replaced by an empty string).
func (c *Ctx) ENVPRES(rule string) []report.Obligation {
	var out []report.Obligation
	n := 0
	for _, fn := range c.P.Funcs {
		if !strings.HasPrefix(c.P.FuncID(fn), "loader.") {
			continue
		}
		for _, b := range fn.Blocks {
			for _, in := range b.Instrs {
				mu, ok := in.(*ssa.MapUpdate)
				if !ok {
					continue
				}
				v := mu.Value
				if mi, isMI := v.(*ssa.MakeInterface); isMI {
					v = mi.X
				}
				var lk *ssa.Lookup
				switch x := v.(type) {
				case *ssa.Lookup:
					lk = x
				case *ssa.Extract:
					if l, isL := x.Tuple.(*ssa.Lookup); isL && x.Index == 0 {
						lk = l
					}
				}
				if lk == nil {
					continue
				}
				nt, isN := lk.X.Type().(*types.Named)
				if !isN || nt.Obj().Name() != "Mapping" {
					continue
				}
				n++
				good := lk.CommaOk && factHolds(b, func(cond ssa.Value, val bool) bool {
					ex, isE := cond.(*ssa.Extract)
					return isE && ex.Tuple == ssa.Value(lk) && ex.Index == 1 && val
				})
				out = append(out, verdict(good, rule, c.P.FuncID(fn)+" :: environment value stored only when the variable is set", c.P.InstrPos(mu),
					"the store lies on the ok edge of the comma-ok lookup in the environment", "the attribute is written whether or not the variable is set: an unset variable overwrites what an earlier pass resolved (the included project's own environment) with an empty value"))
			}
		}
	}
	if n == 0 {
		out = append(out, bad(rule, "loader :: environment values stored into the model", "", "no store of an environment lookup into a map found in package loader: the rule sees nothing"))
	}
	return out
}

// KVSPLIT (C17, C03): a `KEY=VALUE` entry is cut at its first `=`; the value may contain `=` itself (base64
// padding, -Dk=v). Wherever the module splits a string on the constant "=" with the unbounded strings.Split, the
// only part it uses is element 0: indexing another element, or testing the number of parts, truncates or drops
// such values. strings.Cut, SplitN(s, "=", 2) and Index are the bounded forms.
func (c *Ctx) KVSPLIT(rule string) []report.Obligation {
	var out []report.Obligation
	n, bounded := 0, 0
	for _, fn := range c.P.Funcs {
		for _, cs := range callSites(fn, func(com *ssa.CallCommon) bool {
			sn := staticName(com)
			return sn == "strings.Split" || sn == "strings.SplitN" || sn == "strings.Cut"
		}) {
			if sep, ok := prog.ConstString(cs.Common().Args[1]); !ok || sep != "=" {
				continue
			}
			sn := staticName(cs.Common())
			if sn == "strings.Cut" {
				bounded++
				continue
			}
			if sn == "strings.SplitN" {
				if k, isC := constInt(cs.Common().Args[2]); isC && k == 2 {
					bounded++
					continue
				}
			}
			n++
			good, why := true, ""
			for _, use := range *cs.(ssa.Value).Referrers() {
				switch u := use.(type) {
				case *ssa.IndexAddr:
					if k, isC := constInt(u.Index); !isC || k != 0 {
						good, why = false, "a part other than the first is used"
					}
				case *ssa.DebugRef:
				default:
					good, why = false, "the parts are counted, ranged over or passed on ("+fmt.Sprintf("%T", u)+")"
				}
			}
			out = append(out, verdict(good, rule, c.P.FuncID(fn)+" :: KEY=VALUE cut at the first `=`", c.P.InstrPos(cs),
				"only the key (element 0) of the unbounded split is used", "the entry is split on every `=` and "+why+": a value that itself contains `=` is truncated or the entry is dropped"))
		}
	}
	out = append(out, report.Obligation{Rule: rule, Key: "inventory", Status: report.Discharged, Why: fmt.Sprintf("%d bounded cuts on `=` (Cut / SplitN 2), %d unbounded splits inspected", bounded, n)})
	return out
}

// BLANKSET (C18): what the dotenv grammar calls a blank - skipped around keys, after `export`, between the
// separator and the value - is the Latin-1 white space except the line feed: TAB VT FF CR SPACE NEL NBSP. The
// predicate dotenv.isSpace decides by comparing its rune with constants only (a switch, a chain of ==, or
// strings.ContainsRune / IndexRune on a constant), and the constants are exactly that set. A wider class (all of
// unicode.IsSpace) turns `FOO<U+3000>=bar` and `export<U+2003>FOO` into accepted keys and strips value prefixes.
func (c *Ctx) BLANKSET(rule string) []report.Obligation {
	f := c.P.Func("dotenv.isSpace")
	if f == nil {
		return []report.Obligation{anchorViolation(rule, "dotenv.isSpace")}
	}
	want := map[int64]bool{'\t': true, '\v': true, '\f': true, '\r': true, ' ': true, 0x85: true, 0xA0: true}
	got := map[int64]bool{}
	problem := ""
	var r ssa.Value
	if len(f.Params) == 1 {
		r = f.Params[0]
	}
	for _, b := range f.Blocks {
		for _, in := range b.Instrs {
			switch x := in.(type) {
			case *ssa.BinOp:
				if x.Op != token.EQL || x.X != r {
					continue
				}
				if k, isC := constInt(x.Y); isC {
					got[k] = true
				}
			case *ssa.Call:
				sn := staticName(&x.Call)
				if (sn == "strings.ContainsRune" || sn == "strings.IndexRune") && len(x.Call.Args) == 2 && x.Call.Args[1] == r {
					if set, isC := prog.ConstString(x.Call.Args[0]); isC {
						for _, ch := range set {
							got[int64(ch)] = true
						}
						continue
					}
				}
				problem = "the class is decided by a call to " + sn
			}
		}
	}
	var diffs []string
	for k := range want {
		if !got[k] {
			diffs = append(diffs, fmt.Sprintf("U+%04X is missing", k))
		}
	}
	for k := range got {
		if !want[k] {
			diffs = append(diffs, fmt.Sprintf("U+%04X is added", k))
		}
	}
	sort.Strings(diffs)
	if problem != "" {
		diffs = append(diffs, problem)
	}
	return []report.Obligation{verdict(len(diffs) == 0, rule, "dotenv.isSpace :: blanks are TAB VT FF CR SPACE NEL NBSP", c.P.Pos(f.Pos()),
		"the predicate compares its rune with exactly these seven constants", "the blank class of the env-file grammar changed: "+strings.Join(diffs, "; ")+": runes outside it become part of keys and values, runes inside it are trimmed")}
}

// FMTFLOAT (C04): a scalar of the document becomes the text of a KEY=VALUE entry in several places - the decoders
// of the mapping types (fmt.Sprint) and the mergers that convert a mapping spelling into a list (%v). They agree
// because they all use fmt's default formatting. strconv.FormatFloat agrees with it only as ('g', -1): with 'f' or
// 'e', or a fixed precision, 0.00001 and 1e21 are spelled differently depending on whether a second file made the
// merger run. Wherever packages override, types, transform and loader format a float that came out of an
// interface value (a type assertion / type switch on a node of the document), it is with ('g', -1) - or with fmt.
func (c *Ctx) FMTFLOAT(rule string) []report.Obligation {
	var out []report.Obligation
	n := 0
	for _, fn := range c.P.Funcs {
		id := c.P.FuncID(fn)
		if !(strings.HasPrefix(id, "override.") || strings.HasPrefix(id, "types.") || strings.HasPrefix(id, "transform.") || strings.HasPrefix(id, "loader.")) {
			continue
		}
		for _, cs := range callSites(fn, func(com *ssa.CallCommon) bool { return staticName(com) == "strconv.FormatFloat" }) {
			args := cs.Common().Args
			fromDoc := false
			for _, u := range []ssa.Value{args[0]} {
				v := u
				for d := 0; d < 4 && v != nil; d++ {
					switch x := v.(type) {
					case *ssa.TypeAssert:
						fromDoc = types.IsInterface(x.X.Type())
						v = nil
					case *ssa.Extract:
						v = x.Tuple
					case *ssa.Convert:
						v = x.X
					case *ssa.ChangeType:
						v = x.X
					default:
						v = nil
					}
				}
			}
			if !fromDoc {
				continue
			}
			n++
			f, okF := constInt(args[1])
			pr, okP := constInt(args[2])
			good := okF && okP && f == 'g' && pr == -1
			out = append(out, verdict(good, rule, id+" :: float of the document formatted like fmt does", c.P.InstrPos(cs),
				"FormatFloat(v, 'g', -1, ...) is what %v prints", "a float taken from the document is formatted with another format or precision than fmt's default: the same value is spelled differently (1e-05 / 0.00001) depending on which code path turned it into text, so a merged KEY=VALUE entry differs from the unmerged one"))
		}
	}
	out = append(out, report.Obligation{Rule: rule, Key: "inventory", Status: report.Discharged, Why: fmt.Sprintf("%d strconv.FormatFloat calls on document values in override / types / transform / loader", n)})
	return out
}

// KEYWORD (C12): whether a value is a path to rewrite is decided on the value as a whole or on its elements
// (equality, a prefix, the elements of a split list, the path predicates). A substring search for a word made
// of letters (`strings.Contains(o, "bind")`) also matches inside another option's value (`addr=bind9.lan`), and a
// device that is not a path at all is then joined with the project directory. In package paths no
// Contains / Index / LastIndex looks for a constant that is a plain word; separators such as `://` are fine.
func (c *Ctx) KEYWORD(rule string) []report.Obligation {
	var out []report.Obligation
	n := 0
	for _, fn := range c.P.Funcs {
		if !strings.HasPrefix(c.P.FuncID(fn), "paths.") {
			continue
		}
		for _, cs := range callSites(fn, func(com *ssa.CallCommon) bool {
			switch staticName(com) {
			case "strings.Contains", "strings.Index", "strings.LastIndex", "strings.Count":
				return true
			}
			return false
		}) {
			word, isC := prog.ConstString(cs.Common().Args[1])
			if !isC {
				continue
			}
			n++
			plain := len(word) >= 2
			for _, ch := range word {
				if !(ch >= 'a' && ch <= 'z' || ch >= 'A' && ch <= 'Z') {
					plain = false
				}
			}
			out = append(out, verdict(!plain, rule, c.P.FuncID(fn)+" :: substring search for "+fmt.Sprintf("%q", word), c.P.InstrPos(cs),
				"the text searched for is a separator, not a word", "a keyword is looked for as a substring: it also matches inside other words and option values, so a value that is not a path is rewritten (or one that is, is not)"))
		}
	}
	out = append(out, report.Obligation{Rule: rule, Key: "inventory", Status: report.Discharged, Why: fmt.Sprintf("%d constant substring searches in package paths", n)})
	return out
}

// SECKEEP (SEC-7, C20): the renderers blank the value of a secret / config that comes from the environment because
// its `environment` attribute says so. The loader therefore never removes that attribute from a resource: no
// delete(m, "environment") in package loader. (Dropping it once the value is resolved makes the config look like
// one with literal content, and its value is printed.)
func (c *Ctx) SECKEEP(rule string) []report.Obligation {
	var out []report.Obligation
	n := 0
	for _, fn := range c.P.Funcs {
		if !strings.HasPrefix(c.P.FuncID(fn), "loader.") {
			continue
		}
		for _, cs := range callSites(fn, func(com *ssa.CallCommon) bool {
			bi, ok := com.Value.(*ssa.Builtin)
			return ok && bi.Name() == "delete"
		}) {
			if k, isC := prog.ConstString(cs.Common().Args[1]); isC && k == "environment" {
				n++
				out = append(out, bad(rule, c.P.FuncID(fn)+" :: `environment` removed from a resource", c.P.InstrPos(cs),
					"the attribute that marks a secret / config as coming from the environment is deleted from the model: the renderers then treat its resolved value as literal content and print it"))
			}
		}
	}
	out = append(out, report.Obligation{Rule: rule, Key: "loader :: `environment` of a resource is never deleted", Status: report.Discharged, Why: fmt.Sprintf("%d deletions found", n)})
	return out
}

// MERGEKEEP (C04): what a later file does not mention is preserved. A merger of package override that walks the
// entries of the base list keeps each of them: in the loop over the base, no iteration reaches the next one
// without appending the entry (or something built from it) to a slice. An entry that only survives when some
// override happens to match it is lost when none does (ipam.config: the base subnets disappeared as soon as the
// override named another one).
func (c *Ctx) MERGEKEEP(rule string) []report.Obligation {
	var out []report.Obligation
	n := 0
	for _, fn := range c.P.Funcs {
		if !strings.HasPrefix(c.P.FuncID(fn), "override.") || fn.Signature.Params().Len() != 3 || fn.Signature.Results().Len() != 2 {
			continue
		}
		if len(fn.Params) != 3 || !types.IsInterface(fn.Params[0].Type()) || !types.IsInterface(fn.Params[1].Type()) {
			continue
		}
		// the base as a list: c.([]any)
		var base ssa.Value
		for _, b := range fn.Blocks {
			for _, in := range b.Instrs {
				if ta, ok := in.(*ssa.TypeAssert); ok && ta.X == ssa.Value(fn.Params[0]) {
					if _, isSl := ta.AssertedType.Underlying().(*types.Slice); isSl {
						base = ta
						if ta.CommaOk {
							for _, r := range *ta.Referrers() {
								if ex, isE := r.(*ssa.Extract); isE && ex.Index == 0 {
									base = ex
								}
							}
						}
					}
				}
			}
		}
		if base == nil {
			continue
		}
		// the loop that reads its elements
		for _, r := range *base.Referrers() {
			ia, ok := r.(*ssa.IndexAddr)
			if !ok {
				continue
			}
			h, body := naturalLoop(fn, ia.Block())
			if h == nil {
				continue
			}
			var elem ssa.Value
			for _, rr := range *ia.Referrers() {
				if ld, isLd := rr.(*ssa.UnOp); isLd && ld.Op == token.MUL {
					elem = ld
				}
			}
			if elem == nil {
				continue
			}
			n++
			keepers := map[*ssa.BasicBlock]bool{}
			for b := range body {
				for _, in := range b.Instrs {
					call, isCall := in.(*ssa.Call)
					if !isCall {
						continue
					}
					if bi, isB := call.Call.Value.(*ssa.Builtin); !isB || bi.Name() != "append" || len(call.Call.Args) != 2 {
						continue
					}
					if c.sliceLiteralDerives(call.Call.Args[1], elem, 6) {
						keepers[b] = true
					}
				}
			}
			// a way round the loop that passes no keeping block
			seen := map[*ssa.BasicBlock]bool{}
			var skip *ssa.BasicBlock
			var dfs func(x *ssa.BasicBlock)
			dfs = func(x *ssa.BasicBlock) {
				if skip != nil || seen[x] || !body[x] || keepers[x] {
					return
				}
				seen[x] = true
				for _, sx := range x.Succs {
					if sx == h {
						skip = x
						return
					}
					dfs(sx)
				}
			}
			for _, sx := range h.Succs {
				dfs(sx)
			}
			out = append(out, verdict(len(keepers) > 0 && skip == nil, rule, c.P.FuncID(fn)+" :: every entry of the base list is kept", c.P.InstrPos(ia),
				"each iteration over the base appends the entry (or what is built from it) before the next one", "an iteration over the base list can end without the entry having been appended to the result: an entry that no override matches is dropped from the merged list"))
		}
	}
	out = append(out, report.Obligation{Rule: rule, Key: "inventory", Status: report.Discharged, Why: fmt.Sprintf("%d mergers of package override walk the entries of their base list", n)})
	return out
}

// sliceLiteralDerives: the variadic part of an append (a slice of a literal array) holds a value derived from src.
func (c *Ctx) sliceLiteralDerives(v ssa.Value, src ssa.Value, depth int) bool {
	sl, ok := v.(*ssa.Slice)
	if !ok {
		return c.derivedFrom(v, src, depth)
	}
	al, ok := sl.X.(*ssa.Alloc)
	if !ok {
		return c.derivedFrom(v, src, depth)
	}
	for _, r := range *al.Referrers() {
		if ia, isIA := r.(*ssa.IndexAddr); isIA {
			for _, rr := range *ia.Referrers() {
				if st, isSt := rr.(*ssa.Store); isSt && st.Addr == ssa.Value(ia) && c.derivedFrom(st.Val, src, depth) {
					return true
				}
			}
		}
	}
	return false
}

// MEMO (C02): a memo table answers from the key alone. Where a function looks a key up in a map that outlives
// the call (a field, a captured variable, a parameter, a package-level variable), returns the hit, and otherwise
// computes a value and stores it under the same key, everything the computed value depends on must be something
// the key depends on too (or the holder of the table). A value that also depends on another parameter - the
// environment a file is read in, the path a text is converted for, a lookup function - is remembered for the
// first caller and handed to the others: the result then depends on who came first (map order, visit order,
// earlier loads).
func (c *Ctx) MEMO(rule string) []report.Obligation {
	var out []report.Obligation
	n := 0
	for _, fn := range c.P.Funcs {
		if strings.HasPrefix(c.P.FuncID(fn), "types.deriveDeepCopy") {
			continue
		}
		for _, b := range fn.Blocks {
			for _, in := range b.Instrs {
				lk, ok := in.(*ssa.Lookup)
				if !ok || !lk.CommaOk {
					continue
				}
				if _, isMap := lk.X.Type().Underlying().(*types.Map); !isMap || isFreshMap(lk.X, 4) {
					continue
				}
				// the store under the same key on the miss side
				for _, b2 := range fn.Blocks {
					for _, in2 := range b2.Instrs {
						mu, ok := in2.(*ssa.MapUpdate)
						if !ok || !sameMapVal(mu.Map, lk.X) || !sameKey(mu.Key, lk.Index) {
							continue
						}
						miss := factHolds(b2, func(cond ssa.Value, val bool) bool {
							ex, isE := cond.(*ssa.Extract)
							return isE && ex.Tuple == ssa.Value(lk) && ex.Index == 1 && !val
						})
						if !miss {
							continue
						}
						if _, isConst := stripMI(mu.Value).(*ssa.Const); isConst {
							continue // a set of visited keys
						}
						// a memo hands out what it finds: a lookup whose value is ignored is a set-if-absent
						hitUsed := false
						for _, r := range *lk.Referrers() {
							if ex, isE := r.(*ssa.Extract); isE && ex.Index == 0 {
								for _, u := range *ex.Referrers() {
									if _, isDbg := u.(*ssa.DebugRef); !isDbg {
										hitUsed = true
									}
								}
							}
						}
						if !hitUsed {
							continue
						}
						n++
						// on a hit, what is handed out is what was stored - not the fact that something was
						for _, r := range returnsOf(fn) {
							for _, rv := range r.Results {
								if ex, isE := rv.(*ssa.Extract); isE && ex.Tuple == ssa.Value(lk) && ex.Index == 1 {
									out = append(out, bad(rule, c.P.FuncID(fn)+" :: memo on "+c.P.KeyTerm(lk.X, 3)+" returns what it stored", c.P.InstrPos(r),
										"the comma-ok flag of the memo lookup is returned as a result: it says that the key was seen before, not what was found for it then (an unset variable looked up twice comes back as set)"))
								}
							}
						}
						keyDeps := map[ssa.Value]bool{}
						c.rootsOf(lk.Index, keyDeps, map[ssa.Value]bool{}, 12)
						c.rootsOf(lk.X, keyDeps, map[ssa.Value]bool{}, 12) // the holder of the table
						valDeps := map[ssa.Value]bool{}
						c.rootsOf(mu.Value, valDeps, map[ssa.Value]bool{}, 12)
						var extra []string
						for r := range valDeps {
							if !keyDeps[r] {
								extra = append(extra, c.P.KeyTerm(r, 2))
							}
						}
						sort.Strings(extra)
						out = append(out, verdict(len(extra) == 0, rule, c.P.FuncID(fn)+" :: memo on "+c.P.KeyTerm(lk.X, 3)+" answers from its key alone", c.P.InstrPos(mu),
							"the remembered value depends on nothing the key does not depend on", "the value remembered under the key also depends on "+strings.Join(extra, ", ")+": it is computed for the first caller and handed to later callers for which it would be different, so the result depends on who asked first"))
					}
				}
			}
		}
	}
	out = append(out, report.Obligation{Rule: rule, Key: "inventory", Status: report.Discharged, Why: fmt.Sprintf("%d lookup-miss-store memo tables in the module", n)})
	return out
}

func stripMI(v ssa.Value) ssa.Value {
	if mi, ok := v.(*ssa.MakeInterface); ok {
		return mi.X
	}
	return v
}

// rootsOf collects the parameters, free variables and package-level variables a value is computed from.
func (c *Ctx) rootsOf(v ssa.Value, out, seen map[ssa.Value]bool, depth int) {
	if v == nil || depth == 0 || seen[v] {
		return
	}
	seen[v] = true
	switch x := v.(type) {
	case *ssa.Parameter, *ssa.FreeVar, *ssa.Global:
		out[v] = true
		return
	case *ssa.Const, *ssa.Function, *ssa.Builtin:
		return
	case *ssa.Alloc:
		// a local: what is stored into it
		for _, r := range *x.Referrers() {
			if st, ok := r.(*ssa.Store); ok && st.Addr == ssa.Value(x) {
				c.rootsOf(st.Val, out, seen, depth-1)
			}
		}
		return
	}
	in, ok := v.(ssa.Instruction)
	if !ok {
		return
	}
	for _, op := range in.Operands(nil) {
		if *op != nil {
			c.rootsOf(*op, out, seen, depth-1)
		}
	}
}

// SRCREWRITE (C18): quoting decides what a byte means, and quoting is only known to the scanner. Nothing rewrites
// the text of an env file before the quote-aware scan sees it: in package dotenv no strings.ReplaceAll / Replace /
// (*strings.Replacer).Replace / strings.Map / bytes.Replace* is applied to a value that is (a slice of) the source
// parameter of the parsing functions. (Escapes are decoded by expandEscapes after the scanner isolated a quoted
// value: rule ESC.) A line-ending normalisation applied up front turns the CR inside a quoted value into LF.
func (c *Ctx) SRCREWRITE(rule string) []report.Obligation {
	var out []report.Obligation
	n := 0
	for _, fn := range c.P.Funcs {
		id := c.P.FuncID(fn)
		if !strings.HasPrefix(id, "dotenv.") {
			continue
		}
		// only functions that hand (part of) their text parameter to the statement scanner
		if len(c.callsTo(fn, "dotenv.(*parser).parse")) == 0 && !strings.HasSuffix(id, ".parse") && len(c.callsTo(fn, "dotenv.(*parser).getStatementStart")) == 0 {
			continue
		}
		var textParams []*ssa.Parameter
		for _, pa := range fn.Params {
			if isByteSeq(pa.Type()) {
				textParams = append(textParams, pa)
			}
		}
		for _, cs := range callSites(fn, func(com *ssa.CallCommon) bool {
			cal := com.StaticCallee()
			if cal == nil {
				return false
			}
			switch calleeName(cal) {
			case "strings.ReplaceAll", "strings.Replace", "strings.Map", "bytes.ReplaceAll", "bytes.Replace", "bytes.Map", "(*strings.Replacer).Replace":
				return true
			}
			if c.P.InModule(cal) && cal.Blocks != nil {
				// a helper of the package that does it
				for _, b := range cal.Blocks {
					for _, in := range b.Instrs {
						if call, ok := in.(*ssa.Call); ok && call.Call.StaticCallee() != nil {
							switch calleeName(call.Call.StaticCallee()) {
							case "strings.ReplaceAll", "strings.Replace", "bytes.ReplaceAll", "bytes.Replace", "(*strings.Replacer).Replace":
								return true
							}
						}
					}
				}
			}
			return false
		}) {
			for _, a := range cs.Common().Args {
				base := a
				for d := 0; d < 5; d++ {
					switch x := base.(type) {
					case *ssa.Slice:
						base = x.X
						continue
					case *ssa.Convert:
						base = x.X
						continue
					}
					break
				}
				for _, pa := range textParams {
					if base == ssa.Value(pa) {
						n++
						out = append(out, bad(rule, id+" :: the source is rewritten before it is scanned", c.P.InstrPos(cs),
							"the text of the env file is rewritten as a whole before the quote-aware scanner runs: bytes inside quoted values are changed too (a CR in a multi-line quoted value becomes LF)"))
					}
				}
			}
		}
	}
	out = append(out, report.Obligation{Rule: rule, Key: "dotenv :: the scanner sees the source as written", Status: report.Discharged, Why: fmt.Sprintf("%d rewrites of the source found", n)})
	return out
}

// KINDTEST (C12): "is this path a file or a directory" is asked with IsDir. A compose file can be a pipe or a
// device (process substitution, /dev/stdin): FileMode.IsRegular answers no for those, and code that takes "not
// regular" for "directory" uses the file itself as the base directory of its relative paths. The packages that
// resolve paths (loader, paths, cli, types, dotenv) do not call IsRegular.
func (c *Ctx) KINDTEST(rule string) []report.Obligation {
	var out []report.Obligation
	n := 0
	for _, fn := range c.P.Funcs {
		id := c.P.FuncID(fn)
		in := false
		for _, p := range []string{"loader.", "paths.", "cli.", "types.", "dotenv."} {
			if strings.HasPrefix(id, p) {
				in = true
			}
		}
		if !in {
			continue
		}
		for _, cs := range callSites(fn, func(com *ssa.CallCommon) bool { return strings.HasSuffix(staticName(com), "FileMode).IsRegular") }) {
			n++
			out = append(out, bad(rule, id+" :: file kind decided by IsRegular", c.P.InstrPos(cs),
				"a path is classified with FileMode.IsRegular: a compose file that is a pipe or a device is neither regular nor a directory and falls on the wrong side, so relative paths are resolved against the file itself instead of its directory"))
		}
	}
	out = append(out, report.Obligation{Rule: rule, Key: "path resolution :: files and directories told apart with IsDir", Status: report.Discharged, Why: fmt.Sprintf("%d IsRegular tests found", n)})
	return out
}

// stringValuesThroughParams: the constant strings v can be; when v is (an element of) a parameter of an unexported
// helper that is only ever called directly, the values its callers inside scope hand over.
func (c *Ctx) stringValuesThroughParams(v ssa.Value, scope map[*ssa.Function]bool, depth int) []string {
	if out := stringValuesOf(v, 5); len(out) > 0 || depth == 0 {
		return out
	}
	var p *ssa.Parameter
	elem := false
	switch x := v.(type) {
	case *ssa.Parameter:
		p = x
	case *ssa.UnOp:
		if ia, ok := x.X.(*ssa.IndexAddr); ok && x.Op == token.MUL {
			if pp, ok := ia.X.(*ssa.Parameter); ok {
				p, elem = pp, true
			}
		}
	}
	if p == nil {
		return nil
	}
	if c.dyn == nil {
		c.dyn = newDynTyper(c.P)
	}
	idx := -1
	for i, q := range p.Parent().Params {
		if q == p {
			idx = i
		}
	}
	var out []string
	for _, site := range c.dyn.callSitesOf(p.Parent()) {
		if !scope[site.Parent()] || idx < 0 || idx >= len(site.Call.Args) {
			continue
		}
		arg := site.Call.Args[idx]
		if !elem {
			out = append(out, c.stringValuesThroughParams(arg, scope, depth-1)...)
			continue
		}
		if lits := literalElems(arg, 5); len(lits) > 0 {
			out = append(out, lits...)
		} else if q, ok := arg.(*ssa.Parameter); ok {
			// the list is itself a parameter of the caller: one more level
			fake := &ssa.UnOp{Op: token.MUL, X: &ssa.IndexAddr{X: q}}
			out = append(out, c.stringValuesThroughParams(fake, scope, depth-1)...)
		}
	}
	return out
}
