package rules

import (
	"fmt"
	"go/token"
	"go/types"
	"sort"
	"strings"

	"golang.org/x/tools/go/ssa"
	"verifcheck/internal/prog"
	"verifcheck/internal/report"
)

// SEC: secret values sourced from the environment do not reach the renderings (C20).
func (c *Ctx) SEC(rule string) []report.Obligation {
	var out []report.Obligation
	// ---- SEC-1 / SEC-2: the four marshallers blank Content under their guard and have value receivers
	type guard struct {
		typ, field string
		blankWhen  bool // blank when the guard field is true (non-empty / set) or false
		desc       string
	}
	guards := []guard{
		{"SecretConfig", "marshallContent", false, "marshallContent is false"},
		{"ConfigObjConfig", "Environment", true, `Environment != ""`},
	}
	for _, g := range guards {
		for _, m := range []string{"MarshalYAML", "MarshalJSON"} {
			id := "types.(" + g.typ + ")." + m
			fn := c.P.Func(id)
			if fn == nil {
				if pf := c.P.Func("types.(*" + g.typ + ")." + m); pf != nil {
					out = append(out, bad(rule+"-2", id+" :: value receiver", c.P.Pos(pf.Pos()),
						"the marshaller has a pointer receiver: blanking Content modifies the project itself"))
				} else {
					out = append(out, bad(rule+"-2", id+" :: exists", "", "marshaller missing: the default encoding renders Content"))
				}
				continue
			}
			out = append(out, ok(rule+"-2", id+" :: value receiver", c.P.Pos(fn.Pos()), "declared on the value type: it works on a copy"))
			// the blanking may sit in a value-receiver helper of the same type whose result is what gets rendered
			target := fn
			hasStore := func(f *ssa.Function) bool {
				for _, b := range f.Blocks {
					for _, in := range b.Instrs {
						if st, isSt := in.(*ssa.Store); isSt {
							if fa, isFA := st.Addr.(*ssa.FieldAddr); isFA && fieldName(fa) == "Content" {
								return true
							}
						}
					}
				}
				return false
			}
			if !hasStore(fn) {
				for _, cs := range callSites(fn, func(com *ssa.CallCommon) bool {
					cal := com.StaticCallee()
					return cal != nil && cal.Signature.Recv() != nil && types.Identical(cal.Signature.Recv().Type(), fn.Signature.Recv().Type())
				}) {
					call, isCall := cs.(*ssa.Call)
					if !isCall || len(*call.Referrers()) == 0 {
						continue
					}
					if h := cs.Common().StaticCallee(); hasStore(h) {
						// what the marshaller renders is the helper's result: no other copy of the receiver reaches an
						// encoder or a return
						other := false
						for _, b := range fn.Blocks {
							for _, in := range b.Instrs {
								if ct, ok := in.(*ssa.ChangeType); ok && sameStructType(ct.X.Type(), fn.Signature.Recv().Type()) {
									other = true
								}
							}
						}
						if !other {
							target = h
						}
					}
				}
			}
			out = append(out, c.secBlanking(rule+"-1", target, id, g.field, g.blankWhen, g.desc))
		}
	}
	// ---- SEC-3: who may write marshallContent
	var writers []string
	for _, f := range c.P.Funcs {
		for _, b := range f.Blocks {
			for _, in := range b.Instrs {
				if st, isSt := in.(*ssa.Store); isSt {
					if fa, isFA := st.Addr.(*ssa.FieldAddr); isFA && fieldName(fa) == "marshallContent" {
						if loadedField(st.Val) == "marshallContent" {
							continue // field-by-field copy of the same flag (generated deep copy)
						}
						writers = append(writers, c.P.FuncID(f))
					}
				}
			}
		}
	}
	// every writer of the flag (whatever it is called) sets it under the explicit option, on a copy
	wset := map[string]bool{}
	for _, w := range writers {
		wset[w] = true
	}
	if len(wset) == 0 {
		out = append(out, bad(rule+"-3", "marshallContent :: writer", "", "no function sets the opt-in flag any more: the rule sees nothing"))
	}
	for _, w := range sortedKeys(wset) {
		wf := c.P.Func(w)
		if wf == nil {
			out = append(out, anchorViolation(rule+"-3", w))
			continue
		}
		out = append(out, verdict(strings.HasPrefix(w, "types."), rule+"-3", "marshallContent :: written inside package types only", c.P.Pos(wf.Pos()),
			"the opt-in flag is set in "+w, "the opt-in flag is written outside package types, in "+w))
		// the flag is set on a deep copy: the writer does not write through its project argument
		for pi, pa := range wf.Params {
			if pt, isP := pa.Type().(*types.Pointer); isP {
				if nt, isN := pt.Elem().(*types.Named); isN && nt.Obj().Name() == "Project" {
					out = append(out, c.IMM(rule+"-3", []immTarget{{Fn: wf, Src: pi, WhatSrc: "the project being rendered", CheckRet: false}})...)
				}
			}
		}
		// and only under the explicit option
		gated, n := true, 0
		for _, b := range wf.Blocks {
			for _, in := range b.Instrs {
				if st, isSt := in.(*ssa.Store); isSt {
					if fa, isFA := st.Addr.(*ssa.FieldAddr); isFA && fieldName(fa) == "marshallContent" && loadedField(st.Val) != "marshallContent" {
						n++
						if !(factHolds(b, func(cond ssa.Value, val bool) bool { return val && loadedField(cond) == "secretsContent" }) ||
							ctrlDepOnField(wf, b, "secretsContent")) {
							gated = false
						}
					}
				}
			}
		}
		out = append(out, verdict(gated && n > 0, rule+"-3", "marshallContent :: set only when requested", c.P.Pos(wf.Pos()),
			"the store is control dependent on the secretsContent option", "the flag is set without testing the secretsContent option: content is rendered by default"))
	}
	// ---- SEC-4 / SEC-5: the carrier key
	xvalue := ""
	if pk := c.P.PkgByRel["types"]; pk != nil {
		if o, isC := pk.Types.Scope().Lookup("SecretConfigXValue").(*types.Const); isC {
			xvalue = strings.Trim(o.Val().ExactString(), `"`)
		}
	}
	if xvalue == "" {
		out = append(out, anchorViolation(rule+"-4", "types.SecretConfigXValue"))
		return out
	}
	// SEC-5: wherever package loader stores a value it looked up in an environment (types.Mapping) parameter into a
	// raw resource, the key is the carrier key (secrets) or "content" (configs): the renderers blank exactly those.
	// The key may arrive through a parameter of a shared helper; then every caller passes one of the two constants,
	// paired with its section.
	// (a config may also use the carrier: the decode hook moves it into Content, which the renderers blank)
	allowedFor := map[string][]string{"secrets": {xvalue}, "configs": {"content", xvalue}}
	var keyConsts func(fn *ssa.Function, v ssa.Value, depth int) (keys []string, sections [][]string, ok bool)
	keyConsts = func(fn *ssa.Function, v ssa.Value, depth int) ([]string, [][]string, bool) {
		if k, isC := prog.ConstString(v); isC {
			return []string{k}, [][]string{nil}, true
		}
		pa, isP := v.(*ssa.Parameter)
		if !isP || depth == 0 {
			return nil, nil, false
		}
		idx := -1
		for i, p := range fn.Params {
			if p == pa {
				idx = i
			}
		}
		var keys []string
		var secs [][]string
		for _, g := range c.P.Funcs {
			for _, cs := range callSites(g, func(com *ssa.CallCommon) bool { return com.StaticCallee() == fn }) {
				if idx < 0 || idx >= len(cs.Common().Args) {
					return nil, nil, false
				}
				ks, _, ok := keyConsts(g, cs.Common().Args[idx], depth-1)
				if !ok {
					return nil, nil, false
				}
				var others []string
				for j, a := range cs.Common().Args {
					if j != idx {
						if sname, isC := prog.ConstString(a); isC {
							others = append(others, sname)
						}
					}
				}
				for _, k := range ks {
					keys = append(keys, k)
					secs = append(secs, others)
				}
			}
		}
		return keys, secs, len(keys) > 0
	}
	n := 0
	for _, fn := range c.P.Funcs {
		if !strings.HasPrefix(c.P.FuncID(fn), "loader.") {
			continue
		}
		for _, envParam := range fn.Params {
			nt, isN := envParam.Type().(*types.Named)
			if !isN || nt.Obj().Name() != "Mapping" {
				continue
			}
			for _, b := range fn.Blocks {
				for _, in := range b.Instrs {
					lk, isL := in.(*ssa.Lookup)
					if !isL || lk.X != ssa.Value(envParam) {
						continue
					}
					for _, use := range valueUses(lk, 4) {
						switch u := use.(type) {
						case *ssa.MapUpdate:
							n++
							keys, secs, okk := keyConsts(fn, u.Key, 3)
							good := okk
							desc := c.P.KeyTerm(u.Key, 2)
							if okk {
								desc = fmt.Sprintf("%q", keys)
								for i, k := range keys {
									if k != xvalue && k != "content" {
										good = false
									}
									for _, sname := range secs[i] {
										if want, has := allowedFor[sname]; has && !contains(want, k) {
											good = false
										}
									}
								}
							}
							out = append(out, verdict(good, rule+"-5", c.P.FuncID(fn)+" :: environment value stored under "+desc, c.P.InstrPos(u),
								"the resolved value is stored under the carrier key (secrets) / content (configs) only", "an environment value is stored under key "+desc+", which the renderers do not blank"))
						case *ssa.Return, *ssa.Store, *ssa.Send:
							// the services' environment is resolved into the model on purpose (it is not a secret)
							// (the function that fills a service's `environment` key, or whose result a caller stores there)
							fillsEnv := c.resultStoredUnder(fn, "environment")
							for _, k := range constMapUpdateKeys(fn) {
								if k == "environment" {
									fillsEnv = true
								}
							}
							if fillsEnv {
								continue
							}
							n++
							out = append(out, bad(rule+"-5", c.P.FuncID(fn)+" :: environment value escapes", c.P.InstrPos(u), "an environment value flows somewhere else than the carrier key"))
						}
					}
				}
			}
		}
	}
	if n == 0 {
		out = append(out, bad(rule+"-5", "loader :: environment lookups stored into resources", "", "no function of package loader stores a value looked up in its environment parameter: rule sees nothing"))
	}
	hook := c.P.Func("loader.secretConfigDecoderHook")
	if hook == nil {
		out = append(out, anchorViolation(rule+"-4", "loader.secretConfigDecoderHook"))
		return out
	}
	var store *ssa.MapUpdate
	var del ssa.CallInstruction
	for _, b := range hook.Blocks {
		for _, in := range b.Instrs {
			if mu, isMU := in.(*ssa.MapUpdate); isMU {
				if k, _ := prog.ConstString(mu.Key); k == "Content" {
					store = mu
				}
			}
			if ci, isC := in.(ssa.CallInstruction); isC {
				if bi, isB := ci.Common().Value.(*ssa.Builtin); isB && bi.Name() == "delete" {
					if k, _ := prog.ConstString(ci.Common().Args[1]); k == xvalue {
						del = ci
					}
				}
			}
		}
	}
	switch {
	case store == nil:
		out = append(out, bad(rule+"-4", "secretConfigDecoderHook :: moves the value to Content", c.P.Pos(hook.Pos()), "no store under \"Content\""))
	case del == nil:
		out = append(out, bad(rule+"-4", "secretConfigDecoderHook :: deletes the carrier key", c.P.Pos(hook.Pos()),
			"the carrier key "+xvalue+" is not deleted from the extension map: the value stays in Extensions and is rendered with them"))
	default:
		// every way through the move also deletes: the delete comes first, or it is met on every path from the move
		onPath := prog.InstrDominates(del, store) || (store.Block() == del.Block() && prog.InstrIndex(store) < prog.InstrIndex(del)) ||
			(store.Block() != del.Block() && prog.Info(hook).PostDominates(del.Block(), store.Block()))
		out = append(out, verdict(onPath, rule+"-4", "secretConfigDecoderHook :: deletes the carrier key", c.P.InstrPos(del),
			"the key is deleted on the path that moves its value to Content", "the delete is not on the same path as the move"))
	}
	return out
}

// ctrlDepOnField: block b is (transitively) control dependent on a branch whose condition loads the given field.
func ctrlDepOnField(fn *ssa.Function, b *ssa.BasicBlock, field string) bool {
	for _, d := range prog.Info(fn).TransitiveControlDeps(b) {
		if iff, isIf := d.Branch.Instrs[len(d.Branch.Instrs)-1].(*ssa.If); isIf {
			cond, _ := unwrapNot(iff.Cond)
			if loadedField(cond) == field {
				return true
			}
		}
	}
	return false
}

// valueUses follows a value through extracts, phis and formatting-free copies and returns the instructions that consume it.
func valueUses(v ssa.Value, depth int) []ssa.Instruction {
	var out []ssa.Instruction
	if depth == 0 || v.Referrers() == nil {
		return nil
	}
	for _, r := range *v.Referrers() {
		switch x := r.(type) {
		case *ssa.Extract:
			if x.Index == 0 {
				out = append(out, valueUses(x, depth-1)...)
			}
		case *ssa.Phi:
			out = append(out, valueUses(x, depth-1)...)
		case *ssa.MakeInterface:
			out = append(out, valueUses(x, depth-1)...)
		case *ssa.ChangeType:
			out = append(out, valueUses(x, depth-1)...)
		case *ssa.MapUpdate:
			if x.Value == v {
				out = append(out, x)
			}
		default:
			out = append(out, r)
		}
	}
	return out
}

// secBlanking checks SEC-1 for one marshaller.
func (c *Ctx) secBlanking(rule string, fn *ssa.Function, id, guardField string, blankWhen bool, desc string) report.Obligation {
	key := id + " :: Content blanked when " + desc
	pos := c.P.Pos(fn.Pos())
	// the blanking store: *(&s.Content) = ""
	var blank *ssa.Store
	for _, b := range fn.Blocks {
		for _, in := range b.Instrs {
			if st, isSt := in.(*ssa.Store); isSt {
				if fa, isFA := st.Addr.(*ssa.FieldAddr); isFA && fieldName(fa) == "Content" {
					if s, isC := prog.ConstString(st.Val); isC && s == "" {
						blank = st
					}
				}
			}
		}
	}
	if blank == nil {
		return bad(rule, key, pos, "no `Content = \"\"` store: the resolved value is rendered")
	}
	B := blank.Block()
	if len(B.Preds) != 1 {
		return bad(rule, key, c.P.InstrPos(blank), "the blanking block has several predecessors; cannot relate it to its guard")
	}
	I := B.Preds[0]
	iff, isIf := I.Instrs[len(I.Instrs)-1].(*ssa.If)
	if !isIf {
		return bad(rule, key, c.P.InstrPos(blank), "the blanking store is not guarded by a branch")
	}
	onTrue := I.Succs[0] == B
	// normalise the condition to "guard field is set/true"
	cond, neg := unwrapNot(iff.Cond)
	fieldTrue := false
	recognised := false
	if loadedField(cond) == guardField {
		// boolean field
		recognised = true
		fieldTrue = onTrue != neg
	} else if bo, isB := cond.(*ssa.BinOp); isB && loadedField(bo.X) == guardField {
		if s, isC := prog.ConstString(bo.Y); isC && s == "" {
			recognised = true
			switch bo.Op {
			case token.NEQ:
				fieldTrue = onTrue != neg
			case token.EQL:
				fieldTrue = onTrue == neg
			default:
				recognised = false
			}
		}
	}
	if !recognised {
		return bad(rule, key, c.P.InstrPos(blank), "the guard of the blanking store is not a test of "+guardField)
	}
	if fieldTrue != blankWhen {
		return bad(rule, key, c.P.InstrPos(blank), "Content is blanked on the wrong edge of the "+guardField+" test")
	}
	// the value that is rendered is read after the blanking: every load of the whole struct that feeds a return / call is dominated by I and not before B
	for _, b := range fn.Blocks {
		for _, in := range b.Instrs {
			u, isU := in.(*ssa.UnOp)
			if !isU || u.Op != token.MUL {
				continue
			}
			if al, isAl := u.X.(*ssa.Alloc); isAl && al == allocOf(blank.Addr) {
				if !I.Dominates(b) || b == I {
					return bad(rule, key, c.P.InstrPos(in), "the struct is read for rendering before the guard is evaluated")
				}
			}
		}
	}
	return ok(rule, key, c.P.InstrPos(blank), "the store `Content = \"\"` is the sole successor on the edge where "+desc+", and the rendered copy is read after it")
}

func allocOf(v ssa.Value) *ssa.Alloc {
	for i := 0; i < 4; i++ {
		switch x := v.(type) {
		case *ssa.Alloc:
			return x
		case *ssa.FieldAddr:
			v = x.X
		default:
			return nil
		}
	}
	return nil
}

// KEYTYPE (SEC-6, C20): the loader carries internal data in the raw model under constant keys (`#extensions`, the
// secret value under `x-#value` inside it) and later picks it up again with a comma-ok type assertion, which
// fails silently when the dynamic type is another one. For every constant key that package loader both writes
// (m[K] = v with v of a concrete type) and reads back through an assertion to a concrete type, every written
// type is one of the asserted types. A named map type stored where `map[string]any` is asserted leaves the
// carrier key of an environment secret in the model, and the YAML rendering prints it.
func (c *Ctx) KEYTYPE(rule string) []report.Obligation {
	type site struct {
		t   types.Type
		pos string
		fn  string
	}
	writers := map[string][]site{}
	readers := map[string][]site{}
	for _, fn := range c.P.Funcs {
		if !strings.HasPrefix(c.P.FuncID(fn), "loader.") {
			continue
		}
		for _, b := range fn.Blocks {
			for _, in := range b.Instrs {
				switch x := in.(type) {
				case *ssa.MapUpdate:
					k, isC := prog.ConstString(x.Key)
					if !isC {
						continue
					}
					if mi, isMI := x.Value.(*ssa.MakeInterface); isMI {
						writers[k] = append(writers[k], site{mi.X.Type(), c.P.InstrPos(x), c.P.FuncID(fn)})
					}
				case *ssa.TypeAssert:
					if types.IsInterface(x.AssertedType) {
						continue
					}
					if lk := lookupOf(x.X, 2); lk != nil {
						if k, isC := prog.ConstString(lk.Index); isC {
							readers[k] = append(readers[k], site{x.AssertedType, c.P.InstrPos(x), c.P.FuncID(fn)})
						}
					}
				}
			}
		}
	}
	var out []report.Obligation
	var keys []string
	for k := range writers {
		if len(readers[k]) > 0 {
			keys = append(keys, k)
		}
	}
	sort.Strings(keys)
	for _, k := range keys {
		for _, w := range writers[k] {
			// only container types can be mistaken for one another silently; scalars are checked where they are used
			switch w.t.Underlying().(type) {
			case *types.Map, *types.Slice:
			default:
				continue
			}
			match := false
			var asserted []string
			for _, r := range readers[k] {
				asserted = append(asserted, c.P.TypeStr(r.t))
				if types.Identical(w.t, r.t) {
					match = true
				}
			}
			sort.Strings(asserted)
			out = append(out, verdict(match, rule, fmt.Sprintf("%s :: value stored under %q is of a type the readers assert", w.fn, k), w.pos,
				"stored as "+c.P.TypeStr(w.t)+", asserted as "+strings.Join(dedup(asserted), " / "),
				fmt.Sprintf("%s stores a %s under %q, but package loader reads that key back only through assertions to %s: the assertion fails silently and what the reader was to move or remove (the carrier of an environment secret) stays in the model", w.fn, c.P.TypeStr(w.t), k, strings.Join(dedup(asserted), " / "))))
		}
	}
	if len(out) == 0 {
		out = append(out, bad(rule, "loader :: keys written and read back", "", "no constant key is both written with a concrete container and read back by assertion: the rule sees nothing"))
	}
	return out
}

func dedup(xs []string) []string {
	var out []string
	for i, x := range xs {
		if i == 0 || x != xs[i-1] {
			out = append(out, x)
		}
	}
	return out
}

// CARRIER (SEC-8, C20): the value of an environment secret travels in the raw model under a private key inside
// `#extensions`; the decode hook moves it into Content and removes it. Whether it removes it depends on the
// carrier alone (is it there, is it a string): a hook that also wants the secret to (still) declare `environment`
// leaves the carrier in the extensions of a secret whose `environment` a later file reset, and the YAML rendering
// prints extensions inline. In the hook, no condition on the way to delete(ext, carrier) looks up another key.
func (c *Ctx) CARRIER(rule string) []report.Obligation {
	f := c.P.Func("loader.secretConfigDecoderHook")
	if f == nil {
		return []report.Obligation{anchorViolation(rule, "loader.secretConfigDecoderHook")}
	}
	xvalue, extKey := "", ""
	if pk := c.P.PkgByRel["types"]; pk != nil {
		if o, isC := pk.Types.Scope().Lookup("SecretConfigXValue").(*types.Const); isC {
			xvalue = strings.Trim(o.Val().ExactString(), `"`)
		}
	}
	if pk := c.P.PkgByRel["consts"]; pk != nil {
		if o, isC := pk.Types.Scope().Lookup("Extensions").(*types.Const); isC {
			extKey = strings.Trim(o.Val().ExactString(), `"`)
		}
	}
	var out []report.Obligation
	n := 0
	for _, cs := range callSites(f, func(com *ssa.CallCommon) bool {
		bi, ok := com.Value.(*ssa.Builtin)
		return ok && bi.Name() == "delete"
	}) {
		if k, _ := prog.ConstString(cs.Common().Args[1]); k != xvalue {
			continue
		}
		n++
		offending := ""
		for _, d := range prog.Info(f).TransitiveControlDeps(cs.Block()) {
			iff, ok := d.Branch.Instrs[len(d.Branch.Instrs)-1].(*ssa.If)
			if !ok {
				continue
			}
			seen := map[ssa.Value]bool{}
			var walk func(v ssa.Value, depth int)
			walk = func(v ssa.Value, depth int) {
				if v == nil || depth == 0 || seen[v] {
					return
				}
				seen[v] = true
				if lk, isL := v.(*ssa.Lookup); isL {
					if k, isC := prog.ConstString(lk.Index); isC && k != xvalue && k != extKey {
						offending = k
					}
				}
				if in, isI := v.(ssa.Instruction); isI {
					for _, op := range in.Operands(nil) {
						walk(*op, depth-1)
					}
				}
			}
			walk(iff.Cond, 6)
		}
		out = append(out, verdict(offending == "", rule, "secretConfigDecoderHook :: the carrier is removed whenever it is there", c.P.InstrPos(cs),
			"reaching delete(ext, carrier) depends on the carrier and the extensions mapping only", "whether the carrier of the secret value is removed from the extensions also depends on the key `"+offending+"`: when that test fails the value stays in SecretConfig.Extensions, which the YAML rendering prints inline"))
	}
	if n == 0 {
		out = append(out, bad(rule, "secretConfigDecoderHook :: the carrier is removed whenever it is there", c.P.Pos(f.Pos()), "no delete of the carrier key found in the hook"))
	}
	// SEC-9: the carried value was resolved from `environment`; it becomes the Content only while the resource still
	// has that attribute (an override file can reset it and give the resource a file): the store into "Content"
	// depends on the `environment` entry of the mapping being decoded.
	m := 0
	for _, b := range f.Blocks {
		for _, in := range b.Instrs {
			mu, ok := in.(*ssa.MapUpdate)
			if !ok {
				continue
			}
			if k, _ := prog.ConstString(stripMI(mu.Key)); !strings.EqualFold(k, "content") {
				continue
			}
			m++
			depends := false
			for _, d := range prog.Info(f).TransitiveControlDeps(b) {
				iff, ok := d.Branch.Instrs[len(d.Branch.Instrs)-1].(*ssa.If)
				if !ok {
					continue
				}
				seen := map[ssa.Value]bool{}
				var walk func(v ssa.Value, depth int)
				walk = func(v ssa.Value, depth int) {
					if v == nil || depth == 0 || seen[v] {
						return
					}
					seen[v] = true
					if lk, isL := v.(*ssa.Lookup); isL {
						if k, isC := prog.ConstString(lk.Index); isC && k == "environment" {
							depends = true
						}
					}
					if in, isI := v.(ssa.Instruction); isI {
						for _, op := range in.Operands(nil) {
							walk(*op, depth-1)
						}
					}
				}
				walk(iff.Cond, 6)
			}
			out = append(out, verdict(depends, rule+"b", "secretConfigDecoderHook :: the carried value becomes the content only while `environment` is declared", c.P.InstrPos(mu),
				"the store depends on the `environment` entry of the resource", "the value resolved from `environment` is stored as the content whether or not the resource still declares `environment`: after an override resets it (and gives a file) the old variable's value is the content of the resource, and a config renders it"))
		}
	}
	if m == 0 {
		out = append(out, bad(rule+"b", "secretConfigDecoderHook :: the carried value becomes the content only while `environment` is declared", c.P.Pos(f.Pos()), "no store into Content found in the hook"))
	}
	return out
}


func sameStructType(a, b types.Type) bool {
	return types.Identical(a, b)
}
