package rules

import (
	"fmt"
	"go/token"
	"go/types"
	"strings"

	"golang.org/x/tools/go/ssa"
	"verifcheck/internal/prog"
	"verifcheck/internal/report"
)

// GLOB: package-level state written after init. Every instruction outside a
// package initialiser that can modify a package-level variable (store to it or
// to a field/element of it, update/delete on a map it holds, append-assign,
// passing its address to a callee) is an obligation; so is every global whose
// address escapes. Reads are inventoried for the evidence only.
func (c *Ctx) GLOB(rule string) []report.Obligation {
	var out []report.Obligation
	nGlobals := 0
	for _, pk := range c.P.SSAByRel {
		for _, m := range pk.Members {
			if g, ok := m.(*ssa.Global); ok && !strings.HasPrefix(g.Name(), "init$") {
				nGlobals++
			}
		}
	}
	c.Stats[rule+".globals"] = nGlobals
	writers := map[string]bool{}
	guardedBy := map[*ssa.Global]string{} // globals written after init while a package-level mutex is held
	for _, f := range c.P.Funcs {
		if isInitFunc(f) {
			continue
		}
		for _, b := range f.Blocks {
			for _, in := range b.Instrs {
				var g *ssa.Global
				what := ""
				switch x := in.(type) {
				case *ssa.Store:
					if gg := globalRoot(x.Addr); gg != nil {
						g, what = gg, "store"
					}
				case *ssa.MapUpdate:
					if gg := globalRoot(x.Map); gg != nil {
						g, what = gg, "map update"
					}
				case ssa.CallInstruction:
					com := x.Common()
					if b, ok := com.Value.(*ssa.Builtin); ok {
						if (b.Name() == "delete" || b.Name() == "copy") && len(com.Args) > 0 {
							if gg := globalRoot(com.Args[0]); gg != nil {
								g, what = gg, b.Name()
							}
						}
						break
					}
					for _, a := range com.Args {
						if gg, ok := a.(*ssa.Global); ok && !isSyncType(gg.Type()) {
							g, what = gg, "address passed to "+calleeDesc(c, com)
						}
					}
				}
				if g == nil || !c.P.IsModulePkg(g.Pkg.Pkg) {
					continue
				}
				gname := c.P.Rel(g.Pkg.Pkg) + "." + g.Name()
				if mu := heldGlobalMutex(f, in); mu != "" {
					what += " (holding " + mu + ")"
					guardedBy[g] = mu
				}
				k := gname + " :: " + what + " in " + c.P.FuncID(f)
				if writers[k] {
					continue
				}
				writers[k] = true
				out = append(out, report.Obligation{Rule: rule, Key: k, Pos: c.P.InstrPos(in), Status: report.Violation,
					Why: "package-level variable " + gname + " is modified after initialisation (" + what + "): state shared between loads and between goroutines"})
			}
		}
	}
	// aliases: `x := pkgVar` copies a slice header / map / pointer, not the data. A write through the copy
	// (an element store, sort.Slice(x, …), a callee that writes through its argument) modifies the shared variable.
	for _, f := range c.P.Funcs {
		if isInitFunc(f) {
			continue
		}
		for _, ev := range c.globalAliasWrites(f) {
			if !c.P.IsModulePkg(ev.g.Pkg.Pkg) {
				continue
			}
			gname := c.P.Rel(ev.g.Pkg.Pkg) + "." + ev.g.Name()
			what := ev.what
			if mu := heldGlobalMutex(f, ev.in); mu != "" {
				what += " (holding " + mu + ")"
			}
			k := gname + " :: " + what + " in " + c.P.FuncID(f)
			if writers[k] {
				continue
			}
			writers[k] = true
			out = append(out, report.Obligation{Rule: rule, Key: k, Pos: c.P.InstrPos(ev.in), Status: report.Violation,
				Why: "the data of package-level variable " + gname + " is modified after initialisation through a copy of its slice header / map / pointer (" + what + "): state shared between loads and between goroutines"})
		}
	}
	// a variable that is written under a mutex is read under the same mutex: an unlocked read races with the write
	readers := map[string]bool{}
	for _, f := range c.P.Funcs {
		if isInitFunc(f) {
			continue
		}
		for _, b := range f.Blocks {
			for _, in := range b.Instrs {
				ld, ok := in.(*ssa.UnOp)
				if !ok || ld.Op != token.MUL {
					continue
				}
				g := globalRoot(ld.X)
				if g == nil {
					continue
				}
				mu, isGuarded := guardedBy[g]
				if !isGuarded {
					continue
				}
				gname := c.P.Rel(g.Pkg.Pkg) + "." + g.Name()
				k := gname + " :: read in " + c.P.FuncID(f)
				held := heldGlobalMutex(f, in)
				if held != mu {
					k += " without " + mu
				}
				if readers[k] {
					continue
				}
				readers[k] = true
				out = append(out, verdict(held == mu, rule+"-read", k, c.P.InstrPos(in), "read while holding "+mu+", the mutex its writers hold",
					"package-level variable "+gname+" is written while holding "+mu+" but read here without it: a load that runs concurrently with another races with the write"))
			}
		}
	}
	out = append(out, report.Obligation{Rule: rule, Key: "inventory", Status: report.Discharged,
		Why: "all functions of the module scanned for writes to package-level variables outside init"})
	return out
}

// heldGlobalMutex: a package-level sync.Mutex locked with `mu.Lock(); defer mu.Unlock()` dominating the instruction.
func heldGlobalMutex(f *ssa.Function, at ssa.Instruction) string {
	var locks []ssa.CallInstruction
	deferred := map[*ssa.Global]bool{}
	for _, b := range f.Blocks {
		for _, in := range b.Instrs {
			ci, ok := in.(ssa.CallInstruction)
			if !ok {
				continue
			}
			n := staticName(ci.Common())
			if len(ci.Common().Args) == 0 {
				continue
			}
			g, isG := ci.Common().Args[0].(*ssa.Global)
			if !isG {
				continue
			}
			switch n {
			case "(*sync.Mutex).Lock", "(*sync.RWMutex).Lock":
				if _, isCall := in.(*ssa.Call); isCall {
					locks = append(locks, ci)
				}
			case "(*sync.Mutex).Unlock", "(*sync.RWMutex).Unlock":
				if _, isDefer := in.(*ssa.Defer); isDefer && prog.InstrDominates(in, at) {
					deferred[g] = true
				}
			}
		}
	}
	for _, l := range locks {
		g := l.Common().Args[0].(*ssa.Global)
		if prog.InstrDominates(l, at) && deferred[g] {
			return g.Name()
		}
	}
	return ""
}

func isInitFunc(f *ssa.Function) bool {
	for f.Parent() != nil {
		f = f.Parent()
	}
	return f.Name() == "init" || strings.HasPrefix(f.Name(), "init#")
}

// globalRoot: the global whose storage the address/map value denotes.
func globalRoot(v ssa.Value) *ssa.Global {
	for i := 0; i < 8; i++ {
		switch x := v.(type) {
		case *ssa.Global:
			return x
		case *ssa.FieldAddr:
			v = x.X
		case *ssa.IndexAddr:
			v = x.X
		case *ssa.UnOp:
			if x.Op.String() != "*" {
				return nil
			}
			// value loaded from a global holding a reference (map / slice / pointer)
			if g, ok := x.X.(*ssa.Global); ok {
				return g
			}
			v = x.X
		default:
			return nil
		}
	}
	return nil
}

func isSyncType(t types.Type) bool {
	if p, ok := t.(*types.Pointer); ok {
		t = p.Elem()
	}
	n, ok := t.(*types.Named)
	// locks, once, wait groups and atomics synchronise; a sync.Pool or sync.Map holds data shared between
	// callers and is treated like any other package-level state
	return ok && n.Obj().Pkg() != nil && (n.Obj().Pkg().Path() == "sync" && n.Obj().Name() != "Pool" && n.Obj().Name() != "Map" || n.Obj().Pkg().Path() == "sync/atomic")
}

func calleeDesc(c *Ctx, com *ssa.CallCommon) string {
	if cal := com.StaticCallee(); cal != nil {
		if c.P.InModule(cal) {
			return c.P.FuncID(cal)
		}
		return cal.String()
	}
	if com.IsInvoke() {
		return "method " + com.Method.Name()
	}
	return "dynamic callee"
}

type globalWrite struct {
	g    *ssa.Global
	in   ssa.Instruction
	what string
}

// externalMutators: library functions that write the elements of their (first) argument.
var externalMutators = map[string]bool{
	"sort.Slice": true, "sort.SliceStable": true, "sort.Sort": true, "sort.Stable": true, "sort.Strings": true, "sort.Ints": true,
	"slices.Sort": true, "slices.SortFunc": true, "slices.SortStableFunc": true, "slices.Reverse": true,
}

// globalAliasWrites follows, inside one function, the values loaded from package-level variables of reference
// type through local variables, phis, slicing and conversions, and reports writes through them.
func (c *Ctx) globalAliasWrites(f *ssa.Function) []globalWrite {
	taint := map[ssa.Value]*ssa.Global{} // value -> the global whose data it shares
	cells := map[ssa.Value]*ssa.Global{} // local cell (Alloc) holding such a value
	changed := true
	set := func(v ssa.Value, g *ssa.Global) {
		if g != nil && taint[v] == nil {
			taint[v] = g
			changed = true
		}
	}
	for iter := 0; changed && iter < 10; iter++ {
		changed = false
		for _, b := range f.Blocks {
			for _, in := range b.Instrs {
				switch x := in.(type) {
				case *ssa.UnOp:
					if x.Op.String() != "*" {
						continue
					}
					if g, ok := x.X.(*ssa.Global); ok && mutableRef(x.Type()) && !isSyncType(x.Type()) {
						set(x, g)
					} else if g := cells[x.X]; g != nil {
						set(x, g)
					}
				case *ssa.Store:
					if g := taint[x.Val]; g != nil {
						if al, ok := x.Addr.(*ssa.Alloc); ok && cells[al] == nil {
							cells[al] = g
							changed = true
						}
					}
				case *ssa.Phi:
					for _, e := range x.Edges {
						set(x, taint[e])
					}
				case *ssa.Slice:
					set(x, taint[x.X])
				case *ssa.ChangeType:
					set(x, taint[x.X])
				case *ssa.MakeInterface:
					set(x, taint[x.X])
				}
			}
		}
	}
	if len(taint) == 0 {
		return nil
	}
	// the shared data behind an address
	var rootOf func(v ssa.Value, d int) *ssa.Global
	rootOf = func(v ssa.Value, d int) *ssa.Global {
		if d == 0 {
			return nil
		}
		if g := taint[v]; g != nil {
			return g
		}
		switch x := v.(type) {
		case *ssa.IndexAddr:
			return rootOf(x.X, d-1)
		case *ssa.FieldAddr:
			return rootOf(x.X, d-1)
		}
		return nil
	}
	var out []globalWrite
	for _, b := range f.Blocks {
		for _, in := range b.Instrs {
			switch x := in.(type) {
			case *ssa.Store:
				if _, direct := x.Addr.(*ssa.Alloc); direct {
					continue
				}
				if globalRoot(x.Addr) != nil {
					continue // reported by the direct rule
				}
				if g := rootOf(x.Addr, 6); g != nil {
					out = append(out, globalWrite{g, in, "store through an alias"})
				}
			case *ssa.MapUpdate:
				if globalRoot(x.Map) == nil {
					if g := taint[x.Map]; g != nil {
						out = append(out, globalWrite{g, in, "map update through an alias"})
					}
				}
				if g := taint[x.Value]; g != nil && taint[x.Map] == nil && isContainer(x.Value.Type()) {
					out = append(out, globalWrite{g, in, "stored into another map, which then shares its data"})
				}
			case *ssa.Return:
				for _, rv := range x.Results {
					if g := taint[rv]; g != nil && f.Object() != nil && isContainer(rv.Type()) {
						out = append(out, globalWrite{g, in, "returned to the caller, which then shares its data"})
					}
				}
			case ssa.CallInstruction:
				com := x.Common()
				if bi, ok := com.Value.(*ssa.Builtin); ok {
					if (bi.Name() == "delete" || bi.Name() == "copy") && len(com.Args) > 0 && globalRoot(com.Args[0]) == nil {
						if g := taint[com.Args[0]]; g != nil {
							out = append(out, globalWrite{g, in, bi.Name() + " through an alias"})
						}
					}
					continue
				}
				callee := com.StaticCallee()
				if callee == nil {
					continue
				}
				for i, a := range com.Args {
					g := taint[a]
					if g == nil {
						continue
					}
					if !c.P.InModule(callee) || callee.Blocks == nil {
						if externalMutators[calleeName(callee)] && i == 0 {
							out = append(out, globalWrite{g, in, "passed to " + calleeName(callee) + ", which reorders it in place"})
						}
						continue
					}
					if i < len(callee.Params) && mutableRef(a.Type()) {
						sum := c.imm().summary(callee, i)
						c.imm().solve()
						if sum.Writes {
							out = append(out, globalWrite{g, in, "passed to " + c.P.FuncID(callee) + ", which writes through that argument"})
						} else if (sum.RetAlias && returnsContainer(callee) || len(sum.Flows) > 0) && isContainer(a.Type()) {
							// the callee keeps the reference in what it returns / fills: the shared data becomes part of
							// a value that is later modified in place (merged, normalised, resolved)
							out = append(out, globalWrite{g, in, "handed to " + c.P.FuncID(callee) + ", which keeps a reference to it in its result"})
						}
					}
				}
			}
		}
	}
	return out
}

// isContainer: a map or slice (possibly boxed): data that the pipeline modifies in place. Pointers to library
// objects (a compiled regexp) are handed around on purpose.
func isContainer(t types.Type) bool {
	switch t.Underlying().(type) {
	case *types.Map, *types.Slice:
		return true
	}
	return false
}

// returnsContainer: some result of the function is a map, slice or pointer (something that can share the storage of
// an argument; a func value or a scalar picked out of a table cannot).
func returnsContainer(f *ssa.Function) bool {
	res := f.Signature.Results()
	for i := 0; i < res.Len(); i++ {
		switch res.At(i).Type().Underlying().(type) {
		case *types.Map, *types.Slice, *types.Pointer, *types.Interface:
			return true
		}
	}
	return false
}

// GLOBADDR: the address of a package-level variable does not travel. GLOB sees the writes that name the variable;
// a write through a pointer that was stored in a struct, returned or handed to another function of the module is a
// write to the same shared variable that names nothing. So, outside initialisers, the address of a package-level
// variable of the module (or of one of its fields) is only used on the spot: loaded from, stored to, or handed to a
// function outside the module (a mutex method, a regexp method).
func (c *Ctx) GLOBADDR(rule string) []report.Obligation {
	var out []report.Obligation
	n := 0
	for _, f := range c.P.Funcs {
		if isInitFunc(f) {
			continue
		}
		for _, b := range f.Blocks {
			for _, in := range b.Instrs {
				for _, op := range in.Operands(nil) {
					if *op == nil {
						continue
					}
					var g *ssa.Global
					switch a := (*op).(type) {
					case *ssa.Global:
						g = a
					case *ssa.FieldAddr:
						if gg, ok := a.X.(*ssa.Global); ok {
							g = gg
						}
					}
					if g == nil || g.Pkg == nil || !c.P.IsModulePkg(g.Pkg.Pkg) {
						continue
					}
					n++
					how := ""
					switch x := in.(type) {
					case *ssa.Store:
						if x.Val == *op {
							how = "stored (into " + c.P.KeyTerm(x.Addr, 1) + ")"
						}
					case *ssa.Return:
						how = "returned"
					case *ssa.Phi:
						how = "merged with other pointers"
					case *ssa.MakeInterface:
						how = "put into an interface"
					case *ssa.MapUpdate:
						how = "stored in a map"
					case *ssa.Send:
						how = "sent on a channel"
					case ssa.CallInstruction:
						com := x.Common()
						if cal := com.StaticCallee(); cal != nil && c.P.InModule(cal) && cal.Blocks != nil {
							how = "handed to " + c.P.FuncID(cal)
						} else if cal == nil && !com.IsInvoke() {
							if _, isB := com.Value.(*ssa.Builtin); !isB {
								how = "handed to a function value"
							}
						}
					}
					if how != "" {
						out = append(out, bad(rule, c.P.FuncID(f)+" :: the address of "+g.Pkg.Pkg.Name()+"."+g.Name()+" is "+how, c.P.InstrPos(in),
							"the address of the package-level variable leaves the expression it is taken in: whoever holds the pointer writes the one shared variable (options, state) without naming it, so a later call or a concurrent one sees what an earlier one set"))
					}
				}
			}
		}
	}
	c.Stats[rule+".uses"] = n
	out = append(out, ok2(rule, "inventory", "", fmt.Sprintf("%d uses of the address of a package-level variable outside initialisers: each is a load, a store or a call into a package outside the module", n)))
	return out
}
