package rules

import (
	"go/types"
	"strings"

	"golang.org/x/tools/go/ssa"
	"verifcheck/internal/prog"
	"verifcheck/internal/report"
)

// GLOB: package-level state written after init. Every instruction outside a
// package initialiser that can modify a package-level variable (store to it or
// to a field/element of it, update/delete on a map it holds, append-assign,
// passing its address to a callee) is an obligation; so is every global whose
// address escapes. Reads are inventoried for the evidence only.
func (c *Ctx) GLOB(rule string) []report.Obligation {
	var out []report.Obligation
	nGlobals := 0
	for _, pk := range c.P.SSAByRel {
		for _, m := range pk.Members {
			if g, ok := m.(*ssa.Global); ok && !strings.HasPrefix(g.Name(), "init$") {
				nGlobals++
			}
		}
	}
	c.Stats[rule+".globals"] = nGlobals
	writers := map[string]bool{}
	for _, f := range c.P.Funcs {
		if isInitFunc(f) {
			continue
		}
		for _, b := range f.Blocks {
			for _, in := range b.Instrs {
				var g *ssa.Global
				what := ""
				switch x := in.(type) {
				case *ssa.Store:
					if gg := globalRoot(x.Addr); gg != nil {
						g, what = gg, "store"
					}
				case *ssa.MapUpdate:
					if gg := globalRoot(x.Map); gg != nil {
						g, what = gg, "map update"
					}
				case ssa.CallInstruction:
					com := x.Common()
					if b, ok := com.Value.(*ssa.Builtin); ok {
						if (b.Name() == "delete" || b.Name() == "copy") && len(com.Args) > 0 {
							if gg := globalRoot(com.Args[0]); gg != nil {
								g, what = gg, b.Name()
							}
						}
						break
					}
					for _, a := range com.Args {
						if gg, ok := a.(*ssa.Global); ok && !isSyncType(gg.Type()) {
							g, what = gg, "address passed to "+calleeDesc(c, com)
						}
					}
				}
				if g == nil || !c.P.IsModulePkg(g.Pkg.Pkg) {
					continue
				}
				gname := c.P.Rel(g.Pkg.Pkg) + "." + g.Name()
				if mu := heldGlobalMutex(f, in); mu != "" {
					what += " (holding " + mu + ")"
				}
				k := gname + " :: " + what + " in " + c.P.FuncID(f)
				if writers[k] {
					continue
				}
				writers[k] = true
				out = append(out, report.Obligation{Rule: rule, Key: k, Pos: c.P.InstrPos(in), Status: report.Violation,
					Why: "package-level variable " + gname + " is modified after initialisation (" + what + "): state shared between loads and between goroutines"})
			}
		}
	}
	out = append(out, report.Obligation{Rule: rule, Key: "inventory", Status: report.Discharged,
		Why: "all functions of the module scanned for writes to package-level variables outside init"})
	return out
}

// heldGlobalMutex: a package-level sync.Mutex locked with `mu.Lock(); defer mu.Unlock()` dominating the instruction.
func heldGlobalMutex(f *ssa.Function, at ssa.Instruction) string {
	var locks []ssa.CallInstruction
	deferred := map[*ssa.Global]bool{}
	for _, b := range f.Blocks {
		for _, in := range b.Instrs {
			ci, ok := in.(ssa.CallInstruction)
			if !ok {
				continue
			}
			n := staticName(ci.Common())
			if len(ci.Common().Args) == 0 {
				continue
			}
			g, isG := ci.Common().Args[0].(*ssa.Global)
			if !isG {
				continue
			}
			switch n {
			case "(*sync.Mutex).Lock", "(*sync.RWMutex).Lock":
				if _, isCall := in.(*ssa.Call); isCall {
					locks = append(locks, ci)
				}
			case "(*sync.Mutex).Unlock", "(*sync.RWMutex).Unlock":
				if _, isDefer := in.(*ssa.Defer); isDefer && prog.InstrDominates(in, at) {
					deferred[g] = true
				}
			}
		}
	}
	for _, l := range locks {
		g := l.Common().Args[0].(*ssa.Global)
		if prog.InstrDominates(l, at) && deferred[g] {
			return g.Name()
		}
	}
	return ""
}

func isInitFunc(f *ssa.Function) bool {
	for f.Parent() != nil {
		f = f.Parent()
	}
	return f.Name() == "init" || strings.HasPrefix(f.Name(), "init#")
}

// globalRoot: the global whose storage the address/map value denotes.
func globalRoot(v ssa.Value) *ssa.Global {
	for i := 0; i < 8; i++ {
		switch x := v.(type) {
		case *ssa.Global:
			return x
		case *ssa.FieldAddr:
			v = x.X
		case *ssa.IndexAddr:
			v = x.X
		case *ssa.UnOp:
			if x.Op.String() != "*" {
				return nil
			}
			// value loaded from a global holding a reference (map / slice / pointer)
			if g, ok := x.X.(*ssa.Global); ok {
				return g
			}
			v = x.X
		default:
			return nil
		}
	}
	return nil
}

func isSyncType(t types.Type) bool {
	if p, ok := t.(*types.Pointer); ok {
		t = p.Elem()
	}
	n, ok := t.(*types.Named)
	return ok && n.Obj().Pkg() != nil && n.Obj().Pkg().Path() == "sync"
}

func calleeDesc(c *Ctx, com *ssa.CallCommon) string {
	if cal := com.StaticCallee(); cal != nil {
		if c.P.InModule(cal) {
			return c.P.FuncID(cal)
		}
		return cal.String()
	}
	if com.IsInvoke() {
		return "method " + com.Method.Name()
	}
	return "dynamic callee"
}
