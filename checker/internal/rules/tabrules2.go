package rules

import (
	"reflect"
	"fmt"
	"go/token"
	"go/types"
	"sort"
	"strings"

	"golang.org/x/tools/go/ssa"
	"verifcheck/internal/prog"
	"verifcheck/internal/report"
	"verifcheck/internal/tab"
)

// A7: every attribute the schema defines has a field in the Go model
// (otherwise it is silently dropped on load and cannot survive a round trip).
func (c *Ctx) A7(rule string) []report.Obligation {
	var out []report.Obligation
	d := c.tab()
	if d.err != nil {
		return c.tabErr(rule)
	}
	for _, sp := range d.schema.Paths() {
		if sp == "" {
			continue
		}
		segs := strings.Split(sp, ".")
		last := segs[len(segs)-1]
		if last == "*" || last == "[]" {
			continue // children of maps and lists follow from their parent's type
		}
		parent := strings.Join(segs[:len(segs)-1], ".")
		pm := d.model.Nodes[parent]
		if parent != "" && pm == nil {
			continue // reported once, at the highest missing ancestor
		}
		if pm != nil {
			if _, isStruct := pm.Type.Underlying().(*types.Struct); !isStruct {
				continue // parent is not a struct in the model (custom decoder consumes the mapping form)
			}
		}
		o := report.Obligation{Rule: rule, Key: "schema attribute :: " + sp}
		if mn := d.model.Nodes[sp]; mn != nil {
			o.Status = report.Discharged
			o.Why = "model field " + mn.Owner + " (" + mn.TypeStr + ")"
		} else {
			o.Status = report.Violation
			o.Why = "the schema accepts this attribute but no model field carries its yaml key: the value is dropped on load"
		}
		out = append(out, o)
	}
	return out
}

// A6: render agreement (C09).
func (c *Ctx) A6(rule string) []report.Obligation {
	var out []report.Obligation
	d := c.tab()
	if d.err != nil {
		return c.tabErr(rule)
	}
	// (1) yaml key == json key for every model field; key allowed by the schema
	seenOwner := map[string]bool{}
	for _, mp := range d.model.Paths() {
		mn := d.model.Nodes[mp]
		if mn.Owner == "" {
			continue
		}
		if !seenOwner[mn.Owner] {
			seenOwner[mn.Owner] = true
			o := report.Obligation{Rule: rule + "-tags", Key: "field :: " + mn.Owner}
			switch {
			case mn.JSONKey == "-":
				o.Status, o.Why = report.Discharged, "not rendered to JSON"
			case mn.JSONKey == mn.YAMLKey:
				o.Status, o.Why = report.Discharged, "yaml and json keys are both "+mn.YAMLKey
			default:
				o.Status = report.Violation
				o.Why = fmt.Sprintf("JSON renders this field as %q but the loader reads %q: the JSON rendering does not reload", mn.JSONKey, mn.YAMLKey)
			}
			out = append(out, o)
		}
		// schema allows the key at this path?
		segs := strings.Split(mp, ".")
		parent := strings.Join(segs[:len(segs)-1], ".")
		if sn := d.schema.Nodes[parent]; sn != nil && (sn.Kinds[tab.KObject]) {
			o := report.Obligation{Rule: rule + "-schema", Key: "rendered key :: " + mp}
			switch {
			case sn.Props[mn.YAMLKey]:
				o.Status, o.Why = report.Discharged, "schema property"
			case sn.Pattern || sn.Open:
				o.Status, o.Why = report.Discharged, "schema allows arbitrary keys here"
			default:
				// informational: the schema forbids the key on load, so a loaded project can only carry the field
				// if the loader itself sets it; such fields are legacy (v1) attributes or internal carriers
				o.Status = report.Info
				o.Why = "the model renders key " + mn.YAMLKey + " (" + mn.Owner + ") where the schema forbids additional properties: a project using the field renders to a document that fails validation on reload"
			}
			out = append(out, o)
		}
	}
	// (2) siblings: a named type has both or neither of MarshalYAML / MarshalJSON
	seenType := map[string]bool{}
	for _, mp := range d.model.Paths() {
		mn := d.model.Nodes[mp]
		if mn.Named == "" || seenType[mn.Named] || (mn.MarshalY == nil && mn.MarshalJ == nil) {
			continue
		}
		seenType[mn.Named] = true
		o := report.Obligation{Rule: rule + "-siblings", Key: "marshallers :: " + mn.Named}
		if (mn.MarshalY != nil) == (mn.MarshalJ != nil) {
			o.Status, o.Why = report.Discharged, "has both MarshalYAML and MarshalJSON"
		} else {
			o.Status = report.Violation
			which := "MarshalYAML"
			if mn.MarshalJ != nil {
				which = "MarshalJSON"
			}
			o.Why = "only " + which + " is defined: the other rendering uses the default struct/kind encoding and the two renderings disagree"
		}
		out = append(out, o)
	}
	// (3) the kind a custom MarshalYAML emits is admitted by the schema wherever the type is used
	for _, mp := range d.model.Paths() {
		mn := d.model.Nodes[mp]
		if mn.MarshalY == nil || mp == "" {
			continue
		}
		sn := d.schema.Nodes[mp]
		if sn == nil {
			continue
		}
		kinds, unknown := c.marshalKinds(mn.MarshalY)
		for _, k := range kinds {
			o := report.Obligation{Rule: rule + "-kind", Key: fmt.Sprintf("%s emits %s at %s", c.P.FuncID(mn.MarshalY), k, mp)}
			if sn.AnyKind || sn.Kinds[tab.Kind(k)] || (k == "integer" && sn.Kinds[tab.KNumber]) {
				o.Status, o.Why = report.Discharged, "schema admits "+k+" here"
			} else {
				o.Status = report.Violation
				o.Why = fmt.Sprintf("the marshaller renders a %s but the schema admits only %v at this path: the rendering fails validation on reload", k, sn.KindList())
			}
			out = append(out, o)
		}
		if unknown {
			out = append(out, report.Obligation{Rule: rule + "-kind", Key: fmt.Sprintf("%s at %s", c.P.FuncID(mn.MarshalY), mp), Status: report.Info,
				Why: "some return value's dynamic type is not a literal conversion; not classified"})
		}
	}
	return out
}

// marshalKinds lists the YAML kinds of the first result of a MarshalYAML method.
func (c *Ctx) marshalKinds(fn *ssa.Function) (kinds []string, unknown bool) {
	set := map[string]bool{}
	for _, b := range fn.Blocks {
		ret, ok := b.Instrs[len(b.Instrs)-1].(*ssa.Return)
		if !ok || len(ret.Results) == 0 {
			continue
		}
		ts := c.dyn.At(ret.Results[0], b, nil, 3)
		if ts.Top {
			unknown = true
			continue
		}
		for _, t := range ts.Ts {
			k := goTypeKind(t)
			if k == "" {
				unknown = true
			} else {
				set[k] = true
			}
		}
	}
	for k := range set {
		kinds = append(kinds, k)
	}
	sort.Strings(kinds)
	return
}

func goTypeKind(t types.Type) string {
	if p, ok := t.(*types.Pointer); ok {
		t = p.Elem()
	}
	switch u := t.Underlying().(type) {
	case *types.Basic:
		switch {
		case u.Info()&types.IsString != 0:
			return "string"
		case u.Info()&types.IsBoolean != 0:
			return "boolean"
		case u.Info()&types.IsInteger != 0:
			return "integer"
		case u.Info()&types.IsFloat != 0:
			return "number"
		}
	case *types.Slice, *types.Array:
		return "array"
	case *types.Map, *types.Struct:
		return "object"
	}
	return ""
}

// pathAttrs is the frozen list of path-bearing attributes named by C12 (the
// schema has no marker for "this string is a path").
var pathAttrs = []string{
	"services.*.build.context",
	"services.*.build.additional_contexts.*",
	"services.*.env_file.[].path",
	"services.*.label_file.[]",
	"services.*.volumes.[]",
	"services.*.extends.file",
	"services.*.develop.watch.[].path",
	"secrets.*.file",
	"configs.*.file",
	"volumes.*",
}

// A9: resolver coverage (C12).
func (c *Ctx) A9(rule string) []report.Obligation {
	var out []report.Obligation
	d := c.tab()
	if d.err != nil {
		return c.tabErr(rule)
	}
	res := c.table(rule, TResolvers, &out)
	if res == nil {
		return out
	}
	for _, sp := range pathAttrs {
		o := report.Obligation{Rule: rule, Key: TResolvers + " :: " + sp}
		if d.schema.Nodes[sp] == nil {
			o.Status, o.Why = report.Violation, "path attribute named by the property is not in the schema"
			out = append(out, o)
			continue
		}
		var rows []string
		for _, r := range res.Rows {
			if tab.MatchPattern(sp, r.Pattern) {
				rows = append(rows, r.Pattern+" -> "+r.Func)
				o.Pos = r.Pos
			}
		}
		switch len(rows) {
		case 1:
			o.Status, o.Why = report.Discharged, "resolved by "+rows[0]
		case 0:
			o.Status, o.Why = report.Violation, "no resolver row matches: a relative value at this attribute is left relative to the process working directory"
		default:
			o.Status, o.Why = report.Violation, "several rows match: "+strings.Join(rows, "; ")
		}
		out = append(out, o)
	}
	// "for mount sources and secret/config files, Windows-absolute paths are left as written": the resolver bound
	// to those attributes consults the Windows-absolute test (a function of package paths that checks for a drive
	// letter / UNC prefix), the others need not
	winAttrs := map[string]bool{"services.*.volumes.*.source": true, "services.*.volumes.*": true, "secrets.*.file": true, "configs.*.file": true}
	var winTest *ssa.Function
	for _, f := range c.P.Funcs {
		if strings.HasPrefix(c.P.FuncID(f), "paths.") && strings.Contains(strings.ToLower(f.Name()), "windowsabs") {
			winTest = f
		}
	}
	if winTest == nil {
		out = append(out, bad(rule+"-win", "paths :: Windows-absolute test", "", "no function of package paths tests for a Windows-absolute path: the rule sees nothing"))
	} else {
		for _, r := range res.Rows {
			covers := ""
			for sp := range winAttrs {
				if tab.MatchPattern(sp, r.Pattern) {
					covers = sp
				}
			}
			if covers == "" {
				continue
			}
			reaches := false
			if r.Fn != nil {
				seen := map[*ssa.Function]bool{}
				var walk func(f *ssa.Function, d int)
				walk = func(f *ssa.Function, d int) {
					if f == nil || seen[f] || d == 0 || reaches {
						return
					}
					seen[f] = true
					if f == winTest {
						reaches = true
						return
					}
					for _, cs := range callSites(f, func(com *ssa.CallCommon) bool { return com.StaticCallee() != nil && c.P.InModule(com.StaticCallee()) }) {
						walk(cs.Common().StaticCallee(), d-1)
					}
				}
				walk(r.Fn, 4)
			}
			out = append(out, verdict(reaches, rule+"-win", TResolvers+" :: "+covers+" leaves Windows-absolute paths as written", r.Pos,
				"the bound resolver "+r.Func+" consults "+c.P.FuncID(winTest), "the resolver bound to this attribute ("+r.Func+") never tests for a Windows-absolute path: `C:\\x` is joined with the project directory, unlike the same value on the sibling attributes"))
		}
	}
	// no resolver is registered on a non-path attribute: every row must cover one of the frozen attributes or be dead (A2)
	for _, r := range res.Rows {
		ok := false
		matchesSchema := false
		for _, sp := range pathAttrs {
			if tab.MatchPattern(sp, r.Pattern) {
				ok = true
			}
		}
		for sp := range d.schema.Nodes {
			if tab.MatchPattern(sp, r.Pattern) {
				matchesSchema = true
			}
		}
		if !ok && matchesSchema {
			out = append(out, report.Obligation{Rule: rule + "-extra", Key: TResolvers + " :: " + r.Pattern, Pos: r.Pos, Status: report.Violation,
				Why: "resolver registered on an attribute that is not one of the path attributes of the property: a non-path value would be rewritten"})
		}
	}
	return out
}

// constStringsIn collects constant strings used as (a) map keys in MapUpdate/Lookup,
// (b) arguments at position argIdx of calls to callee, (c) elements of []string literals.
func constMapUpdateKeys(fn *ssa.Function) []string {
	set := map[string]bool{}
	for _, b := range fn.Blocks {
		for _, in := range b.Instrs {
			if mu, ok := in.(*ssa.MapUpdate); ok {
				if s, ok := prog.ConstString(mu.Key); ok {
					set[s] = true
				}
			}
		}
	}
	return sortedKeys(set)
}

func sortedKeys(m map[string]bool) []string {
	var out []string
	for k := range m {
		out = append(out, k)
	}
	sort.Strings(out)
	return out
}

func (c *Ctx) constCallArgs(fn *ssa.Function, calleeName string, argIdx int) []string {
	set := map[string]bool{}
	for _, b := range fn.Blocks {
		for _, in := range b.Instrs {
			if call, ok := in.(*ssa.Call); ok {
				if cal := call.Call.StaticCallee(); cal != nil && (cal.Name() == calleeName || c.P.InModule(cal) && c.P.RefName(cal) == calleeName) && argIdx < len(call.Call.Args) {
					for _, s := range stringValuesOf(call.Call.Args[argIdx], 4) {
						set[s] = true
					}
				}
			}
		}
	}
	return sortedKeys(set)
}

// stringValuesOf enumerates the constant strings a value can hold: a constant,
// a phi of such, or an element read from a []string / [N]string literal (local
// or a package-level variable initialised with a literal). An element of
// unknown origin contributes nothing.
func stringValuesOf(v ssa.Value, depth int) []string {
	if depth == 0 {
		return nil
	}
	if s, ok := prog.ConstString(v); ok {
		return []string{s}
	}
	switch v := v.(type) {
	case *ssa.Phi:
		var out []string
		for _, e := range v.Edges {
			out = append(out, stringValuesOf(e, depth-1)...)
		}
		return out
	case *ssa.ChangeType:
		return stringValuesOf(v.X, depth-1)
	case *ssa.Extract:
		// range over a string-keyed literal is not handled; next() of a slice range is lowered to IndexAddr
		return nil
	case *ssa.UnOp:
		if v.Op != token.MUL {
			return nil
		}
		ia, ok := v.X.(*ssa.IndexAddr)
		if !ok {
			return nil
		}
		return literalElems(ia.X, depth-1)
	}
	return nil
}

// literalElems returns the constant strings stored into the backing array of a slice/array value.
func literalElems(x ssa.Value, depth int) []string {
	if depth == 0 {
		return nil
	}
	switch x := x.(type) {
	case *ssa.Slice:
		return literalElems(x.X, depth-1)
	case *ssa.Alloc:
		var out []string
		for _, r := range *x.Referrers() {
			ia, ok := r.(*ssa.IndexAddr)
			if !ok {
				continue
			}
			for _, rr := range *ia.Referrers() {
				if st, ok := rr.(*ssa.Store); ok && st.Addr == ssa.Value(ia) {
					if s, ok := prog.ConstString(st.Val); ok {
						out = append(out, s)
					}
				}
			}
		}
		return out
	case *ssa.UnOp:
		if g, ok := x.X.(*ssa.Global); ok && x.Op == token.MUL {
			// the package initialiser stores the literal into the variable
			if init := g.Pkg.Func("init"); init != nil {
				for _, b := range init.Blocks {
					for _, in := range b.Instrs {
						if st, ok := in.(*ssa.Store); ok && st.Addr == ssa.Value(g) {
							return literalElems(st.Val, depth-1)
						}
					}
				}
			}
		}
	}
	return nil
}

func constStoredStrings(fn *ssa.Function) []string {
	set := map[string]bool{}
	for _, b := range fn.Blocks {
		for _, in := range b.Instrs {
			if st, ok := in.(*ssa.Store); ok {
				if _, isIdx := st.Addr.(*ssa.IndexAddr); isIdx {
					if s, ok := prog.ConstString(st.Val); ok {
						set[s] = true
					}
				}
			}
		}
	}
	return sortedKeys(set)
}

// A10: the resource kinds enumerated by the import, naming, pruning and
// rendering code equal the resource-map fields of types.Project.
func (c *Ctx) A10(rule string) []report.Obligation {
	var out []report.Obligation
	d := c.tab()
	if d.err != nil {
		return c.tabErr(rule)
	}
	// resource maps of Project: fields whose type is a map of structs
	var want []string
	for _, mp := range d.model.Paths() {
		mn := d.model.Nodes[mp]
		if strings.Contains(mp, ".") || mn.Owner == "" {
			continue
		}
		if m, ok := mn.Type.Underlying().(*types.Map); ok {
			et := m.Elem()
			if p, ok := et.(*types.Pointer); ok {
				et = p.Elem()
			}
			if _, ok := et.Underlying().(*types.Struct); ok {
				want = append(want, mn.YAMLKey)
			}
		}
	}
	sort.Strings(want)
	c.Notef("resource sections of types.Project: %v", want)
	noServices := func(l []string) []string {
		var o []string
		for _, s := range l {
			if s != "services" {
				o = append(o, s)
			}
		}
		return o
	}
	check := func(id string, got []string, expect []string, what string) {
		o := report.Obligation{Rule: rule, Key: id + " :: resource kinds"}
		if strings.Join(got, ",") == strings.Join(expect, ",") {
			o.Status, o.Why = report.Discharged, fmt.Sprintf("%s enumerates %v", what, got)
		} else {
			o.Status, o.Why = report.Violation, fmt.Sprintf("%s enumerates %v, the project model has %v", what, got, expect)
		}
		out = append(out, o)
	}
	if f := c.P.Func("loader.importResources"); f != nil {
		check("loader.importResources", c.constCallArgs(f, "importResource", 2), want, "include import")
	} else {
		out = append(out, anchorViolation(rule, "loader.importResources"))
	}
	if f := c.P.Func("loader.setNameFromKey"); f != nil {
		check("loader.setNameFromKey", constStoredStrings(f), noServices(want), "resource naming")
	} else {
		out = append(out, anchorViolation(rule, "loader.setNameFromKey"))
	}
	if f := c.P.Func("types.(*Project).MarshalJSON"); f != nil {
		got := constMapUpdateKeys(f)
		var g []string
		for _, k := range got {
			if k != "name" {
				g = append(g, k)
			}
		}
		check("types.(*Project).MarshalJSON", g, want, "JSON rendering")
	} else {
		out = append(out, anchorViolation(rule, "types.(*Project).MarshalJSON"))
	}
	return out
}

// A3: form coverage (C03). Every kind the schema admits at a path is consumed
// by the code that runs on it: the canonical transformer registered for the
// path has an arm for it (or passes unknown kinds through), and where no
// transformer rewrites the value, the model type's custom decoder has an arm
// for it, or the plain Go kind accepts it under mapstructure's strict rules
// plus the repo's own `cast` hook. No admitted spelling may fall into an
// error/default branch.
func (c *Ctx) A3(rule string) []report.Obligation {
	var out []report.Obligation
	d := c.tab()
	if d.err != nil {
		return c.tabErr(rule)
	}
	tr := c.table(rule, TTransform, &out)
	cast := c.table(rule, TCast, &out)
	if tr == nil || cast == nil {
		return out
	}
	hook := c.hookKinds(&out, rule)
	for _, sp := range d.schema.Paths() {
		sn := d.schema.Nodes[sp]
		if sp == "" || sn.AnyKind && len(sn.Kinds) == 0 {
			continue
		}
		if sp == "version" || strings.HasPrefix(sp, "include") && !strings.HasPrefix(sp, "include.[]") {
			continue
		}
		row := c.findRow(tr, sp)
		castRow := c.findRow(cast, sp)
		mn := d.model.Nodes[sp]
		for _, ks := range sn.KindList() {
			k := tab.Kind(ks)
			if ks == "any" {
				continue
			}
			o := report.Obligation{Rule: rule, Key: fmt.Sprintf("%s kind %s", sp, ks)}
			// a string at a cast path reaches the later stages typed (default options)
			eff := k
			note := ""
			if k == tab.KString && castRow != nil {
				switch ck := c.castResultKind(castRow.Fn); {
				case strings.HasPrefix(ck, "bool"):
					eff, note = tab.KBool, " (after cast "+castRow.Func+")"
				case strings.HasPrefix(ck, "int"):
					eff, note = tab.KInt, " (after cast "+castRow.Func+")"
				case strings.HasPrefix(ck, "float"):
					eff, note = tab.KNumber, " (after cast "+castRow.Func+")"
				}
			}
			switch {
			case row != nil:
				si := tab.AnalyseSwitch(c.P, row.Fn, 0)
				o.Pos = row.Pos
				switch {
				case si.Accepts(eff) || (eff == tab.KNumber && si.Cases[tab.KInt]):
					o.Status, o.Why = report.Discharged, "transformer "+row.Func+" has an arm for it"+note
				case uncheckedAccepts(si, eff):
					o.Status, o.Why = report.Discharged, "transformer "+row.Func+" asserts exactly this kind (the assertion itself is PANIC-TA's obligation)"+note
				case eff == tab.KNull && (si.Default == "passthrough" || si.Default == "none"):
					o.Status, o.Why = report.Discharged, "transformer passes null through"
				case si.Default == "passthrough" || si.Default == "none" && len(si.Unchecked) == 0:
					o.Status, o.Why = report.Discharged, "transformer "+row.Func+" passes other kinds through unchanged"+note
				case eff == tab.KNull:
					// null never reaches a transformer arm: fixEmptyNotNull / the walker only visits present values;
					// a null under an erroring default is a real rejection
					o.Status, o.Why = report.Violation, fmt.Sprintf("schema admits null here but transformer %s has no nil test (arms %v, default %s)", row.Func, si.GoCases, si.Default)
				default:
					o.Status = report.Violation
					o.Why = fmt.Sprintf("schema admits %s here%s but transformer %s only has arms %v, unchecked %v, default %s", ks, note, row.Func, si.GoCases, si.Unchecked, si.Default)
				}
			case mn == nil:
				continue // A7
			case c.ancestorDecoder(sp) != nil || c.ancestorTransformer(tr, sp) != nil:
				continue // the enclosing value is consumed by hand-written code; covered at that path
			case c.parentRewritesKey(tr, sp):
				continue // the parent's transformer rewrites this very key (e.g. external: {name} -> true)
			case mn.Decoder != nil:
				si := tab.AnalyseSwitch(c.P, mn.Decoder, 1)
				switch {
				case eff == tab.KNull:
					o.Status, o.Why = report.Discharged, "mapstructure does not invoke decoders on null"
				case si.Accepts(eff) || (eff == tab.KNumber && si.Cases[tab.KInt] && si.Cases[tab.KNumber]):
					o.Status, o.Why = report.Discharged, "decoder "+c.P.FuncID(mn.Decoder)+" has an arm for it"+note
				case len(si.GoCases) == 0 && len(si.Unchecked) == 0:
					o.Status, o.Why = report.Discharged, "decoder "+c.P.FuncID(mn.Decoder)+" does not dispatch on the dynamic type"
				default:
					o.Status = report.Violation
					o.Why = fmt.Sprintf("schema admits %s here%s but decoder %s only has arms %v (unchecked %v, default %s)", ks, note, c.P.FuncID(mn.Decoder), si.GoCases, si.Unchecked, si.Default)
				}
			default:
				ok, why := plainAccepts(mn.Type, eff, hook)
				if ok {
					o.Status, o.Why = report.Discharged, why+note
				} else if isScalarKind(eff) && goScalarKind(mn.Type) != "" {
					// scalar-vs-scalar spellings (1.5 vs "1.5") are not among the alternative spellings C03 lists;
					// typed-or-string attributes are A5's (C08) business
					o.Status, o.Why = report.Info, "scalar spelling not converted: "+why
				} else {
					o.Status, o.Why = report.Violation, fmt.Sprintf("schema admits %s here%s but the model type %s does not decode from it: %s", ks, note, mn.TypeStr, why)
				}
			}
			out = append(out, o)
		}
	}
	return out
}

func isScalarKind(k tab.Kind) bool {
	return k == tab.KString || k == tab.KBool || k == tab.KInt || k == tab.KNumber
}

func uncheckedAccepts(si *tab.SwitchInfo, k tab.Kind) bool {
	for _, u := range si.Unchecked {
		for _, d := range tab.DynTypesOf(k) {
			if u == d {
				return true
			}
		}
	}
	return false
}

// parentRewritesKey: the transformer registered on the parent path stores a
// value under the constant key that is sp's last segment.
func (c *Ctx) parentRewritesKey(tr *tab.Table, sp string) bool {
	segs := strings.Split(sp, ".")
	if len(segs) < 2 {
		return false
	}
	r := c.findRow(tr, strings.Join(segs[:len(segs)-1], "."))
	if r == nil || r.Fn == nil {
		return false
	}
	for _, k := range constMapUpdateKeys(r.Fn) {
		if k == segs[len(segs)-1] {
			return true
		}
	}
	return false
}

// ancestorTransformer: a transformer registered on a strict ancestor of sp that
// is not the generic service walker (transformService only recurses).
func (c *Ctx) ancestorTransformer(tr *tab.Table, sp string) *tab.Row {
	segs := strings.Split(sp, ".")
	for i := len(segs) - 1; i >= 1; i-- {
		if r := c.findRow(tr, strings.Join(segs[:i], ".")); r != nil {
			if c.reachesFunc(r.Fn, "transform.transformMapping", 1) {
				continue // recursing transformer: children are visited with their own paths
			}
			return r
		}
	}
	return nil
}

// plainAccepts: mapstructure (strict mode) + the repo's cast hook.
func plainAccepts(t types.Type, k tab.Kind, hook map[string]bool) (bool, string) {
	if k == tab.KNull {
		return true, "null leaves the zero value"
	}
	if p, ok := t.(*types.Pointer); ok {
		t = p.Elem()
	}
	switch u := t.Underlying().(type) {
	case *types.Basic:
		name := u.Name()
		isInt := u.Info()&types.IsInteger != 0
		isFloat := u.Info()&types.IsFloat != 0
		switch k {
		case tab.KString:
			if u.Info()&types.IsString != 0 {
				return true, "string field"
			}
			if hook[name] {
				return true, "cast hook converts string -> " + name
			}
			return false, "strict mapstructure does not convert string -> " + name + " and the cast hook does not cover " + name
		case tab.KBool:
			if u.Info()&types.IsBoolean != 0 {
				return true, "bool field"
			}
			return false, "strict mapstructure does not convert bool -> " + name
		case tab.KInt:
			if isInt || isFloat {
				return true, "numeric field"
			}
			if u.Info()&types.IsString != 0 {
				return true, "cast hook converts int -> string"
			}
			return false, "strict mapstructure does not convert int -> " + name
		case tab.KNumber:
			if isInt || isFloat {
				return true, "numeric field"
			}
			return false, "a fractional number decodes to float64, which strict mapstructure does not convert to " + name
		}
		return false, "kind " + string(k) + " into " + name
	case *types.Slice, *types.Array:
		if k == tab.KArray {
			return true, "slice field"
		}
		return false, "strict mapstructure does not wrap a " + string(k) + " into a slice"
	case *types.Map:
		if k == tab.KObject {
			return true, "map field"
		}
		return false, "a " + string(k) + " does not decode into a map"
	case *types.Struct:
		if k == tab.KObject {
			return true, "struct field"
		}
		return false, "a " + string(k) + " does not decode into a struct"
	case *types.Interface:
		return true, "interface field"
	}
	return false, "unsupported model type"
}

// ---------------------------------------------------------------------------
// FMTVERB: keys and rendered entries built with fmt.Sprintf from untyped YAML
// values use a verb that prints every admissible type alike. `%s` applied to
// an integer or `%d` applied to a string prints `%!s(int=8080)`, so the same
// port / path written with another YAML type gets another key. For every
// Sprintf with a constant format in the given packages: an operand of
// interface type whose dynamic type is not known to be a string (resp. an
// integer) must not be formatted with %s (resp. %d).
// ---------------------------------------------------------------------------

func (c *Ctx) FMTVERB(rule string, pkgs ...string) []report.Obligation {
	var out []report.Obligation
	n := 0
	for _, fn := range c.P.Funcs {
		id := c.P.FuncID(fn)
		in := false
		for _, p := range pkgs {
			if strings.HasPrefix(id, p+".") {
				in = true
			}
		}
		if !in {
			continue
		}
		for _, cs := range callSites(fn, func(com *ssa.CallCommon) bool { return staticName(com) == "fmt.Sprintf" }) {
			format, ok := prog.ConstString(cs.Common().Args[0])
			if !ok || len(cs.Common().Args) < 2 {
				continue
			}
			sl, ok := cs.Common().Args[1].(*ssa.Slice)
			if !ok {
				continue
			}
			al, ok := sl.X.(*ssa.Alloc)
			if !ok {
				continue
			}
			// operands by index
			ops := map[int64]ssa.Value{}
			for _, r := range *al.Referrers() {
				if ia, ok := r.(*ssa.IndexAddr); ok {
					k, isC := constInt(ia.Index)
					if !isC {
						continue
					}
					for _, rr := range *ia.Referrers() {
						if st, ok := rr.(*ssa.Store); ok && st.Addr == ssa.Value(ia) {
							ops[k] = st.Val
						}
					}
				}
			}
			// verbs in order (flags and widths skipped; %% and %[n] not used in this repository)
			var verbs []byte
			for i := 0; i < len(format); i++ {
				if format[i] != '%' {
					continue
				}
				j := i + 1
				for j < len(format) && strings.IndexByte("+-# 0123456789.", format[j]) >= 0 {
					j++
				}
				if j < len(format) {
					if format[j] != '%' {
						verbs = append(verbs, format[j])
					}
					i = j
				}
			}
			for vi, verb := range verbs {
				if verb != 's' && verb != 'd' {
					continue
				}
				op, has := ops[int64(vi)]
				if !has {
					continue
				}
				if _, isMI := op.(*ssa.MakeInterface); isMI {
					continue // a typed operand: go vet's printf check decides it
				}
				if !types.IsInterface(op.Type()) {
					continue
				}
				n++
				ts := c.dyn.At(op, cs.Block(), nil, 3)
				good := !ts.Top && len(ts.Ts) > 0
				for _, t := range ts.Ts {
					bt, isB := t.Underlying().(*types.Basic)
					switch {
					case verb == 's' && isB && bt.Info()&types.IsString != 0:
					case verb == 'd' && isB && bt.Info()&types.IsInteger != 0:
					case verb == 's' && !isB:
						// a type with a String/Error method prints through it; anything else is not expected here
						good = good && (types.NewMethodSet(t).Lookup(nil, "String") != nil || types.NewMethodSet(t).Lookup(nil, "Error") != nil)
					default:
						good = false
					}
				}
				key := fmt.Sprintf("%s :: %%%c of operand %d in %q", id, verb, vi, format)
				out = append(out, verdict(good, rule, key, c.P.InstrPos(cs), "the operand can only hold the type the verb prints",
					fmt.Sprintf("an untyped YAML value (%s) is formatted with %%%c: another admissible YAML type prints as %%!%c(...), so the same entry spelled with that type gets a different key / text", c.P.KeyTerm(op, 2), verb, verb)))
			}
		}
	}
	out = append(out, report.Obligation{Rule: rule, Key: "inventory", Status: report.Discharged, Why: fmt.Sprintf("%d %%s/%%d operands of interface type in Sprintf calls of %v", n, pkgs)})
	return out
}

// ---------------------------------------------------------------------------
// SIBARM (C03): one grammar, one parser. When a type switch of a canonical
// transformer or decoder has several scalar arms (an int and a string spelling
// of the same short form), and one of them hands the value to a parser of
// package types / format, every scalar arm does: an arm that builds the value
// by hand skips the range and syntax checks of the grammar, so the two
// spellings of one value no longer agree on what is rejected.
// ---------------------------------------------------------------------------

func (c *Ctx) SIBARM(rule string, pkgs ...string) []report.Obligation {
	var out []report.Obligation
	n := 0
	for _, fn := range c.P.Funcs {
		id := c.P.FuncID(fn)
		in := false
		for _, p := range pkgs {
			if strings.HasPrefix(id, p+".") {
				in = true
			}
		}
		if !in {
			continue
		}
		// group the comma-ok type assertions to basic types by operand
		type arm struct {
			ta     *ssa.TypeAssert
			region *ssa.BasicBlock
		}
		groups := map[ssa.Value][]arm{}
		var order []ssa.Value
		for _, b := range fn.Blocks {
			for _, ins := range b.Instrs {
				ta, ok := ins.(*ssa.TypeAssert)
				if !ok || !ta.CommaOk {
					continue
				}
				if _, isBasic := ta.AssertedType.Underlying().(*types.Basic); !isBasic {
					continue
				}
				// the block entered when the assertion succeeds
				var region *ssa.BasicBlock
				for _, r := range *ta.Referrers() {
					ex, ok := r.(*ssa.Extract)
					if !ok || ex.Index != 1 {
						continue
					}
					for _, rr := range *ex.Referrers() {
						if iff, ok := rr.(*ssa.If); ok {
							region = iff.Block().Succs[0]
						}
					}
				}
				if region == nil {
					continue
				}
				if _, seen := groups[ta.X]; !seen {
					order = append(order, ta.X)
				}
				groups[ta.X] = append(groups[ta.X], arm{ta, region})
			}
		}
		for _, x := range order {
			arms := groups[x]
			if len(arms) < 2 {
				continue
			}
			parsersOf := func(a arm) map[string]bool {
				res := map[string]bool{}
				for _, b := range fn.Blocks {
					if b != a.region && !a.region.Dominates(b) {
						continue
					}
					for _, ins := range b.Instrs {
						call, ok := ins.(ssa.CallInstruction)
						if !ok {
							continue
						}
						cal := call.Common().StaticCallee()
						if cal == nil || !c.P.InModule(cal) {
							continue
						}
						cid := c.P.FuncID(cal)
						if !(strings.HasPrefix(cid, "types.") || strings.HasPrefix(cid, "format.")) {
							continue
						}
						hasStr := false
						for i := 0; i < cal.Signature.Params().Len(); i++ {
							if isStringType(cal.Signature.Params().At(i).Type()) {
								hasStr = true
							}
						}
						// a parser is a function of its own standing: exported, or used from several places. An
						// unexported helper with this one call site is the body of the arm moved elsewhere.
						shared := cal.Object() != nil && cal.Object().Exported()
						if !shared {
							sites := 0
							for _, g := range c.P.Funcs {
								sites += len(callSites(g, func(com *ssa.CallCommon) bool { return com.StaticCallee() == cal }))
							}
							shared = sites >= 2
						}
						if hasStr && shared && cal.Signature.Results().Len() >= 1 {
							res[cid] = true
						}
					}
				}
				return res
			}
			all := map[string]bool{}
			per := make([]map[string]bool, len(arms))
			for i, a := range arms {
				per[i] = parsersOf(a)
				for k := range per[i] {
					all[k] = true
				}
			}
			if len(all) == 0 {
				continue
			}
			n++
			var missing []string
			for i, a := range arms {
				for k := range all {
					if !per[i][k] {
						missing = append(missing, fmt.Sprintf("the %s arm does not call %s", c.P.TypeStr(a.ta.AssertedType), k))
					}
				}
			}
			sort.Strings(missing)
			var ps []string
			for k := range all {
				ps = append(ps, k)
			}
			sort.Strings(ps)
			key := id + " :: scalar arms over " + c.P.KeyTerm(x, 2) + " share the parser " + strings.Join(ps, ",")
			out = append(out, verdict(len(missing) == 0, rule, key, c.P.InstrPos(arms[0].ta), "every scalar arm hands the value to the same parser",
				strings.Join(missing, "; ")+": that spelling bypasses the checks of the grammar (range, syntax), so a value rejected in one spelling loads in the other"))
		}
	}
	out = append(out, report.Obligation{Rule: rule, Key: "inventory", Status: report.Discharged, Why: fmt.Sprintf("%d type switches with several scalar arms and a parser in %v", n, pkgs)})
	return out
}

// KEYDFLT (C09, C11): two entries of a unique list are the same entry when their keys are equal, and the keys are
// computed before defaults are applied. An attribute that takes part in the key and has a documented default
// (the transform.defaultValues handler registered for the items of the same list stores a constant under it when
// it is absent) must therefore enter the key with that default when it is absent: read with the presence flag and
// replaced by the same constant. Otherwise the implicit and the explicit spelling of one entry get different keys,
// both survive the merge, and the defaults then make them identical: the entry is there twice.
func (c *Ctx) KEYDFLT(rule string) []report.Obligation {
	var out []report.Obligation
	uniq := c.table(rule, TUnique, &out)
	dfl := c.table(rule, TDefaults, &out)
	if uniq == nil || dfl == nil {
		return out
	}
	n := 0
	for _, ur := range uniq.Rows {
		if ur.Fn == nil {
			continue
		}
		var dr *tab.Row
		for i := range dfl.Rows {
			if p := dfl.Rows[i].Pattern; p == ur.Pattern+".*" || p == ur.Pattern+".[]" {
				dr = &dfl.Rows[i]
			}
		}
		if dr == nil || dr.Fn == nil {
			continue
		}
		// the defaults of the item: v[K] = const on the absent edge
		defaults := map[string]string{}
		for _, b := range dr.Fn.Blocks {
			for _, in := range b.Instrs {
				mu, ok := in.(*ssa.MapUpdate)
				if !ok {
					continue
				}
				k, isK := prog.ConstString(mu.Key)
				v := mu.Value
				if mi, isMI := v.(*ssa.MakeInterface); isMI {
					v = mi.X
				}
				d, isD := prog.ConstString(v)
				if isK && isD {
					defaults[k] = d
				}
			}
		}
		// ... or through a set-if-absent helper of the package: setDefault(m, "protocol", "tcp")
		for _, cs := range callSites(dr.Fn, func(com *ssa.CallCommon) bool {
			cal := com.StaticCallee()
			return cal != nil && c.P.InModule(cal) && strings.HasPrefix(c.P.FuncID(cal), "transform.") && cal.Blocks != nil
		}) {
			h := cs.Common().StaticCallee()
			for _, hb := range h.Blocks {
				for _, hin := range hb.Instrs {
					mu, ok := hin.(*ssa.MapUpdate)
					if !ok {
						continue
					}
					ki, vi := -1, -1
					for i, pa := range h.Params {
						if mu.Key == ssa.Value(pa) {
							ki = i
						}
						if mu.Value == ssa.Value(pa) {
							vi = i
						}
					}
					if ki < 0 || vi < 0 || ki >= len(cs.Common().Args) || vi >= len(cs.Common().Args) {
						continue
					}
					k, isK := prog.ConstString(cs.Common().Args[ki])
					v := cs.Common().Args[vi]
					if mi, isMI := v.(*ssa.MakeInterface); isMI {
						v = mi.X
					}
					if d, isD := prog.ConstString(v); isK && isD {
						defaults[k] = d
					}
				}
			}
		}
		// what the indexer (and the helpers it calls) reads
		fns := []*ssa.Function{ur.Fn}
		for _, cs := range callSites(ur.Fn, func(com *ssa.CallCommon) bool {
			cal := com.StaticCallee()
			return cal != nil && c.P.InModule(cal) && strings.HasPrefix(c.P.FuncID(cal), "override.")
		}) {
			fns = append(fns, cs.Common().StaticCallee())
		}
		var keys []string
		for k := range defaults {
			keys = append(keys, k)
		}
		sort.Strings(keys)
		for _, k := range keys {
			d := defaults[k]
			read, withDefault := false, false
			for _, g := range fns {
				for _, b := range g.Blocks {
					for _, in := range b.Instrs {
						switch x := in.(type) {
						case *ssa.Lookup:
							if kk, _ := prog.ConstString(x.Index); kk != k {
								continue
							}
							read = true
							if !x.CommaOk {
								continue
							}
							// the value used is phi(looked-up value, the default)
							for _, r := range *x.Referrers() {
								ex, isE := r.(*ssa.Extract)
								if !isE || ex.Index != 0 {
									continue
								}
								for _, u := range *ex.Referrers() {
									if phi, isPhi := u.(*ssa.Phi); isPhi {
										for _, e := range phi.Edges {
											if mi, isMI := e.(*ssa.MakeInterface); isMI {
												e = mi.X
											}
											if dv, isC := prog.ConstString(e); isC && dv == d {
												withDefault = true
											}
										}
									}
								}
							}
						case *ssa.Call:
							// attributeOrDefault(item, "protocol", "tcp")
							hasK, hasD := false, false
							for _, a := range x.Call.Args {
								if mi, isMI := a.(*ssa.MakeInterface); isMI {
									a = mi.X
								}
								if sv, isC := prog.ConstString(a); isC {
									if sv == k {
										hasK = true
									} else if sv == d {
										hasD = true
									}
								}
							}
							if hasK {
								read = true
								if hasD {
									withDefault = true
								}
							}
						}
					}
				}
			}
			if !read {
				continue // the attribute takes no part in the key
			}
			n++
			out = append(out, verdict(withDefault, rule, TUnique+" :: "+ur.Pattern+" key uses the default of "+k, ur.Pos,
				fmt.Sprintf("%s reads %q with the presence flag and falls back to %q, the default %s stores", ur.Func, k, d, dr.Func),
				fmt.Sprintf("%s puts %q into the key as written, but %s gives it the default %q when absent: an entry that leaves it implicit and one that spells it out get different keys and both survive the merge", ur.Func, k, dr.Func, d)))
		}
	}
	if n == 0 {
		out = append(out, bad(rule, TUnique+" :: keys over defaulted attributes", "", "no indexer reads an attribute that has a default: the rule sees nothing"))
	}
	return out
}

// CHKCAST (C10): the validation checks look at typed values (`external` must be the boolean true to conflict with
// creation parameters). A value written as `${VAR}` is a string until the interpolation cast table converts it, so
// every attribute a check of validation.checks tests as a boolean / number (type assertion, or comparison with a
// typed constant, on the value looked up under a constant key) has a cast row matching <pattern of the check>.<key>.
// Without the row the check sees a string, lets the model pass, and the decoder then converts the string: a model
// the checks were meant to refuse is loaded.
func (c *Ctx) CHKCAST(rule string) []report.Obligation {
	var out []report.Obligation
	checks := c.table(rule, TChecks, &out)
	cast := c.table(rule, TCast, &out)
	if checks == nil || cast == nil {
		return out
	}
	n := 0
	for _, r := range checks.Rows {
		if r.Fn == nil {
			continue
		}
		fns := []*ssa.Function{r.Fn}
		seen := map[*ssa.Function]bool{r.Fn: true}
		for i := 0; i < len(fns) && i < 12; i++ {
			for _, cs := range callSites(fns[i], func(com *ssa.CallCommon) bool {
				cal := com.StaticCallee()
				return cal != nil && c.P.InModule(cal) && strings.HasPrefix(c.P.FuncID(cal), "validation.")
			}) {
				if g := cs.Common().StaticCallee(); !seen[g] {
					seen[g] = true
					fns = append(fns, g)
				}
			}
		}
		typed := map[string]string{} // key -> how it is tested
		for _, g := range fns {
			for _, b := range g.Blocks {
				for _, in := range b.Instrs {
					switch x := in.(type) {
					case *ssa.TypeAssert:
						bt, isB := x.AssertedType.Underlying().(*types.Basic)
						if !isB || bt.Info()&(types.IsBoolean|types.IsNumeric) == 0 {
							continue
						}
						if lk := lookupOf(x.X, 3); lk != nil {
							if k, isC := prog.ConstString(lk.Index); isC {
								typed[k] = "asserted to " + bt.Name()
							}
						}
					case *ssa.BinOp:
						if x.Op != token.EQL && x.Op != token.NEQ {
							continue
						}
						for _, side := range [][2]ssa.Value{{x.X, x.Y}, {x.Y, x.X}} {
							mi, isMI := side[1].(*ssa.MakeInterface)
							if !isMI {
								continue
							}
							if _, isBool := constBool(mi.X); !isBool {
								continue
							}
							if lk := lookupOf(side[0], 3); lk != nil {
								if k, isC := prog.ConstString(lk.Index); isC {
									typed[k] = "compared with a boolean constant"
								}
							}
						}
					}
				}
			}
		}
		var keys []string
		for k := range typed {
			keys = append(keys, k)
		}
		sort.Strings(keys)
		for _, k := range keys {
			n++
			path := r.Pattern + "." + k
			row := c.findRow(cast, path)
			out = append(out, verdict(row != nil, rule, TChecks+" :: "+path+" is typed before it is checked", r.Pos,
				fmt.Sprintf("%s is %s by the check; cast row present", k, typed[k]),
				fmt.Sprintf("the check %s tests %q as a typed value (%s) but no row of the interpolation cast table matches %s: written as `${VAR}` it is still a string when the check runs, the check lets it pass, and the decoder converts it afterwards", r.Func, k, typed[k], path)))
		}
	}
	if n == 0 {
		out = append(out, bad(rule, TChecks+" :: typed attributes", "", "no check tests a looked-up attribute as a typed value: the rule sees nothing"))
	}
	return out
}

// KEYABS (C04): entries of a keyed list given in two spellings collapse when both spellings produce the same
// key. The mount indexers are made by a factory that receives the default directory ("/run/secrets" for secrets,
// "" - the root - for configs). A key built with path.Join(dir, name) loses the leading slash when dir is "":
// the short spelling is then keyed `name`, the explicit absolute target `/name`, and both entries survive. Where
// an indexer made by a factory joins the factory's directory argument with path.Join / filepath.Join, no row of
// the table passes the empty string for it.
func (c *Ctx) KEYABS(rule string) []report.Obligation {
	var out []report.Obligation
	uniq := c.table(rule, TUnique, &out)
	if uniq == nil {
		return out
	}
	n := 0
	for _, r := range uniq.Rows {
		if r.Fn == nil || r.Fn.Parent() == nil || len(r.Args) == 0 {
			continue
		}
		factory := r.Fn.Parent()
		for _, cs := range callSites(r.Fn, func(com *ssa.CallCommon) bool {
			sn := staticName(com)
			return sn == "path.Join" || sn == "path/filepath.Join"
		}) {
			sl, ok := cs.Common().Args[0].(*ssa.Slice)
			if !ok {
				continue
			}
			al, ok := sl.X.(*ssa.Alloc)
			if !ok {
				continue
			}
			for _, ar := range *al.Referrers() {
				ia, isIA := ar.(*ssa.IndexAddr)
				if !isIA {
					continue
				}
				if k, _ := constInt(ia.Index); k != 0 {
					continue
				}
				for _, rr := range *ia.Referrers() {
					st, isSt := rr.(*ssa.Store)
					if !isSt || st.Addr != ssa.Value(ia) {
						continue
					}
					// the first element is the factory's parameter (captured)
					v := st.Val
					if ld, isLd := v.(*ssa.UnOp); isLd {
						v = ld.X
					}
					fv, isFV := v.(*ssa.FreeVar)
					if !isFV {
						continue
					}
					for i, ffv := range r.Fn.FreeVars {
						if ffv != fv {
							continue
						}
						_ = i
						for pi, pa := range factory.Params {
							if pa.Name() == fv.Name() && pi < len(r.Args) {
								n++
								out = append(out, verdict(r.Args[pi] != "", rule, TUnique+" :: "+r.Pattern+" key joined to a non-empty directory", cs.Parent().Prog.Fset.Position(cs.Pos()).String(),
									"the directory the key is joined to is "+fmt.Sprintf("%q", r.Args[pi]), "the key is built with Join(dir, name) and this row passes the empty string for dir: Join drops it, the short spelling is keyed `name` while an explicit absolute target is keyed `/name`, so the two spellings of one mount do not collapse"))
							}
						}
					}
				}
			}
		}
	}
	out = append(out, report.Obligation{Rule: rule, Key: "inventory", Status: report.Discharged, Why: fmt.Sprintf("%d keys joined to a factory argument", n)})
	return out
}

// OMITDFLT (C09): a default that is not the zero value of its field, on a field rendered with omitempty, cannot
// survive a round trip when the user wrote the zero value: the renderer drops `false` / `0`, and the reload puts
// the default back. For every constant a defaults handler stores under a key (protocol: tcp, mode: ingress,
// create_host_path: true, ...), the model field at that position is either not omitempty, or its zero value is not
// something a user can mean (a string default: the empty string is no protocol), i.e. the field is a string.
func (c *Ctx) OMITDFLT(rule string) []report.Obligation {
	var out []report.Obligation
	d := c.tab()
	if d.err != nil {
		return c.tabErr(rule)
	}
	dfl := c.table(rule, TDefaults, &out)
	if dfl == nil {
		return out
	}
	n := 0
	for _, r := range dfl.Rows {
		if r.Fn == nil {
			continue
		}
		fns := []*ssa.Function{r.Fn}
		for _, cs := range callSites(r.Fn, func(com *ssa.CallCommon) bool {
			cal := com.StaticCallee()
			return cal != nil && c.P.InModule(cal) && strings.HasPrefix(c.P.FuncID(cal), "transform.") && cal.Blocks != nil
		}) {
			fns = append(fns, cs.Common().StaticCallee())
		}
		for _, g := range fns {
			for _, b := range g.Blocks {
				for _, in := range b.Instrs {
					mu, ok := in.(*ssa.MapUpdate)
					if !ok {
						continue
					}
					k, isK := prog.ConstString(mu.Key)
					v := mu.Value
					if mi, isMI := v.(*ssa.MakeInterface); isMI {
						v = mi.X
					}
					cst, isC := v.(*ssa.Const)
					if !isK || !isC || cst.Value == nil {
						continue
					}
					// the model field at <pattern>.<key>
					path := strings.ReplaceAll(r.Pattern, ".[]", ".*") + "." + k
					var mn *tab.ModelNode
					for _, mp := range d.model.Paths() {
						if tab.MatchPattern(mp, path) || mp == path {
							mn = d.model.Nodes[mp]
							break
						}
					}
					if mn == nil || mn.Owner == "" {
						continue
					}
					n++
					kind := goScalarKind(mn.Type)
					omit := c.fieldOmitEmpty(mn.Owner)
					good := !omit || kind == "string" || kind == ""
					out = append(out, verdict(good, rule, TDefaults+" :: "+path+" default survives a round trip", c.P.InstrPos(mu),
						fmt.Sprintf("field %s (%s, omitempty=%v) defaulted to %s", mn.Owner, kind, omit, cst.Value.ExactString()),
						fmt.Sprintf("%s is a %s rendered with omitempty and defaulted to %s: an explicit zero value (false / 0) is dropped by the renderer and the reload puts the default back, so the reloaded project differs from the one rendered", mn.Owner, kind, cst.Value.ExactString())))
				}
			}
		}
	}
	if n == 0 {
		out = append(out, bad(rule, TDefaults+" :: constant defaults", "", "no constant default found: the rule sees nothing"))
	}
	return out
}

// fieldOmitEmpty: the yaml tag of the struct field "types.T.F" carries omitempty.
func (c *Ctx) fieldOmitEmpty(owner string) bool {
	parts := strings.Split(owner, ".")
	if len(parts) != 3 {
		return false
	}
	pk := c.P.PkgByRel[parts[0]]
	if pk == nil {
		return false
	}
	obj := pk.Types.Scope().Lookup(parts[1])
	if obj == nil {
		return false
	}
	st, ok := obj.Type().Underlying().(*types.Struct)
	if !ok {
		return false
	}
	for i := 0; i < st.NumFields(); i++ {
		if st.Field(i).Name() == parts[2] {
			tag := reflect.StructTag(st.Tag(i)).Get("yaml")
			for _, o := range strings.Split(tag, ",")[1:] {
				if o == "omitempty" {
					return true
				}
			}
		}
	}
	return false
}
