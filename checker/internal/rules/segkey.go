package rules

import (
	"fmt"
	"go/constant"
	"go/token"
	"go/types"
	"reflect"
	"sort"
	"strings"

	"golang.org/x/tools/go/ssa"

	"verifcheck/internal/prog"
	"verifcheck/internal/report"
	"verifcheck/internal/tab"
)

// ---------------------------------------------------------------------------
// IDXKEY: the key that removes duplicates from a sequence is computed on the
// raw entries, before short forms are converted. For an attribute whose short
// form is split into segments, the key of the short spelling must be made of
// the very segments the canonical transformer stores under the attribute the
// key of the long spelling reads; otherwise `a:b:rw` and {source: a, target:
// b} are told apart (or two different entries collapse).
//
// Both functions are evaluated in one small domain: the whole short string,
// segment k / the last segment / the rest from segment k of a split on a
// separator (strings.Split + index, strings.Cut chains), an attribute read
// from the mapping, a constant. Anything else is "cannot tell" and fails.
// ---------------------------------------------------------------------------

type segEval struct {
	c     *Ctx
	at    *ssa.BasicBlock // where the value is used: facts known there refine "the whole string"
	seen  map[ssa.Value]bool
	out   map[string]bool
	depth int
}

func isStringsCall(v ssa.Value, name string) *ssa.Call {
	call, ok := v.(*ssa.Call)
	if !ok || staticName(call.Common()) != "strings."+name {
		return nil
	}
	return call
}

func constStr(v ssa.Value) (string, bool) {
	k, ok := v.(*ssa.Const)
	if !ok || k.Value == nil || k.Value.Kind() != constant.String {
		return "", false
	}
	return constant.StringVal(k.Value), true
}

// short: the value is the short-form string itself (the `any` parameter asserted to string)
func isShortString(v ssa.Value) bool {
	for i := 0; i < 4; i++ {
		switch x := v.(type) {
		case *ssa.Extract:
			v = x.Tuple
		case *ssa.TypeAssert:
			if _, isParam := x.X.(*ssa.Parameter); isParam {
				b, ok := x.AssertedType.Underlying().(interface{ Kind() int })
				_ = b
				_ = ok
				return x.AssertedType.String() == "string"
			}
			return false
		default:
			return false
		}
	}
	return false
}

// rest evaluates a string that is a suffix of the short form: "" when it is the whole string, k>0 for `after`
// of the k-th Cut; -1 when it is something else.
func (e *segEval) restOf(v ssa.Value) (int, string) {
	if isShortString(v) {
		return 0, ""
	}
	if ex, ok := v.(*ssa.Extract); ok && ex.Index == 1 {
		if call := isStringsCall(ex.Tuple, "Cut"); call != nil {
			sep, _ := constStr(call.Call.Args[1])
			k, s0 := e.restOf(call.Call.Args[0])
			if k >= 0 && (s0 == "" || s0 == sep) {
				return k + 1, sep
			}
		}
	}
	return -1, ""
}

// whole: the short string itself; where the separator is known to be absent it is segment 0
func (e *segEval) whole() {
	if e.at != nil {
		for _, f := range prog.DominatingFacts(e.at) {
			if f.Val {
				continue
			}
			var call *ssa.Call
			if ex, ok := f.Cond.(*ssa.Extract); ok && ex.Index == 2 {
				call = isStringsCall(ex.Tuple, "Cut")
			} else {
				call = isStringsCall(f.Cond, "Contains")
			}
			if call != nil && isShortString(call.Call.Args[0]) {
				if sep, ok := constStr(call.Call.Args[1]); ok {
					e.out[fmt.Sprintf("segment 0 of a split on %q", sep)] = true
					return
				}
			}
		}
	}
	e.out["whole"] = true
}

// helper: the value is result idx of a module helper; what the helper returns is evaluated in its own body
// (attribute reads of the mapping it was handed come out as such).
func (e *segEval) helper(call *ssa.Call, idx int) bool {
	cal := call.Call.StaticCallee()
	if cal == nil || cal.Blocks == nil || !e.c.P.InModule(cal) || e.depth >= 2 {
		return false
	}
	e.depth++
	saved := e.at
	for _, b := range cal.Blocks {
		if ret, ok := b.Instrs[len(b.Instrs)-1].(*ssa.Return); ok && idx < len(ret.Results) {
			e.at = b
			e.eval(ret.Results[idx])
		}
	}
	e.at = saved
	e.depth--
	return true
}

func (e *segEval) eval(v ssa.Value) {
	if e.seen[v] {
		return
	}
	e.seen[v] = true
	switch x := v.(type) {
	case *ssa.Phi:
		for _, ed := range x.Edges {
			e.eval(ed)
		}
		return
	case *ssa.Const:
		if s, ok := constStr(x); ok {
			e.out[fmt.Sprintf("const %q", s)] = true
			return
		}
	case *ssa.MakeInterface:
		e.eval(x.X)
		return
	case *ssa.ChangeType:
		e.eval(x.X)
		return
	case *ssa.TypeAssert:
		if isShortString(x) {
			e.whole()
			return
		}
		e.eval(x.X)
		return
	case *ssa.Extract:
		if isShortString(x) {
			e.whole()
			return
		}
		if call := isStringsCall(x.Tuple, "Cut"); call != nil && x.Index <= 1 {
			sep, _ := constStr(call.Call.Args[1])
			k, s0 := e.restOf(call.Call.Args[0])
			if k >= 0 && (s0 == "" || s0 == sep) {
				if x.Index == 0 {
					e.out[fmt.Sprintf("segment %d of a split on %q", k, sep)] = true
				} else {
					e.out[fmt.Sprintf("rest from segment %d of a split on %q", k+1, sep)] = true
				}
				return
			}
		}
		if _, isTA := x.Tuple.(*ssa.TypeAssert); isTA && x.Index == 0 {
			e.eval(x.Tuple)
			return
		}
		if call, isCall := x.Tuple.(*ssa.Call); isCall && e.helper(call, x.Index) {
			return
		}
		if lk, isLk := x.Tuple.(*ssa.Lookup); isLk && x.Index == 0 {
			e.eval(lk)
			return
		}
	case *ssa.Call:
		if e.helper(x, 0) {
			return
		}
	case *ssa.Lookup:
		if k, ok := constStr(x.Index); ok {
			e.out["attribute "+k] = true
			return
		}
	case *ssa.UnOp:
		if x.Op == token.MUL {
			if ia, ok := x.X.(*ssa.IndexAddr); ok {
				if call := isStringsCall(ia.X, "Split"); call != nil && isShortString(call.Call.Args[0]) {
					sep, _ := constStr(call.Call.Args[1])
					if k, ok := constInt(ia.Index); ok {
						e.out[fmt.Sprintf("segment %d of a split on %q", k, sep)] = true
						return
					}
					if bo, ok := ia.Index.(*ssa.BinOp); ok && bo.Op == token.SUB {
						if one, ok := constInt(bo.Y); ok && one == 1 {
							if ln, ok := bo.X.(*ssa.Call); ok {
								if b, isB := ln.Call.Value.(*ssa.Builtin); isB && b.Name() == "len" && ln.Call.Args[0] == ia.X {
									e.out[fmt.Sprintf("last segment of a split on %q", sep)] = true
									return
								}
							}
						}
					}
				}
			}
		}
	}
	e.out["cannot tell: "+e.c.P.KeyTerm(v, 2)] = true
}

func (c *Ctx) segSet(vals []ssa.Value, at []*ssa.BasicBlock) []string {
	e := &segEval{c: c, out: map[string]bool{}}
	for i, v := range vals {
		e.seen = map[ssa.Value]bool{}
		e.at = at[i]
		e.eval(v)
	}
	var out []string
	for k := range e.out {
		out = append(out, k)
	}
	sort.Strings(out)
	return out
}

func (c *Ctx) IDXKEY(rule string) []report.Obligation {
	var out []report.Obligation
	uniq := c.table(rule, TUnique, &out)
	trans := c.table(rule, TTransform, &out)
	if uniq == nil || trans == nil {
		return out
	}
	n := 0
	for _, ur := range uniq.Rows {
		if ur.Fn == nil {
			continue
		}
		var tr *tab.Row
		for i := range trans.Rows {
			if trans.Rows[i].Pattern == ur.Pattern+".*" {
				tr = &trans.Rows[i]
			}
		}
		if tr == nil || tr.Fn == nil {
			continue
		}
		// what the indexer returns
		var rets []ssa.Value
		var retAt []*ssa.BasicBlock
		for _, b := range ur.Fn.Blocks {
			if ret, ok := b.Instrs[len(b.Instrs)-1].(*ssa.Return); ok && len(ret.Results) > 0 {
				rets = append(rets, ret.Results[0])
				retAt = append(retAt, b)
			}
		}
		var attrs, shortKey []string
		undecided := false
		for _, s := range c.segSet(rets, retAt) {
			switch {
			case strings.HasPrefix(s, "attribute "):
				attrs = append(attrs, strings.TrimPrefix(s, "attribute "))
			case strings.HasPrefix(s, "const "):
			case strings.HasPrefix(s, "cannot tell"):
				undecided = true
			default:
				shortKey = append(shortKey, s)
			}
		}
		// only pairs whose short form is taken apart by position are in scope
		segmented := false
		for _, s := range shortKey {
			if strings.Contains(s, "segment") {
				segmented = true
			}
		}
		if !segmented || len(attrs) != 1 {
			continue
		}
		n++
		key := TUnique + " :: " + ur.Pattern + " short-form key == what " + tr.Func + " stores under `" + attrs[0] + "`"
		// what the transformer stores under that attribute
		var stored []ssa.Value
		var storedAt []*ssa.BasicBlock
		for _, b := range tr.Fn.Blocks {
			for _, in := range b.Instrs {
				if mu, ok := in.(*ssa.MapUpdate); ok {
					if k, isK := constStr(stripMI(mu.Key)); isK && k == attrs[0] {
						stored = append(stored, mu.Value)
						storedAt = append(storedAt, b)
					}
				}
			}
		}
		var longVal []string
		for _, s := range c.segSet(stored, storedAt) {
			switch {
			case strings.HasPrefix(s, "const "):
			case strings.HasPrefix(s, "cannot tell"):
				undecided = true
				longVal = append(longVal, s)
			default:
				longVal = append(longVal, s)
			}
		}
		switch {
		case len(stored) == 0:
			out = append(out, bad(rule, key, tr.Pos, "the transformer stores nothing under `"+attrs[0]+"`"))
		case undecided:
			out = append(out, bad(rule, key, ur.Pos, "cannot tell which part of the short form is used: key = "+strings.Join(shortKey, " | ")+"; stored = "+strings.Join(longVal, " | ")))
		case strings.Join(shortKey, "|") != strings.Join(longVal, "|"):
			out = append(out, bad(rule, key, ur.Pos, "the short spelling is keyed by {"+strings.Join(shortKey, ", ")+"} while its long form carries {"+strings.Join(longVal, ", ")+"} under `"+attrs[0]+"`, which is what the long spelling is keyed by: the two spellings of one entry are told apart, or different entries collapse"))
		default:
			out = append(out, ok(rule, key, ur.Pos, "both are {"+strings.Join(shortKey, ", ")+"}"))
		}
	}
	c.Stats[rule+".pairs"] = n
	if n == 0 {
		out = append(out, bad(rule, TUnique+" :: indexers that take a short form apart", "", "no indexer / transformer pair found: the rule sees nothing"))
	}
	return out
}

// ---------------------------------------------------------------------------
// LOADERDIR: ResourceLoader.Dir answers "which directory do the relative paths
// of this file resolve against" (ApplyInclude and the extends loader use the
// answer as the working directory of the nested model). Every value an
// implementation returns is computed from filepath.Dir of its argument, or
// from the argument on an edge where an is-a-directory test of it succeeded;
// the raw argument (a file) is never handed back.
// ---------------------------------------------------------------------------

func (c *Ctx) isDirTest(fn *ssa.Function, depth int) bool {
	if fn == nil || fn.Blocks == nil || depth > 2 {
		return false
	}
	for _, b := range fn.Blocks {
		for _, in := range b.Instrs {
			ci, ok := in.(ssa.CallInstruction)
			if !ok {
				continue
			}
			com := ci.Common()
			if com.IsInvoke() && com.Method.Name() == "IsDir" {
				return true
			}
			if cal := com.StaticCallee(); cal != nil && c.P.InModule(cal) && c.isDirTest(cal, depth+1) {
				return true
			}
		}
	}
	return false
}

// dirState: "dir" (computed from a directory), "raw" (the argument as given), "" (neither: constants, fields)
func (c *Ctx) dirState(v ssa.Value, seen map[ssa.Value]bool) string {
	if seen[v] {
		return ""
	}
	seen[v] = true
	switch x := v.(type) {
	case *ssa.Parameter:
		if x.Parent().Signature.Recv() != nil && x == x.Parent().Params[0] {
			return ""
		}
		return "raw"
	case *ssa.Extract:
		return c.dirState(x.Tuple, seen)
	case *ssa.Phi:
		res := ""
		for i, ed := range x.Edges {
			st := c.dirState(ed, seen)
			if st == "raw" {
				pred := x.Block().Preds[i]
				facts := append(prog.DominatingFacts(pred), prog.EdgeFacts(pred, x.Block())...)
				for _, f := range facts {
					if call, ok := f.Cond.(*ssa.Call); ok && f.Val && c.isDirTest(call.Call.StaticCallee(), 0) {
						for _, a := range call.Call.Args {
							if a == ed {
								st = "dir"
							}
						}
					}
				}
			}
			if st == "raw" {
				return "raw"
			}
			if st == "dir" {
				res = "dir"
			}
		}
		return res
	case *ssa.Call:
		sn := staticName(x.Common())
		if sn == "path/filepath.Dir" || sn == "path.Dir" {
			return "dir"
		}
		res := ""
		for _, a := range x.Call.Args {
			switch c.dirState(a, seen) {
			case "raw":
				return "raw"
			case "dir":
				res = "dir"
			}
		}
		return res
	case *ssa.BinOp:
		a, b := c.dirState(x.X, seen), c.dirState(x.Y, seen)
		if a == "raw" || b == "raw" {
			return "raw"
		}
		if a == "dir" || b == "dir" {
			return "dir"
		}
	case *ssa.Slice:
		return c.dirState(x.X, seen)
	}
	return ""
}

func (c *Ctx) LOADERDIR(rule string) []report.Obligation {
	var out []report.Obligation
	n := 0
	for _, fn := range c.P.Funcs {
		if fn.Name() != "Dir" || fn.Signature.Recv() == nil || fn.Blocks == nil || fn.Signature.Params().Len() != 1 || fn.Signature.Results().Len() != 1 {
			continue
		}
		if !hasMethods(fn.Signature.Recv().Type(), "Accept", "Load", "Dir") {
			continue
		}
		n++
		for _, b := range fn.Blocks {
			ret, ok := b.Instrs[len(b.Instrs)-1].(*ssa.Return)
			if !ok {
				continue
			}
			key := c.P.FuncID(fn) + " :: returns " + c.P.KeyTerm(ret.Results[0], 2)
			st := c.dirState(ret.Results[0], map[ssa.Value]bool{})
			out = append(out, verdict(st != "raw", rule, key, c.P.InstrPos(ret),
				"computed from filepath.Dir of the argument, or from the argument where the is-a-directory test succeeded",
				"this return hands back the argument as given: for a file it is the file, not its directory, and the nested model resolves its relative paths against <dir>/<file>/"))
		}
	}
	c.Stats[rule+".implementations"] = n
	if n == 0 {
		out = append(out, anchorViolation(rule, "a resource loader with a Dir method"))
	}
	return out
}

func hasMethods(t types.Type, names ...string) bool {
	ms := types.NewMethodSet(t)
	for _, n := range names {
		found := false
		for i := 0; i < ms.Len(); i++ {
			if ms.At(i).Obj().Name() == n {
				found = true
			}
		}
		if !found {
			return false
		}
	}
	return true
}

// ---------------------------------------------------------------------------
// FIRSTERR: a callback that a library invokes once per match / element and
// that saves its failure in a variable of the enclosing function keeps the
// FIRST failure: the store is only reached while the variable is still nil.
// Otherwise a later failure replaces the one the reader meets first, and the
// error no longer names the variable that made the input invalid.
// ---------------------------------------------------------------------------

func (c *Ctx) FIRSTERR(rule string, pkgs ...string) []report.Obligation {
	var out []report.Obligation
	n := 0
	for _, fn := range c.P.Funcs {
		if fn.Blocks == nil {
			continue
		}
		id := c.P.FuncID(fn)
		in := false
		for _, p := range pkgs {
			if strings.HasPrefix(id, p) {
				in = true
			}
		}
		if !in {
			continue
		}
		type cell struct {
			addr ssa.Value
			name string
		}
		var cells []cell
		for _, fv := range fn.FreeVars {
			if pt, ok := fv.Type().(*types.Pointer); ok && isErrorType(pt.Elem()) {
				cells = append(cells, cell{fv, fv.Name() + " of the enclosing function"})
			}
		}
		if fn.Signature.Recv() != nil && len(fn.Params) > 0 {
			for _, b := range fn.Blocks {
				for _, in2 := range b.Instrs {
					if fa, ok := in2.(*ssa.FieldAddr); ok && fa.X == ssa.Value(fn.Params[0]) {
						if pt, ok := fa.Type().(*types.Pointer); ok && isErrorType(pt.Elem()) {
							cells = append(cells, cell{fa, "field " + fa.X.Type().Underlying().(*types.Pointer).Elem().Underlying().(*types.Struct).Field(fa.Field).Name() + " of its receiver"})
						}
					}
				}
			}
		}
		for _, cl := range cells {
			fv := cl.addr
			for _, r := range *fv.Referrers() {
				st, ok := r.(*ssa.Store)
				if !ok || st.Addr != fv {
					continue
				}
				if prog.IsNilConst(st.Val) {
					continue
				}
				n++
				guarded := factHolds(st.Block(), func(cond ssa.Value, val bool) bool {
					bo, ok := cond.(*ssa.BinOp)
					if !ok {
						return false
					}
					var other ssa.Value
					switch {
					case prog.IsNilConst(bo.Y):
						other = bo.X
					case prog.IsNilConst(bo.X):
						other = bo.Y
					default:
						return false
					}
					ld, ok := other.(*ssa.UnOp)
					if !ok || ld.Op != token.MUL || !sameAddr(ld.X, fv) {
						return false
					}
					return (bo.Op == token.EQL && val) || (bo.Op == token.NEQ && !val)
				})
				key := id + " :: saves its error in " + cl.name
				out = append(out, verdict(guarded, rule, key, c.P.InstrPos(st),
					"stored only while the variable is nil: the first failure is the one reported",
					"the store is not under a test that the variable is still nil: each failing invocation replaces the saved error, so the failure reported is the last one met, not the first"))
			}
		}
	}
	c.Stats[rule+".stores"] = n
	return out
}

// ---------------------------------------------------------------------------
// PARSEWIDTH: strconv.ParseInt / ParseUint / ParseFloat reject what does not
// fit bitSize. The size asked for is at least the width of the type the
// result is used as: the int64 / float64 returned when it is used as it is,
// the target of the conversion when it is converted first. A smaller size
// turns representable values into errors.
// ---------------------------------------------------------------------------

func typeBits(t types.Type) int {
	b, ok := t.Underlying().(*types.Basic)
	if !ok {
		return 0
	}
	switch b.Kind() {
	case types.Int8, types.Uint8:
		return 8
	case types.Int16, types.Uint16:
		return 16
	case types.Int32, types.Uint32, types.Float32:
		return 32
	case types.Int64, types.Uint64, types.Float64, types.Int, types.Uint, types.Uintptr:
		return 64
	}
	return 0
}

func (c *Ctx) PARSEWIDTH(rule string) []report.Obligation {
	var out []report.Obligation
	n := 0
	for _, fn := range c.P.Funcs {
		for _, cs := range callSites(fn, func(com *ssa.CallCommon) bool {
			switch staticName(com) {
			case "strconv.ParseInt", "strconv.ParseUint", "strconv.ParseFloat":
				return true
			}
			return false
		}) {
			call, ok := cs.(*ssa.Call)
			if !ok {
				continue
			}
			n++
			args := call.Call.Args
			key := c.P.FuncID(fn) + " :: size asked of " + staticName(call.Common())
			// need: the widest type the value is used as
			var needOf func(v ssa.Value, depth int) (int, string)
			needOf = func(v ssa.Value, depth int) (int, string) {
				need, what := 0, ""
				upd := func(w int, s string) {
					if w > need {
						need, what = w, s
					}
				}
				for _, r := range *v.Referrers() {
					switch x := r.(type) {
					case *ssa.Extract:
						if x.Index == 0 {
							upd(needOf(x, depth))
						}
					case *ssa.Convert:
						upd(typeBits(x.Type()), "converted to "+c.P.TypeStr(x.Type()))
					case *ssa.Phi:
						if depth < 3 {
							upd(needOf(x, depth+1))
						}
					case *ssa.DebugRef:
					case *ssa.Return:
						if _, isTuple := v.Type().(*types.Tuple); isTuple {
							upd(64, "returned as it is")
						} else {
							upd(typeBits(v.Type()), "used as "+c.P.TypeStr(v.Type()))
						}
					default:
						upd(typeBits(v.Type()), "used as "+c.P.TypeStr(v.Type()))
					}
				}
				return need, what
			}
			sizeArg := args[len(args)-1]
			if pa, isParam := sizeArg.(*ssa.Parameter); isParam && fn.Signature.Results().Len() > 0 {
				// a helper that takes the size from its callers: each caller's size against what that caller does with
				// the helper's result
				idx := -1
				for i, p := range fn.Params {
					if p == pa {
						idx = i
					}
				}
				sites := 0
				for _, g := range c.P.Funcs {
					for _, cs2 := range callSites(g, func(com *ssa.CallCommon) bool { return com.StaticCallee() == fn }) {
						call2, ok := cs2.(*ssa.Call)
						if !ok || idx < 0 || idx >= len(call2.Call.Args) {
							continue
						}
						sites++
						k2 := c.P.FuncID(g) + " :: size passed to " + c.P.FuncID(fn) + " for " + staticName(call.Common())
						size, isConst := constInt(call2.Call.Args[idx])
						if !isConst {
							out = append(out, bad(rule, k2, c.P.InstrPos(call2), "the size is not a constant"))
							continue
						}
						if size == 0 {
							size = 64
						}
						need, what := needOf(call2, 0)
						out = append(out, verdict(int(size) >= need, rule, k2, c.P.InstrPos(call2),
							fmt.Sprintf("size %d, result %s", size, what),
							fmt.Sprintf("size %d asked, but the result is %s (%d bits): values that fit the type are rejected as out of range", size, what, need)))
					}
				}
				if sites == 0 {
					out = append(out, bad(rule, key, c.P.InstrPos(call), "the size is a parameter and no caller was found"))
				}
				continue
			}
			size, isConst := constInt(sizeArg)
			if !isConst {
				out = append(out, bad(rule, key, c.P.InstrPos(call), "the size is not a constant"))
				continue
			}
			if size == 0 {
				size = 64 // int
			}
			need, what := needOf(call, 0)
			out = append(out, verdict(int(size) >= need, rule, key, c.P.InstrPos(call),
				fmt.Sprintf("size %d, result %s", size, what),
				fmt.Sprintf("size %d asked, but the result is %s (%d bits): values that fit the type are rejected as out of range", size, what, need)))
		}
	}
	c.Stats[rule+".calls"] = n
	if n == 0 {
		out = append(out, anchorViolation(rule, "a call of strconv.ParseInt / ParseUint / ParseFloat"))
	}
	return out
}

// ---------------------------------------------------------------------------
// MARSHALMAP: a hand-written rendering that copies struct fields into a
// map[string]any under constant keys (Project.MarshalJSON) is a second,
// parallel description of the type. For every `m[K] = x.F`:
//   -key    K is the name F's json / yaml tag gives it;
//   -guard  when the store depends on `len(y.G) > 0` / `y.G != nil`, G is F and y is x;
//   -source all fields of one such map are read from ONE object (the copy the
//           marshal options were applied to, not the receiver).
// ---------------------------------------------------------------------------

type fieldRead struct {
	base  ssa.Value
	owner *types.Struct
	idx   int
}

func fieldLoad(v ssa.Value) (fieldRead, bool) {
	v = stripMI(v)
	ld, ok := v.(*ssa.UnOp)
	if !ok || ld.Op != token.MUL {
		return fieldRead{}, false
	}
	fa, ok := ld.X.(*ssa.FieldAddr)
	if !ok {
		return fieldRead{}, false
	}
	pt, ok := fa.X.Type().Underlying().(*types.Pointer)
	if !ok {
		return fieldRead{}, false
	}
	st, ok := pt.Elem().Underlying().(*types.Struct)
	if !ok {
		return fieldRead{}, false
	}
	return fieldRead{fa.X, st, fa.Field}, true
}

func tagNames(st *types.Struct, i int) []string {
	var out []string
	tag := reflect.StructTag(st.Tag(i))
	for _, k := range []string{"json", "yaml"} {
		if v, ok := tag.Lookup(k); ok {
			name, _, _ := strings.Cut(v, ",")
			if name != "" && name != "-" {
				out = append(out, name)
			}
		}
	}
	return out
}

func (c *Ctx) MARSHALMAP(rule string) []report.Obligation {
	var out []report.Obligation
	n := 0
	for _, fn := range c.P.Funcs {
		if fn.Blocks == nil || strings.HasPrefix(c.P.FuncID(fn), "types.deriveDeepCopy") {
			continue
		}
		type upd struct {
			mu  *ssa.MapUpdate
			key string
			fr  fieldRead
		}
		byMap := map[ssa.Value][]upd{}
		var order []ssa.Value
		for _, b := range fn.Blocks {
			for _, in := range b.Instrs {
				mu, ok := in.(*ssa.MapUpdate)
				if !ok {
					continue
				}
				k, isK := constStr(stripMI(mu.Key))
				fr, isF := fieldLoad(mu.Value)
				if !isK || !isF || len(tagNames(fr.owner, fr.idx)) == 0 {
					continue
				}
				if _, seen := byMap[mu.Map]; !seen {
					order = append(order, mu.Map)
				}
				byMap[mu.Map] = append(byMap[mu.Map], upd{mu, k, fr})
			}
		}
		for _, m := range order {
			us := byMap[m]
			if len(us) < 2 {
				continue // a single field copied into a map says nothing about a parallel description
			}
			id := c.P.FuncID(fn)
			bases := map[ssa.Value]bool{}
			for _, u := range us {
				n++
				bases[u.fr.base] = true
				fname := u.fr.owner.Field(u.fr.idx).Name()
				names := tagNames(u.fr.owner, u.fr.idx)
				match := false
				for _, nm := range names {
					if nm == u.key {
						match = true
					}
				}
				out = append(out, verdict(match, rule+"-key", id+" :: m[\""+u.key+"\"] = ."+fname, c.P.InstrPos(u.mu),
					"the key is the name the field's tag gives it", "field "+fname+" is named "+strings.Join(names, " / ")+" by its tags but is rendered under \""+u.key+"\""))
				// guards on another field of a struct
				for _, f := range prog.DominatingFacts(u.mu.Block()) {
					var g fieldRead
					found := false
					if bo, ok := f.Cond.(*ssa.BinOp); ok {
						for _, side := range []ssa.Value{bo.X, bo.Y} {
							if call, isCall := side.(*ssa.Call); isCall {
								if b, isB := call.Call.Value.(*ssa.Builtin); isB && b.Name() == "len" {
									if fr, ok := fieldLoad(call.Call.Args[0]); ok {
										g, found = fr, true
									}
								}
							}
							if fr, ok := fieldLoad(side); ok && (prog.IsNilConst(bo.X) || prog.IsNilConst(bo.Y)) {
								g, found = fr, true
							}
						}
					}
					if !found || g.owner != u.fr.owner {
						continue
					}
					gname := g.owner.Field(g.idx).Name()
					whyBad := "the section is rendered when ." + gname + " is non-empty, not when ." + fname + " is: it disappears from the output although it has entries (and appears empty when it has none)"
					if g.idx == u.fr.idx {
						whyBad = "the field tested and the field rendered belong to different objects"
					}
					out = append(out, verdict(g.idx == u.fr.idx && g.base == u.fr.base, rule+"-guard", id+" :: m[\""+u.key+"\"] = ."+fname+" is guarded by a test of ."+gname, c.P.InstrPos(u.mu),
						"the field tested is the field rendered", whyBad))
				}
			}
			out = append(out, verdict(len(bases) == 1, rule+"-source", id+" :: all fields rendered into "+c.P.KeyTerm(m, 1)+" come from one object", c.P.InstrPos(us[0].mu),
				fmt.Sprintf("%d fields, one source object", len(us)), "the fields are read from different objects: some bypass the copy the others are taken from (the one the marshal options were applied to)"))
		}
	}
	c.Stats[rule+".fields"] = n
	if n == 0 {
		out = append(out, anchorViolation(rule, "a map rendering of struct fields"))
	}
	return out
}

// ---------------------------------------------------------------------------
// SYMEVAL: the prefix of a path that is replaced by its link target is the
// prefix that was found to be a link: filepath.EvalSymlinks is applied to the
// very value whose is-a-symbolic-link test (a function built on os.Lstat)
// guards the call. Evaluating anything longer resolves the remainder too, and
// the caller, which substitutes the result for the prefix only, appends the
// remainder a second time.
// ---------------------------------------------------------------------------

func (c *Ctx) callsLstat(fn *ssa.Function, depth int) bool {
	if fn == nil || fn.Blocks == nil || depth > 2 {
		return false
	}
	for _, cs := range callSites(fn, func(com *ssa.CallCommon) bool { return true }) {
		com := cs.Common()
		if staticName(com) == "os.Lstat" {
			return true
		}
		if cal := com.StaticCallee(); cal != nil && c.P.InModule(cal) && c.callsLstat(cal, depth+1) {
			return true
		}
	}
	return false
}

func (c *Ctx) SYMEVAL(rule string) []report.Obligation {
	var out []report.Obligation
	n := 0
	for _, fn := range c.P.Funcs {
		for _, cs := range callSites(fn, func(com *ssa.CallCommon) bool { return staticName(com) == "path/filepath.EvalSymlinks" }) {
			n++
			arg := cs.Common().Args[0]
			key := c.P.FuncID(fn) + " :: EvalSymlinks of what was tested to be a link"
			tested, same := false, false
			for _, f := range prog.DominatingFacts(cs.Block()) {
				call, ok := f.Cond.(*ssa.Call)
				if !ok || !f.Val || !c.callsLstat(call.Call.StaticCallee(), 0) {
					continue
				}
				tested = true
				for _, a := range call.Call.Args {
					if a == arg {
						same = true
					}
				}
			}
			switch {
			case !tested:
				out = append(out, ok(rule, key, c.P.InstrPos(cs), "not under a link test: the whole path is resolved"))
			case same:
				out = append(out, ok(rule, key, c.P.InstrPos(cs), "the value evaluated is the value the link test dominating the call was applied to"))
			default:
				out = append(out, bad(rule, key, c.P.InstrPos(cs), "the call is reached when a link test of one value succeeded, but it evaluates another ("+c.P.KeyTerm(arg, 2)+"): the target returned no longer corresponds to the prefix it is substituted for"))
			}
		}
	}
	c.Stats[rule+".calls"] = n
	if n == 0 {
		out = append(out, anchorViolation(rule, "a call of filepath.EvalSymlinks"))
	}
	return out
}

// ---------------------------------------------------------------------------
// PRUNEREFS: pruning keeps the resources the services reference. The places a
// service can reference a top-level resource are given by the types: every
// collection field of ServiceConfig (and of the structs it holds, two levels
// down) that carries the name of a resource map of Project (Networks, Volumes,
// Secrets, Configs).
//   -cover  the pruning function ranges over every one of them;
//   -kind   the set filled from a field named R is the set that filters Project.R.
// ---------------------------------------------------------------------------

// fieldPathOf: the chain of field names leading from a root of the given struct type to v.
func fieldPathOf(v ssa.Value, root string, depth int) ([]string, bool) {
	if depth > 5 {
		return nil, false
	}
	named := func(t types.Type) string {
		if pt, ok := t.Underlying().(*types.Pointer); ok {
			t = pt.Elem()
		}
		if n, ok := t.(*types.Named); ok {
			return n.Obj().Name()
		}
		return ""
	}
	if named(v.Type()) == root {
		return nil, true
	}
	switch x := v.(type) {
	case *ssa.Field:
		p, ok := fieldPathOf(x.X, root, depth+1)
		if !ok {
			return nil, false
		}
		st := x.X.Type().Underlying().(*types.Struct)
		return append(p, st.Field(x.Field).Name()), true
	case *ssa.UnOp:
		if x.Op != token.MUL {
			return nil, false
		}
		fa, ok := x.X.(*ssa.FieldAddr)
		if !ok {
			return nil, false
		}
		p, ok := fieldPathOf(fa.X, root, depth+1)
		if !ok {
			return nil, false
		}
		st := fa.X.Type().Underlying().(*types.Pointer).Elem().Underlying().(*types.Struct)
		return append(p, st.Field(fa.Field).Name()), true
	}
	return nil, false
}

func derivesFrom(v, src ssa.Value, depth int) bool {
	if v == src {
		return true
	}
	if depth > 8 {
		return false
	}
	switch x := v.(type) {
	case *ssa.Field:
		return derivesFrom(x.X, src, depth+1)
	case *ssa.FieldAddr:
		return derivesFrom(x.X, src, depth+1)
	case *ssa.IndexAddr:
		return derivesFrom(x.X, src, depth+1)
	case *ssa.UnOp:
		return derivesFrom(x.X, src, depth+1)
	case *ssa.Extract:
		return derivesFrom(x.Tuple, src, depth+1)
	case *ssa.Next:
		return derivesFrom(x.Iter, src, depth+1)
	case *ssa.Range:
		return derivesFrom(x.X, src, depth+1)
	case *ssa.Convert:
		return derivesFrom(x.X, src, depth+1)
	case *ssa.ChangeType:
		return derivesFrom(x.X, src, depth+1)
	case *ssa.Lookup:
		return derivesFrom(x.X, src, depth+1)
	case *ssa.TypeAssert:
		return derivesFrom(x.X, src, depth+1)
	case *ssa.MakeInterface:
		return derivesFrom(x.X, src, depth+1)
	case *ssa.Alloc:
		// a local copy of an element: what was stored into it
		for _, r := range *x.Referrers() {
			if st, ok := r.(*ssa.Store); ok && st.Addr == ssa.Value(x) && derivesFrom(st.Val, src, depth+1) {
				return true
			}
		}
	}
	return false
}

func (c *Ctx) PRUNEREFS(rule string) []report.Obligation {
	var out []report.Obligation
	fn := c.P.Func("types.(*Project).WithoutUnnecessaryResources")
	if fn == nil {
		return append(out, anchorViolation(rule, "types.(*Project).WithoutUnnecessaryResources"))
	}
	projT, svcT := c.namedStruct("types", "Project"), c.namedStruct("types", "ServiceConfig")
	if projT == nil || svcT == nil {
		return append(out, anchorViolation(rule, "types.Project / types.ServiceConfig"))
	}
	// resource maps of Project: map[string]<struct>, except the services themselves
	resources := map[string]bool{}
	for i := 0; i < projT.NumFields(); i++ {
		f := projT.Field(i)
		m, ok := f.Type().Underlying().(*types.Map)
		if !ok {
			continue
		}
		if _, isStruct := m.Elem().Underlying().(*types.Struct); !isStruct {
			continue
		}
		if n, ok := m.Elem().(*types.Named); ok && n.Obj().Name() == "ServiceConfig" {
			continue
		}
		resources[f.Name()] = true
	}
	// the reference fields the types give
	var want []string
	var walk func(st *types.Struct, prefix string, depth int)
	walk = func(st *types.Struct, prefix string, depth int) {
		for i := 0; i < st.NumFields(); i++ {
			f := st.Field(i)
			t := f.Type()
			switch u := t.Underlying().(type) {
			case *types.Slice, *types.Map:
				if resources[f.Name()] {
					want = append(want, prefix+f.Name())
				}
			case *types.Pointer:
				if s2, ok := u.Elem().Underlying().(*types.Struct); ok && depth < 2 {
					walk(s2, prefix+f.Name()+".", depth+1)
				}
			case *types.Struct:
				if depth < 2 {
					walk(u, prefix+f.Name()+".", depth+1)
				}
			}
		}
	}
	walk(svcT, "", 0)
	sort.Strings(want)
	// what the function ranges over
	ranged := map[string]ssa.Value{}
	// the function and the module helpers it calls (two levels)
	scope := []*ssa.Function{fn}
	for i := 0; i < len(scope) && i < 40; i++ {
		for _, cs := range callSites(scope[i], func(com *ssa.CallCommon) bool { return true }) {
			cal := cs.Common().StaticCallee()
			if cal == nil || !c.P.InModule(cal) || cal.Blocks == nil || strings.HasPrefix(c.P.FuncID(cal), "types.deriveDeepCopy") || cal.Name() == "deepCopy" {
				continue
			}
			dup := false
			for _, s := range scope {
				if s == cal {
					dup = true
				}
			}
			if !dup && (scope[i] == fn || (scope[i].Parent() == nil && len(scope) < 40)) {
				scope = append(scope, cal)
			}
		}
	}
	var allBlocks []*ssa.BasicBlock
	for _, f := range scope {
		allBlocks = append(allBlocks, f.Blocks...)
		for _, an := range f.AnonFuncs {
			allBlocks = append(allBlocks, an.Blocks...)
		}
	}
	for _, b := range allBlocks {
		for _, in := range b.Instrs {
			v, ok := in.(ssa.Value)
			if !ok {
				continue
			}
			switch v.Type().Underlying().(type) {
			case *types.Slice, *types.Map:
			default:
				continue
			}
			p, ok := fieldPathOf(v, "ServiceConfig", 0)
			if !ok || len(p) == 0 {
				continue
			}
			iterated := false
			for _, r := range *v.Referrers() {
				switch x := r.(type) {
				case *ssa.Range, *ssa.IndexAddr:
					iterated = true
				case *ssa.Call:
					if bi, isB := x.Call.Value.(*ssa.Builtin); isB && bi.Name() == "len" {
						iterated = true
					}
				}
			}
			if iterated {
				ranged[strings.Join(p, ".")] = v
			}
		}
	}
	for _, w := range want {
		_, okR := ranged[w]
		out = append(out, verdict(okR, rule+"-cover", c.P.FuncID(fn)+" :: ranges over ServiceConfig."+w, c.P.Pos(fn.Pos()),
			"the references a service makes through this field are collected", "a service can reference a top-level resource through ."+w+" and the pruning never iterates over it: a resource referenced only there is dropped"))
	}
	// kind agreement
	var paths []string
	for p := range ranged {
		paths = append(paths, p)
	}
	sort.Strings(paths)
	for _, p := range paths {
		src := ranged[p]
		last := p[strings.LastIndex(p, ".")+1:]
		if !resources[last] {
			continue
		}
		key := c.P.FuncID(fn) + " :: the names collected from ." + p + " filter Project." + last
		if src.(ssa.Instruction).Parent() != fn {
			out = append(out, ok(rule+"-kind", key, c.P.InstrPos(src.(ssa.Instruction)), "collected in the helper "+c.P.FuncID(src.(ssa.Instruction).Parent())+": the set it fills is not traced across the call"))
			continue
		}
		// the sets fed from the entries of this field: a map updated under a key taken from an entry, or a
		// local collection handed to a call together with something taken from an entry (set.Add(v.Source))
		var sets []ssa.Value
		isLocalColl := func(v ssa.Value) bool {
			switch v.Type().Underlying().(type) {
			case *types.Map, *types.Slice:
			default:
				return false
			}
			switch x := v.(type) {
			case *ssa.MakeMap, *ssa.MakeSlice, *ssa.Call, *ssa.Phi:
				return true
			case *ssa.UnOp:
				_, isAlloc := x.X.(*ssa.Alloc)
				return isAlloc
			}
			return false
		}
		for _, b := range fn.Blocks {
			for _, in := range b.Instrs {
				switch x := in.(type) {
				case *ssa.MapUpdate:
					if derivesFrom(x.Key, src, 0) {
						sets = append(sets, x.Map)
					}
				case ssa.CallInstruction:
					args := x.Common().Args
					fed := false
					for _, a := range args {
						if derivesFrom(a, src, 0) {
							fed = true
						}
					}
					if fed {
						for _, a := range args {
							if isLocalColl(a) && !derivesFrom(a, src, 0) {
								sets = append(sets, a)
							}
						}
					}
				}
			}
		}
		if len(sets) == 0 {
			out = append(out, bad(rule+"-kind", key, c.P.InstrPos(src.(ssa.Instruction)), "nothing is recorded from the entries of this field"))
			continue
		}
		// what the sets filter: a lookup in Project.R under a name from the set, or a call that takes the set
		// together with Project.R (a shared keep-only-the-referenced helper)
		var filtered []string
		fromSet := func(v ssa.Value) bool {
			for _, s := range sets {
				if derivesFrom(v, s, 0) {
					return true
				}
			}
			return false
		}
		for _, b := range fn.Blocks {
			for _, in := range b.Instrs {
				switch x := in.(type) {
				case *ssa.Lookup:
					if !fromSet(x.Index) {
						continue
					}
					if pp, ok := fieldPathOf(x.X, "Project", 0); ok && len(pp) == 1 {
						filtered = append(filtered, pp[0])
					}
				case ssa.CallInstruction:
					args := x.Common().Args
					has := false
					for _, a := range args {
						if fromSet(a) {
							has = true
						}
					}
					if !has {
						continue
					}
					for _, a := range args {
						if pp, ok := fieldPathOf(a, "Project", 0); ok && len(pp) == 1 && resources[pp[0]] {
							filtered = append(filtered, pp[0])
						}
					}
				}
			}
		}
		sort.Strings(filtered)
		good := len(filtered) > 0
		for _, f := range filtered {
			if f != last {
				good = false
			}
		}
		out = append(out, verdict(good, rule+"-kind", key, c.P.InstrPos(src.(ssa.Instruction)),
			"the set filled from this field is looked up in Project."+last+" only",
			fmt.Sprintf("the set filled from this field is used to filter %v: references of one kind keep (or fail to keep) resources of another", filtered)))
	}
	c.Stats[rule+".reference fields"] = len(want)
	if len(want) == 0 {
		out = append(out, anchorViolation(rule, "reference fields of types.ServiceConfig"))
	}
	return out
}

func (c *Ctx) namedStruct(pkg, name string) *types.Struct {
	pk := c.P.PkgByRel[pkg]
	if pk == nil || pk.Types == nil {
		return nil
	}
	if obj := pk.Types.Scope().Lookup(name); obj != nil {
		if st, ok := obj.Type().Underlying().(*types.Struct); ok {
			return st
		}
	}
	return nil
}

// ---------------------------------------------------------------------------
// REVALID: a model loaded for an `include` is imported into the including
// model and validated again there. What the load adds to a resource mapping
// after its own validation (ResolveEnvironment: the value of a config / secret
// taken from the environment) must therefore not be one of the attributes the
// exclusivity check of that section counts: the resource already carries one
// of them (`environment`), a second one makes the including file fail with
// "attributes are mutually exclusive" as soon as the variable is set.
// ---------------------------------------------------------------------------

func (c *Ctx) REVALID(rule string) []report.Obligation {
	var out []report.Obligation
	checks := c.table(rule, TChecks, &out)
	root := c.P.Func("loader.ResolveEnvironment")
	if root == nil {
		out = append(out, anchorViolation(rule, "loader.ResolveEnvironment"))
	}
	if checks == nil || root == nil {
		return out
	}
	fns := []*ssa.Function{root}
	for _, cs := range callSites(root, func(com *ssa.CallCommon) bool { return true }) {
		if cal := cs.Common().StaticCallee(); cal != nil && c.P.InModule(cal) && cal.Blocks != nil {
			fns = append(fns, cal)
		}
	}
	n := 0
	// helpers one level further down take the section and the attribute as parameters: one evaluation per call site
	type binding map[*ssa.Parameter]string
	type unit struct {
		fn   *ssa.Function
		bind binding
	}
	var units []unit
	seenFn := map[*ssa.Function]bool{}
	for _, fn := range fns {
		units = append(units, unit{fn, nil})
		seenFn[fn] = true
	}
	for _, fn := range fns {
		for _, cs := range callSites(fn, func(com *ssa.CallCommon) bool { return true }) {
			cal := cs.Common().StaticCallee()
			if cal == nil || !c.P.InModule(cal) || cal.Blocks == nil || seenFn[cal] {
				continue
			}
			bd := binding{}
			for i, a := range cs.Common().Args {
				if k, ok := constStr(a); ok && i < len(cal.Params) {
					bd[cal.Params[i]] = k
				}
			}
			units = append(units, unit{cal, bd})
		}
	}
	strOf := func(u unit, v ssa.Value) (string, bool) {
		v = stripMI(v)
		if k, ok := constStr(v); ok {
			return k, true
		}
		if pa, ok := v.(*ssa.Parameter); ok {
			k, ok := u.bind[pa]
			return k, ok
		}
		return "", false
	}
	for _, u := range units {
		fn := u.fn
		for _, b := range fn.Blocks {
			for _, in := range b.Instrs {
				lk, ok := in.(*ssa.Lookup)
				if !ok {
					continue
				}
				if _, isParam := lk.X.(*ssa.Parameter); !isParam {
					continue
				}
				section, ok := strOf(u, lk.Index)
				if !ok {
					continue
				}
				for _, b2 := range fn.Blocks {
					for _, in2 := range b2.Instrs {
						mu, ok := in2.(*ssa.MapUpdate)
						if !ok {
							continue
						}
						k, isK := strOf(u, mu.Key)
						if !isK || !derivesFrom(mu.Map, lk, 0) {
							continue
						}
						n++
						key := c.P.FuncID(fn) + " :: adds `" + k + "` to an entry of " + section
						counted := ""
						for _, r := range checks.Rows {
							if !tab.MatchPattern(section+".x", r.Pattern) {
								continue
							}
							for _, a := range r.Args {
								if a == k {
									counted = r.Pattern + " -> " + r.Func
								}
							}
						}
						out = append(out, verdict(counted == "", rule, key, c.P.InstrPos(mu),
							"not an attribute an exclusivity check of the section counts: the entry validates again after it is imported by an including file",
							"the attribute is one of those the check "+counted+" allows only one of, and the entry already carries the one it was resolved from: the model no longer validates when an including file imports it"))
					}
				}
			}
		}
	}
	c.Stats[rule+".updates"] = n
	if n == 0 {
		out = append(out, anchorViolation(rule, "an attribute added by the environment resolution"))
	}
	return out
}

func contains(l []string, s string) bool {
	for _, x := range l {
		if x == s {
			return true
		}
	}
	return false
}

// sameAddr: the same address value, or the same field of the same base.
func sameAddr(a, b ssa.Value) bool {
	if a == b {
		return true
	}
	fa, ok1 := a.(*ssa.FieldAddr)
	fb, ok2 := b.(*ssa.FieldAddr)
	return ok1 && ok2 && fa.X == fb.X && fa.Field == fb.Field
}
