package rules

import (
	"fmt"
	"go/token"
	"go/types"
	"sort"
	"strings"

	"golang.org/x/tools/go/ssa"
	"verifcheck/internal/prog"
	"verifcheck/internal/report"
	"verifcheck/internal/tab"
)

// ---------------------------------------------------------------------------
// ORD: map-iteration order cannot reach the result.
//
// For every `range` over a map in scope, the effects of the loop body are
// classified on SSA. A loop is discharged when every effect is commutative
// (keyed by the iteration key, set insertion, idempotent constant, integer
// sum), local or owned by the iteration value, an error-only early exit, an
// accumulation that is sorted before any other use, or a first-match search
// over a rule table proved exclusive by A1. Anything else is order-sensitive.
// ---------------------------------------------------------------------------

type mapLoop struct {
	fn     *ssa.Function
	rng    *ssa.Range
	next   *ssa.Next
	head   *ssa.BasicBlock
	body   *ssa.BasicBlock
	exit   *ssa.BasicBlock
	key    ssa.Value
	val    ssa.Value
	region map[*ssa.BasicBlock]bool
	own    map[ssa.Value]bool // values owned by / derived from the current iteration
	cur    *ssa.BasicBlock    // block being classified
	noteAt map[string][]*ssa.BasicBlock
}

func findMapLoops(fn *ssa.Function) []*mapLoop {
	var out []*mapLoop
	for _, b := range fn.Blocks {
		for _, in := range b.Instrs {
			rng, ok := in.(*ssa.Range)
			if !ok {
				continue
			}
			if _, isMap := rng.X.Type().Underlying().(*types.Map); !isMap {
				continue
			}
			l := &mapLoop{fn: fn, rng: rng, region: map[*ssa.BasicBlock]bool{}, own: map[ssa.Value]bool{}}
			for _, r := range *rng.Referrers() {
				if n, ok := r.(*ssa.Next); ok {
					l.next = n
				}
			}
			if l.next == nil {
				continue
			}
			l.head = l.next.Block()
			iff, ok := l.head.Instrs[len(l.head.Instrs)-1].(*ssa.If)
			if !ok {
				continue
			}
			_ = iff
			l.body, l.exit = l.head.Succs[0], l.head.Succs[1]
			for _, r := range *l.next.Referrers() {
				if ex, ok := r.(*ssa.Extract); ok {
					switch ex.Index {
					case 1:
						l.key = ex
					case 2:
						l.val = ex
					}
				}
			}
			for _, bb := range fn.Blocks {
				if l.body.Dominates(bb) {
					l.region[bb] = true
				}
			}
			out = append(out, l)
		}
	}
	return out
}

func (l *mapLoop) inRegion(v ssa.Value) bool {
	in, ok := v.(ssa.Instruction)
	return ok && in.Block() != nil && l.region[in.Block()]
}

// computeOwn: values derived from the iteration key/value or created inside the body.
func (l *mapLoop) computeOwn() {
	if l.key != nil {
		l.own[l.key] = true
	}
	if l.val != nil {
		l.own[l.val] = true
	}
	// go 1.21 loop variables whose address is taken live in one cell that is
	// overwritten from the iteration key/value at the top of every iteration
	for _, in := range l.body.Instrs {
		if st, ok := in.(*ssa.Store); ok && (st.Val == l.key || st.Val == l.val) && l.isPerIterationCell(st.Addr) {
			l.own[st.Addr] = true
		}
	}
	changed := true
	for changed {
		changed = false
		for bb := range l.region {
			for _, in := range bb.Instrs {
				v, ok := in.(ssa.Value)
				if !ok || l.own[v] {
					continue
				}
				isOwn := false
				switch x := in.(type) {
				case *ssa.Alloc, *ssa.MakeMap, *ssa.MakeSlice, *ssa.MakeChan, *ssa.MakeClosure:
					isOwn = true // a fresh object per iteration
				case *ssa.Extract:
					isOwn = l.own[x.Tuple]
				case *ssa.TypeAssert:
					isOwn = l.own[x.X]
				case *ssa.ChangeType:
					isOwn = l.own[x.X]
				case *ssa.Convert:
					isOwn = l.own[x.X]
				case *ssa.MakeInterface:
					isOwn = l.own[x.X]
				case *ssa.ChangeInterface:
					isOwn = l.own[x.X]
				case *ssa.Field:
					isOwn = l.own[x.X]
				case *ssa.FieldAddr:
					isOwn = l.own[x.X]
				case *ssa.IndexAddr:
					isOwn = l.own[x.X]
				case *ssa.Index:
					isOwn = l.own[x.X]
				case *ssa.Slice:
					isOwn = l.own[x.X]
				case *ssa.UnOp:
					isOwn = x.Op == token.MUL && l.own[x.X]
				case *ssa.Lookup:
					// a slot of an outer map selected by the iteration key belongs to this iteration
					isOwn = l.own[x.X] || l.isIterKey(x.Index)
				case *ssa.Range:
					isOwn = l.own[x.X]
				case *ssa.Next:
					isOwn = l.own[x.Iter]
				case *ssa.Phi:
					all := len(x.Edges) > 0
					for _, e := range x.Edges {
						if _, isConst := e.(*ssa.Const); isConst {
							continue
						}
						if !l.own[e] {
							all = false
						}
					}
					isOwn = all
				case *ssa.Call:
					// the result of a call made with iteration-owned / value-only arguments is a per-iteration value
					isOwn = l.callResultOwn(x)
				}
				if isOwn {
					l.own[v] = true
					changed = true
				}
			}
		}
	}
}

func (l *mapLoop) callResultOwn(call *ssa.Call) bool {
	if b, ok := call.Call.Value.(*ssa.Builtin); ok {
		switch b.Name() {
		case "append":
			return l.own[call.Call.Args[0]] || isNilOrConst(call.Call.Args[0])
		case "len", "cap":
			return true
		}
		return false
	}
	args := call.Call.Args
	if call.Call.IsInvoke() {
		args = append([]ssa.Value{call.Call.Value}, args...)
	}
	for _, a := range args {
		if _, isConst := a.(*ssa.Const); isConst {
			continue
		}
		if hasRefs(a.Type()) && !l.own[a] && !isImmutableString(a) {
			return false
		}
	}
	return true
}

func isImmutableString(v ssa.Value) bool {
	b, ok := v.Type().Underlying().(*types.Basic)
	return ok && b.Info()&types.IsString != 0
}

func isNilOrConst(v ssa.Value) bool {
	_, ok := v.(*ssa.Const)
	return ok
}

func (l *mapLoop) isIterKey(v ssa.Value) bool {
	for i := 0; i < 4; i++ {
		if v == l.key && v != nil {
			return true
		}
		switch x := v.(type) {
		case *ssa.ChangeType:
			v = x.X
		case *ssa.Convert:
			v = x.X
		case *ssa.MakeInterface:
			v = x.X
		case *ssa.TypeAssert:
			v = x.X // a successful assertion yields the same (distinct per iteration) key
		case *ssa.Extract:
			ta, ok := x.Tuple.(*ssa.TypeAssert)
			if !ok || x.Index != 0 {
				return false
			}
			v = ta.X
		default:
			return false
		}
	}
	return false
}

// sameMap: v denotes the map being ranged (same SSA value, or a re-load of the same field/variable).
func (l *mapLoop) sameMap(v ssa.Value) bool {
	if v == l.rng.X {
		return true
	}
	a, ok1 := v.(*ssa.UnOp)
	b, ok2 := l.rng.X.(*ssa.UnOp)
	if ok1 && ok2 && a.Op == token.MUL && b.Op == token.MUL {
		if a.X == b.X {
			return true
		}
		fa, okA := a.X.(*ssa.FieldAddr)
		fb, okB := b.X.(*ssa.FieldAddr)
		if okA && okB && fa.Field == fb.Field && fa.X == fb.X {
			return true
		}
	}
	return false
}

type ordEffect struct {
	in  ssa.Instruction
	why string
	sig string // spelling-independent form of the effect (callee, argument position, write kinds); "" = use why
}

// dependsOnCarried: v is computed (inside the region) from a loop-carried phi of the head.
func (l *mapLoop) dependsOnCarried(v ssa.Value, seen map[ssa.Value]bool) bool {
	if v == nil || seen[v] {
		return false
	}
	seen[v] = true
	if phi, ok := v.(*ssa.Phi); ok && phi.Block() == l.head {
		return true
	}
	in, ok := v.(ssa.Instruction)
	if !ok || !l.region[in.Block()] {
		return false
	}
	for _, op := range in.Operands(nil) {
		if *op != nil && l.dependsOnCarried(*op, seen) {
			return true
		}
	}
	return false
}

func zeroSized(t types.Type) bool {
	if st, ok := t.Underlying().(*types.Struct); ok && st.NumFields() == 0 {
		return true
	}
	return false
}

// sortedBeforeUse: every use of the accumulated slice v after the loop is first a sort call.
func (c *Ctx) sortedBeforeUse(l *mapLoop, v ssa.Value) (bool, string) {
	// uses outside the region
	var sorts, others []ssa.Instruction
	var collect func(val ssa.Value, depth int)
	seen := map[ssa.Value]bool{}
	collect = func(val ssa.Value, depth int) {
		if seen[val] || depth > 4 {
			return
		}
		seen[val] = true
		for _, r := range *val.Referrers() {
			if l.region[r.Block()] || r.Block() == l.head {
				continue
			}
			switch x := r.(type) {
			case *ssa.Phi:
				collect(x, depth+1)
			case *ssa.ChangeType:
				collect(x, depth+1)
			case *ssa.MakeInterface:
				// passed as `any` (sort.Slice takes interface)
				collect(x, depth+1)
			case ssa.CallInstruction:
				if isSortCall(x.Common()) {
					sorts = append(sorts, r)
				} else if b, ok := x.Common().Value.(*ssa.Builtin); ok && (b.Name() == "len" || b.Name() == "cap") {
					// order-independent
				} else {
					others = append(others, r)
				}
			default:
				others = append(others, r)
			}
		}
	}
	collect(v, 0)
	if len(sorts) == 0 {
		return false, ""
	}
	for _, o := range others {
		dom := false
		for _, s := range sorts {
			if prog.InstrDominates(s, o) {
				dom = true
			}
		}
		if !dom {
			return false, ""
		}
	}
	return true, c.P.InstrPos(sorts[0])
}

func isSortCall(com *ssa.CallCommon) bool {
	n := staticName(com)
	switch n {
	case "sort.Strings", "sort.Ints", "sort.Slice", "sort.SliceStable", "sort.Sort", "sort.Stable",
		"golang.org/x/exp/slices.Sort", "golang.org/x/exp/slices.SortFunc", "golang.org/x/exp/slices.SortStableFunc",
		"slices.Sort", "slices.SortFunc", "slices.SortStableFunc":
		return true
	}
	return false
}

// tableLoop: the loop ranges over a rule table; returns its name.
func (c *Ctx) tableOf(l *mapLoop) string {
	mt, ok := l.rng.X.Type().Underlying().(*types.Map)
	if !ok {
		return ""
	}
	kn, ok := mt.Key().(*types.Named)
	if !ok || kn.Obj().Name() != "Path" || c.P.Rel(kn.Obj().Pkg()) != "tree" {
		return ""
	}
	if u, ok := l.rng.X.(*ssa.UnOp); ok {
		switch x := u.X.(type) {
		case *ssa.Global:
			return c.P.Rel(x.Pkg.Pkg) + "." + x.Name()
		case *ssa.FieldAddr:
			name := c.P.Rel(namedPkg(x.X.Type())) + "." + fieldOwner(x) + "." + fieldName(x)
			if a := c.tableAlias(fieldOwner(x), fieldName(x)); a != "" {
				return a
			}
			return name
		}
	}
	if f, ok := l.rng.X.(*ssa.Field); ok {
		return "field " + fieldName(f)
	}
	return "path-keyed map"
}

// tableAlias: when the only non-empty values ever stored into field owner.field
// are loads of one package-level table (or copies of the same field), the field denotes that table.
func (c *Ctx) tableAlias(owner, field string) string {
	globals := map[string]bool{}
	for _, f := range c.P.Funcs {
		for _, b := range f.Blocks {
			for _, in := range b.Instrs {
				st, ok := in.(*ssa.Store)
				if !ok {
					continue
				}
				fa, ok := st.Addr.(*ssa.FieldAddr)
				if !ok || fieldName(fa) != field || fieldOwner(fa) != owner {
					continue
				}
				switch v := st.Val.(type) {
				case *ssa.MakeMap:
				case *ssa.UnOp:
					if g, ok := v.X.(*ssa.Global); ok {
						globals[c.P.Rel(g.Pkg.Pkg)+"."+g.Name()] = true
					} else if fa2, ok := v.X.(*ssa.FieldAddr); ok && fieldName(fa2) == field {
					} else {
						globals["?"] = true
					}
				default:
					globals["?"] = true
				}
			}
		}
	}
	if len(globals) == 1 {
		for g := range globals {
			if g != "?" {
				return g
			}
		}
	}
	return ""
}

func namedPkg(t types.Type) *types.Package {
	if p, ok := t.(*types.Pointer); ok {
		t = p.Elem()
	}
	if n, ok := t.(*types.Named); ok {
		return n.Obj().Pkg()
	}
	return nil
}

// classify returns the order-sensitive effects of the loop and notes about discharged ones.
func (c *Ctx) classifyLoop(l *mapLoop) (sens []ordEffect, notes []string) {
	l.computeOwn()
	l.noteAt = map[string][]*ssa.BasicBlock{}
	note := func(s string) {
		l.noteAt[s] = append(l.noteAt[s], l.cur)
		for _, n := range notes {
			if n == s {
				return
			}
		}
		notes = append(notes, s)
	}
	var blocks []*ssa.BasicBlock
	for b := range l.region {
		blocks = append(blocks, b)
	}
	sort.Slice(blocks, func(i, j int) bool { return blocks[i].Index < blocks[j].Index })
	mapEffect := func(in ssa.Instruction, m, k, v ssa.Value, what string) {
		switch {
		case l.own[m]:
			note(what + " on a container owned by the iteration value (disjoint per key)")
		case l.sameMap(m) && l.isIterKey(k):
			note(what + " of the current entry of the ranged map")
		case l.sameMap(m):
			sens = append(sens, ordEffect{in, what + " on the map being ranged over with a key other than the current one: whether the affected entry is still visited depends on iteration order", ""})
		case l.isIterKey(k) && (v == nil || !l.dependsOnCarried(v, map[ssa.Value]bool{})):
			note(what + " keyed by the iteration key (distinct per iteration)")
		case v == nil || isNilOrConst(v) || zeroSized(v.Type()):
			note(what + " of a constant (set insertion / idempotent)")
		default:
			sens = append(sens, ordEffect{in, what + " on loop-invariant map " + c.P.KeyTerm(m, 3) + " keyed by " + c.P.KeyTerm(k, 3) + ", which is not the iteration key: colliding keys make the last writer win", ""})
		}
	}
	for _, b := range blocks {
		l.cur = b
		for _, in := range b.Instrs {
			switch x := in.(type) {
			case *ssa.MapUpdate:
				mapEffect(in, x.Map, x.Key, x.Value, "map update")
			case *ssa.Store:
				switch {
				case l.own[x.Addr]:
					note("store to per-iteration / iteration-owned memory")
				case isNilOrConst(x.Val):
					note("store of a constant to outer state (idempotent)")
				case l.isPerIterationCell(x.Addr):
					note("store to a loop variable that is re-assigned at the top of every iteration")
				default:
					sens = append(sens, ordEffect{in, "store of an iteration-dependent value to " + c.P.KeyTerm(x.Addr, 3) + " which outlives the iteration (last writer wins)", ""})
				}
			case *ssa.Send:
				sens = append(sens, ordEffect{in, "channel send inside the loop (delivery order follows iteration order)", ""})
			case *ssa.Go:
				sens = append(sens, ordEffect{in, "goroutine spawned per entry (spawn order follows iteration order)", ""})
			case *ssa.Return:
				for i, r := range x.Results {
					rv := retValue(x, i)
					switch {
					case isErrorType(r.Type()):
					case isNilOrConst(rv):
					case !l.inRegion(rv) && !l.own[rv] && !l.dependsOnCarried(rv, map[ssa.Value]bool{}):
						// loop-invariant value: acceptable only together with a non-nil error (partial state is not a result)
						last := x.Results[len(x.Results)-1]
						if isErrorType(last.Type()) && c.dyn.definitelyNonNil(retValue(x, len(x.Results)-1), b, 2) {
							continue
						}
						if _, isParam := rv.(*ssa.Parameter); isParam {
							continue
						}
						sens = append(sens, ordEffect{in, "early return of outer state " + c.P.KeyTerm(rv, 3) + " from inside the loop", ""})
					default:
						sens = append(sens, ordEffect{in, "early return of an iteration-dependent value " + c.P.KeyTerm(rv, 3) + " (which entry is reached first depends on iteration order)", ""})
					}
				}
				note("early exit carrying only an error / constants (existence search)")
			case ssa.CallInstruction:
				com := x.Common()
				if bi, ok := com.Value.(*ssa.Builtin); ok {
					if bi.Name() == "delete" {
						mapEffect(in, com.Args[0], com.Args[1], nil, "delete")
					}
					continue
				}
				if _, isDefer := in.(*ssa.Defer); isDefer {
					sens = append(sens, ordEffect{in, "defer inside the loop (run order follows iteration order)", ""})
					continue
				}
				c.classifyCall(l, x, &sens, note)
			}
		}
	}
	// loop-carried values (phis at the head) and values leaving through break edges (phis at the exit)
	l.cur = nil
	for _, in := range l.head.Instrs {
		phi, ok := in.(*ssa.Phi)
		if !ok {
			continue
		}
		c.classifyCarried(l, phi, &sens, note)
	}
	for _, in := range l.exit.Instrs {
		phi, ok := in.(*ssa.Phi)
		if !ok {
			continue
		}
		for i, e := range phi.Edges {
			pred := l.exit.Preds[i]
			if !l.region[pred] {
				continue
			}
			if isNilOrConst(e) {
				note("break with a constant")
				continue
			}
			if !l.inRegion(e) && !l.own[e] {
				if p2, isPhi := e.(*ssa.Phi); isPhi && p2.Block() == l.head {
					continue // classified as a carried value
				}
				note("break leaving an outer value unchanged")
				continue
			}
			if isErrorType(phi.Type()) {
				note("break carrying an error")
				continue
			}
			sens = append(sens, ordEffect{phi, "break leaves the loop with an iteration-dependent value " + c.P.KeyTerm(e, 3), ""})
		}
	}
	return
}

// isPerIterationCell: addr is an Alloc outside the region that is stored at the
// very top of the loop body on every iteration before any load (go 1.21 hoisted
// loop variables, `name := n` style copies captured by closures).
func (l *mapLoop) isPerIterationCell(addr ssa.Value) bool {
	al, ok := addr.(*ssa.Alloc)
	if !ok {
		return false
	}
	// every store to it is inside the region, in the body block, and no load precedes it in the body block
	for _, r := range *al.Referrers() {
		if st, ok := r.(*ssa.Store); ok && st.Addr == ssa.Value(al) {
			if st.Block() != l.body {
				return false
			}
		}
	}
	for _, in := range l.body.Instrs {
		if st, ok := in.(*ssa.Store); ok && st.Addr == ssa.Value(al) {
			return true
		}
		if u, ok := in.(*ssa.UnOp); ok && u.X == ssa.Value(al) {
			return false
		}
	}
	return false
}

func (c *Ctx) classifyCarried(l *mapLoop, phi *ssa.Phi, sens *[]ordEffect, note func(string)) {
	// the values flowing in from the loop body
	var ups []ssa.Value
	for i, e := range phi.Edges {
		if l.region[l.head.Preds[i]] {
			ups = append(ups, e)
		}
	}
	usedInRegion := func(v ssa.Value, except ssa.Instruction) bool {
		for _, r := range *v.Referrers() {
			if r == except {
				continue
			}
			if l.region[r.Block()] {
				return true
			}
		}
		return false
	}
	allConst := true
	for _, u := range ups {
		if u == ssa.Value(phi) {
			continue
		}
		if !isNilOrConst(u) {
			// an inner merge of the phi itself and constants is still idempotent
			if p2, ok := u.(*ssa.Phi); ok && phiOfConstsAnd(p2, phi, 3) {
				continue
			}
			allConst = false
		}
	}
	if allConst {
		note("outer variable set to a constant (idempotent flag)")
		return
	}
	if isErrorType(phi.Type()) {
		note("error variable carried to an early exit")
		return
	}
	for _, u := range ups {
		if u == ssa.Value(phi) {
			continue
		}
		switch x := u.(type) {
		case *ssa.BinOp:
			if (x.Op == token.ADD || x.Op == token.OR || x.Op == token.AND) && (x.X == ssa.Value(phi) || x.Y == ssa.Value(phi)) && isNumeric(phi.Type()) {
				if usedInRegion(phi, x) || usedInRegion(x, nil) {
					*sens = append(*sens, ordEffect{x, "running counter " + c.P.KeyTerm(phi, 2) + " is used inside the loop (e.g. as an index): its value at a given entry depends on iteration order", ""})
				} else {
					note("commutative accumulation (sum / count)")
				}
				continue
			}
		case *ssa.Call:
			if bi, ok := x.Call.Value.(*ssa.Builtin); ok && bi.Name() == "append" && c.chainsTo(x.Call.Args[0], phi, 4) {
				if okS, at := c.sortedBeforeUse(l, phi); okS {
					note("append accumulation sorted before any other use (" + at + ")")
				} else if c.onlyReturned(l, phi) {
					c.unsortedResult[l.fn] = true
					note("append accumulation returned unsorted: obligation moves to the callers")
				} else {
					*sens = append(*sens, ordEffect{x, "elements appended in iteration order to " + c.P.KeyTerm(phi, 2) + " and used without sorting", ""})
				}
				continue
			}
		case *ssa.Phi:
			if c.phiAppendChain(x, phi, 4) {
				if okS, at := c.sortedBeforeUse(l, phi); okS {
					note("append accumulation sorted before any other use (" + at + ")")
				} else if c.onlyReturned(l, phi) {
					c.unsortedResult[l.fn] = true
					note("append accumulation returned unsorted: obligation moves to the callers")
				} else {
					*sens = append(*sens, ordEffect{x, "elements appended in iteration order to " + c.P.KeyTerm(phi, 2) + " and used without sorting", ""})
				}
				continue
			}
		}
		*sens = append(*sens, ordEffect{phi, "loop-carried value " + c.P.KeyTerm(phi, 2) + " updated with " + c.P.KeyTerm(u, 3) + ": the value after the loop depends on iteration order", ""})
	}
}

func isNumeric(t types.Type) bool {
	b, ok := t.Underlying().(*types.Basic)
	return ok && b.Info()&(types.IsInteger|types.IsFloat) != 0
}

func phiOfConstsAnd(p, self *ssa.Phi, depth int) bool {
	if depth == 0 {
		return false
	}
	for _, e := range p.Edges {
		if e == ssa.Value(self) || isNilOrConst(e) {
			continue
		}
		if p2, ok := e.(*ssa.Phi); ok && phiOfConstsAnd(p2, self, depth-1) {
			continue
		}
		return false
	}
	return true
}

// chainsTo: v is phi, or append(…(phi)…) chains.
func (c *Ctx) chainsTo(v ssa.Value, phi *ssa.Phi, depth int) bool {
	if v == ssa.Value(phi) {
		return true
	}
	if depth == 0 {
		return false
	}
	switch x := v.(type) {
	case *ssa.Call:
		if bi, ok := x.Call.Value.(*ssa.Builtin); ok && bi.Name() == "append" {
			return c.chainsTo(x.Call.Args[0], phi, depth-1)
		}
	case *ssa.Phi:
		for _, e := range x.Edges {
			if c.chainsTo(e, phi, depth-1) {
				return true
			}
		}
	}
	return false
}

func (c *Ctx) phiAppendChain(p, head *ssa.Phi, depth int) bool {
	any := false
	for _, e := range p.Edges {
		if e == ssa.Value(head) {
			continue
		}
		if c.chainsTo(e, head, depth) {
			any = true
			continue
		}
		return false
	}
	return any
}

// onlyReturned: after the loop the accumulated value is only returned.
func (c *Ctx) onlyReturned(l *mapLoop, phi *ssa.Phi) bool {
	for _, r := range *phi.Referrers() {
		if l.region[r.Block()] || r.Block() == l.head {
			continue
		}
		switch x := r.(type) {
		case *ssa.Return:
		case *ssa.Phi:
			for _, rr := range *x.Referrers() {
				if _, ok := rr.(*ssa.Return); !ok {
					return false
				}
			}
		default:
			return false
		}
	}
	return true
}

func (c *Ctx) classifyCall(l *mapLoop, x ssa.CallInstruction, sens *[]ordEffect, note func(string)) {
	com := x.Common()
	callee := com.StaticCallee()
	args := com.Args
	var all []ssa.Value
	if com.IsInvoke() {
		all = append(all, com.Value)
	}
	all = append(all, args...)
	if callee == nil {
		if com.IsInvoke() {
			note("interface method call " + com.Method.Name())
			return
		}
		// function value: from a rule table (iteration value), a closure, or supplied by the API user
		if l.own[com.Value] {
			note("call of the function stored in the current entry")
		} else {
			note("call of a caller-supplied function value (callback order is unspecified by the API)")
		}
		// a function value can write through any mutable argument: treat like an unknown writer for invariant arguments
		for _, a := range all {
			if mutableRef(a.Type()) && !l.own[a] && !isNilOrConst(a) && !isImmutableString(a) {
				if _, isParamFn := a.Type().Underlying().(*types.Signature); isParamFn {
					continue
				}
				*sens = append(*sens, ordEffect{x, "passes loop-invariant mutable state " + c.P.KeyTerm(a, 3) + " to a function value on every iteration", ""})
			}
		}
		return
	}
	if !c.P.InModule(callee) || callee.Blocks == nil {
		if idx, ok := externalWriters[calleeName(callee)]; ok {
			for _, i := range idx {
				if i < len(all) && !l.own[all[i]] {
					*sens = append(*sens, ordEffect{x, "external call " + calleeName(callee) + " writes loop-invariant state", ""})
				}
			}
		}
		return
	}
	for i, a := range all {
		if i >= len(callee.Params) || !mutableRef(a.Type()) || isNilOrConst(a) {
			continue
		}
		sum := c.imm().summary(callee, i)
		c.imm().solve()
		if l.own[a] {
			if sum.Writes {
				note("callee " + c.P.FuncID(callee) + " writes through the iteration value (disjoint per key)")
			}
			continue
		}
		if sum.Writes {
			if why := c.commutativeWrites(l, callee, i, all); why != "" {
				note("callee " + c.P.FuncID(callee) + ": " + why)
				continue
			}
			*sens = append(*sens, ordEffect{x, fmt.Sprintf("calls %s which writes through its loop-invariant argument %s (%s)", c.P.FuncID(callee), c.P.KeyTerm(a, 3), sum.WriteAt),
				fmt.Sprintf("a callee writes through the loop-invariant %s: %s", c.P.TypeStr(a.Type()), strings.Join(sum.KindList(), "; "))})
		}
	}
	if call, isCall := x.(*ssa.Call); isCall && c.unsortedResult[callee] && c.orderFreeUses(call, l.fn) {
		note("order-dependent result of " + c.P.FuncID(callee) + " only feeds membership tests / the caller's own unsorted accumulation")
	} else if c.unsortedResult[callee] {
		*sens = append(*sens, ordEffect{x, "uses the unsorted, order-dependent result of " + c.P.FuncID(callee), ""})
	}
}

// commutativeWrites: every write the callee performs through parameter i is a
// map update that is either a set insertion (constant / zero-size value) or
// keyed by a parameter whose argument at this call site is the iteration key.
func (c *Ctx) commutativeWrites(l *mapLoop, callee *ssa.Function, i int, args []ssa.Value) string {
	r := c.imm().analyse(callee, i, true)
	if len(r.Events) == 0 {
		return ""
	}
	kinds := map[string]bool{}
	for _, ev := range r.Events {
		if ci, isCall := ev.Instr.(ssa.CallInstruction); isCall && ev.Kind == "call-writes" && ci.Common().StaticCallee() == callee {
			continue // the recursive call repeats the writes classified here
		}
		mu, ok := ev.Instr.(*ssa.MapUpdate)
		if !ok || ev.Fn != callee {
			return ""
		}
		// the same ladder as for a map update written in the loop body itself, with the
		// callee's values read in terms of the arguments of this call
		argOf := func(v ssa.Value) ssa.Value {
			if kp, ok := v.(*ssa.Parameter); ok {
				for j, pa := range callee.Params {
					if pa == kp && j < len(args) {
						return args[j]
					}
				}
			}
			return nil
		}
		iterKey := func(v ssa.Value) bool { a := argOf(v); return a != nil && l.isIterKey(a) }
		var own func(v ssa.Value, d int) bool
		own = func(v ssa.Value, d int) bool {
			if d == 0 {
				return false
			}
			if a := argOf(v); a != nil {
				return l.own[a]
			}
			switch x := v.(type) {
			case *ssa.Lookup:
				// a slot of an outer map selected by the iteration key belongs to this iteration
				return own(x.X, d-1) || iterKey(x.Index)
			case *ssa.UnOp:
				return x.Op == token.MUL && own(x.X, d-1)
			case *ssa.FieldAddr:
				return own(x.X, d-1)
			case *ssa.Field:
				return own(x.X, d-1)
			case *ssa.Extract:
				return own(x.Tuple, d-1)
			case *ssa.IndexAddr:
				return own(x.X, d-1)
			}
			return false
		}
		for _, a := range args {
			if l.sameMap(a) {
				return ""
			}
		}
		switch {
		case isNilOrConst(mu.Value) || zeroSized(mu.Value.Type()):
			kinds["set insertion"] = true
		case own(mu.Map, 8):
			kinds["map update on a container selected by the iteration key / owned by the iteration value"] = true
		case iterKey(mu.Key):
			kinds["map update keyed by the iteration key passed as argument"] = true
		default:
			return ""
		}
	}
	var ks []string
	for k := range kinds {
		ks = append(ks, k)
	}
	sort.Strings(ks)
	return strings.Join(ks, ", ")
}

// ORD runs the classification over all map ranges in functions reachable from the entry sets.
func (c *Ctx) ORD(rule string, entry ...string) []report.Obligation {
	var out []report.Obligation
	r, missing := c.Reach(entry...)
	for _, m := range missing {
		out = append(out, anchorViolation(rule, m))
	}
	if c.unsortedResult == nil {
		c.unsortedResult = map[*ssa.Function]bool{}
	}
	fns := r.Sorted(c.P)
	// pass 1 establishes the "returns unsorted slice" summaries, pass 2 reports
	for pass := 0; pass < 2; pass++ {
		out2 := []report.Obligation{}
		for _, f := range fns {
			for _, l := range findMapLoops(f) {
				sens, notes := c.classifyLoop(l)
				key := c.P.FuncID(f) + " :: range " + c.P.KeyTerm(l.rng.X, 3)
				o := report.Obligation{Rule: rule, Key: key, Pos: c.P.InstrPos(l.rng), Path: r.Path(c.P, f), Detail: map[string]any{"loop_sig": c.loopSig(l)}}
				tbl := c.tableOf(l)
				tbls := []string{tbl}
				if pa, isParam := l.rng.X.(*ssa.Parameter); isParam && tbl != "" {
					// a shared search helper: the tables are what its callers hand in
					tbls = c.tablesPassedAs(f, pa)
					tbl = strings.Join(tbls, ", ")
				}
				if len(sens) > 0 && tbl != "" && len(tbls) > 0 && c.firstMatchOnly(l) {
					// first-match search over a rule table: at most one pattern matches a path when A1 holds
					okA1 := true
					for _, one := range tbls {
						found := false
						for _, ao := range c.A1(rule+"-A1", one) {
							if ao.Status == report.Discharged && strings.HasSuffix(ao.Key, ":: exclusive") {
								found = true
							}
						}
						if !found {
							okA1 = false
						}
					}
					if okA1 {
						o.Status = report.Discharged
						o.Why = "first-match search over rule table " + tbl + " whose patterns are pairwise exclusive (A1): at most one entry matches, iteration order is irrelevant"
						out2 = append(out2, o)
						continue
					}
				}
				if len(sens) == 0 {
					o.Status = report.Discharged
					sort.Strings(notes)
					o.Why = "body effects: " + strings.Join(notes, "; ")
					if len(notes) == 0 {
						o.Why = "no effect reaches state outside the iteration"
					}
				} else {
					o.Status = report.Violation
					var ws []string
					seenSig := map[string]bool{}
					var sigs []string
					for _, s := range sens {
						ws = append(ws, s.why+" ["+c.P.InstrPos(s.in)+"]")
						sg := s.sig
						if sg == "" {
							f := strings.Fields(s.why)
							if len(f) > 6 {
								f = f[:6]
							}
							sg = strings.Join(f, " ")
						}
						// one entry per (argument type, kind of write): a justification covers an effect, not a list
						parts := []string{sg}
						if i := strings.Index(sg, ": "); i > 0 && strings.HasPrefix(sg, "a callee writes through") {
							parts = nil
							for _, k := range strings.Split(sg[i+2:], "; ") {
								parts = append(parts, sg[:i+2]+k)
							}
						}
						for _, p1 := range parts {
							if !seenSig[p1] {
								seenSig[p1] = true
								sigs = append(sigs, p1)
							}
						}
					}
					sort.Strings(sigs)
					o.Why = "order-sensitive: " + strings.Join(ws, " | ")
					o.Detail = map[string]any{"loop_sig": c.loopSig(l), "reasons": sigs}
				}
				out2 = append(out2, o)
			}
		}
		if pass == 1 {
			out = append(out, out2...)
		}
	}
	// callers of functions that return unsorted accumulations
	for _, f := range fns {
		for _, b := range f.Blocks {
			for _, in := range b.Instrs {
				call, ok := in.(*ssa.Call)
				if !ok {
					continue
				}
				cal := call.Call.StaticCallee()
				if cal == nil || !c.unsortedResult[cal] {
					continue
				}
				key := c.P.FuncID(f) + " :: uses unsorted " + c.P.FuncID(cal)
				sorted := false
				at := ""
				if c.orderFreeUses(call, f) {
					out = append(out, ok2(rule, key, c.P.InstrPos(in), "the order-dependent result only feeds membership tests, len(), or the caller's own unsorted accumulation"))
					continue
				}
				for _, rr := range *call.Referrers() {
					if ci, ok := rr.(ssa.CallInstruction); ok && isSortCall(ci.Common()) {
						sorted, at = true, c.P.InstrPos(rr)
					}
					if mi, ok := rr.(*ssa.MakeInterface); ok {
						for _, r3 := range *mi.Referrers() {
							if ci, ok := r3.(ssa.CallInstruction); ok && isSortCall(ci.Common()) {
								sorted, at = true, c.P.InstrPos(r3)
							}
						}
					}
				}
				if sorted {
					out = append(out, ok2(rule, key, c.P.InstrPos(in), "the order-dependent result is sorted at "+at+" before use"))
				} else if len(*call.Referrers()) == 0 {
					out = append(out, ok2(rule, key, c.P.InstrPos(in), "result unused"))
				} else {
					out = append(out, bad(rule, key, c.P.InstrPos(in), "the callee returns elements in map-iteration order and the caller uses them without sorting"))
				}
			}
		}
	}
	c.Stats[rule+".functions"] = len(fns)
	return out
}

// orderFreeUses: the slice is only used by slices.Contains / len / as the variadic
// tail appended to an accumulation the caller itself returns unsorted.
func (c *Ctx) orderFreeUses(call *ssa.Call, f *ssa.Function) bool {
	for _, r := range *call.Referrers() {
		ci, ok := r.(ssa.CallInstruction)
		if !ok {
			return false
		}
		com := ci.Common()
		if b, ok := com.Value.(*ssa.Builtin); ok {
			switch b.Name() {
			case "len":
				continue
			case "append":
				if c.unsortedResult[f] && len(com.Args) == 2 && com.Args[1] == ssa.Value(call) {
					continue
				}
			}
			return false
		}
		switch staticName(com) {
		case "golang.org/x/exp/slices.Contains", "slices.Contains", "golang.org/x/exp/slices.ContainsFunc", "slices.ContainsFunc":
			continue
		}
		return false
	}
	return true
}

func ok2(rule, key, pos, why string) report.Obligation { return ok(rule, key, pos, why) }

// firstMatchOnly: every call and every return of the region is control
// dependent on a `Matches(pattern)` test over the iteration key.
func (c *Ctx) firstMatchOnly(l *mapLoop) bool {
	found := false
	for b := range l.region {
		for _, in := range b.Instrs {
			switch in.(type) {
			case *ssa.Return, *ssa.MapUpdate, *ssa.Store:
			case *ssa.Call:
				call := in.(*ssa.Call)
				if cal := call.Call.StaticCallee(); cal != nil && c.P.RefName(cal) == "Matches" {
					continue
				}
				if _, isB := call.Call.Value.(*ssa.Builtin); isB {
					continue
				}
			default:
				continue
			}
			dep := false
			for _, f := range prog.DominatingFacts(b) {
				if call, ok := f.Cond.(*ssa.Call); ok && f.Val {
					if cal := call.Call.StaticCallee(); cal != nil && c.P.RefName(cal) == "Matches" && len(call.Call.Args) == 2 && l.isIterKey(call.Call.Args[1]) {
						dep = true
					}
				}
			}
			if !dep {
				return false
			}
			found = true
		}
	}
	return found
}

var _ = tab.MatchPattern

// loopSig identifies a map range by what does not depend on how the ranged value is spelled: the type of the map
// and the module functions called from the body. The reference tree's signatures (loops.json) let a justified
// loop be recognised when only its operand was re-spelled (a lookup moved into a helper).
func (c *Ctx) loopSig(l *mapLoop) string {
	seen := map[string]bool{}
	for b := range l.region {
		for _, in := range b.Instrs {
			if ci, ok := in.(ssa.CallInstruction); ok {
				if cal := ci.Common().StaticCallee(); cal != nil && c.P.InModule(cal) {
					seen[c.P.FuncID(cal)] = true
				}
			}
		}
	}
	var cs []string
	for k := range seen {
		cs = append(cs, k)
	}
	sort.Strings(cs)
	return c.P.TypeStr(l.rng.X.Type()) + " | calls " + strings.Join(cs, ",")
}

// LoopRef is what loops.json keeps of a map range of the reference tree.
type LoopRef struct {
	Sig     string   `json:"sig"`
	Reasons []string `json:"reasons,omitempty"` // the order-sensitive effects a justification was written against
}

// LoopSnapshot: ORD key -> signature (and, for the loops ORD classifies as order-sensitive, the effects found)
// for every map range of the module (written to loops.json by -snapshot).
func (c *Ctx) LoopSnapshot() map[string]LoopRef {
	out := map[string]LoopRef{}
	for _, f := range c.P.Funcs {
		for _, l := range findMapLoops(f) {
			out[c.P.FuncID(f)+" :: range "+c.P.KeyTerm(l.rng.X, 3)] = LoopRef{Sig: c.loopSig(l)}
		}
	}
	for _, o := range c.ORD("ORD", "LOAD", "RENDER") {
		d, ok := o.Detail.(map[string]any)
		if !ok {
			continue
		}
		if rs, ok := d["reasons"].([]string); ok {
			ref := out[o.Key]
			ref.Reasons = rs
			out[o.Key] = ref
		}
	}
	return out
}

// tablesPassedAs: the package-level rule tables the callers of fn pass for parameter pa (nil if some caller passes
// anything else).
func (c *Ctx) tablesPassedAs(fn *ssa.Function, pa *ssa.Parameter) []string {
	idx := -1
	for i, p := range fn.Params {
		if p == pa {
			idx = i
		}
	}
	if idx < 0 {
		return nil
	}
	seen := map[string]bool{}
	var out []string
	for _, g := range c.P.Funcs {
		for _, cs := range callSites(g, func(com *ssa.CallCommon) bool { return com.StaticCallee() == fn }) {
			if idx >= len(cs.Common().Args) {
				return nil
			}
			ld, ok := cs.Common().Args[idx].(*ssa.UnOp)
			if !ok {
				return nil
			}
			gl, ok := ld.X.(*ssa.Global)
			if !ok {
				return nil
			}
			name := c.P.Rel(gl.Pkg.Pkg) + "." + gl.Name()
			if !seen[name] {
				seen[name] = true
				out = append(out, name)
			}
		}
	}
	sort.Strings(out)
	return out
}

// ---------------------------------------------------------------------------
// MAPALL: a range over a map visits its entries in an unspecified order, so a
// `break` out of it decides WHICH entries are processed by the order of the
// iteration. It is only sound in a search: the iterations that do not break
// leave nothing behind.
// ---------------------------------------------------------------------------

// breakEdges: edges from a body block of the loop to the block its exhaustion falls to.
func (l *mapLoop) breakEdges() []*ssa.BasicBlock {
	var out []*ssa.BasicBlock
	for _, p := range l.exit.Preds {
		if p != l.head && l.region[p] {
			out = append(out, p)
		}
	}
	return out
}

func (c *Ctx) MAPALL(rule string) []report.Obligation {
	var out []report.Obligation
	n := 0
	for _, fn := range c.P.Funcs {
		if strings.HasPrefix(c.P.FuncID(fn), "types.deriveDeepCopy") {
			continue
		}
		for _, l := range findMapLoops(fn) {
			n++
			brk := l.breakEdges()
			if len(brk) == 0 {
				continue
			}
			key := c.P.FuncID(fn) + " :: break out of range " + c.P.KeyTerm(l.rng.X, 3)
			sens, notes := c.classifyLoop(l)
			// effects of the iterations that go on: everything outside the blocks that can only end in the break
			var left []string
			// the blocks of the iteration that ends the loop: from them the loop head is no longer reached
			reachHead := map[*ssa.BasicBlock]bool{}
			var back func(b *ssa.BasicBlock)
			back = func(b *ssa.BasicBlock) {
				for _, p := range b.Preds {
					if l.region[p] && !reachHead[p] {
						reachHead[p] = true
						back(p)
					}
				}
			}
			back(l.head)
			onlyBreak := map[*ssa.BasicBlock]bool{}
			for b := range l.region {
				if !reachHead[b] {
					onlyBreak[b] = true
				}
			}
			for _, s := range sens {
				if !onlyBreak[s.in.Block()] && s.in.Block() != l.exit { // what leaves through the break is ORD's business
					left = append(left, s.why+" ["+c.P.InstrPos(s.in)+"]")
				}
			}
			var leftNotes []string
			for _, nt := range notes {
				if strings.HasPrefix(nt, "early exit") {
					continue // an error return ends the whole function, not just the loop
				}
				for _, at := range l.noteAt[nt] {
					if at == nil || !onlyBreak[at] {
						leftNotes = append(leftNotes, nt)
						break
					}
				}
			}
			notes = leftNotes
			o := report.Obligation{Rule: rule, Key: key, Pos: c.P.InstrPos(brk[0].Instrs[len(brk[0].Instrs)-1])}
			if len(left) == 0 && len(notes) == 0 {
				o.Status = report.Discharged
				o.Why = "a search: the iterations that do not break have no effect outside themselves"
			} else {
				o.Status = report.Violation
				o.Why = fmt.Sprintf("the loop stops at an entry chosen by map order while the other iterations have effects: %s %s", strings.Join(left, " | "), strings.Join(notes, "; "))
			}
			out = append(out, o)
		}
	}
	c.Stats[rule+".map-range loops"] = n
	out = append(out, ok(rule, "inventory :: ranges over a map examined for a break", "", fmt.Sprintf("%d ranges over a map in the module; %d of them have a break", n, len(out))))
	return out
}
