// Package rules implements the rule families of DESIGN.md §3.
package rules

import (
	"fmt"
	"go/ast"
	"go/types"
	"sort"
	"strings"

	"golang.org/x/tools/go/ssa"
	"verifcheck/internal/prog"
	"verifcheck/internal/report"
)

// Ctx is shared by all rules of one run.
type Ctx struct {
	modelTypes map[*types.TypeName]bool
	trvRoleCache      *trvRoleNames
	P                 *prog.Program
	Tier              string
	Notes             []string // informational lines for the evidence
	reach             map[string]*prog.Reach
	dyn               *dynTyper
	Stats             map[string]int
	tabd              *tabData
	immE              *immEngine
	joinCache         map[*ssa.Function]bool
	unsortedResult    map[*ssa.Function]bool
	retRangeCache     map[*ssa.Function][]retRange
	mutableDuringWalk map[string]bool
	VerifDir          string
	Seed              int
}

func NewCtx(p *prog.Program, tier string) *Ctx {
	fieldAlias = p.FieldRenames()
	// package-level variables assigned only by their initialiser: every load yields the same value
	writtenGlobals = map[*ssa.Global]bool{}
	for _, f := range p.Funcs {
		if f.Name() == "init" && f.Parent() == nil {
			continue
		}
		for _, b := range f.Blocks {
			for _, in := range b.Instrs {
				switch x := in.(type) {
				case *ssa.Store:
					if g, ok := x.Addr.(*ssa.Global); ok {
						writtenGlobals[g] = true
					}
				default:
					// the address of the variable taken as a value (passed, stored): anything may write it
					for _, op := range in.Operands(nil) {
						if g, ok := (*op).(*ssa.Global); ok {
							if ld, isLoad := in.(*ssa.UnOp); !isLoad || ld.X != ssa.Value(g) {
								writtenGlobals[g] = true
							}
						}
					}
				}
			}
		}
	}
	return &Ctx{P: p, Tier: tier, reach: map[string]*prog.Reach{}, dyn: newDynTyper(p), Stats: map[string]int{}, joinCache: map[*ssa.Function]bool{}}
}

func (c *Ctx) Notef(format string, a ...any) { c.Notes = append(c.Notes, fmt.Sprintf(format, a...)) }

// anchorViolation is produced when a named anchor no longer resolves: a rule
// that cannot find what it is about must fail, not pass vacuously.
func anchorViolation(rule, what string) report.Obligation {
	return report.Obligation{Rule: rule, Key: "anchor " + what, Status: report.Violation,
		Why: "anchor does not resolve on this tree; the rule cannot be decided (undecided means fail)"}
}

// namedModelType reports whether t (after pointer deref) is a named type of package types.
func (c *Ctx) isTypesNamed(t types.Type, name string) bool {
	if p, ok := t.(*types.Pointer); ok {
		t = p.Elem()
	}
	n, ok := t.(*types.Named)
	return ok && n.Obj().Name() == name && c.P.Rel(n.Obj().Pkg()) == "types"
}

// EntrySet resolves a named entry set to functions (DESIGN §2.2).
func (c *Ctx) EntrySet(name string) ([]*ssa.Function, []string) {
	p := c.P
	var fns []*ssa.Function
	var missing []string
	add := func(ids ...string) {
		for _, id := range ids {
			if f := p.Func(id); f != nil {
				fns = append(fns, f)
			} else {
				missing = append(missing, id)
			}
		}
	}
	switch name {
	case "LOAD":
		add("loader.Load", "loader.LoadWithContext", "loader.LoadModelWithContext", "loader.LoadConfigFiles",
			"cli.(*ProjectOptions).LoadProject", "cli.(*ProjectOptions).LoadModel", "cli.ProjectFromOptions", "cli.NewProjectOptions")
		for _, f := range p.ExportedFuncs("cli") {
			if strings.HasPrefix(f.Name(), "With") {
				fns = append(fns, f)
			}
		}
		// decoders and hooks are reached through reflection from mapstructure
		fns = append(fns, p.MethodsNamed("DecodeMapstructure")...)
		// and from the yaml / json decoders
		fns = append(fns, p.MethodsNamed("UnmarshalYAML", "UnmarshalJSON", "UnmarshalText")...)
	case "RENDER":
		fns = append(fns, p.MethodsNamed("MarshalYAML", "MarshalJSON")...)
	case "DERIVE":
		for _, f := range p.MethodsOf("types", "Project", true) {
			fns = append(fns, f)
		}
		add("graph.InDependencyOrder", "graph.CheckCycle")
		fns = append(fns, p.ExportedFuncs("graph")...)
	case "SELECT":
		// the derivation operations of C15: methods of Project that return a project, and the service visitor
		for _, f := range p.MethodsOf("types", "Project", true) {
			if c.returnsProject(f) || f.Name() == "ForEachService" {
				fns = append(fns, f)
			}
		}
	case "GRAPH":
		add("graph.InDependencyOrder", "graph.CheckCycle")
		fns = append(fns, p.ExportedFuncs("graph")...)
	case "CONSISTENCY":
		add("loader.checkConsistency")
	case "DOTENV":
		fns = append(fns, p.ExportedFuncs("dotenv")...)
	case "TEMPLATE":
		fns = append(fns, p.ExportedFuncs("template")...)
		fns = append(fns, p.ExportedFuncs("interpolation")...)
	default:
		missing = append(missing, "entry set "+name)
	}
	// dedup, sort
	seen := map[*ssa.Function]bool{}
	var out []*ssa.Function
	for _, f := range fns {
		if !seen[f] {
			seen[f] = true
			out = append(out, f)
		}
	}
	sort.Slice(out, func(i, j int) bool { return p.FuncID(out[i]) < p.FuncID(out[j]) })
	return out, missing
}

// Reach returns (cached) reachability from the union of named entry sets.
func (c *Ctx) Reach(names ...string) (*prog.Reach, []string) {
	key := strings.Join(names, "+")
	if r, ok := c.reach[key]; ok {
		return r, nil
	}
	var roots []*ssa.Function
	var missing []string
	for _, n := range names {
		f, m := c.EntrySet(n)
		roots = append(roots, f...)
		missing = append(missing, m...)
	}
	r := c.P.Reachable(roots)
	c.reach[key] = r
	return r, missing
}

func dominatingFactsOf(b *ssa.BasicBlock) []prog.Fact { return prog.DominatingFacts(b) }

func isExported(name string) bool { return ast.IsExported(name) }

// eachInstr visits every instruction of the functions, in stable order.
func eachInstr(fns []*ssa.Function, visit func(f *ssa.Function, in ssa.Instruction)) {
	for _, f := range fns {
		for _, b := range f.Blocks {
			for _, in := range b.Instrs {
				visit(f, in)
			}
		}
	}
}
