package rules

import (
	"go/token"
	"strings"

	"golang.org/x/tools/go/ssa"
	"verifcheck/internal/prog"
	"verifcheck/internal/report"
)

// factOnField: block b is reached only when `<field> (==|!=) ""`/bool has the given truth, for a loaded field.
// want=true means "field is non-empty / true".
func fieldFact(b *ssa.BasicBlock, field string) (val bool, known bool) {
	for _, f := range prog.DominatingFacts(b) {
		cond, neg := unwrapNot(f.Cond)
		if loadedField(cond) == field {
			return f.Val != neg, true
		}
		if bo, ok := cond.(*ssa.BinOp); ok && (bo.Op == token.NEQ || bo.Op == token.EQL) && loadedField(bo.X) == field {
			if s, isC := prog.ConstString(bo.Y); isC && s == "" {
				nonEmpty := (bo.Op == token.NEQ) == (f.Val != neg)
				return nonEmpty, true
			}
			if prog.IsNilConst(bo.Y) {
				return (bo.Op == token.NEQ) == (f.Val != neg), true
			}
		}
	}
	return false, false
}

// valueFact: the SSA value v (a string) is known (non-)empty at block b.
func nonEmptyFact(b *ssa.BasicBlock, v ssa.Value) (val bool, known bool) {
	for _, f := range prog.DominatingFacts(b) {
		if bo, ok := f.Cond.(*ssa.BinOp); ok && (bo.Op == token.NEQ || bo.Op == token.EQL) && bo.X == v {
			if s, isC := prog.ConstString(bo.Y); isC && s == "" {
				return (bo.Op == token.NEQ) == f.Val, true
			}
		}
	}
	return false, false
}

// NAME: project name precedence (C17).
func (c *Ctx) NAME(rule string) []report.Obligation {
	var out []report.Obligation
	// ---- NAME-1
	if f := c.P.Func("cli.withNamePrecedenceLoad$1"); f != nil {
		sets := c.callsTo(f, "loader.(*Options).SetProjectName")
		var explicit, env, dir ssa.CallInstruction
		for _, s := range sets {
			a := s.Common().Args[1]
			switch {
			case loadedField(a) == "Name":
				explicit = s
			case isCallTo(c, a, "loader.NormalizeProjectName") || c.returnsCallTo(a, "loader.NormalizeProjectName"):
				dir = s
			default:
				env = s
			}
		}
		if explicit == nil || env == nil || dir == nil {
			out = append(out, bad(rule+"-1", "withNamePrecedenceLoad :: three sources", c.P.Pos(f.Pos()), "expected SetProjectName calls for the explicit name, COMPOSE_PROJECT_NAME and the directory name"))
		} else {
			imp := func(s ssa.CallInstruction) (bool, bool) { return constBool(s.Common().Args[2]) }
			v1, k1 := fieldFact(explicit.Block(), "Name")
			i1, _ := imp(explicit)
			out = append(out, verdict(k1 && v1 && i1, rule+"-1", "name :: explicit name first, imperatively set", c.P.InstrPos(explicit),
				"SetProjectName(options.Name, true) on the options.Name != \"\" edge", "the explicit name is not taken first / not marked as imperatively set"))
			v2, k2 := fieldFact(env.Block(), "Name")
			i2, _ := imp(env)
			isEnvLookup := false
			if lk := lookupOf(env.Common().Args[1], 3); lk != nil && loadedField(lk.X) == "Environment" {
				if k, _ := prog.ConstString(lk.Index); k == "COMPOSE_PROJECT_NAME" {
					isEnvLookup = true
				}
			}
			nv, nk := nonEmptyFact(env.Block(), env.Common().Args[1])
			out = append(out, verdict(k2 && !v2 && i2 && isEnvLookup && nk && nv, rule+"-1", "name :: COMPOSE_PROJECT_NAME second, imperatively set", c.P.InstrPos(env),
				"used only when options.Name is empty and the variable is set and non-empty", "COMPOSE_PROJECT_NAME is consulted in the wrong position (or without the non-empty test, or not marked imperatively set)"))
			v3, k3 := fieldFact(dir.Block(), "Name")
			i3, isC3 := imp(dir)
			out = append(out, verdict(k3 && !v3 && isC3 && !i3, rule+"-1", "name :: directory name last, not imperative", c.P.InstrPos(dir),
				"the normalised directory name is used only when both are empty, with imperativelySet=false so that a `name:` in the files can replace it", "the directory fallback is not the last resort, or is marked imperatively set"))
		}
	} else {
		out = append(out, anchorViolation(rule+"-1", "cli.withNamePrecedenceLoad$1"))
	}
	// ---- NAME-2
	if f := c.P.Func("loader.projectName"); f != nil {
		fi := prog.Info(f)
		// deferred export
		var exp *ssa.Function
		var def ssa.Instruction
		for _, b := range f.Blocks {
			for _, in := range b.Instrs {
				if d, ok := in.(*ssa.Defer); ok {
					if mc, ok := d.Call.Value.(*ssa.MakeClosure); ok {
						exp, def = mc.Fn.(*ssa.Function), in
					}
				}
			}
		}
		good := false
		if exp != nil {
			for _, k := range constMapUpdateKeys(exp) {
				if k == "COMPOSE_PROJECT_NAME" {
					good = true
				}
			}
			for _, r := range returnsOf(f) {
				if !prog.InstrDominates(def, r) {
					good = false
				}
			}
			// ... and unconditionally: the store replaces whatever the environment held before (the value
			// interpolation sees is the resolved name); it may only depend on the nil test that creates the map
			for _, b := range exp.Blocks {
				for _, in := range b.Instrs {
					mu, ok := in.(*ssa.MapUpdate)
					if !ok {
						continue
					}
					if k, _ := prog.ConstString(mu.Key); k != "COMPOSE_PROJECT_NAME" {
						continue
					}
					for _, d := range prog.Info(exp).TransitiveControlDeps(b) {
						iff, isIf := d.Branch.Instrs[len(d.Branch.Instrs)-1].(*ssa.If)
						if !isIf {
							continue
						}
						bo, isB := iff.Cond.(*ssa.BinOp)
						if isB && (prog.IsNilConst(bo.X) || prog.IsNilConst(bo.Y)) {
							continue
						}
						good = false
					}
				}
			}
		}
		out = append(out, verdict(good, rule+"-2", "projectName :: name exported on every exit", c.P.Pos(f.Pos()),
			"a deferred function stores Environment[COMPOSE_PROJECT_NAME] = opts.projectName and the defer dominates every return", "the resolved name is not exported to the environment on every exit, or only when the environment does not already hold a (possibly different) value"))
		// imperative branch
		var impIf *ssa.BasicBlock
		for _, b := range f.Blocks {
			if iff, ok := b.Instrs[len(b.Instrs)-1].(*ssa.If); ok && loadedField(iff.Cond) == "projectNameImperativelySet" {
				impIf = b
			}
		}
		isRead := func(com *ssa.CallCommon) bool {
			return staticName(com) == "os.ReadFile" || strings.HasSuffix(staticName(com), "yaml.v3.NewDecoder")
		}
		// the scan of the files may live in a helper of the package: calling it is reading the files
		scanners := []*ssa.Function{f}
		for _, cs := range callSites(f, func(com *ssa.CallCommon) bool {
			cal := com.StaticCallee()
			return cal != nil && c.P.InModule(cal) && strings.HasPrefix(c.P.FuncID(cal), "loader.") && len(callSites(cal, isRead)) > 0
		}) {
			scanners = append(scanners, cs.Common().StaticCallee())
		}
		reads := callSites(f, func(com *ssa.CallCommon) bool {
			if isRead(com) {
				return true
			}
			for _, g := range scanners[1:] {
				if com.StaticCallee() == g {
					return true
				}
			}
			return false
		})
		if impIf == nil || len(reads) == 0 {
			out = append(out, bad(rule+"-2", "projectName :: imperative name short-circuits", c.P.Pos(f.Pos()), "cannot find the projectNameImperativelySet test / the file reads"))
		} else {
			tb := impIf.Succs[0]
			esc := false
			for _, rd := range reads {
				if tb == rd.Block() || fi.Reaches(tb, rd.Block()) {
					esc = true
				}
			}
			inv := false
			for _, r := range returnsOf(f) {
				if tb.Dominates(r.Block()) {
					if call, ok := retValue(r, 0).(*ssa.Call); ok && c.calleeID(&call.Call) == "loader.InvalidProjectNameErr" {
						inv = factHolds(r.Block(), func(cond ssa.Value, val bool) bool {
							bo, ok := cond.(*ssa.BinOp)
							return ok && bo.Op == token.NEQ && val && isCallTo(c, bo.X, "loader.NormalizeProjectName")
						})
					}
				}
			}
			out = append(out, verdict(!esc && inv, rule+"-2", "projectName :: imperative name validated, files not consulted", c.P.InstrPos(impIf.Instrs[len(impIf.Instrs)-1]),
				"on the imperatively-set edge every path returns (InvalidProjectNameErr when Normalize(x) != x) before any file is read", "an imperatively set name is not validated, or the `name:` of the files can still replace it"))
		}
		// file-derived name: Interpolate (gated) -> NormalizeProjectName -> assigned only if non-empty
		var st *ssa.Store
		for _, b := range f.Blocks {
			for _, in := range b.Instrs {
				if s, ok := in.(*ssa.Store); ok {
					if fa, ok := s.Addr.(*ssa.FieldAddr); ok && fieldName(fa) == "projectName" {
						st = s
					}
				}
			}
		}
		if st == nil {
			out = append(out, bad(rule+"-2", "projectName :: name from files assigned", c.P.Pos(f.Pos()), "no store to opts.projectName"))
		} else {
			norm := isCallTo(c, st.Val, "loader.NormalizeProjectName")
			nv, nk := nonEmptyFact(st.Block(), st.Val)
			out = append(out, verdict(norm && nk && nv, rule+"-2", "projectName :: file name normalised and only used when non-empty", c.P.InstrPos(st),
				"opts.projectName = NormalizeProjectName(...) on the != \"\" edge", "the name taken from the files is not normalised, or replaces the fallback even when it is empty"))
			// interpolation gate
			ic := c.callsTo(f, "interpolation.Interpolate")
			okI := len(ic) == 1
			if okI {
				v, k := fieldFact(ic[0].Block(), "SkipInterpolation")
				okI = k && !v
				if call, isCall := st.Val.(*ssa.Call); isCall {
					okI = okI && c.derivedFrom(call.Call.Args[0], ic[0].(ssa.Value), 5)
				}
			}
			out = append(out, verdict(okI, rule+"-2", "projectName :: file name interpolated unless SkipInterpolation", c.P.Pos(f.Pos()),
				"the name goes through interp.Interpolate on the !SkipInterpolation edge before normalisation", "the `name:` of the files is not interpolated (or is interpolated regardless of SkipInterpolation)"))
		}
		// last file wins: the block that records n.Name stays in the loop
		rec := false
		for _, g := range scanners {
			gi := prog.Info(g)
			for _, b := range g.Blocks {
				iff, ok := b.Instrs[len(b.Instrs)-1].(*ssa.If)
				if !ok {
					continue
				}
				bo, ok := iff.Cond.(*ssa.BinOp)
				if !ok || bo.Op != token.NEQ || loadedField(bo.X) != "Name" {
					continue
				}
				if s, isC := prog.ConstString(bo.Y); !isC || s != "" {
					continue
				}
				t := b.Succs[0]
				rec = gi.InLoop(t) || gi.Reaches(t, b)
				for _, s := range t.Succs {
					if !gi.Reaches(s, b) && s != b {
						rec = false
					}
				}
			}
		}
		out = append(out, verdict(rec, rule+"-2", "projectName :: last file that sets a name wins", c.P.Pos(f.Pos()),
			"after recording a non-empty name the scan continues with the next document / file", "the scan stops at the first file that sets a name"))
	} else {
		out = append(out, anchorViolation(rule+"-2", "loader.projectName"))
	}
	// ---- NAME-3
	if f := c.P.Func("loader.load"); f != nil {
		errOK, setOK := false, false
		for _, r := range returnsOf(f) {
			if v, k := fieldFact(r.Block(), "projectName"); k && !v && c.dyn.definitelyNonNil(retValue(r, 1), r.Block(), 2) {
				errOK = true
			}
		}
		for _, b := range f.Blocks {
			for _, in := range b.Instrs {
				if mu, ok := in.(*ssa.MapUpdate); ok {
					if k, _ := prog.ConstString(mu.Key); k == "name" {
						v, kn := fieldFact(b, "projectName")
						setOK = kn && v
					}
				}
			}
		}
		out = append(out, verdict(errOK && setOK, rule+"-3", "load :: empty project name is an error", c.P.Pos(f.Pos()),
			"load returns an error on the projectName == \"\" edge, before dict[\"name\"] is set", "a load can succeed with an empty project name"))
	} else {
		out = append(out, anchorViolation(rule+"-3", "loader.load"))
	}
	if f := c.P.Func("cli.WithName$1"); f != nil {
		good := false
		for _, r := range returnsOf(f) {
			if c.dyn.definitelyNonNil(retValue(r, 0), r.Block(), 2) || isCallTo(c, retValue(r, 0), "loader.InvalidProjectNameErr") {
				if factHolds(r.Block(), func(cond ssa.Value, val bool) bool {
					bo, ok := cond.(*ssa.BinOp)
					return ok && bo.Op == token.NEQ && val && (isCallTo(c, bo.X, "loader.NormalizeProjectName") || isCallTo(c, bo.Y, "loader.NormalizeProjectName"))
				}) {
					good = true
				}
			}
		}
		out = append(out, verdict(good, rule+"-3", "cli.WithName :: rejects a name that is not in normal form", c.P.Pos(f.Pos()),
			"an error is returned on the NormalizeProjectName(name) != name edge", "WithName accepts a name that normalisation would change"))
	} else {
		out = append(out, anchorViolation(rule+"-3", "cli.WithName$1"))
	}
	// ---- NAME-5: normalisation trims last. The result must start with [a-z0-9]: the leading `_` / `-` are
	// trimmed from what is left after the disallowed characters were filtered out, so every value returned is the
	// result of the trim, applied to the filtered text (a trim before the filter lets `._x` through as `_x`)
	if f := c.P.Func("loader.NormalizeProjectName"); f != nil {
		good := true
		n := 0
		why := ""
		for _, r := range returnsOf(f) {
			n++
			call, ok := retValue(r, 0).(*ssa.Call)
			if !ok || !strings.HasPrefix(staticName(&call.Call), "strings.TrimLeft") && staticName(&call.Call) != "strings.TrimLeftFunc" {
				good, why = false, "a returned value is not the result of trimming the leading `_` and `-`"
				continue
			}
			// the trimmed operand comes out of the character filter (a regexp method or strings.Map)
			filtered := false
			var walk func(v ssa.Value, d int)
			walk = func(v ssa.Value, d int) {
				if d == 0 || filtered {
					return
				}
				switch x := v.(type) {
				case *ssa.Call:
					sn := staticName(&x.Call)
					if strings.HasPrefix(sn, "(*regexp.Regexp).") || sn == "strings.Map" {
						filtered = true
						return
					}
					for _, a := range x.Call.Args {
						walk(a, d-1)
					}
				case *ssa.Phi:
					for _, e := range x.Edges {
						walk(e, d-1)
					}
				case *ssa.Slice:
					walk(x.X, d-1)
				case *ssa.Extract:
					walk(x.Tuple, d-1)
				}
			}
			walk(call.Call.Args[0], 6)
			if !filtered {
				good, why = false, "the trim is applied before the disallowed characters are filtered out"
			}
		}
		out = append(out, verdict(good && n > 0, rule+"-5", "NormalizeProjectName :: leading `_`/`-` trimmed from the filtered text", c.P.Pos(f.Pos()),
			"every result is strings.TrimLeft applied to the filtered text", why+": a name whose first character is dropped by the filter and is followed by `_` or `-` comes out starting with `_` / `-`"))
	} else {
		out = append(out, anchorViolation(rule+"-5", "loader.NormalizeProjectName"))
	}
	// ---- ENV: .env lookup consults the current environment before earlier files
	if host := c.P.Func("dotenv.GetEnvFromFile"); host != nil {
		// the lookup handed to the parser: a closure literal, or the result of a constructor that returns one
		var f *ssa.Function
		outer := map[*ssa.FreeVar]ssa.Value{}
		for _, cs := range callSites(host, func(com *ssa.CallCommon) bool {
			cal := com.StaticCallee()
			return cal != nil && strings.HasPrefix(c.P.FuncID(cal), "dotenv.") && len(com.Args) >= 2 && isLookupSig(com.Args[len(com.Args)-1].Type())
		}) {
			arg := cs.Common().Args[len(cs.Common().Args)-1]
			if ct, ok := arg.(*ssa.ChangeType); ok {
				arg = ct.X
			}
			switch x := arg.(type) {
			case *ssa.MakeClosure:
				f = x.Fn.(*ssa.Function)
				for i, fv := range f.FreeVars {
					outer[fv] = x.Bindings[i]
				}
			case *ssa.Call:
				if g := x.Call.StaticCallee(); g != nil && c.P.InModule(g) {
					for _, r := range returnsOf(g) {
						rv := retValue(r, 0)
						if ct, ok := rv.(*ssa.ChangeType); ok {
							rv = ct.X
						}
						if mc, ok := rv.(*ssa.MakeClosure); ok {
							f = mc.Fn.(*ssa.Function)
							for i, fv := range f.FreeVars {
								bv := mc.Bindings[i]
								// a cell holding a parameter of the constructor, or the parameter itself
								if al, isAl := bv.(*ssa.Alloc); isAl {
									if cv := c.cellValue(al); cv != nil {
										bv = cv
									}
								}
								if pa, isP := bv.(*ssa.Parameter); isP {
									for j, gp := range g.Params {
										if gp == pa && j < len(x.Call.Args) {
											bv = x.Call.Args[j]
										}
									}
								}
								outer[fv] = bv
							}
						}
					}
				}
			}
		}
		good := false
		if f != nil {
			fromParam := func(m ssa.Value) (bool, bool) {
				if u, ok := m.(*ssa.UnOp); ok && u.Op == token.MUL {
					m = u.X
				}
				fv, ok := m.(*ssa.FreeVar)
				if !ok {
					return false, false
				}
				ov := outer[fv]
				if al, isAl := ov.(*ssa.Alloc); isAl {
					if cv := c.cellValue(al); cv != nil {
						ov = cv
					}
				}
				_, isParam := ov.(*ssa.Parameter)
				return isParam, ov != nil
			}
			var cur, prev *ssa.Lookup
			for _, b := range f.Blocks {
				for _, in := range b.Instrs {
					if lk, ok := in.(*ssa.Lookup); ok {
						isParam, known := fromParam(lk.X)
						if isParam {
							cur = lk
						} else if known {
							prev = lk
						}
					}
				}
			}
			good = cur != nil && prev != nil && prog.InstrDominates(cur, prev)
			if good {
				// the earlier-file lookup is reached only when the current environment does not define the key
				good = factHolds(prev.Block(), func(cond ssa.Value, val bool) bool {
					ex, ok := cond.(*ssa.Extract)
					return ok && ex.Tuple == ssa.Value(cur) && ex.Index == 1 && !val
				})
			}
		}
		out = append(out, verdict(good, rule+"-ENV", "GetEnvFromFile :: current environment before earlier files", c.P.Pos(host.Pos()),
			"the lookup handed to the parser answers from the current environment and falls back to earlier files only when the key is absent there", "the .env lookup does not give precedence to the current environment"))
	} else {
		out = append(out, anchorViolation(rule+"-ENV", "dotenv.GetEnvFromFile"))
	}
	return out
}

func isCallTo(c *Ctx, v ssa.Value, id string) bool {
	call, ok := v.(*ssa.Call)
	return ok && c.calleeID(&call.Call) == id
}

// bindingOfLoad: for `*freevar` (or a freevar), what the variable is bound to in the parent: the value stored in the cell.
func (c *Ctx) bindingOfLoad(v ssa.Value) ssa.Value {
	if u, ok := v.(*ssa.UnOp); ok && u.Op == token.MUL {
		v = u.X
	}
	fv, ok := v.(*ssa.FreeVar)
	if !ok {
		return nil
	}
	b := c.bindingOf(fv)
	if al, ok := b.(*ssa.Alloc); ok {
		if cv := c.cellValue(al); cv != nil {
			return cv
		}
		return al
	}
	return b
}

// LAY: layering of env files / environment and label files / labels (C16).
func (c *Ctx) LAY(rule string) []report.Obligation {
	var out []report.Obligation
	type spec struct {
		fn, loader, field, files string
	}
	var envEntry, envHost *ssa.Function
	for _, sp := range []spec{
		{"types.(Project).WithServicesEnvironmentResolved", "types.loadEnvFile", "Environment", "EnvFiles"},
		{"types.(Project).WithServicesLabelsResolved", "types.loadLabelFile", "Labels", "LabelFiles"},
	} {
		f := c.P.Func(sp.fn)
		if f == nil {
			out = append(out, anchorViolation(rule, sp.fn))
			continue
		}
		// the layering may live in a per-service helper of the package: the function that calls the file loader
		entry := f
		if len(c.callsTo(f, sp.loader)) == 0 {
			var hosts []*ssa.Function
			for _, cs := range callSites(f, func(com *ssa.CallCommon) bool {
				cal := com.StaticCallee()
				return cal != nil && c.P.InModule(cal) && strings.HasPrefix(c.P.FuncID(cal), "types.") && len(c.callsTo(cal, sp.loader)) > 0
			}) {
				hosts = append(hosts, cs.Common().StaticCallee())
			}
			if len(hosts) == 1 {
				f = hosts[0]
			}
		}
		if sp.field == "Environment" {
			envEntry, envHost = entry, f
		}
		fi := prog.Info(f)
		lf := c.callsTo(f, sp.loader)
		obs := c.callsTo(f, "types.(MappingWithEquals).OverrideBy")
		if len(lf) != 1 || len(obs) != 2 {
			out = append(out, bad(rule+"-2", sp.fn+" :: one loader call, two OverrideBy calls", c.P.Pos(f.Pos()), "unexpected shape"))
			continue
		}
		var inLoop, final ssa.CallInstruction
		for _, o := range obs {
			if c.derivedFrom(o.Common().Args[1], lf[0].(ssa.Value), 5) {
				inLoop = o
			} else {
				final = o
			}
		}
		if inLoop == nil || final == nil {
			out = append(out, bad(rule+"-2", sp.fn+" :: file layer and own layer", c.P.Pos(f.Pos()), "cannot tell the per-file OverrideBy from the final one"))
			continue
		}
		acc := c.accumulatorOf(inLoop.Common().Args[0])
		_, accFresh := acc.(*ssa.MakeMap)
		out = append(out, verdict(accFresh && fi.InLoop(inLoop.Block()) && prog.InstrDominates(lf[0], inLoop), rule+"-2", sp.fn+" :: files applied in order onto a fresh accumulator", c.P.InstrPos(inLoop),
			"acc.OverrideBy(file values) inside the loop over the service's "+sp.files+": a later file overrides an earlier one", "the file values are not accumulated with the later file winning"))
		// final: receiver = accumulator, argument = the service's own entries
		ownArg := final.Common().Args[1]
		own := c.readsField(ownArg, sp.field, 5)
		recvIsAcc := c.accumulatorOf(final.Common().Args[0]) == acc
		out = append(out, verdict(own && recvIsAcc, rule+"-2", sp.fn+" :: the service's own "+strings.ToLower(sp.field)+" override the files", c.P.InstrPos(final),
			"the last layer is acc.OverrideBy(service."+sp.field+"): the service's entries are the argument, which wins", "the roles are swapped (file values override the service's own entries) or the own entries are not applied last"))
		// and that result is what is stored to the service
		stored := false
		for _, b := range f.Blocks {
			for _, in := range b.Instrs {
				if st, ok := in.(*ssa.Store); ok {
					if fa, ok := st.Addr.(*ssa.FieldAddr); ok && fieldName(fa) == sp.field && prog.InstrDominates(final, in) && c.derivedFrom(st.Val, final.(ssa.Value), 5) {
						stored = true
					}
				}
			}
		}
		out = append(out, verdict(stored, rule+"-2", sp.fn+" :: layered result stored", c.P.Pos(f.Pos()),
			"service."+sp.field+" is assigned from the final OverrideBy", "the layered mapping is not stored back to the service"))
		// LAY-4: discarding only removes the file references
		n := 0
		scan := []*ssa.Function{f}
		if entry != f {
			scan = append(scan, entry)
		}
		for _, g := range scan {
			for _, b := range g.Blocks {
				for _, in := range b.Instrs {
					st, ok := in.(*ssa.Store)
					if !ok || !isNilOrConst(st.Val) {
						continue
					}
					fa, ok := st.Addr.(*ssa.FieldAddr)
					if !ok {
						continue
					}
					if fieldName(fa) == sp.files {
						n++
						flag := factHolds(b, func(cond ssa.Value, val bool) bool { return sameParam(cond, paramByType(g, "bool")) && val })
						out = append(out, verdict(flag, rule+"-4", sp.fn+" :: file references dropped only when requested", c.P.InstrPos(in),
							sp.files+" = nil on the discard=true edge", "the file references are dropped regardless of the discard flag"))
					} else if fieldOwner(fa) == "ServiceConfig" {
						out = append(out, bad(rule+"-4", sp.fn+" :: nothing else is cleared", c.P.InstrPos(in), "field "+fieldName(fa)+" is reset to nil while resolving"))
					}
				}
			}
		}
		if n == 0 {
			out = append(out, bad(rule+"-4", sp.fn+" :: discard supported", c.P.Pos(f.Pos()), "no `"+sp.files+" = nil` store found"))
		}
	}
	// LAY-3: the lookup closure of the environment resolution consults the accumulator, then the project environment
	// (the closure of the function that layers the env files which calls Mapping.Resolve)
	var f *ssa.Function
	if envHost != nil {
		for _, af := range envHost.AnonFuncs {
			if len(c.callsTo(af, "types.(Mapping).Resolve")) > 0 {
				f = af
				break
			}
		}
	}
	if f != nil {
		var lk *ssa.Lookup
		var res ssa.CallInstruction
		for _, b := range f.Blocks {
			for _, in := range b.Instrs {
				if l, ok := in.(*ssa.Lookup); ok {
					lk = l
				}
				if ci, ok := in.(ssa.CallInstruction); ok && c.calleeID(ci.Common()) == "types.(Mapping).Resolve" {
					res = ci
				}
			}
		}
		good := lk != nil && res != nil && prog.InstrDominates(lk, res)
		if good {
			_, isMap := c.bindingOfLoad(lk.X).(*ssa.MakeMap)
			recv := res.Common().Args[0]
			fromEnv := c.readsField(recv, "Environment", 5)
			if pa, isParam := c.bindingOfLoad(recv).(*ssa.Parameter); isParam && !fromEnv && envEntry != envHost {
				// the helper receives the project environment from the entry point
				for i, hp := range envHost.Params {
					if hp != pa {
						continue
					}
					for _, cs := range callSites(envEntry, func(com *ssa.CallCommon) bool { return com.StaticCallee() == envHost }) {
						if i < len(cs.Common().Args) && c.readsField(cs.Common().Args[i], "Environment", 5) {
							fromEnv = true
						}
					}
				}
			}
			good = isMap && fromEnv
		}
		out = append(out, verdict(good, rule+"-3", "env file lookup :: earlier files, then project environment", c.P.Pos(f.Pos()),
			"the lookup handed to the env-file parser reads the per-service accumulator first and newProject.Environment.Resolve second", "env files can no longer reference earlier env files / the project environment in that order"))
	} else {
		out = append(out, anchorViolation(rule+"-3", "types.(Project).WithServicesEnvironmentResolved$1"))
	}
	// ERR-gate: loadEnvFile returns (nil, nil) only when the file does not exist and is not required
	if f := c.P.Func("types.loadEnvFile"); f != nil {
		n := 0
		for _, r := range returnsOf(f) {
			if len(r.Results) == 2 && isNilOrConst(retValue(r, 0)) && isNilOrConst(retValue(r, 1)) {
				n++
				req, kreq := fieldFact(r.Block(), "Required")
				notExist := factHolds(r.Block(), func(cond ssa.Value, val bool) bool {
					call, ok := cond.(*ssa.Call)
					return ok && staticName(&call.Call) == "os.IsNotExist" && val
				})
				out = append(out, verdict(kreq && !req && notExist, rule+"-gate", "loadEnvFile :: silent skip only for a missing optional file", c.P.InstrPos(r),
					"`return nil, nil` lies on the os.IsNotExist && !Required edge", "an env file is skipped silently although it is required (or exists but cannot be read)"))
			}
		}
		if n == 0 {
			out = append(out, ok2(rule+"-gate", "loadEnvFile :: silent skip only for a missing optional file", c.P.Pos(f.Pos()), "loadEnvFile never returns (nil, nil)"))
		}
	} else {
		out = append(out, anchorViolation(rule+"-gate", "types.loadEnvFile"))
	}
	return out
}

// accumulatorOf: the map a (possibly re-assigned) accumulator variable denotes: strips phis of OverrideBy results back to the MakeMap.
func (c *Ctx) accumulatorOf(v ssa.Value) ssa.Value {
	seen := map[ssa.Value]bool{}
	for i := 0; i < 8 && v != nil && !seen[v]; i++ {
		seen[v] = true
		switch x := v.(type) {
		case *ssa.MakeMap:
			return x
		case *ssa.ChangeType:
			v = x.X
		case *ssa.Phi:
			var next ssa.Value
			for _, e := range x.Edges {
				if _, isC := e.(*ssa.Const); !isC && !seen[e] {
					next = e
					if _, isMk := stripConv(e).(*ssa.MakeMap); isMk {
						break
					}
				}
			}
			v = next
		case *ssa.Call:
			if c.calleeID(&x.Call) == "types.(MappingWithEquals).OverrideBy" {
				v = x.Call.Args[0]
			} else {
				return v
			}
		case *ssa.UnOp:
			if cv := c.cellValue(x.X); cv != nil {
				v = cv
			} else if al, ok := x.X.(*ssa.Alloc); ok {
				// a re-assigned accumulator variable: its origin is the one stored value that is neither
				// nil nor an OverrideBy result
				var origin ssa.Value
				n := 0
				for _, r := range *al.Referrers() {
					st, ok := r.(*ssa.Store)
					if !ok || st.Addr != ssa.Value(al) || isNilOrConst(st.Val) {
						continue
					}
					if call, ok := stripConv(st.Val).(*ssa.Call); ok && c.calleeID(&call.Call) == "types.(MappingWithEquals).OverrideBy" {
						continue
					}
					origin = st.Val
					n++
				}
				if n != 1 {
					return v
				}
				v = origin
			} else if bd := c.bindingOfLoad(x); bd != nil {
				v = bd
			} else {
				return v
			}
		default:
			return v
		}
	}
	return v
}

func stripConv(v ssa.Value) ssa.Value {
	for {
		ct, ok := v.(*ssa.ChangeType)
		if !ok {
			return v
		}
		v = ct.X
	}
}

// readsField: v is computed from a load of the named field.
func (c *Ctx) readsField(v ssa.Value, field string, depth int) bool {
	if v == nil || depth == 0 {
		return false
	}
	if loadedField(v) == field {
		return true
	}
	switch x := v.(type) {
	case *ssa.Call:
		for _, a := range x.Call.Args {
			if c.readsField(a, field, depth-1) {
				return true
			}
		}
	case *ssa.ChangeType:
		return c.readsField(x.X, field, depth-1)
	case *ssa.Phi:
		for _, e := range x.Edges {
			if c.readsField(e, field, depth-1) {
				return true
			}
		}
	case *ssa.MakeClosure:
		// bound method value: m.Resolve
		for _, b := range x.Bindings {
			if c.readsField(b, field, depth-1) {
				return true
			}
		}
	}
	return false
}

var _ = report.Info

// returnsCallTo: v is a call to a module helper every return of which yields a call to the function id.
func (c *Ctx) returnsCallTo(v ssa.Value, id string) bool {
	call, ok := v.(*ssa.Call)
	if !ok {
		return false
	}
	h := call.Call.StaticCallee()
	if h == nil || !c.P.InModule(h) || h.Blocks == nil {
		return false
	}
	rets := returnsOf(h)
	if len(rets) == 0 {
		return false
	}
	for _, r := range rets {
		if len(r.Results) != 1 || !isCallTo(c, r.Results[0], id) {
			return false
		}
	}
	return true
}
