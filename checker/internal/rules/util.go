package rules

import (
	"fmt"
	"go/constant"
	"go/types"
	"strings"

	"golang.org/x/tools/go/ssa"
	"verifcheck/internal/prog"
	"verifcheck/internal/report"
)

// callSites returns the call instructions (call/go/defer) in fn whose callee matches pred.
func callSites(fn *ssa.Function, pred func(com *ssa.CallCommon) bool) []ssa.CallInstruction {
	var out []ssa.CallInstruction
	for _, b := range fn.Blocks {
		for _, in := range b.Instrs {
			if ci, ok := in.(ssa.CallInstruction); ok && pred(ci.Common()) {
				out = append(out, ci)
			}
		}
	}
	return out
}

// staticName returns "pkgpath.Func" or "(recv).Method" string of the static callee, "" if dynamic.
func staticName(com *ssa.CallCommon) string {
	if c := com.StaticCallee(); c != nil {
		if o := c.Origin(); o != nil {
			return o.String()
		}
		return c.String()
	}
	return ""
}

func (c *Ctx) calleeID(com *ssa.CallCommon) string {
	if cal := com.StaticCallee(); cal != nil {
		if c.P.InModule(cal) {
			return c.P.FuncID(cal)
		}
		// instances of module generics called from elsewhere keep their module id
		return staticName(com)
	}
	return ""
}

// callsTo finds calls in fn to the module function with the given FuncID prefix (generic instances match their origin name).
func (c *Ctx) callsTo(fn *ssa.Function, id string) []ssa.CallInstruction {
	return callSites(fn, func(com *ssa.CallCommon) bool {
		got := c.calleeID(com)
		return got == id || strings.HasPrefix(got, id+"[")
	})
}

// methodCalls finds calls in fn to a method named name whose receiver's named type is typeName (any package).
func methodCalls(fn *ssa.Function, typeName, name string) []ssa.CallInstruction {
	return callSites(fn, func(com *ssa.CallCommon) bool {
		cal := com.StaticCallee()
		if cal == nil || cal.Name() != name || cal.Signature.Recv() == nil {
			return false
		}
		return recvTypeName(cal.Signature.Recv().Type()) == typeName
	})
}

func recvTypeName(t types.Type) string {
	if p, ok := t.(*types.Pointer); ok {
		t = p.Elem()
	}
	if n, ok := t.(*types.Named); ok {
		return n.Obj().Name()
	}
	return ""
}

// fieldAlias: "pkgpath.Type.currentFieldName" -> the name the field has in the reference tree (fields.json),
// for unexported fields that were only renamed. Filled once by NewCtx.
var fieldAlias = map[string]string{}

func refFieldName(owner types.Type, st *types.Struct, idx int) string {
	name := st.Field(idx).Name()
	if len(fieldAlias) == 0 {
		return name
	}
	if p, ok := owner.(*types.Pointer); ok {
		owner = p.Elem()
	}
	if nt, ok := owner.(*types.Named); ok && nt.Obj().Pkg() != nil {
		if old, ok := fieldAlias[nt.Obj().Pkg().Path()+"."+nt.Obj().Name()+"."+name]; ok {
			return old
		}
	}
	return name
}

// fieldName returns the field selected by a FieldAddr / Field value (its reference name when it was renamed).
func fieldName(v ssa.Value) string {
	switch x := v.(type) {
	case *ssa.FieldAddr:
		if st, ok := x.X.Type().Underlying().(*types.Pointer).Elem().Underlying().(*types.Struct); ok {
			return refFieldName(x.X.Type(), st, x.Field)
		}
	case *ssa.Field:
		if st, ok := x.X.Type().Underlying().(*types.Struct); ok {
			return refFieldName(x.X.Type(), st, x.Field)
		}
	}
	return ""
}

// fieldOwner returns the named struct type whose field a FieldAddr selects.
func fieldOwner(x *ssa.FieldAddr) string {
	return recvTypeName(x.X.Type())
}

// loadedField: v is `*(&x.f)` (or x.f on a struct value); returns f.
func loadedField(v ssa.Value) string {
	switch x := v.(type) {
	case *ssa.UnOp:
		if x.Op.String() == "*" {
			return fieldName(x.X)
		}
	case *ssa.Field:
		return fieldName(x)
	}
	return ""
}

func constInt(v ssa.Value) (int64, bool) {
	c, ok := v.(*ssa.Const)
	if !ok || c.Value == nil || c.Value.Kind() != constant.Int {
		return 0, false
	}
	return c.Int64(), true
}

func constBool(v ssa.Value) (bool, bool) {
	c, ok := v.(*ssa.Const)
	if !ok || c.Value == nil || c.Value.Kind() != constant.Bool {
		return false, false
	}
	return constant.BoolVal(c.Value), true
}

// returnsOf lists the Return instructions of fn.
func returnsOf(fn *ssa.Function) []*ssa.Return {
	var out []*ssa.Return
	for _, b := range fn.Blocks {
		if b == fn.Recover {
			continue // synthetic exit taken after a recovered panic
		}
		if r, ok := b.Instrs[len(b.Instrs)-1].(*ssa.Return); ok {
			out = append(out, r)
		}
	}
	return out
}

// reachesInstr: there is a CFG path from instruction a to instruction b (a executes, later b executes).
func reachesInstr(a, b ssa.Instruction) bool {
	if a.Block() == b.Block() {
		if prog.InstrIndex(a) < prog.InstrIndex(b) {
			return true
		}
		return prog.Info(a.Parent()).InLoop(a.Block())
	}
	return prog.Info(a.Parent()).Reaches(a.Block(), b.Block())
}

func ok(rule, key, pos, why string) report.Obligation {
	return report.Obligation{Rule: rule, Key: key, Pos: pos, Status: report.Discharged, Why: why}
}

func bad(rule, key, pos, why string) report.Obligation {
	return report.Obligation{Rule: rule, Key: key, Pos: pos, Status: report.Violation, Why: why}
}

func verdict(cond bool, rule, key, pos, whyOK, whyBad string) report.Obligation {
	if cond {
		return ok(rule, key, pos, whyOK)
	}
	return bad(rule, key, pos, whyBad)
}

// condTrueFacts: conditions known true/false at the block.
func factHolds(b *ssa.BasicBlock, pred func(cond ssa.Value, val bool) bool) bool {
	for _, f := range prog.DominatingFacts(b) {
		if pred(f.Cond, f.Val) {
			return true
		}
	}
	return false
}

// unwrapNot strips `!x`.
func unwrapNot(v ssa.Value) (ssa.Value, bool) {
	if u, ok := v.(*ssa.UnOp); ok && u.Op.String() == "!" {
		return u.X, true
	}
	return v, false
}

// paramByType returns the first parameter of f whose type, written without package qualifiers and with `*` kept,
// equals one of the given spellings ("*Options", "Mapping", "map[string]any", "[]string", "bool", "reflect.Value#2"
// for the second such parameter). nil when there is none: rules must treat that as "cannot decide", never index.
func paramByType(f *ssa.Function, spellings ...string) *ssa.Parameter {
	for _, sp := range spellings {
		nth := 1
		if i := strings.Index(sp, "#"); i >= 0 {
			fmt.Sscanf(sp[i+1:], "%d", &nth)
			sp = sp[:i]
		}
		seen := 0
		for _, pa := range f.Params {
			ts := types.TypeString(pa.Type(), func(*types.Package) string { return "" })
			ts = strings.ReplaceAll(ts, "interface{}", "any")
			if ts == sp {
				seen++
				if seen == nth {
					return pa
				}
			}
		}
	}
	return nil
}

// sameParam: v is the parameter p (nil-safe).
func sameParam(v ssa.Value, p *ssa.Parameter) bool { return p != nil && v == ssa.Value(p) }
