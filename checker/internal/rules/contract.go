package rules

import (
	"fmt"
	"go/token"
	"go/types"
	"sort"
	"strings"

	"golang.org/x/tools/go/ssa"

	"verifcheck/internal/prog"
	"verifcheck/internal/report"
)

// Rules about what one function promises to another (DESIGN §0.20). Each one states the promise on the side of the
// function that RELIES on it, and decides it on the function that has to KEEP it, whatever that function is called.

// ---------------------------------------------------------------------------
// APPENDOWN: a slice obtained from a function of the module and then appended to is the caller's own. `append`
// writes into the spare capacity of its first operand: when that operand is a view of somebody else's backing array
// (a sub-slice of a field or of a parameter, the field itself), the append overwrites the owner's elements.
// For every `append(g(…), …)` in the module, every return of g yields a slice g built itself: nil, make, a composite
// literal, an append that starts from one of those, or the result of another such function.
// ---------------------------------------------------------------------------
func (c *Ctx) APPENDOWN(rule string) []report.Obligation {
	var out []report.Obligation
	n := 0
	for _, fn := range c.P.Funcs {
		for _, b := range fn.Blocks {
			for _, in := range b.Instrs {
				call, ok := in.(*ssa.Call)
				if !ok {
					continue
				}
				if bi, isB := call.Call.Value.(*ssa.Builtin); !isB || bi.Name() != "append" || len(call.Call.Args) == 0 {
					continue
				}
				src, isCall := call.Call.Args[0].(*ssa.Call)
				if !isCall {
					continue
				}
				g := src.Call.StaticCallee()
				if g == nil || !c.P.InModule(g) || g.Blocks == nil {
					continue
				}
				n++
				why := c.notOwnSlice(g, 0, 3, map[*ssa.Function]bool{})
				out = append(out, verdict(why == "", rule, c.P.FuncID(fn)+" :: appends to the result of "+c.P.FuncID(g), c.P.InstrPos(in),
					"every return of "+c.P.FuncID(g)+" yields a slice it built itself",
					c.P.FuncID(g)+" can return "+why+": the append writes into the spare capacity of that backing array, i.e. over the owner's elements (the caller's options, the receiver's list)"))
			}
		}
	}
	c.Stats[rule+".sites"] = n
	out = append(out, ok2(rule, "inventory", "", fmt.Sprintf("%d appends whose first operand is the result of a function of the module", n)))
	return out
}

// notOwnSlice: "" when result idx of g is, on every return, a slice built by g; otherwise what it can be instead.
func (c *Ctx) notOwnSlice(g *ssa.Function, idx, depth int, busy map[*ssa.Function]bool) string {
	if busy[g] {
		return ""
	}
	busy[g] = true
	defer delete(busy, g)
	seen := map[ssa.Value]bool{}
	var own func(v ssa.Value) string
	own = func(v ssa.Value) string {
		if seen[v] {
			return "" // a loop-carried value: decided by its other edges
		}
		seen[v] = true
		switch x := v.(type) {
		case *ssa.Const:
			return ""
		case *ssa.MakeSlice:
			return ""
		case *ssa.Phi:
			for _, e := range x.Edges {
				if w := own(e); w != "" {
					return w
				}
			}
			return ""
		case *ssa.Slice:
			if _, ok := x.X.(*ssa.Alloc); ok {
				return "" // composite literal
			}
			return "a sub-slice of " + c.P.KeyTerm(x.X, 1) + " at " + c.P.InstrPos(x)
		case *ssa.ChangeType:
			return own(x.X)
		case *ssa.Call:
			if bi, ok := x.Call.Value.(*ssa.Builtin); ok && bi.Name() == "append" {
				return own(x.Call.Args[0])
			}
			h := x.Call.StaticCallee()
			if h == nil {
				return "the result of a dynamic call at " + c.P.InstrPos(x)
			}
			if !c.P.InModule(h) || h.Blocks == nil {
				return "" // the standard library's builders (strings.Split, slices.Clone, sort…) hand out fresh slices
			}
			if depth == 0 {
				return "the result of " + c.P.FuncID(h) + " (not followed further)"
			}
			return c.notOwnSlice(h, 0, depth-1, busy)
		case *ssa.Extract:
			if call, ok := x.Tuple.(*ssa.Call); ok {
				if h := call.Call.StaticCallee(); h != nil && c.P.InModule(h) && h.Blocks != nil && depth > 0 {
					return c.notOwnSlice(h, x.Index, depth-1, busy)
				}
				return ""
			}
		case *ssa.UnOp:
			if x.Op == token.MUL {
				if al, ok := x.X.(*ssa.Alloc); ok {
					// a local variable: what is stored into it
					for _, r := range *al.Referrers() {
						if st, ok := r.(*ssa.Store); ok && st.Addr == ssa.Value(al) {
							if w := own(st.Val); w != "" {
								return w
							}
						}
					}
					return ""
				}
				return "the slice held in " + c.P.KeyTerm(x.X, 1) + " at " + c.P.InstrPos(x)
			}
		case *ssa.Parameter:
			return "its own parameter " + x.Name()
		}
		return "a value the rule does not recognise as built here (" + v.String() + ")"
	}
	for _, r := range returnsOf(g) {
		if idx >= len(r.Results) {
			continue
		}
		if w := own(r.Results[idx]); w != "" {
			return w
		}
	}
	return ""
}

// ---------------------------------------------------------------------------
// CASTALL: a string at a typed path leaves interpolation typed, whether or not a variable was substituted in it.
// The validation and naming steps that follow test `external`, `read_only`, … as Go booleans; the YAML parser hands
// `"true"`, `yes`, `on` over as strings, and only the cast table turns them into what those steps expect. In every
// function of package interpolation from which a cast can be reached, a success return of a STRING lies - edge by
// edge - where the table is known to have no caster for the path.
// ---------------------------------------------------------------------------
func (c *Ctx) CASTALL(rule string) []report.Obligation {
	var out []report.Obligation
	isCast := func(t types.Type) bool {
		n, ok := t.(*types.Named)
		return ok && n.Obj().Name() == "Cast" && n.Obj().Pkg() != nil && strings.HasSuffix(n.Obj().Pkg().Path(), "/interpolation")
	}
	// functions of the package that invoke a Cast, and those that reach one through calls inside the package
	scope := map[*ssa.Function]bool{}
	var pkgFns []*ssa.Function
	for _, fn := range c.P.Funcs {
		if !strings.HasPrefix(c.P.FuncID(fn), "interpolation.") {
			continue
		}
		pkgFns = append(pkgFns, fn)
		for _, cs := range callSites(fn, func(com *ssa.CallCommon) bool { return !com.IsInvoke() && com.StaticCallee() == nil && isCast(com.Value.Type()) }) {
			_ = cs
			scope[fn] = true
		}
	}
	for changed := true; changed; {
		changed = false
		for _, fn := range pkgFns {
			if scope[fn] {
				continue
			}
			for _, cs := range callSites(fn, func(com *ssa.CallCommon) bool { return com.StaticCallee() != nil && scope[com.StaticCallee()] }) {
				_ = cs
				scope[fn] = true
				changed = true
			}
		}
	}
	// "the table has no caster for this path": the bool that comes with a Cast is false, or the Cast is nil
	absent := func(cond ssa.Value, val bool) bool {
		switch x := cond.(type) {
		case *ssa.Extract:
			if tup, ok := x.Tuple.Type().(*types.Tuple); ok && isBoolType(x.Type()) && !val {
				for i := 0; i < tup.Len(); i++ {
					if isCast(tup.At(i).Type()) {
						return true
					}
				}
			}
		case *ssa.BinOp:
			if (x.Op == token.EQL) == val && (x.Op == token.EQL || x.Op == token.NEQ) {
				return isCast(x.X.Type()) && prog.IsNilConst(x.Y) || isCast(x.Y.Type()) && prog.IsNilConst(x.X)
			}
		}
		return false
	}
	var fns []*ssa.Function
	for fn := range scope {
		fns = append(fns, fn)
	}
	sort.Slice(fns, func(i, j int) bool { return c.P.FuncID(fns[i]) < c.P.FuncID(fns[j]) })
	nRet := 0
	for _, fn := range fns {
		good, pos, what := true, c.P.Pos(fn.Pos()), ""
		for _, r := range returnsOf(fn) {
			if len(r.Results) < 2 || !prog.IsNilConst(errRet(r)) {
				continue
			}
			mi, ok := r.Results[0].(*ssa.MakeInterface)
			if !ok {
				continue
			}
			if b, isB := mi.X.Type().Underlying().(*types.Basic); !isB || b.Kind() != types.String {
				continue
			}
			nRet++
			okHere := factHolds(r.Block(), absent)
			if !okHere && len(r.Block().Preds) > 0 {
				okHere = true
				for _, p := range r.Block().Preds {
					edgeOK := false
					for _, f := range prog.EdgeFacts(p, r.Block()) {
						if absent(f.Cond, f.Val) {
							edgeOK = true
						}
					}
					if !edgeOK {
						okHere = false
					}
				}
			}
			if !okHere {
				good, pos, what = false, c.P.InstrPos(r), c.P.KeyTerm(mi.X, 1)
			}
		}
		out = append(out, verdict(good, rule, c.P.FuncID(fn)+" :: a string is returned as it is only where the path has no caster", pos,
			"every success return of a string lies on the no-caster edge", "returns the string "+what+" with a nil error on a path where the cast table was not consulted or had a caster: a literal `\"true\"` / `yes` at a typed path stays a string, and the steps that test it as a bool (external resources keep their name and creation parameters, a file object needs a source) silently take the other branch"))
	}
	if len(fns) == 0 {
		out = append(out, bad(rule, "cast site", "", "no function of package interpolation invokes a value of type Cast: the rule has nothing to decide (undecided means fail)"))
	}
	c.Stats[rule+".returns"] = nRet
	return out
}

// ---------------------------------------------------------------------------
// ABSWD: the working directory package cli hands to the loader is absolute. The loader joins every relative path
// with it and never makes it absolute itself, and the fallback project name is its base name. Traced from the call
// of loader.LoadConfigFiles backwards through parameters and results: filepath.Abs, os.Getwd, and Dir / Clean of those.
// ---------------------------------------------------------------------------
func (c *Ctx) ABSWD(rule string) []report.Obligation {
	var out []report.Obligation
	sites := map[*ssa.Function][]*ssa.Call{}
	for _, f := range c.P.Funcs {
		for _, b := range f.Blocks {
			for _, in := range b.Instrs {
				if call, ok := in.(*ssa.Call); ok {
					if cal := call.Call.StaticCallee(); cal != nil {
						sites[cal] = append(sites[cal], call)
					}
				}
			}
		}
	}
	var abs func(v ssa.Value, depth int, seen map[ssa.Value]bool) string
	resultAbs := func(g *ssa.Function, idx, depth int, seen map[ssa.Value]bool) string {
		for _, r := range returnsOf(g) {
			if idx >= len(r.Results) {
				continue
			}
			if ev := errRet(r); ev != nil && !prog.IsNilConst(ev) {
				if _, isK := r.Results[idx].(*ssa.Const); isK {
					continue // the error return
				}
			}
			if w := abs(r.Results[idx], depth, seen); w != "" {
				return w
			}
		}
		return ""
	}
	abs = func(v ssa.Value, depth int, seen map[ssa.Value]bool) string {
		if seen[v] {
			return ""
		}
		seen[v] = true
		if depth == 0 {
			return "a value not followed further (" + v.String() + ")"
		}
		switch x := v.(type) {
		case *ssa.Phi:
			for _, e := range x.Edges {
				if w := abs(e, depth, seen); w != "" {
					return w
				}
			}
			return ""
		case *ssa.Extract:
			if call, ok := x.Tuple.(*ssa.Call); ok {
				switch staticName(&call.Call) {
				case "path/filepath.Abs", "os.Getwd", "path/filepath.EvalSymlinks":
					if staticName(&call.Call) == "path/filepath.EvalSymlinks" {
						return abs(call.Call.Args[0], depth, seen)
					}
					return ""
				}
				if g := call.Call.StaticCallee(); g != nil && c.P.InModule(g) && g.Blocks != nil {
					return resultAbs(g, x.Index, depth-1, seen)
				}
			}
		case *ssa.Call:
			switch staticName(&x.Call) {
			case "path/filepath.Dir", "path/filepath.Clean", "path/filepath.Join":
				return abs(x.Call.Args[0], depth, seen)
			}
			if g := x.Call.StaticCallee(); g != nil && c.P.InModule(g) && g.Blocks != nil {
				return resultAbs(g, 0, depth-1, seen)
			}
		case *ssa.Parameter:
			fn := x.Parent()
			idx := -1
			for i, q := range fn.Params {
				if q == x {
					idx = i
				}
			}
			cs := sites[fn]
			if len(cs) == 0 {
				return "the parameter " + x.Name() + " of " + c.P.FuncID(fn) + ", which nothing in the module calls"
			}
			for _, s := range cs {
				if !strings.HasPrefix(c.P.FuncID(s.Parent()), "cli.") {
					continue
				}
				if w := abs(s.Call.Args[idx], depth-1, seen); w != "" {
					return w
				}
			}
			return ""
		case *ssa.UnOp:
			if x.Op == token.MUL {
				return "the field or variable " + c.P.KeyTerm(x.X, 1) + " as it is (" + c.P.InstrPos(x) + ")"
			}
		}
		return "a value the rule does not recognise as absolute (" + v.String() + ")"
	}
	n := 0
	for _, fn := range c.P.Funcs {
		if !strings.HasPrefix(c.P.FuncID(fn), "cli.") {
			continue
		}
		for _, cs := range c.callsTo(fn, "loader.LoadConfigFiles") {
			args := cs.Common().Args
			if len(args) < 3 {
				continue
			}
			n++
			why := abs(args[2], 6, map[ssa.Value]bool{})
			out = append(out, verdict(why == "", rule, c.P.FuncID(fn)+" :: the working directory handed to the loader is absolute", c.P.InstrPos(cs),
				"it is the result of filepath.Abs / os.Getwd (or Dir / Clean of one) on every path", "it can be "+why+": a relative or unclean directory reaches the loader, every relative path of the model is resolved to a relative path, and a directory spelled `.` or `dir/..` gives the project an empty name"))
		}
	}
	if n == 0 {
		out = append(out, bad(rule, "call of loader.LoadConfigFiles in package cli", "", "anchor does not resolve on this tree; the rule cannot be decided (undecided means fail)"))
	}
	return out
}

// ---------------------------------------------------------------------------
// STOREALL: a derivation of a project says the same things about its result on every way out. For each method of
// *Project that returns a copy made by deepCopy: a field of the copy that is assigned on some path is assigned on
// every path to a success return of that copy. A field left as the deep copy made it keeps what the RECEIVER said
// (the profile list of an earlier selection, the disabled services of an earlier partition), and the next derivation
// builds on it.
// ---------------------------------------------------------------------------
func (c *Ctx) STOREALL(rule string) []report.Obligation {
	var out []report.Obligation
	n := 0
	for _, fn := range c.P.Funcs {
		id := c.P.FuncID(fn)
		if !strings.HasPrefix(id, "types.(*Project).") || fn.Blocks == nil {
			continue
		}
		for _, cs := range callSites(fn, func(com *ssa.CallCommon) bool {
			cal := com.StaticCallee()
			return cal != nil && c.P.FuncID(cal) == "types.(*Project).deepCopy"
		}) {
			cp, ok := cs.(ssa.Value)
			if !ok {
				continue
			}
			stores := map[string][]*ssa.Store{}
			for _, r := range *cp.Referrers() {
				fa, ok := r.(*ssa.FieldAddr)
				if !ok {
					continue
				}
				for _, rr := range *fa.Referrers() {
					if st, ok := rr.(*ssa.Store); ok && st.Addr == ssa.Value(fa) {
						stores[fieldName(fa)] = append(stores[fieldName(fa)], st)
					}
				}
			}
			var fields []string
			for f := range stores {
				fields = append(fields, f)
			}
			sort.Strings(fields)
			for _, f := range fields {
				n++
				good, pos := true, c.P.InstrPos(stores[f][0])
				for _, r := range returnsOf(fn) {
					if len(r.Results) == 0 || r.Results[0] != cp {
						continue
					}
					if ev := errRet(r); ev != nil && !prog.IsNilConst(ev) {
						continue
					}
					dom := false
					for _, st := range stores[f] {
						if prog.InstrDominates(st, r) {
							dom = true
						}
					}
					if !dom {
						good, pos = false, c.P.InstrPos(r)
					}
				}
				out = append(out, verdict(good, rule, id+" :: "+f+" of the copy is assigned on every way out", pos,
					"a store of the field dominates every success return of the copy", "the copy is returned on a path that does not assign "+f+", which other paths do: there the field keeps what the receiver held (an earlier selection), and the derivations that read it next build on a list that no longer describes the result"))
			}
		}
	}
	c.Stats[rule+".fields"] = n
	if n == 0 {
		out = append(out, bad(rule, "derivations", "", "no method of *Project assigns a field of a deep copy: the rule has nothing to decide (undecided means fail)"))
	}
	return out
}

// ---------------------------------------------------------------------------
// VALIDNIL: the tree handed to the schema validator has no nil list in it. The validator sees the JSON encoding of
// the tree, in which a nil []any is `null` and an explicit `[]` is refused as "must be a list". Nil lists are made by
// the steps of the pipeline itself (OmitEmpty rebuilds every list from `var c []any`), and the model of an earlier
// file or of an included project has been through those steps when the next file is validated. So the repair of nil
// lists (fixEmptyNotNull) is applied to the very value that is validated, after everything that was merged into it:
// in the block of each schema.Validate(x) call of package loader, a call fixEmptyNotNull(x) precedes it with no
// assignment of x in between.
// ---------------------------------------------------------------------------
func (c *Ctx) VALIDNIL(rule string) []report.Obligation {
	var out []report.Obligation
	n := 0
	for _, fn := range c.P.Funcs {
		id := c.P.FuncID(fn)
		if !strings.HasPrefix(id, "loader.") {
			continue
		}
		for _, b := range fn.Blocks {
			for i, in := range b.Instrs {
				call, ok := in.(*ssa.Call)
				if !ok || c.calleeID(&call.Call) != "schema.Validate" || len(call.Call.Args) == 0 {
					continue
				}
				n++
				arg := call.Call.Args[0]
				good := false
				for j := i - 1; j >= 0; j-- {
					if st, ok := b.Instrs[j].(*ssa.Store); ok {
						if ld, isLd := arg.(*ssa.UnOp); isLd && st.Addr == ld.X {
							break // x is assigned between the repair and the validation
						}
					}
					if fx, ok := b.Instrs[j].(*ssa.Call); ok && c.calleeID(&fx.Call) == "loader.fixEmptyNotNull" && len(fx.Call.Args) == 1 && sameLoad(unwrapIface(fx.Call.Args[0]), unwrapIface(arg)) {
						good = true
						break
					}
				}
				out = append(out, verdict(good, rule, id+" :: nil lists are repaired in the value that is validated", c.P.InstrPos(in),
					"fixEmptyNotNull(x) precedes schema.Validate(x) with no assignment of x in between", "the validated tree was merged from parts that went through the pipeline (an earlier file, an included project) after the last repair of nil lists: an attribute written `[]` there is a nil list here, encodes as `null`, and the valid model is refused with `must be a list`"))
			}
		}
	}
	if n == 0 {
		out = append(out, bad(rule, "call of schema.Validate in package loader", "", "anchor does not resolve on this tree; the rule cannot be decided (undecided means fail)"))
	}
	return out
}

func unwrapIface(v ssa.Value) ssa.Value {
	for {
		switch x := v.(type) {
		case *ssa.MakeInterface:
			v = x.X
		case *ssa.ChangeType:
			v = x.X
		default:
			return v
		}
	}
}

// ---------------------------------------------------------------------------
// IDXCLEAN: mounts are told apart by the target the MODEL will show. The loader writes path.Clean(target) into every
// mount of the final model, so `/data/` and `/data` are one target there; the unicity key of services.*.volumes is
// taken while several spellings still exist (a long-syntax entry of a later file has not been through any step). Every
// key the indexer of that row returns is therefore path.Clean of the target, in each of its arms.
// ---------------------------------------------------------------------------
func (c *Ctx) IDXCLEAN(rule string) []report.Obligation {
	var out []report.Obligation
	uniq := c.table(rule, TUnique, &out)
	if uniq == nil {
		return out
	}
	// (a) the final model holds cleaned targets
	cleaned := ""
	for _, fn := range c.P.Funcs {
		if !strings.HasPrefix(c.P.FuncID(fn), "loader.") {
			continue
		}
		for _, b := range fn.Blocks {
			for _, in := range b.Instrs {
				mu, ok := in.(*ssa.MapUpdate)
				if !ok {
					continue
				}
				if k, isK := constStr(unwrapIface(mu.Key)); !isK || k != "target" {
					continue
				}
				if call, isC := unwrapIface(mu.Value).(*ssa.Call); isC && staticName(&call.Call) == "path.Clean" {
					cleaned = c.P.InstrPos(in)
				}
			}
		}
	}
	isClean := func(v ssa.Value) bool {
		call, ok := v.(*ssa.Call)
		if !ok {
			return false
		}
		if staticName(&call.Call) == "path.Clean" {
			return true
		}
		if h := call.Call.StaticCallee(); h != nil && c.P.InModule(h) && h.Blocks != nil {
			for _, r := range returnsOf(h) {
				hc, ok := r.Results[0].(*ssa.Call)
				if !ok || staticName(&hc.Call) != "path.Clean" {
					return false
				}
			}
			return true
		}
		return false
	}
	n := 0
	for _, ur := range uniq.Rows {
		if ur.Fn == nil || ur.Pattern != "services.*.volumes" {
			continue
		}
		n++
		key := "unique[" + ur.Pattern + "] :: the key is the cleaned target"
		if cleaned == "" {
			out = append(out, ok2(rule, key, c.P.Pos(ur.Fn.Pos()), "the loader does not rewrite mount targets: the raw spelling is the target on both sides"))
			continue
		}
		good, pos := true, c.P.Pos(ur.Fn.Pos())
		for _, r := range returnsOf(ur.Fn) {
			if len(r.Results) < 2 || !prog.IsNilConst(errRet(r)) {
				continue
			}
			if _, isK := r.Results[0].(*ssa.Const); isK {
				continue
			}
			v := r.Results[0]
			okv := isClean(v)
			if phi, isPhi := v.(*ssa.Phi); isPhi {
				okv = true
				for _, e := range phi.Edges {
					if _, isK := e.(*ssa.Const); !isK && !isClean(e) {
						okv = false
					}
				}
			}
			if !okv {
				good, pos = false, c.P.InstrPos(r)
			}
		}
		out = append(out, verdict(good, rule, key, pos,
			"every arm returns path.Clean(target), which is what the loader writes into the model ("+cleaned+")",
			"an arm returns the target as written while the model holds path.Clean(target) ("+cleaned+"): `data:/data/` in one file and `target: /data/` (or `/data`) in a later one are two keys, both entries survive the merge, and the service ends with two mounts on one target instead of the later file's"))
	}
	if n == 0 {
		out = append(out, bad(rule, "unique[services.*.volumes]", "", "anchor does not resolve on this tree; the rule cannot be decided (undecided means fail)"))
	}
	return out
}

// ---------------------------------------------------------------------------
// SPECIALFIRST: the table of special mergers is consulted before any generic decision. What an attribute's override
// MEANS - a null that unsets `command`, a null `build` that is refused, a list that replaces instead of appending -
// is the special merger's to say; a generic shortcut taken first (`if o == nil { return e }`) silently keeps the
// base's value for exactly the attributes that have a rule. In the function that dispatches on override.mergeSpecials
// every return is dominated by the range over the table.
// ---------------------------------------------------------------------------
func (c *Ctx) SPECIALFIRST(rule string) []report.Obligation {
	var out []report.Obligation
	n := 0
	for _, fn := range c.P.Funcs {
		if !strings.HasPrefix(c.P.FuncID(fn), "override.") || isInitFunc(fn) {
			continue
		}
		var at *ssa.BasicBlock
		for _, b := range fn.Blocks {
			for _, in := range b.Instrs {
				rng, ok := in.(*ssa.Range)
				if !ok {
					continue
				}
				if ld, isLd := rng.X.(*ssa.UnOp); isLd {
					if g, isG := ld.X.(*ssa.Global); isG && isMergerTable(g) {
						at = b
					}
				}
			}
		}
		if at == nil {
			continue
		}
		n++
		good, pos := true, c.P.Pos(fn.Pos())
		for _, r := range returnsOf(fn) {
			if !at.Dominates(r.Block()) {
				good, pos = false, c.P.InstrPos(r)
			}
		}
		out = append(out, verdict(good, rule, c.P.FuncID(fn)+" :: the special mergers are consulted before any generic decision", pos,
			"the range over mergeSpecials dominates every return", "the function can return before the table of special mergers was consulted: for an attribute that has a rule (command, entrypoint, healthcheck.test, build, …) the generic shortcut decides instead - an explicit `null` in the extending service or the later file keeps the base's value instead of unsetting it"))
	}
	if n == 0 {
		out = append(out, bad(rule, "range over override.mergeSpecials", "", "anchor does not resolve on this tree; the rule cannot be decided (undecided means fail)"))
	}
	return out
}

// isMergerTable: a package-level map from tree.Path to a function of (base, override, path), whatever it is called.
func isMergerTable(g *ssa.Global) bool {
	pt, ok := g.Type().(*types.Pointer)
	if !ok {
		return false
	}
	m, ok := pt.Elem().Underlying().(*types.Map)
	if !ok {
		return false
	}
	k, ok := m.Key().(*types.Named)
	if !ok || k.Obj().Name() != "Path" {
		return false
	}
	sig, ok := m.Elem().Underlying().(*types.Signature)
	return ok && sig.Params().Len() == 3 && sig.Results().Len() == 2
}

// ---------------------------------------------------------------------------
// EXTMEMO: a service is resolved once. applyServiceExtends records its result under the service's name so that the
// next visit (ApplyExtends ranges over the services map; another service may extend this one) finds a service
// without `extends` and returns it. The record is only found again if it is written into the map the service was
// LOOKED UP in - the services the function was handed - and not into the services of the extended file, which the
// same variable may have been re-bound to. A service resolved twice has its own lists merged twice (the mergers
// rewrite their operands in place), and which service is visited first is decided by a map range.
// Every map update of the function that stores a value it returns writes into its services parameter.
// ---------------------------------------------------------------------------
func (c *Ctx) EXTMEMO(rule string) []report.Obligation {
	var out []report.Obligation
	fn := c.P.Func("loader.applyServiceExtends")
	if fn == nil {
		return append(out, anchorViolation(rule, "loader.applyServiceExtends"))
	}
	returned := map[ssa.Value]bool{}
	for _, r := range returnsOf(fn) {
		if len(r.Results) > 0 {
			returned[unwrapIface(r.Results[0])] = true
			returned[r.Results[0]] = true
		}
	}
	n := 0
	for _, b := range fn.Blocks {
		for _, in := range b.Instrs {
			mu, ok := in.(*ssa.MapUpdate)
			if !ok || !(returned[mu.Value] || returned[unwrapIface(mu.Value)]) {
				continue
			}
			n++
			_, isParam := mu.Map.(*ssa.Parameter)
			out = append(out, verdict(isParam, rule, c.P.FuncID(fn)+" :: the resolved service is recorded in the services it was looked up in", c.P.InstrPos(in),
				"the map written is the services parameter", "the map written is "+c.P.KeyTerm(mu.Map, 1)+", not the services the function was handed: when the base comes from another file the record lands in THAT file's services, the service keeps its `extends` here and is resolved again on the next visit - its own lists, already rewritten by the first merge, are merged a second time (extra_hosts [x, y] becomes [x, y, y] and the load fails) when, and only when, a map range happens to visit a dependent first"))
		}
	}
	if n == 0 {
		out = append(out, bad(rule, c.P.FuncID(fn)+" :: the resolved service is recorded", c.P.Pos(fn.Pos()), "no map update stores the value the function returns: a resolved service is not recorded at all, every visit resolves it again"))
	}
	return out
}
