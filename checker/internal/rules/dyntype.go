package rules

import (
	"go/token"
	"go/types"

	"golang.org/x/tools/go/ssa"
	"verifcheck/internal/prog"
)

// TypeSet abstracts the dynamic type of an interface value.
type TypeSet struct {
	Top bool         // unknown
	Nil bool         // may be the nil interface
	Ts  []types.Type // possible concrete types
}

func top() TypeSet { return TypeSet{Top: true} }

func (a TypeSet) join(b TypeSet) TypeSet {
	if a.Top || b.Top {
		return top()
	}
	out := TypeSet{Nil: a.Nil || b.Nil}
	out.Ts = append(out.Ts, a.Ts...)
	for _, t := range b.Ts {
		if !out.has(t) {
			out.Ts = append(out.Ts, t)
		}
	}
	return out
}

func (a TypeSet) has(t types.Type) bool {
	for _, x := range a.Ts {
		if types.Identical(x, t) {
			return true
		}
	}
	return false
}

// Only reports whether the set is exactly {t} (no nil, not top).
func (a TypeSet) Only(t types.Type) bool {
	return !a.Top && !a.Nil && len(a.Ts) == 1 && types.Identical(a.Ts[0], t)
}

func (a TypeSet) empty() bool { return !a.Top && !a.Nil && len(a.Ts) == 0 }

// dynEnv carries the calling context of a callee analysis.
type dynEnv struct {
	params map[*ssa.Parameter]TypeSet
}

type dynTyper struct {
	P        *prog.Program
	maxDepth int
	active   map[*ssa.Function]int
	// closed world for unexported functions that are only ever called directly: their call sites
	sites     map[*ssa.Function][]*ssa.Call
	escaped   map[*ssa.Function]bool
	paramBusy map[*ssa.Parameter]bool
}

// callSitesOf: every call of fn in the module, or nil when fn can be reached in another way (exported, a method
// reachable through an interface, used as a function value).
func (d *dynTyper) callSitesOf(fn *ssa.Function) []*ssa.Call {
	if d.sites == nil {
		d.sites = map[*ssa.Function][]*ssa.Call{}
		d.escaped = map[*ssa.Function]bool{}
		for _, f := range d.P.Funcs {
			for _, b := range f.Blocks {
				for _, in := range b.Instrs {
					var callee *ssa.Function
					if call, ok := in.(*ssa.Call); ok {
						callee = call.Call.StaticCallee()
						if callee != nil {
							d.sites[callee] = append(d.sites[callee], call)
						}
					}
					for _, op := range in.Operands(nil) {
						if g, ok := (*op).(*ssa.Function); ok {
							if ci, isCI := in.(ssa.CallInstruction); isCI && ci.Common().Value == ssa.Value(g) {
								if _, isCall := in.(*ssa.Call); isCall {
									continue
								}
							}
							d.escaped[g] = true // go / defer / function value
						}
					}
				}
			}
		}
	}
	if fn.Parent() != nil || fn.Signature.Recv() != nil || isExported(fn.Name()) || d.escaped[fn] || !d.P.InModule(fn) {
		return nil
	}
	return d.sites[fn]
}

func newDynTyper(p *prog.Program) *dynTyper {
	return &dynTyper{P: p, maxDepth: 4, active: map[*ssa.Function]int{}}
}

// refine applies the branch facts that dominate block at to the abstract value of v.
func (d *dynTyper) refine(v ssa.Value, ts TypeSet, at *ssa.BasicBlock) TypeSet {
	for _, f := range prog.DominatingFacts(at) {
		switch c := f.Cond.(type) {
		case *ssa.BinOp:
			// v == nil / v != nil
			if (c.Op == token.EQL || c.Op == token.NEQ) && ((c.X == v && prog.IsNilConst(c.Y)) || (c.Y == v && prog.IsNilConst(c.X))) {
				isNil := (c.Op == token.EQL) == f.Val
				if isNil {
					if !ts.Top {
						ts = TypeSet{Nil: true}
					}
				} else {
					ts.Nil = false
				}
			}
		case *ssa.Extract:
			// ok of a comma-ok assertion on v
			if ta, ok := c.Tuple.(*ssa.TypeAssert); ok && c.Index == 1 && ta.X == v && !types.IsInterface(ta.AssertedType) {
				if f.Val {
					ts = TypeSet{Ts: []types.Type{ta.AssertedType}}
				} else if !ts.Top {
					var keep []types.Type
					for _, t := range ts.Ts {
						if !types.Identical(t, ta.AssertedType) {
							keep = append(keep, t)
						}
					}
					ts = TypeSet{Nil: ts.Nil, Ts: keep}
				}
			}
		}
	}
	return ts
}

// At returns the abstract dynamic type of v as seen from block at.
func (d *dynTyper) At(v ssa.Value, at *ssa.BasicBlock, env *dynEnv, depth int) TypeSet {
	return d.refine(v, d.of(v, env, depth, map[ssa.Value]bool{}), at)
}

func (d *dynTyper) of(v ssa.Value, env *dynEnv, depth int, seen map[ssa.Value]bool) TypeSet {
	if seen[v] {
		return TypeSet{} // cycle through phi: contributes nothing new
	}
	seen[v] = true
	defer delete(seen, v)
	switch x := v.(type) {
	case *ssa.MakeInterface:
		return TypeSet{Ts: []types.Type{x.X.Type()}}
	case *ssa.ChangeInterface:
		return d.of(x.X, env, depth, seen)
	case *ssa.Const:
		if x.Value == nil && types.IsInterface(x.Type()) {
			return TypeSet{Nil: true}
		}
		return top()
	case *ssa.Phi:
		out := TypeSet{}
		for i, e := range x.Edges {
			// refine each incoming edge by the facts of its predecessor block
			te := d.refine(e, d.of(e, env, depth, seen), x.Block().Preds[i])
			te = d.refineEdge(e, te, x.Block().Preds[i], x.Block())
			out = out.join(te)
		}
		return out
	case *ssa.Parameter:
		if env != nil {
			if ts, ok := env.params[x]; ok {
				return ts
			}
		}
		// an unexported function that is only called directly: what its callers hand in
		if fn := x.Parent(); fn != nil && depth > 0 && types.IsInterface(x.Type()) {
			if d.paramBusy == nil {
				d.paramBusy = map[*ssa.Parameter]bool{}
			}
			if sites := d.callSitesOf(fn); len(sites) > 0 && !d.paramBusy[x] {
				idx := -1
				for i, p := range fn.Params {
					if p == x {
						idx = i
					}
				}
				if idx >= 0 {
					d.paramBusy[x] = true
					out := TypeSet{}
					for _, call := range sites {
						if idx >= len(call.Call.Args) {
							out = top()
							break
						}
						out = out.join(d.At(call.Call.Args[idx], call.Block(), nil, depth-1))
					}
					delete(d.paramBusy, x)
					return out
				}
			}
		}
		return top()
	case *ssa.Extract:
		if call, ok := x.Tuple.(*ssa.Call); ok {
			return d.call(call, x.Index, env, depth, seen)
		}
		return top()
	case *ssa.Call:
		return d.call(x, 0, env, depth, seen)
	}
	return top()
}

// refineEdge applies the fact carried by the CFG edge pred->succ itself.
func (d *dynTyper) refineEdge(v ssa.Value, ts TypeSet, pred, succ *ssa.BasicBlock) TypeSet {
	iff, ok := pred.Instrs[len(pred.Instrs)-1].(*ssa.If)
	if !ok || pred.Succs[0] == pred.Succs[1] {
		return ts
	}
	val := pred.Succs[0] == succ
	if c, ok := iff.Cond.(*ssa.BinOp); ok && (c.Op == token.EQL || c.Op == token.NEQ) &&
		((c.X == v && prog.IsNilConst(c.Y)) || (c.Y == v && prog.IsNilConst(c.X))) {
		if (c.Op == token.EQL) == val {
			if !ts.Top {
				return TypeSet{Nil: true}
			}
		} else {
			ts.Nil = false
		}
	}
	return ts
}

func (d *dynTyper) call(call *ssa.Call, idx int, env *dynEnv, depth int, seen map[ssa.Value]bool) TypeSet {
	callee := call.Call.StaticCallee()
	if callee == nil || !d.P.InModule(callee) || callee.Blocks == nil || depth <= 0 {
		return top()
	}
	if d.active[callee] >= 1 {
		// recursion under a possibly different calling context: unknown
		return top()
	}
	args := call.Call.Args
	cenv := &dynEnv{params: map[*ssa.Parameter]TypeSet{}}
	for i, pa := range callee.Params {
		if i < len(args) && types.IsInterface(pa.Type()) {
			cenv.params[pa] = d.refine(args[i], d.of(args[i], env, depth, seen), call.Block())
		}
	}
	// error-correlation: if the use site is only interested in the success
	// value, the caller prunes error returns through ReturnsWhenNoError.
	return d.returns(callee, idx, cenv, depth-1, false)
}

// returns joins the idx-th result over all feasible return statements of fn.
// With okOnly, returns whose last (error) result is definitely non-nil are skipped.
func (d *dynTyper) returns(fn *ssa.Function, idx int, env *dynEnv, depth int, okOnly bool) TypeSet {
	d.active[fn]++
	defer func() { d.active[fn]-- }()
	out := TypeSet{}
	for _, b := range fn.Blocks {
		ret, ok := b.Instrs[len(b.Instrs)-1].(*ssa.Return)
		if !ok || idx >= len(ret.Results) {
			continue
		}
		if d.infeasible(b, env, depth) {
			continue
		}
		if okOnly && len(ret.Results) > 0 {
			last := ret.Results[len(ret.Results)-1]
			if isErrorType(last.Type()) && d.definitelyNonNil(last, b, 3) {
				continue
			}
		}
		r := ret.Results[idx]
		if !types.IsInterface(r.Type()) {
			out = out.join(TypeSet{Ts: []types.Type{r.Type()}})
			continue
		}
		out = out.join(d.refine(r, d.of(r, env, depth, map[ssa.Value]bool{}), b))
		if out.Top {
			return out
		}
	}
	return out
}

// infeasible: block b is dominated by a type test on a parameter that the
// calling context contradicts.
func (d *dynTyper) infeasible(b *ssa.BasicBlock, env *dynEnv, depth int) bool {
	if env == nil {
		return false
	}
	for _, f := range prog.DominatingFacts(b) {
		ex, ok := f.Cond.(*ssa.Extract)
		if !ok || ex.Index != 1 {
			continue
		}
		ta, ok := ex.Tuple.(*ssa.TypeAssert)
		if !ok || types.IsInterface(ta.AssertedType) {
			continue
		}
		pa, ok := ta.X.(*ssa.Parameter)
		if !ok {
			continue
		}
		ts, ok := env.params[pa]
		if !ok || ts.Top {
			continue
		}
		if f.Val && !ts.has(ta.AssertedType) {
			return true
		}
		if !f.Val && ts.Only(ta.AssertedType) {
			return true
		}
	}
	return false
}

func isErrorType(t types.Type) bool {
	n, ok := t.(*types.Named)
	return ok && n.Obj().Pkg() == nil && n.Obj().Name() == "error"
}

// definitelyNonNil: v (an error value) is non-nil on every path through block at.
func (d *dynTyper) definitelyNonNil(v ssa.Value, at *ssa.BasicBlock, depth int) bool {
	for _, f := range prog.DominatingFacts(at) {
		if c, ok := f.Cond.(*ssa.BinOp); ok && (c.Op == token.EQL || c.Op == token.NEQ) &&
			((c.X == v && prog.IsNilConst(c.Y)) || (c.Y == v && prog.IsNilConst(c.X))) {
			if (c.Op == token.NEQ) == f.Val {
				return true
			}
		}
	}
	switch x := v.(type) {
	case *ssa.MakeInterface:
		return true
	case *ssa.Call:
		if c := x.Call.StaticCallee(); c != nil {
			switch c.String() {
			case "fmt.Errorf", "errors.New":
				return true
			}
			if d.P.InModule(c) && depth > 0 && c.Blocks != nil {
				all := true
				for _, b := range c.Blocks {
					if ret, ok := b.Instrs[len(b.Instrs)-1].(*ssa.Return); ok && len(ret.Results) == 1 {
						if !d.definitelyNonNil(ret.Results[0], b, depth-1) {
							all = false
						}
					}
				}
				return all
			}
		}
	}
	return false
}

// AssertSafe decides whether the unchecked assertion ta cannot panic, and why.
func (d *dynTyper) AssertSafe(ta *ssa.TypeAssert) (bool, string) {
	if types.IsInterface(ta.AssertedType) {
		return false, ""
	}
	blk := ta.Block()
	// (b) dominated by a successful test of the same value
	ts := d.refine(ta.X, top(), blk)
	if ts.Only(ta.AssertedType) {
		return true, "dominated by a successful comma-ok test of the same value"
	}
	// (a) dynamic type inference, with error correlation for `v, err := f(...)`
	var res TypeSet
	if ex, ok := ta.X.(*ssa.Extract); ok {
		if call, ok := ex.Tuple.(*ssa.Call); ok {
			callee := call.Call.StaticCallee()
			sig := call.Call.Signature()
			n := sig.Results().Len()
			if callee != nil && d.P.InModule(callee) && callee.Blocks != nil && n >= 2 && isErrorType(sig.Results().At(n-1).Type()) {
				// is the assertion dominated by err == nil for this call?
				errNil := false
				for _, f := range prog.DominatingFacts(blk) {
					if c, ok := f.Cond.(*ssa.BinOp); ok && (c.Op == token.EQL || c.Op == token.NEQ) {
						var other ssa.Value
						if prog.IsNilConst(c.Y) {
							other = c.X
						} else if prog.IsNilConst(c.X) {
							other = c.Y
						}
						if e2, ok := other.(*ssa.Extract); ok && e2.Tuple == call && e2.Index == n-1 {
							if (c.Op == token.EQL) == f.Val {
								errNil = true
							}
						}
					}
				}
				if errNil {
					cenv := &dynEnv{params: map[*ssa.Parameter]TypeSet{}}
					for i, pa := range callee.Params {
						if i < len(call.Call.Args) && types.IsInterface(pa.Type()) {
							cenv.params[pa] = d.At(call.Call.Args[i], call.Block(), nil, d.maxDepth)
						}
					}
					res = d.refine(ta.X, d.returns(callee, ex.Index, cenv, d.maxDepth-1, true), blk)
					if res.Only(ta.AssertedType) {
						return true, "every non-error return of " + d.P.FuncID(callee) + " yields " + d.P.TypeStr(ta.AssertedType) + " in this calling context"
					}
				}
			}
		}
	}
	res = d.At(ta.X, blk, nil, d.maxDepth)
	if res.Only(ta.AssertedType) {
		return true, "dynamic type set of the operand is exactly {" + d.P.TypeStr(ta.AssertedType) + "}"
	}
	return false, ""
}
