package rules

import (
	"fmt"
	"go/constant"
	"go/token"
	"go/types"
	"sort"
	"strings"
	"unicode"

	"golang.org/x/tools/go/ssa"

	"verifcheck/internal/report"
)

// ---------------------------------------------------------------------------
// Rune predicates, evaluated on the SSA form. A scanner's character classes
// are small pure functions of one rune (a switch over constants, a comparison
// with a captured constant, a call of a unicode.Is* function). They are
// interpreted here for every rune of a finite universe, which turns "class A is
// contained in class B" into a decided question.
// ---------------------------------------------------------------------------

type runePred struct {
	fn   *ssa.Function         // module function, or nil
	lib  func(rune) bool       // library predicate
	free map[*ssa.FreeVar]rune // captured constants of a closure made by a factory
	name string
}

var libRunePreds = map[string]func(rune) bool{
	"unicode.IsSpace":   unicode.IsSpace,
	"unicode.IsLetter":  unicode.IsLetter,
	"unicode.IsNumber":  unicode.IsNumber,
	"unicode.IsDigit":   unicode.IsDigit,
	"unicode.IsUpper":   unicode.IsUpper,
	"unicode.IsLower":   unicode.IsLower,
	"unicode.IsPunct":   unicode.IsPunct,
	"unicode.IsControl": unicode.IsControl,
}

// resolveRunePred: what a func(rune) bool value denotes.
func (c *Ctx) resolveRunePred(v ssa.Value) (*runePred, string) {
	switch x := v.(type) {
	case *ssa.Function:
		if x.Blocks == nil || !c.P.InModule(x) {
			full := x.String()
			if f, ok := libRunePreds[full]; ok {
				return &runePred{lib: f, name: full}, ""
			}
			return nil, "library function " + full + " is not a known rune class"
		}
		return &runePred{fn: x, name: c.P.FuncID(x)}, ""
	case *ssa.ChangeType:
		return c.resolveRunePred(x.X)
	case *ssa.MakeClosure:
		return nil, "closure over non-constant bindings"
	case *ssa.Call:
		// a factory: returns a closure over its (constant) arguments
		cal := x.Call.StaticCallee()
		if cal == nil || cal.Blocks == nil {
			return nil, "result of an unresolved call"
		}
		for _, b := range cal.Blocks {
			ret, ok := b.Instrs[len(b.Instrs)-1].(*ssa.Return)
			if !ok || len(ret.Results) != 1 {
				continue
			}
			mc, ok := ret.Results[0].(*ssa.MakeClosure)
			if !ok {
				return nil, "the factory does not return a closure literal"
			}
			anon := mc.Fn.(*ssa.Function)
			rp := &runePred{fn: anon, free: map[*ssa.FreeVar]rune{}, name: c.P.FuncID(cal) + "(…)"}
			for i, bnd := range mc.Bindings {
				// the binding is the factory's parameter (possibly through its cell)
				var pa *ssa.Parameter
				switch bv := bnd.(type) {
				case *ssa.Parameter:
					pa = bv
				case *ssa.Alloc:
					for _, r := range *bv.Referrers() {
						if st, ok := r.(*ssa.Store); ok && st.Addr == ssa.Value(bv) {
							pa, _ = st.Val.(*ssa.Parameter)
						}
					}
				}
				if pa == nil {
					return nil, "a captured variable is not a parameter of the factory"
				}
				for pi, p2 := range cal.Params {
					if p2 == pa && pi < len(x.Call.Args) {
						k, ok := x.Call.Args[pi].(*ssa.Const)
						if !ok || k.Value == nil || k.Value.Kind() != constant.Int {
							return nil, "the factory is called with a non-constant argument"
						}
						n, _ := constant.Int64Val(k.Value)
						rp.free[anon.FreeVars[i]] = rune(n)
						rp.name = fmt.Sprintf("%s(%q)", c.P.FuncID(cal), rune(n))
					}
				}
			}
			return rp, ""
		}
	}
	return nil, "not a function this analysis can interpret"
}

// eval interprets the predicate for one rune.
func (c *Ctx) evalRunePred(p *runePred, r rune, depth int) (bool, string) {
	if p.lib != nil {
		return p.lib(r), ""
	}
	if depth > 3 || len(p.fn.Params) != 1 {
		return false, "not a function of one rune"
	}
	vals := map[ssa.Value]constant.Value{p.fn.Params[0]: constant.MakeInt64(int64(r))}
	get := func(v ssa.Value) (constant.Value, bool) {
		if k, ok := v.(*ssa.Const); ok && k.Value != nil {
			return k.Value, true
		}
		if fv, ok := v.(*ssa.FreeVar); ok {
			if rr, ok := p.free[fv]; ok {
				return constant.MakeInt64(int64(rr)), true
			}
		}
		x, ok := vals[v]
		return x, ok
	}
	var prev *ssa.BasicBlock
	b := p.fn.Blocks[0]
	for steps := 0; steps < 10000; steps++ {
		var next *ssa.BasicBlock
		for _, in := range b.Instrs {
			switch x := in.(type) {
			case *ssa.DebugRef:
			case *ssa.Phi:
				for i, pr := range b.Preds {
					if pr == prev {
						if v, ok := get(x.Edges[i]); ok {
							vals[x] = v
						} else {
							return false, "phi of a value that is not interpreted"
						}
					}
				}
			case *ssa.UnOp:
				v, ok := get(x.X)
				if !ok {
					return false, "operand not interpreted"
				}
				switch x.Op {
				case token.MUL: // a load of a captured cell
					if _, isFV := x.X.(*ssa.FreeVar); !isFV {
						return false, "load"
					}
					vals[x] = v
				case token.NOT:
					vals[x] = constant.MakeBool(!constant.BoolVal(v))
				case token.SUB:
					vals[x] = constant.UnaryOp(token.SUB, v, 0)
				default:
					return false, "operator " + x.Op.String()
				}
			case *ssa.BinOp:
				a, ok1 := get(x.X)
				bb, ok2 := get(x.Y)
				if !ok1 || !ok2 {
					return false, "operand not interpreted"
				}
				switch x.Op {
				case token.EQL, token.NEQ, token.LSS, token.LEQ, token.GTR, token.GEQ:
					vals[x] = constant.MakeBool(constant.Compare(a, x.Op, bb))
				case token.ADD, token.SUB, token.AND, token.OR, token.XOR:
					vals[x] = constant.BinaryOp(a, x.Op, bb)
				default:
					return false, "operator " + x.Op.String()
				}
			case *ssa.Convert:
				v, ok := get(x.X)
				if !ok {
					return false, "operand not interpreted"
				}
				vals[x] = v
			case *ssa.ChangeType:
				v, ok := get(x.X)
				if !ok {
					return false, "operand not interpreted"
				}
				vals[x] = v
			case *ssa.Call:
				q, why := c.resolveRunePred(x.Call.Value)
				if q == nil || len(x.Call.Args) != 1 {
					return false, "call that is not a rune class: " + why
				}
				a, ok := get(x.Call.Args[0])
				if !ok {
					return false, "argument not interpreted"
				}
				n, _ := constant.Int64Val(a)
				res, why := c.evalRunePred(q, rune(n), depth+1)
				if why != "" {
					return false, why
				}
				vals[x] = constant.MakeBool(res)
			case *ssa.If:
				v, ok := get(x.Cond)
				if !ok {
					return false, "condition not interpreted"
				}
				if constant.BoolVal(v) {
					next = b.Succs[0]
				} else {
					next = b.Succs[1]
				}
			case *ssa.Jump:
				next = b.Succs[0]
			case *ssa.Return:
				if len(x.Results) != 1 {
					return false, "not a predicate"
				}
				v, ok := get(x.Results[0])
				if !ok || v.Kind() != constant.Bool {
					return false, "result not interpreted"
				}
				return constant.BoolVal(v), ""
			default:
				return false, fmt.Sprintf("instruction %T is outside the interpreted fragment", in)
			}
		}
		if next == nil {
			return false, "fell off a block"
		}
		prev, b = b, next
	}
	return false, "did not terminate"
}

const runeUniverse = 0x3100 // every Unicode space (the last is U+3000) and all of Latin / punctuation

// KEYTRIM (C18): the key scanner of the env-file parser lets a class of blank characters through (they may
// stand between the name and the separator); everything of that class is removed from the end of the key
// afterwards: the class handed to strings.TrimRightFunc contains the class the scan skips. Otherwise `KEY\t=v`
// or a bare `KEY` in a CRLF file yields a key with the blank still attached.
func (c *Ctx) KEYTRIM(rule string) []report.Obligation {
	var out []report.Obligation
	fn := c.P.Func("dotenv.(*parser).locateKeyName")
	if fn == nil {
		return append(out, anchorViolation(rule, "dotenv.(*parser).locateKeyName"))
	}
	// the class the scan skips: a call P(r) on the rune of a range over a string whose true edge goes back to the loop
	var skip []*runePred
	var skipPos string
	for _, b := range fn.Blocks {
		iff, ok := b.Instrs[len(b.Instrs)-1].(*ssa.If)
		if !ok {
			continue
		}
		call, ok := iff.Cond.(*ssa.Call)
		if !ok || len(call.Call.Args) != 1 {
			continue
		}
		ex, ok := call.Call.Args[0].(*ssa.Extract)
		if !ok {
			continue
		}
		nx, ok := ex.Tuple.(*ssa.Next)
		if !ok || !nx.IsString {
			continue
		}
		if b.Succs[0] != nx.Block() {
			continue // the true edge does not go straight to the next character
		}
		p, why := c.resolveRunePred(call.Call.Value)
		if p == nil {
			out = append(out, bad(rule, c.P.FuncID(fn)+" :: class of characters the key scan skips", c.P.InstrPos(call), "cannot interpret the class: "+why))
			continue
		}
		skip = append(skip, p)
		skipPos = c.P.InstrPos(call)
	}
	if len(skip) == 0 {
		return append(out, anchorViolation(rule, "the skip test of the key scan in dotenv.(*parser).locateKeyName"))
	}
	// the classes trimmed from the end of what is returned as the key
	n := 0
	for _, cs := range callSites(fn, func(com *ssa.CallCommon) bool {
		sn := staticName(com)
		return sn == "strings.TrimRightFunc" || sn == "strings.TrimFunc"
	}) {
		call, ok := cs.(*ssa.Call)
		if !ok {
			continue
		}
		// the trimmed text is what the function hands back as the name: its first result, or a field of the
		// struct it returns
		isKey := false
		for _, b := range fn.Blocks {
			ret, ok := b.Instrs[len(b.Instrs)-1].(*ssa.Return)
			if !ok || len(ret.Results) == 0 {
				continue
			}
			if ret.Results[0] == ssa.Value(call) {
				isKey = true
			}
			if ld, isLd := ret.Results[0].(*ssa.UnOp); isLd {
				if al, isAl := ld.X.(*ssa.Alloc); isAl {
					for _, r := range *call.Referrers() {
						if st, isSt := r.(*ssa.Store); isSt {
							if fa, isFA := st.Addr.(*ssa.FieldAddr); isFA && fa.X == ssa.Value(al) {
								isKey = true
							}
						}
					}
				}
			}
		}
		if !isKey {
			continue
		}
		n++
		// KEYSRC: on every way through the scan (a separator found, a line break, the end of the source) the name is
		// a piece of the source; a constant reaching it means a path on which the name was never taken
		var consts []string
		seenV := map[ssa.Value]bool{}
		var leaves func(v ssa.Value)
		leaves = func(v ssa.Value) {
			if seenV[v] {
				return
			}
			seenV[v] = true
			switch x := v.(type) {
			case *ssa.Phi:
				for _, e := range x.Edges {
					leaves(e)
				}
			case *ssa.Const:
				consts = append(consts, x.String())
			}
		}
		leaves(call.Call.Args[0])
		out = append(out, verdict(len(consts) == 0, rule+"-src", c.P.FuncID(fn)+" :: the name is a piece of the source on every path", c.P.InstrPos(call),
			"no constant reaches the name that is trimmed and returned", fmt.Sprintf("the constant %v reaches the name on some path through the scan (the end of the source reached without a separator): what the line holds is then stored under that constant", consts)))
		key := c.P.FuncID(fn) + " :: the class trimmed from the key contains the class the scan skips"
		q, why := c.resolveRunePred(call.Call.Args[1])
		if q == nil {
			out = append(out, bad(rule, key, c.P.InstrPos(call), "cannot interpret the trimmed class: "+why))
			continue
		}
		bad1 := ""
		for _, p := range skip {
			for r := rune(0); r < runeUniverse && bad1 == ""; r++ {
				inP, w1 := c.evalRunePred(p, r, 0)
				if w1 != "" {
					bad1 = "cannot interpret " + p.name + ": " + w1
					break
				}
				if !inP || !unicode.IsSpace(r) {
					continue // name characters are skipped too; only blanks must not stay at the end of the key
				}
				inQ, w2 := c.evalRunePred(q, r, 0)
				if w2 != "" {
					bad1 = "cannot interpret " + q.name + ": " + w2
					break
				}
				if !inQ {
					bad1 = fmt.Sprintf("%q (U+%04X) is skipped by the scan (%s, %s) and therefore can end the key, but %s does not trim it", r, r, p.name, skipPos, q.name)
				}
			}
		}
		out = append(out, verdict(bad1 == "", rule, key, c.P.InstrPos(call), fmt.Sprintf("every blank below U+%04X that the scan skips is accepted by %s", runeUniverse, q.name), bad1))
	}
	if n == 0 {
		out = append(out, bad(rule, c.P.FuncID(fn)+" :: the key is trimmed", c.P.Pos(fn.Pos()), "the key returned is not the result of strings.TrimRightFunc / TrimFunc: blanks the scan skipped stay attached"))
	}
	return out
}

var _ = report.Discharged

// ---------------------------------------------------------------------------
// KEYLEAD (C18): what stands before a statement is skipped by CLASS. The key scan that follows lets every blank rune
// through without looking at it (KEYTRIM removes them from the end of the name only), on the understanding that the
// scan for the start of the statement has already removed all leading white space - Unicode white space included
// (NBSP, NEL, U+2028, U+3000). So the functions that find the start of a statement decide blank-ness with rune
// predicates whose union covers unicode.IsSpace; a scan that compares bytes with a few ASCII blanks does not.
// ---------------------------------------------------------------------------
func (c *Ctx) KEYLEAD(rule string) []report.Obligation {
	var out []report.Obligation
	fn := c.P.Func("dotenv.(*parser).getStatementStart")
	if fn == nil {
		return append(out, anchorViolation(rule, "dotenv.(*parser).getStatementStart"))
	}
	scope := []*ssa.Function{fn}
	for _, cs := range callSites(fn, func(com *ssa.CallCommon) bool {
		cal := com.StaticCallee()
		if cal == nil || !c.P.InModule(cal) || cal.Blocks == nil || cal.Signature.Results().Len() != 1 {
			return false
		}
		b, ok := cal.Signature.Results().At(0).Type().Underlying().(*types.Basic)
		return ok && b.Kind() == types.Int
	}) {
		scope = append(scope, cs.Common().StaticCallee())
	}
	for i := 0; i < len(scope); i++ {
		scope = append(scope, scope[i].AnonFuncs...)
	}
	isRunePred := func(f *ssa.Function) bool {
		sig := f.Signature
		if sig.Params().Len() != 1 || sig.Results().Len() != 1 || sig.Recv() != nil {
			return false
		}
		p, ok1 := sig.Params().At(0).Type().Underlying().(*types.Basic)
		r, ok2 := sig.Results().At(0).Type().Underlying().(*types.Basic)
		return ok1 && ok2 && p.Kind() == types.Int32 && r.Kind() == types.Bool
	}
	var preds []*runePred
	names := map[string]bool{}
	for _, f := range scope {
		for _, b := range f.Blocks {
			for _, in := range b.Instrs {
				for _, op := range in.Operands(nil) {
					g, ok := (*op).(*ssa.Function)
					if !ok || !isRunePred(g) || g.Parent() != nil || names[g.String()] {
						continue
					}
					if p, _ := c.resolveRunePred(g); p != nil {
						names[g.String()] = true
						preds = append(preds, p)
					}
				}
			}
		}
	}
	key := c.P.FuncID(fn) + " :: leading white space is skipped by rune class"
	if len(preds) == 0 {
		return append(out, bad(rule, key, c.P.Pos(fn.Pos()), "the scan for the start of a statement consults no rune predicate: it compares bytes (or runes) with a fixed list of blanks, so a line indented with NBSP / NEL / U+2028 / U+3000 reaches the key scan, which lets blank runes through unexamined: the name keeps the blank (`\\u00a0FOO`), a later `FOO=` no longer overrides it and `$FOO` resolves to nothing"))
	}
	missing := ""
	for r := rune(0); r < 0x3100 && missing == ""; r++ {
		if !unicode.IsSpace(r) {
			continue
		}
		covered := false
		for _, p := range preds {
			if v, why := c.evalRunePred(p, r, 0); why == "" && v {
				covered = true
			}
		}
		if !covered {
			missing = fmt.Sprintf("U+%04X", r)
		}
	}
	var ns []string
	for n := range names {
		ns = append(ns, n)
	}
	sort.Strings(ns)
	out = append(out, verdict(missing == "", rule, key, c.P.Pos(fn.Pos()),
		"the predicates it consults ("+strings.Join(ns, ", ")+") cover unicode.IsSpace", "the predicates it consults ("+strings.Join(ns, ", ")+") do not accept "+missing+", which unicode.IsSpace does: a statement indented with it reaches the key scan with the blank still in front"))
	return out
}
