package rules

import (
	"fmt"
	"go/constant"
	"go/token"
	"go/types"
	"regexp/syntax"
	"sort"
	"strings"

	"golang.org/x/tools/go/ssa"
	"verifcheck/internal/prog"
	"verifcheck/internal/report"
)

// tokensOf collects "Owner.Field" and callee-name tokens from the operand tree of v.
func (c *Ctx) tokensOf(v ssa.Value, depth int, out map[string]bool, seen map[ssa.Value]bool) {
	if v == nil || depth == 0 || seen[v] {
		return
	}
	seen[v] = true
	switch x := v.(type) {
	case *ssa.FieldAddr:
		out[fieldOwner(x)+"."+fieldName(x)] = true
	case *ssa.Field:
		out[recvTypeName(x.X.Type())+"."+fieldName(x)] = true
	case *ssa.Call:
		if cal := x.Call.StaticCallee(); cal != nil {
			n := cal.Name()
			if o := cal.Origin(); o != nil {
				n = o.Name()
			}
			out["call:"+n] = true
		}
	case *ssa.Extract:
		if nx, ok := x.Tuple.(*ssa.Next); ok {
			if rg, ok := nx.Iter.(*ssa.Range); ok {
				c.tokensOf(rg.X, depth-1, out, seen)
			}
			return
		}
	}
	in, ok := v.(ssa.Instruction)
	if !ok {
		return
	}
	for _, op := range in.Operands(nil) {
		if *op != nil {
			c.tokensOf(*op, depth-1, out, seen)
		}
	}
}

type invRule struct {
	Name   string
	Tokens []string
}

var consistencyRules = []invRule{
	{"image or build", []string{"ServiceConfig.Build", "ServiceConfig.Image"}},
	{"dockerfile xor dockerfile_inline", []string{"BuildConfig.DockerfileInline", "BuildConfig.Dockerfile"}},
	{"build.platforms includes platform", []string{"BuildConfig.Platforms", "ServiceConfig.Platform"}},
	{"network_mode xor networks", []string{"ServiceConfig.NetworkMode", "ServiceConfig.Networks"}},
	{"service networks declared", []string{"ServiceConfig.Networks", "Project.Networks"}},
	{"healthcheck test form", []string{"ServiceConfig.HealthCheck", "HealthCheckConfig.Test"}},
	{"depends_on targets exist", []string{"ServiceConfig.DependsOn", "call:GetService", "ServiceDependency.Required"}},
	{"network_mode service: target exists", []string{"ServiceConfig.NetworkMode", "call:GetServices"}},
	{"named volumes declared", []string{"ServiceConfig.Volumes", "ServiceVolumeConfig.Type", "ServiceVolumeConfig.Source", "Project.Volumes"}},
	{"build secrets declared", []string{"BuildConfig.Secrets", "Project.Secrets"}},
	{"configs declared", []string{"ServiceConfig.Configs", "Project.Configs"}},
	{"secrets declared", []string{"ServiceConfig.Secrets", "Project.Secrets"}},
	{"scale agrees with deploy.replicas", []string{"ServiceConfig.Scale", "DeployConfig.Replicas"}},
	{"cpus agrees with deploy limits", []string{"ServiceConfig.CPUS", "Resource.NanoCPUs"}},
	{"mem_limit agrees with deploy limits", []string{"ServiceConfig.MemLimit", "Resource.MemoryBytes", "Resources.Limits"}},
	{"mem_reservation agrees with deploy reservations", []string{"ServiceConfig.MemReservation", "Resource.MemoryBytes", "Resources.Reservations"}},
	{"pids_limit agrees with deploy limits", []string{"ServiceConfig.PidsLimit", "Resource.Pids"}},
	{"container_name excludes scale > 1", []string{"call:GetScale", "ServiceConfig.ContainerName"}},
	{"watch target required", []string{"Trigger.Action", "Trigger.Target"}},
	{"secret has a source", []string{"SecretConfig.External", "SecretConfig.File", "SecretConfig.Environment"}},
}

// INV: checkConsistency contains an error return for every rule of the property statement.
func (c *Ctx) INV(rule string) []report.Obligation {
	var out []report.Obligation
	f := c.P.Func("loader.checkConsistency")
	if f == nil {
		return []report.Obligation{anchorViolation(rule, "loader.checkConsistency")}
	}
	type retSum struct {
		pos    string
		tokens map[string]bool
	}
	var sums []retSum
	// the rules may live in helpers checkConsistency delegates to (their error is returned): error returns of
	// the loader functions it calls, two levels deep, count as its own
	fset := []*ssa.Function{f}
	seenF := map[*ssa.Function]bool{f: true}
	for depth, frontier := 0, []*ssa.Function{f}; depth < 2 && len(frontier) > 0; depth++ {
		var next []*ssa.Function
		for _, g := range frontier {
			for _, cs := range callSites(g, func(com *ssa.CallCommon) bool {
				cal := com.StaticCallee()
				if cal == nil || !c.P.InModule(cal) || cal.Blocks == nil || !strings.HasPrefix(c.P.FuncID(cal), "loader.") {
					return false
				}
				res := cal.Signature.Results()
				return res.Len() >= 1 && isErrorType(res.At(res.Len()-1).Type())
			}) {
				cal := cs.Common().StaticCallee()
				if !seenF[cal] {
					seenF[cal] = true
					fset = append(fset, cal)
					next = append(next, cal)
				}
			}
		}
		frontier = next
	}
	for _, f := range fset {
		fi := prog.Info(f)
		for _, r := range returnsOf(f) {
			ei := f.Signature.Results().Len() - 1
			if ei < 0 || !c.dyn.definitelyNonNil(retValue(r, ei), r.Block(), 2) {
				continue
			}
			toks := map[string]bool{}
			// conditions this return depends on within one iteration: its direct control dependences, and
			// transitively those of the deciding branches as long as they dominate the return (plain
			// transitive control dependence would run around the loop's back edge and make every return
			// depend on every condition of the loop body)
			seenB := map[*ssa.BasicBlock]bool{}
			work := []*ssa.BasicBlock{r.Block()}
			first := true
			type decided struct {
				cond ssa.Value
				succ int
			}
			var deciding []decided
			for len(work) > 0 {
				blk := work[0]
				work = work[1:]
				for _, d := range fi.ControlDeps(blk) {
					if seenB[d.Branch] || (!first && !d.Branch.Dominates(r.Block())) {
						continue
					}
					seenB[d.Branch] = true
					if iff, ok := d.Branch.Instrs[len(d.Branch.Instrs)-1].(*ssa.If); ok {
						c.tokensOf(iff.Cond, 10, toks, map[ssa.Value]bool{})
						deciding = append(deciding, decided{iff.Cond, d.Succ})
					}
					if d.Branch.Dominates(r.Block()) {
						work = append(work, d.Branch)
					}
				}
				first = false
			}
			sums = append(sums, retSum{c.P.InstrPos(r), toks})
			// INV-guard: an error is reported only where an optional part of the model is present (`s.Deploy != nil`)
			// only if the rule looks inside that part. A nil guard on a part the rule never dereferences switches
			// the rule off for every model that omits it (container_name + scale without a deploy section).
			for _, fct := range prog.DominatingFacts(r.Block()) {
				bo, ok := fct.Cond.(*ssa.BinOp)
				if !ok || (bo.Op != token.EQL && bo.Op != token.NEQ) {
					continue
				}
				var ptr ssa.Value
				if prog.IsNilConst(bo.Y) {
					ptr = bo.X
				} else if prog.IsNilConst(bo.X) {
					ptr = bo.Y
				}
				if ptr == nil {
					continue
				}
				ld, isLd := ptr.(*ssa.UnOp)
				if !isLd || ld.Op != token.MUL {
					continue
				}
				if _, isFA := ld.X.(*ssa.FieldAddr); !isFA {
					continue
				}
				if pt, isP := ld.Type().Underlying().(*types.Pointer); !isP {
					continue
				} else if _, isSt := pt.Elem().Underlying().(*types.Struct); !isSt {
					continue
				}
				key := addrKey(ld.X, 5)
				if key == "" {
					continue
				}
				// is the pointer known to be non-nil wherever this error is reported?
				if (bo.Op == token.NEQ) != fct.Val {
					continue
				}
				looksInside := false
				for _, other := range deciding {
					if derefsPath(other.cond, key, 8, map[ssa.Value]bool{}) {
						looksInside = true
					}
				}
				for _, in := range r.Block().Instrs {
					if v, isV := in.(ssa.Value); isV && derefsPath(v, key, 6, map[ssa.Value]bool{}) {
						looksInside = true
					}
				}
				out = append(out, verdict(looksInside, rule+"-guard", c.P.FuncID(f)+" :: "+c.P.KeyTerm(ptr, 3)+" guards a rule that looks inside it", c.P.InstrPos(r),
					"a condition of this error reads through the guarded pointer", "this error is only reported when "+c.P.KeyTerm(ptr, 3)+" is set, yet none of its conditions looks inside it: the rule is switched off for every model that omits that section"))
			}
		}
	}
	c.Stats[rule+".error_returns"] = len(sums)
	for _, ir := range consistencyRules {
		found := ""
		for _, s := range sums {
			all := true
			for _, t := range ir.Tokens {
				if !s.tokens[t] {
					all = false
				}
			}
			if all {
				found = s.pos
				break
			}
		}
		key := "checkConsistency :: " + ir.Name
		if found != "" {
			out = append(out, ok2(rule, key, found, fmt.Sprintf("an error return is control dependent on conditions reading %v", ir.Tokens)))
		} else {
			out = append(out, bad(rule, key, c.P.Pos(f.Pos()), fmt.Sprintf("no error return of checkConsistency depends on %v: the rule is no longer enforced", ir.Tokens)))
		}
	}
	return out
}

// ---------------------------------------------------------------- TPL

// globalStringInit returns the constant string a package-level variable is initialised with.
func (c *Ctx) globalStringInit(rel, name string) (string, bool) {
	pk := c.P.SSAByRel[rel]
	if pk == nil {
		return "", false
	}
	g, ok := pk.Members[name].(*ssa.Global)
	if !ok {
		return "", false
	}
	init := pk.Func("init")
	for _, b := range init.Blocks {
		for _, in := range b.Instrs {
			if st, ok := in.(*ssa.Store); ok && st.Addr == ssa.Value(g) {
				if s, ok := prog.ConstString(st.Val); ok {
					return s, true
				}
			}
		}
	}
	return "", false
}

// regexOperators reads the operator set `:?[-+?]` out of the braced-substitution regex.
func regexOperators(re string) ([]string, error) {
	parsed, err := syntax.Parse(re, syntax.Perl)
	if err != nil {
		return nil, err
	}
	var ops []string
	var walk func(r *syntax.Regexp)
	walk = func(r *syntax.Regexp) {
		if r.Op == syntax.OpConcat {
			for i := 0; i+1 < len(r.Sub); i++ {
				a, b := r.Sub[i], r.Sub[i+1]
				if a.Op == syntax.OpQuest && len(a.Sub) == 1 && a.Sub[0].Op == syntax.OpLiteral && string(a.Sub[0].Rune) == ":" && b.Op == syntax.OpCharClass {
					for j := 0; j+1 < len(b.Rune); j += 2 {
						for ch := b.Rune[j]; ch <= b.Rune[j+1]; ch++ {
							ops = append(ops, string(ch), ":"+string(ch))
						}
					}
				}
			}
		}
		for _, s := range r.Sub {
			walk(s)
		}
	}
	walk(parsed)
	sort.Strings(ops)
	return ops, nil
}

// separatorOf resolves the separator string a substitution function partitions on.
// separatorOf finds the separator a substitution function splits its operand on: the separator argument of a
// splitting call (strings.Cut / SplitN / Split / Index / Contains), reached directly or through helpers of
// package template whose string and boolean parameters are bound to the constants of the call site.
func (c *Ctx) separatorOf(fn *ssa.Function, depth int) (string, bool) {
	return c.separatorIn(fn, nil, nil, depth)
}

var stdSplitters = map[string]int{"strings.Cut": 1, "strings.SplitN": 1, "strings.Split": 1, "strings.Index": 1, "strings.Contains": 1}

func (c *Ctx) separatorIn(fn *ssa.Function, benv map[*ssa.Parameter]bool, senv map[*ssa.Parameter]string, depth int) (string, bool) {
	if fn == nil || depth == 0 || fn.Blocks == nil {
		return "", false
	}
	evalS := func(v ssa.Value) (string, bool) {
		if pa, ok := v.(*ssa.Parameter); ok {
			if sv, bound := senv[pa]; bound {
				return sv, true
			}
		}
		return c.evalStringArg(v, benv)
	}
	for _, b := range fn.Blocks {
		for _, in := range b.Instrs {
			call, ok := in.(*ssa.Call)
			if !ok {
				continue
			}
			cal := call.Call.StaticCallee()
			if cal == nil {
				continue
			}
			if idx, isSplit := stdSplitters[calleeName(cal)]; isSplit && idx < len(call.Call.Args) {
				if sv, ok := evalS(call.Call.Args[idx]); ok && sv != "" {
					return sv, true
				}
				continue
			}
			if !c.P.InModule(cal) || !strings.HasPrefix(c.P.FuncID(cal), "template.") || cal == fn {
				continue
			}
			// bind the callee's parameters to what is constant at this call site
			b2, s2 := map[*ssa.Parameter]bool{}, map[*ssa.Parameter]string{}
			for i, pa := range cal.Params {
				if i >= len(call.Call.Args) {
					break
				}
				if bv, isC := constBool(call.Call.Args[i]); isC {
					b2[pa] = bv
				} else if sv, ok := evalS(call.Call.Args[i]); ok && isStringType(pa.Type()) {
					s2[pa] = sv
				}
			}
			if sv, ok := c.separatorIn(cal, b2, s2, depth-1); ok {
				return sv, true
			}
		}
	}
	return "", false
}

// evalStringArg evaluates a string that is a constant or a phi selected by a bound boolean parameter.
func (c *Ctx) evalStringArg(v ssa.Value, env map[*ssa.Parameter]bool) (string, bool) {
	if s, ok := prog.ConstString(v); ok {
		return s, true
	}
	phi, ok := v.(*ssa.Phi)
	if !ok || len(phi.Edges) != 2 {
		return "", false
	}
	blk := phi.Block()
	for i, pred := range blk.Preds {
		for d := pred; d != nil; d = d.Idom() {
			iff, ok := d.Instrs[len(d.Instrs)-1].(*ssa.If)
			if !ok {
				continue
			}
			pa, ok := iff.Cond.(*ssa.Parameter)
			if !ok {
				continue
			}
			bv, bound := env[pa]
			if !bound {
				return "", false
			}
			var edgeVal bool
			if d == pred {
				edgeVal = d.Succs[0] == blk
			} else if d.Succs[0].Dominates(pred) {
				edgeVal = true
			} else if d.Succs[1].Dominates(pred) {
				edgeVal = false
			} else {
				continue
			}
			if edgeVal == bv {
				return prog.ConstString(phi.Edges[i])
			}
			break
		}
	}
	return "", false
}

func (c *Ctx) TPL(rule string) []report.Obligation {
	var out []report.Obligation
	// ---- TPL-1: operator table == regex operator class == separators used
	sel := c.P.Func("template.getSubstitutionFunctionForTemplate")
	if sel == nil {
		return []report.Obligation{anchorViolation(rule, "template.getSubstitutionFunctionForTemplate")}
	}
	type row struct {
		op string
		fn *ssa.Function
	}
	rows := map[int64]*row{}
	// the operator table: (constant operator, function) pairs stored into the elements of an array / slice of
	// struct{string; SubstituteFunc}, in the selecting function itself or wherever the package builds it (init)
	var tableFns []*ssa.Function
	tableFns = append(tableFns, sel)
	for _, f := range c.P.Funcs {
		if f != sel && strings.HasPrefix(c.P.FuncID(f), "template.") && (f.Name() == "init" || strings.HasPrefix(f.Name(), "init#") || strings.HasPrefix(f.Name(), "init$")) {
			tableFns = append(tableFns, f)
		}
	}
	for _, tf := range tableFns {
		for _, b := range tf.Blocks {
			for _, in := range b.Instrs {
				st, ok := in.(*ssa.Store)
				if !ok {
					continue
				}
				fa, ok := st.Addr.(*ssa.FieldAddr)
				if !ok {
					continue
				}
				ia, ok := fa.X.(*ssa.IndexAddr)
				if !ok {
					continue
				}
				idx, ok := constInt(ia.Index)
				if !ok {
					continue
				}
				if rows[idx] == nil {
					rows[idx] = &row{}
				}
				if s, ok := prog.ConstString(st.Val); ok {
					rows[idx].op = s
				}
				switch fv := st.Val.(type) {
				case *ssa.ChangeType:
					if f, ok := fv.X.(*ssa.Function); ok {
						rows[idx].fn = f
					}
				case *ssa.Function:
					rows[idx].fn = fv
				}
			}
		}
	}
	var tableOps []string
	for _, r := range rows {
		if r.fn == nil || r.op == "" {
			out = append(out, bad(rule+"-1", "operator table :: row readable", c.P.Pos(sel.Pos()), "a row of the operator table is not a (constant, function) pair"))
			continue
		}
		tableOps = append(tableOps, r.op)
		sep, ok := c.separatorOf(r.fn, 3)
		key := fmt.Sprintf("operator %q -> %s", r.op, c.P.FuncID(r.fn))
		switch {
		case !ok:
			out = append(out, bad(rule+"-1", key, c.P.Pos(r.fn.Pos()), "cannot resolve the separator the bound function partitions on"))
		case sep != r.op:
			out = append(out, bad(rule+"-1", key, c.P.Pos(r.fn.Pos()), fmt.Sprintf("the table selects this function for operator %q but it splits the substitution on %q", r.op, sep)))
		default:
			out = append(out, ok2(rule+"-1", key, c.P.Pos(r.fn.Pos()), "the bound function partitions the substitution on the same operator"))
		}
	}
	sort.Strings(tableOps)
	if re, ok := c.globalStringInit("template", "substitutionBraced"); ok {
		ops, err := regexOperators(re)
		switch {
		case err != nil:
			out = append(out, bad(rule+"-1", "regex :: operator class", "", "cannot parse substitutionBraced: "+err.Error()))
		case strings.Join(ops, " ") != strings.Join(tableOps, " "):
			out = append(out, bad(rule+"-1", "regex :: operator class equals the table", "", fmt.Sprintf("the braced-substitution regex admits operators %v, the selection table handles %v", ops, tableOps)))
		default:
			out = append(out, ok2(rule+"-1", "regex :: operator class equals the table", "", fmt.Sprintf("both are %v", ops)))
		}
	} else {
		out = append(out, anchorViolation(rule+"-1", "template.substitutionBraced"))
	}
	// ---- TPL-6: an operator function says "not applied" only when its operator is not in the substitution.
	// The caller continues with the rest of the template only when a function reports applied: reporting false
	// after the operator was recognised drops the text that follows.
	{
		shape := func(f *ssa.Function) bool {
			res := f.Signature.Results()
			return res.Len() == 3 && isStringType(res.At(0).Type()) && isBoolType(res.At(1).Type()) && isErrorType(res.At(2).Type())
		}
		set := map[*ssa.Function]bool{}
		var add func(f *ssa.Function, d int)
		add = func(f *ssa.Function, d int) {
			if f == nil || set[f] || d == 0 || f.Blocks == nil || !shape(f) {
				return
			}
			set[f] = true
			for _, cs := range callSites(f, func(com *ssa.CallCommon) bool {
				cal := com.StaticCallee()
				return cal != nil && c.P.InModule(cal) && strings.HasPrefix(c.P.FuncID(cal), "template.")
			}) {
				add(cs.Common().StaticCallee(), d-1)
			}
		}
		for _, r := range rows {
			add(r.fn, 3)
		}
		notFound := func(cond ssa.Value, val bool) bool {
			switch x := cond.(type) {
			case *ssa.Call:
				return staticName(&x.Call) == "strings.Contains" && !val
			case *ssa.Extract:
				// the found flag of strings.Cut or of a splitting helper
				if call, ok := x.Tuple.(*ssa.Call); ok && isBoolType(x.Type()) && !val {
					if cal := call.Call.StaticCallee(); cal != nil && (calleeName(cal) == "strings.Cut" || strings.HasPrefix(c.P.FuncID(cal), "template.")) {
						return true
					}
				}
			case *ssa.BinOp:
				if call, ok := x.X.(*ssa.Call); ok && staticName(&call.Call) == "strings.Index" {
					k, isC := constInt(x.Y)
					return isC && (x.Op == token.LSS && k == 0 && val || x.Op == token.GEQ && k == 0 && !val || x.Op == token.EQL && k == -1 && val)
				}
			}
			return false
		}
		var ids []string
		byID := map[string]*ssa.Function{}
		for f := range set {
			ids = append(ids, c.P.FuncID(f))
			byID[c.P.FuncID(f)] = f
		}
		sort.Strings(ids)
		for _, id := range ids {
			f := byID[id]
			good, n := true, 0
			pos := c.P.Pos(f.Pos())
			for _, r := range returnsOf(f) {
				bv, isC := constBool(retValue(r, 1))
				if !isC || bv {
					continue
				}
				if ev := errRet(r); !isNilOrConst(ev) {
					// `if !found || err != nil { return "", false, err }`: edge by edge, either the error is known
					// to be set (an error return) or the operator was not found
					plain := 0
					for _, pred := range r.Block().Preds {
						facts := prog.EdgeFacts(pred, r.Block())
						isErr, absent := false, false
						for _, fct := range facts {
							if bo, ok := fct.Cond.(*ssa.BinOp); ok && (bo.Op == token.NEQ) == fct.Val && (bo.Op == token.NEQ || bo.Op == token.EQL) &&
								(bo.X == ev && prog.IsNilConst(bo.Y) || bo.Y == ev && prog.IsNilConst(bo.X)) {
								isErr = true
							}
							if notFound(fct.Cond, fct.Val) {
								absent = true
							}
						}
						switch {
						case isErr:
						case absent:
							plain++
						default:
							plain++
							good = false
							pos = c.P.InstrPos(r)
						}
					}
					if plain > 0 {
						n++
					}
					continue
				}
				n++
				if !factHolds(r.Block(), notFound) {
					good = false
					pos = c.P.InstrPos(r)
				}
			}
			if n == 0 {
				continue // forwards the verdict of a helper
			}
			out = append(out, verdict(good, rule+"-6", id+" :: not applied only when the operator is absent", pos,
				"every `applied = false` result without error lies on the operator-not-found edge", "the function reports `not applied` after its operator was found: the caller then drops the rest of the template (later substitutions are not expanded, later errors not raised)"))
		}
	}
	want := []string{"+", "-", ":+", ":-", ":?", "?"}
	out = append(out, verdict(strings.Join(tableOps, " ") == strings.Join(want, " "), rule+"-1", "operator table :: six operators", c.P.Pos(sel.Pos()),
		fmt.Sprintf("%v", tableOps), fmt.Sprintf("the table handles %v, the grammar has %v", tableOps, want)))

	// ---- TPL-2: defaults / replacements / messages are themselves interpolated
	// decided per operator of the table (whatever the functions behind a row are called): the function of the row, or
	// one it hands its substitution to and whose verdict it forwards
	leaves := func(v ssa.Value) bool {
		for _, use := range *v.Referrers() {
			switch u := use.(type) {
			case *ssa.Return:
				return true
			case *ssa.Store:
				if fa, ok := u.Addr.(*ssa.FieldAddr); ok && fieldName(fa) == "Reason" {
					return true
				}
			case *ssa.Phi:
				return true
			}
		}
		return false
	}
	inPkg := func(f *ssa.Function) func(com *ssa.CallCommon) bool {
		return func(com *ssa.CallCommon) bool {
			cal := com.StaticCallee()
			return cal != nil && c.P.InModule(cal) && strings.HasPrefix(c.P.FuncID(cal), "template.") && cal != f
		}
	}
	var interpolates func(f *ssa.Function, d int) bool
	interpolates = func(f *ssa.Function, d int) bool {
		// the split at the operator and the interpolation of what follows it: in the function itself, or in a
		// helper of the package that returns the interpolated text (then result k of the helper is what is used)
		if res := c.interpolatedHalf(f); len(res) > 0 {
			for _, v := range res {
				if leaves(v) {
					return true
				}
			}
			return false
		}
		for _, cs := range callSites(f, inPkg(f)) {
			h := cs.Common().StaticCallee()
			// which results of the helper carry the interpolated text on every return that has one
			idx := map[int]bool{}
			for _, v := range c.interpolatedHalf(h) {
				for _, use := range *v.Referrers() {
					if r, ok := use.(*ssa.Return); ok {
						for i, rv := range r.Results {
							if rv == v {
								idx[i] = true
							}
						}
					}
				}
			}
			for _, r := range *cs.(ssa.Value).Referrers() {
				if ex, ok := r.(*ssa.Extract); ok && idx[ex.Index] && leaves(ex) {
					return true
				}
			}
		}
		if d == 0 {
			return false
		}
		// a row that forwards: `return withX(substitution, mapping, …)`
		for _, cs := range callSites(f, inPkg(f)) {
			forwarded := false
			for _, r := range *cs.(ssa.Value).Referrers() {
				if ex, ok := r.(*ssa.Extract); ok && ex.Index == 0 && leaves(ex) {
					forwarded = true
				}
			}
			if forwarded && interpolates(cs.Common().StaticCallee(), d-1) {
				return true
			}
		}
		return false
	}
	var rowIdx []int64
	for i := range rows {
		rowIdx = append(rowIdx, i)
	}
	sort.Slice(rowIdx, func(i, j int) bool { return rowIdx[i] < rowIdx[j] })
	for _, i := range rowIdx {
		r := rows[i]
		if r.fn == nil {
			continue
		}
		out = append(out, verdict(interpolates(r.fn, 2), rule+"-2", fmt.Sprintf("operator %q :: second half interpolated", r.op), c.P.Pos(r.fn.Pos()),
			"the text after the operator goes through Substitute and that result is what is returned / reported", "the default / replacement / message is used without being interpolated"))
	}

	// ---- TPL-3: values obtained from the variable mapping never re-enter substitution
	tainted := map[*ssa.Function]bool{} // functions whose first result may be a mapping value
	pkgFns := []*ssa.Function{}
	for _, f := range c.P.Funcs {
		if strings.HasPrefix(c.P.FuncID(f), "template.") {
			pkgFns = append(pkgFns, f)
		}
	}
	isSubstEntry := func(com *ssa.CallCommon) (int, bool) {
		switch c.calleeID(com) {
		case "template.Substitute", "template.SubstituteWith", "template.SubstituteWithOptions":
			return 0, true
		}
		if staticName(com) == "(*regexp.Regexp).ReplaceAllStringFunc" {
			return 1, true
		}
		return 0, false
	}
	var viol []string
	for iter := 0; iter < 5; iter++ {
		changed := false
		viol = nil
		for _, f := range pkgFns {
			t := map[ssa.Value]bool{}
			for pass := 0; pass < 6; pass++ {
				for _, b := range f.Blocks {
					for _, in := range b.Instrs {
						v, isVal := in.(ssa.Value)
						if !isVal || t[v] {
							continue
						}
						switch x := in.(type) {
						case *ssa.Call:
							// call of a Mapping-typed function value
							if x.Call.StaticCallee() == nil && !x.Call.IsInvoke() && c.P.TypeStr(x.Call.Value.Type()) == "template.Mapping" {
								t[v] = true
							} else if cal := x.Call.StaticCallee(); cal != nil && tainted[cal] {
								t[v] = true
							} else if x.Call.StaticCallee() == nil && !x.Call.IsInvoke() {
								// substitute / replacement function values return mapping-derived text
								ts := c.P.TypeStr(x.Call.Value.Type())
								if ts == "template.SubstituteFunc" || ts == "template.ReplacementFunc" {
									t[v] = true
								}
							}
						case *ssa.Extract:
							if t[x.Tuple] && x.Index == 0 {
								t[v] = true
							}
						case *ssa.Phi:
							for _, e := range x.Edges {
								if t[e] {
									t[v] = true
								}
							}
						case *ssa.BinOp:
							if x.Op == token.ADD && (t[x.X] || t[x.Y]) {
								t[v] = true
							}
						}
					}
				}
			}
			for _, b := range f.Blocks {
				for _, in := range b.Instrs {
					switch x := in.(type) {
					case *ssa.Return:
						if len(x.Results) > 0 && t[x.Results[0]] && !tainted[f] {
							tainted[f] = true
							changed = true
						}
					case *ssa.Call:
						if i, ok := isSubstEntry(&x.Call); ok && i < len(x.Call.Args) && t[x.Call.Args[i]] {
							viol = append(viol, c.P.FuncID(f)+" ("+c.P.InstrPos(in)+")")
						}
					}
				}
			}
		}
		if !changed {
			break
		}
	}
	out = append(out, verdict(len(viol) == 0, rule+"-3", "template :: substituted values are not expanded again", "",
		fmt.Sprintf("no value returned by the variable mapping (or by a substitution function) reaches the template argument of Substitute*/ReplaceAllStringFunc in %d functions of package template", len(pkgFns)),
		"a substituted value is fed back into substitution at "+strings.Join(viol, ", ")+": a `$` inside a variable's value would be expanded"))

	// ---- TPL-5: no error produced inside the substitution machinery is dropped on some path
	nerr := 0
	for _, f := range pkgFns {
		for _, b := range f.Blocks {
			for _, in := range b.Instrs {
				call, ok := in.(*ssa.Call)
				if !ok {
					continue
				}
				sig := call.Call.Signature()
				if sig.Results().Len() == 0 || !isErrorType(sig.Results().At(sig.Results().Len()-1).Type()) {
					continue
				}
				nerr++
				key := c.P.FuncID(f) + " :: error of " + c.P.KeyTerm(call, 1)
				if at := c.errUntestedExit(call); at != "" {
					out = append(out, bad(rule+"-5", key, c.P.InstrPos(in), "a path from this call reaches the return at "+at+" without the error having been tested, passed on or returned: a failing nested substitution (required variable, malformed `${`) is silently turned into a value"))
				} else {
					out = append(out, ok2(rule+"-5", key, c.P.InstrPos(in), "on every path to a return the error is tested against nil, handed to another call, or returned"))
				}
			}
		}
	}
	if nerr == 0 {
		out = append(out, bad(rule+"-5", "template :: error-returning calls", "", "no error-returning call found in package template"))
	}

	// ---- TPL-4: empty name in a braced / named match is an InvalidTemplateError
	if f := c.P.Func("template.DefaultReplacementAppliedFunc"); f != nil {
		good := false
		for _, r := range returnsOf(f) {
			ev := errRet(r)
			mi, ok := ev.(*ssa.MakeInterface)
			if !ok || !strings.Contains(c.P.TypeStr(mi.X.Type()), "InvalidTemplateError") {
				continue
			}
			good = factHolds(r.Block(), func(cond ssa.Value, val bool) bool {
				bo, ok := cond.(*ssa.BinOp)
				if !ok || bo.Op != token.EQL || !val {
					return false
				}
				s, isC := prog.ConstString(bo.Y)
				return isC && s == ""
			})
		}
		out = append(out, verdict(good, rule+"-4", "DefaultReplacementAppliedFunc :: empty substitution is invalid", c.P.Pos(f.Pos()),
			"an InvalidTemplateError is returned on the `substitution == \"\"` edge", "a match without a variable name is no longer reported as an invalid template"))
	} else {
		out = append(out, anchorViolation(rule+"-4", "template.DefaultReplacementAppliedFunc"))
	}
	return out
}

var _ = constant.MakeBool
var _ = report.Info

// interpolatedHalf: the values in f that are Substitute(second half of the split of the operand at the operator).
// The split is a helper (string, string) -> (string, string, ...) of package template, or strings.Cut.
func (c *Ctx) interpolatedHalf(f *ssa.Function) []ssa.Value {
	part := callSites(f, func(com *ssa.CallCommon) bool {
		cal := com.StaticCallee()
		if cal == nil {
			return false
		}
		if calleeName(cal) == "strings.Cut" {
			return true
		}
		sig := cal.Signature
		return c.P.InModule(cal) && strings.HasPrefix(c.P.FuncID(cal), "template.") && sig.Params().Len() == 2 && sig.Results().Len() >= 2 &&
			isStringType(sig.Params().At(0).Type()) && isStringType(sig.Params().At(1).Type()) &&
			isStringType(sig.Results().At(0).Type()) && isStringType(sig.Results().At(1).Type())
	})
	sub := c.callsTo(f, "template.Substitute")
	if len(part) != 1 || len(sub) == 0 {
		return nil
	}
	var out []ssa.Value
	for _, s := range sub {
		ex, isEx := s.Common().Args[0].(*ssa.Extract)
		if !isEx || ex.Tuple != part[0].(ssa.Value) || ex.Index != 1 {
			continue
		}
		for _, r := range *s.(ssa.Value).Referrers() {
			if e2, ok := r.(*ssa.Extract); ok && e2.Index == 0 {
				out = append(out, e2)
			}
		}
	}
	return out
}

// BRACESCAN (TPL-7, C07): the end of a `${...}` is found by counting braces, literal ones included. Whatever the
// scan does with a byte, it looks at every byte: in each loop of package template that compares s[i] with `{` or
// `}`, the index advances by exactly one per iteration (every back edge of the index carries i+1). A second
// advance inside the body (skipping the byte after a `{`, after `$$`, ...) can step over a brace, and the
// substitution then ends one brace early or late.
func (c *Ctx) BRACESCAN(rule string) []report.Obligation {
	var out []report.Obligation
	n := 0
	for _, fn := range c.P.Funcs {
		if !strings.HasPrefix(c.P.FuncID(fn), "template.") {
			continue
		}
		seen := map[*ssa.Phi]bool{}
		for _, b := range fn.Blocks {
			for _, in := range b.Instrs {
				bo, ok := in.(*ssa.BinOp)
				if !ok || (bo.Op != token.EQL && bo.Op != token.NEQ) {
					continue
				}
				k, isC := constInt(bo.Y)
				if !isC || (k != '{' && k != '}') {
					continue
				}
				var str, index ssa.Value
				switch x := bo.X.(type) {
				case *ssa.Lookup:
					str, index = x.X, x.Index
				case *ssa.Index:
					str, index = x.X, x.Index
				}
				if str == nil || !isStringType(str.Type()) {
					continue
				}
				idx, isPhi := index.(*ssa.Phi)
				if !isPhi || seen[idx] {
					continue
				}
				seen[idx] = true
				n++
				good, why := true, ""
				for i, e := range idx.Edges {
					pred := idx.Block().Preds[i]
					if !idx.Block().Dominates(pred) {
						continue // entry edge
					}
					add, isAdd := e.(*ssa.BinOp)
					one, isOne := int64(0), false
					if isAdd {
						one, isOne = constInt(add.Y)
					}
					if !isAdd || add.Op != token.ADD || add.X != ssa.Value(idx) || !isOne || one != 1 {
						good, why = false, c.P.KeyTerm(e, 3)
					}
				}
				out = append(out, verdict(good, rule, c.P.FuncID(fn)+" :: brace scan examines every byte", c.P.InstrPos(idx),
					"every back edge of the scan index carries index+1", "the scan index is advanced inside the loop body as well ("+why+"): the byte stepped over may be a brace, and the substitution then ends at the wrong one"))
			}
		}
	}
	if n == 0 {
		out = append(out, bad(rule, "template :: brace scan", "", "no loop comparing s[i] with a brace found in package template: the rule sees nothing"))
	}
	return out
}

// derefsPath: v is computed from a field access through the pointer stored at the field path key.
func derefsPath(v ssa.Value, key string, depth int, seen map[ssa.Value]bool) bool {
	if v == nil || depth == 0 || seen[v] {
		return false
	}
	seen[v] = true
	if fa, ok := v.(*ssa.FieldAddr); ok {
		if ld, isLd := fa.X.(*ssa.UnOp); isLd && ld.Op == token.MUL && addrKey(ld.X, 5) == key {
			return true
		}
	}
	in, ok := v.(ssa.Instruction)
	if !ok {
		return false
	}
	for _, op := range in.Operands(nil) {
		if *op != nil && derefsPath(*op, key, depth-1, seen) {
			return true
		}
	}
	return false
}

// INVSIGN (C10): "this setting is set" is `!= 0` for a signed field: -1 is the usual spelling of `unlimited` and is
// a value like any other when two settings must agree. In checkConsistency and the helpers it calls, a signed
// number that comes from the model (a field, or a parameter of a helper that is handed one) is not compared with
// zero by order (`> 0`): a negative value would count as not set and a disagreeing pair would load.
func (c *Ctx) INVSIGN(rule string) []report.Obligation {
	f := c.P.Func("loader.checkConsistency")
	if f == nil {
		return []report.Obligation{anchorViolation(rule, "loader.checkConsistency")}
	}
	var out []report.Obligation
	fset := []*ssa.Function{f}
	seenF := map[*ssa.Function]bool{f: true}
	for i := 0; i < len(fset) && i < 24; i++ {
		for _, cs := range callSites(fset[i], func(com *ssa.CallCommon) bool {
			cal := com.StaticCallee()
			return cal != nil && c.P.InModule(cal) && cal.Blocks != nil && strings.HasPrefix(c.P.FuncID(cal), "loader.")
		}) {
			if g := cs.Common().StaticCallee(); !seenF[g] {
				seenF[g] = true
				fset = append(fset, g)
			}
		}
	}
	n := 0
	for _, g := range fset {
		for _, b := range g.Blocks {
			for _, in := range b.Instrs {
				bo, ok := in.(*ssa.BinOp)
				if !ok {
					continue
				}
				switch bo.Op {
				case token.GTR, token.GEQ, token.LSS, token.LEQ:
				default:
					continue
				}
				val, other := bo.X, bo.Y
				if _, isC := val.(*ssa.Const); isC {
					val, other = bo.Y, bo.X
				}
				oc, isC := other.(*ssa.Const)
				if !isC || oc.Value == nil || (oc.Value.ExactString() != "0" && oc.Value.ExactString() != "1") {
					continue
				}
				bt, isB := val.Type().Underlying().(*types.Basic)
				if !isB || bt.Info()&types.IsNumeric == 0 || bt.Info()&types.IsUnsigned != 0 {
					continue
				}
				fromModel := loadedField(val) != ""
				if _, isParam := val.(*ssa.Parameter); isParam && g != f {
					fromModel = true
				}
				if call, isCall := val.(*ssa.Call); isCall {
					// len(...) and scale counters are not settings
					if bi, isBi := call.Call.Value.(*ssa.Builtin); isBi && bi.Name() == "len" {
						continue
					}
				}
				if !fromModel {
					continue
				}
				// the counted quantities (scale, replicas) are compared with 1 on purpose
				if loadedField(val) == "" && g == f {
					continue
				}
				n++
				out = append(out, bad(rule, c.P.FuncID(g)+" :: "+c.P.KeyTerm(val, 2)+" tested for being set by its sign", c.P.InstrPos(bo),
					"a signed setting is compared with zero by order: a negative value (-1, unlimited) counts as `not set`, so a pair that disagrees with it is not reported"))
			}
		}
	}
	out = append(out, report.Obligation{Rule: rule, Key: "checkConsistency :: settings are tested for being set with != 0", Status: report.Discharged, Why: fmt.Sprintf("%d functions inspected, %d sign tests of model values", len(fset), n)})
	return out
}
