package rules

import (
	"fmt"
	"go/token"
	"go/types"
	"sort"
	"strings"

	"golang.org/x/tools/go/ssa"
	"verifcheck/internal/prog"
	"verifcheck/internal/report"
)

const errgroupGo = "(*golang.org/x/sync/errgroup.Group).Go"
const errgroupWait = "(*golang.org/x/sync/errgroup.Group).Wait"
const errgroupSetLimit = "(*golang.org/x/sync/errgroup.Group).SetLimit"

type spawn struct {
	In      ssa.Instruction
	Closure *ssa.Function // spawned closure body (nil when a non-literal function value is spawned)
	MC      *ssa.MakeClosure
	Group   ssa.Value // errgroup receiver (nil for plain go statements)
}

func spawnsIn(fn *ssa.Function) []spawn {
	var out []spawn
	for _, b := range fn.Blocks {
		for _, in := range b.Instrs {
			switch x := in.(type) {
			case *ssa.Go:
				sp := spawn{In: in}
				if mc, ok := x.Call.Value.(*ssa.MakeClosure); ok {
					sp.MC, sp.Closure = mc, mc.Fn.(*ssa.Function)
				} else if f := x.Call.StaticCallee(); f != nil {
					sp.Closure = f
				}
				out = append(out, sp)
			case *ssa.Call:
				if staticName(&x.Call) == errgroupGo {
					sp := spawn{In: in, Group: x.Call.Args[0]}
					if mc, ok := x.Call.Args[1].(*ssa.MakeClosure); ok {
						sp.MC, sp.Closure = mc, mc.Fn.(*ssa.Function)
					} else if fc, ok := x.Call.Args[1].(*ssa.Call); ok {
						// eg.Go(worker(name, service)): a local closure factory called with per-iteration values. The
						// spawned body is the closure the factory returns; what it captures from the factory's own
						// parameters is private to the call, what it captures through the factory's free variables is
						// what the factory captured here.
						if fmc, ok := fc.Call.Value.(*ssa.MakeClosure); ok {
							factory := fmc.Fn.(*ssa.Function)
							var inner *ssa.MakeClosure
							rets := returnsOf(factory)
							if len(rets) == 1 && len(rets[0].Results) == 1 {
								inner, _ = rets[0].Results[0].(*ssa.MakeClosure)
							}
							if inner != nil {
								composed := make([]ssa.Value, len(inner.Bindings))
								for i, bv := range inner.Bindings {
									if ffv, isFV := bv.(*ssa.FreeVar); isFV {
										for j, f2 := range factory.FreeVars {
											if f2 == ffv && j < len(fmc.Bindings) {
												composed[i] = fmc.Bindings[j]
											}
										}
									}
								}
								sp.MC, sp.Closure = &ssa.MakeClosure{Fn: inner.Fn, Bindings: composed}, inner.Fn.(*ssa.Function)
							}
						}
					}
					out = append(out, sp)
				}
			}
		}
	}
	return out
}

// lockedBy: the mutex field (owner type, field name) held at instruction in,
// through the shape `x.mu.Lock(); defer x.mu.Unlock()` dominating it.
func lockedFields(fn *ssa.Function, at ssa.Instruction) map[string]bool {
	held := map[string]bool{}
	var locks, unlocks []ssa.CallInstruction
	for _, b := range fn.Blocks {
		for _, in := range b.Instrs {
			ci, ok := in.(ssa.CallInstruction)
			if !ok {
				continue
			}
			n := staticName(ci.Common())
			switch n {
			case "(*sync.Mutex).Lock", "(*sync.RWMutex).Lock":
				if _, isCall := in.(*ssa.Call); isCall {
					locks = append(locks, ci)
				}
			case "(*sync.Mutex).Unlock", "(*sync.RWMutex).Unlock":
				unlocks = append(unlocks, ci)
			}
		}
	}
	for _, l := range locks {
		fa, ok := l.Common().Args[0].(*ssa.FieldAddr)
		if !ok || !prog.InstrDominates(l, at) {
			continue
		}
		key := fieldOwner(fa) + "." + fieldName(fa)
		deferred, early := false, false
		for _, u := range unlocks {
			ufa, ok := u.Common().Args[0].(*ssa.FieldAddr)
			if !ok || fieldOwner(ufa)+"."+fieldName(ufa) != key {
				continue
			}
			if _, isDefer := u.(*ssa.Defer); isDefer {
				if prog.InstrDominates(u, at) {
					deferred = true
				}
			} else if reachesInstr(l, u) && reachesInstr(u, at) {
				early = true // an explicit unlock may run between the lock and the access
			}
		}
		// held: the lock dominates the access and no explicit unlock of the same mutex can run in between
		// (released by a deferred or by a later explicit Unlock: both leave it held here)
		_ = deferred
		if !early {
			held[key] = true
		}
	}
	return held
}

// R3: lock discipline. For every struct type of the module that embeds a
// sync.Mutex / RWMutex field, a sibling field that is accessed at least once
// under that mutex is guarded by it; every other access must also hold the
// mutex, or be in a function that builds the struct (stores to a fresh
// allocation), or be justified (e.g. after the join).
func (c *Ctx) R3(rule string, pkgs ...string) []report.Obligation {
	var out []report.Obligation
	type access struct {
		fn    *ssa.Function
		in    ssa.Instruction
		fa    *ssa.FieldAddr
		held  map[string]bool
		fresh bool
	}
	inPkg := func(f *ssa.Function) bool {
		for g := f; g != nil; g = g.Parent() {
			if g.Pkg != nil {
				for _, p := range pkgs {
					if c.P.Rel(g.Pkg.Pkg) == p {
						return true
					}
				}
				return false
			}
			if g.Origin() != nil && g.Origin().Pkg != nil {
				for _, p := range pkgs {
					if c.P.Rel(g.Origin().Pkg.Pkg) == p {
						return true
					}
				}
				return false
			}
		}
		return false
	}
	accs := map[string][]access{}  // "Type.field" -> accesses
	mutexOf := map[string]string{} // type -> "Type.mu"
	for _, f := range c.P.Funcs {
		if !inPkg(f) {
			continue
		}
		for _, b := range f.Blocks {
			for _, in := range b.Instrs {
				fa, ok := in.(*ssa.FieldAddr)
				if !ok {
					continue
				}
				owner := fieldOwner(fa)
				if owner == "" {
					continue
				}
				st := fa.X.Type().Underlying().(*types.Pointer).Elem().Underlying().(*types.Struct)
				for i := 0; i < st.NumFields(); i++ {
					if isSyncType(st.Field(i).Type()) {
						mutexOf[owner] = owner + "." + st.Field(i).Name()
					}
				}
				if _, has := mutexOf[owner]; !has || isSyncType(st.Field(fa.Field).Type()) {
					continue
				}
				_, fresh := fa.X.(*ssa.Alloc)
				k := owner + "." + fieldName(fa)
				accs[k] = append(accs[k], access{f, in, fa, lockedFields(f, in), fresh})
			}
		}
	}
	var keys []string
	for k := range accs {
		keys = append(keys, k)
	}
	sort.Strings(keys)
	for _, k := range keys {
		owner := strings.SplitN(k, ".", 2)[0]
		mu := mutexOf[owner]
		guarded := false
		for _, a := range accs[k] {
			if a.held[mu] && fieldWritten(a.fa) {
				guarded = true // written inside the critical section: the mutex protects it
			}
		}
		if !guarded {
			out = append(out, report.Obligation{Rule: rule, Key: k + " :: never accessed under " + mu, Status: report.Info,
				Why: "field is not guarded by the mutex (must be immutable after construction: see R-ONLY)"})
			continue
		}
		for _, a := range accs[k] {
			id := c.P.FuncID(a.fn)
			o := report.Obligation{Rule: rule, Key: k + " :: access in " + id, Pos: c.P.InstrPos(a.in)}
			switch {
			case a.held[mu]:
				o.Status, o.Why = report.Discharged, "between `"+mu+".Lock()` and its Unlock"
			case a.fresh:
				o.Status, o.Why = report.Discharged, "store into the freshly allocated struct (constructor, not yet shared)"
			case c.afterJoin(a.in) != "":
				o.Status, o.Why = report.Discharged, "dominated by the call to "+c.afterJoin(a.in)+", which returns only after Wait() (R4): all spawned goroutines have finished"
			default:
				o.Status, o.Why = report.Violation, "field is guarded by "+mu+" elsewhere but accessed here without holding it"
			}
			out = append(out, o)
		}
	}
	if len(keys) == 0 {
		out = append(out, anchorViolation(rule, "a struct with a sync.Mutex field in "+strings.Join(pkgs, ",")))
	}
	return out
}

// fieldWritten: the field address is stored through, or is a map/slice that is updated.
func fieldWritten(fa *ssa.FieldAddr) bool {
	for _, r := range *fa.Referrers() {
		switch x := r.(type) {
		case *ssa.Store:
			if x.Addr == ssa.Value(fa) {
				return true
			}
		case *ssa.UnOp:
			for _, rr := range *x.Referrers() {
				switch y := rr.(type) {
				case *ssa.MapUpdate:
					if y.Map == ssa.Value(x) {
						return true
					}
				case *ssa.IndexAddr:
					for _, r3 := range *y.Referrers() {
						if st, ok := r3.(*ssa.Store); ok && st.Addr == ssa.Value(y) {
							return true
						}
					}
				case ssa.CallInstruction:
					if b, ok := y.Common().Value.(*ssa.Builtin); ok && b.Name() == "delete" {
						return true
					}
				}
			}
		}
	}
	return false
}

// joiner reports whether fn owns an errgroup and every return that follows a spawn is dominated by Wait().
func (c *Ctx) joiner(fn *ssa.Function) bool {
	if v, ok := c.joinCache[fn]; ok {
		return v
	}
	res := false
	waits := waitCalls(fn)
	if len(waits) > 0 {
		res = true
		var points []ssa.Instruction
		for _, sp := range spawnsIn(fn) {
			points = append(points, sp.In)
		}
		for _, b := range fn.Blocks {
			for _, in := range b.Instrs {
				if ci, okc := in.(*ssa.Call); okc && staticName(&ci.Call) != errgroupGo {
					for _, a := range ci.Call.Args {
						if recvTypeName(a.Type()) == "Group" {
							points = append(points, in)
						}
					}
				}
			}
		}
		for _, r := range returnsOf(fn) {
			after, joined := false, false
			for _, pt := range points {
				if reachesInstr(pt, r) {
					after = true
				}
			}
			for _, w := range waits {
				if prog.InstrDominates(w, r) {
					joined = true
				}
			}
			if after && !joined {
				res = false
			}
		}
	}
	c.joinCache[fn] = res
	return res
}

// afterJoin: instruction in is dominated by a call to a joiner; returns the joiner's id.
func (c *Ctx) afterJoin(in ssa.Instruction) string {
	fn := in.Parent()
	for _, b := range fn.Blocks {
		for _, x := range b.Instrs {
			call, ok := x.(*ssa.Call)
			if !ok {
				continue
			}
			cal := call.Call.StaticCallee()
			if cal != nil && c.P.InModule(cal) && c.joiner(cal) && prog.InstrDominates(x, in) {
				return c.P.FuncID(cal)
			}
		}
	}
	return ""
}

// errRet: the value a return yields for the function's last result of type error (wherever it stands).
func errRet(r *ssa.Return) ssa.Value {
	sig := r.Parent().Signature
	for i := sig.Results().Len() - 1; i >= 0; i-- {
		if isErrorType(sig.Results().At(i).Type()) {
			return retValue(r, i)
		}
	}
	return ssa.NewConst(nil, types.Typ[types.UntypedNil])
}

// retValue resolves the value a return yields for result i, looking through the
// result cells go/ssa introduces when the function has defers.
func retValue(r *ssa.Return, i int) ssa.Value {
	if i < 0 || i >= len(r.Results) {
		// the signature changed: nothing at this position (callers treat a constant nil as "no value")
		return ssa.NewConst(nil, types.Typ[types.UntypedNil])
	}
	v := r.Results[i]
	if u, ok := v.(*ssa.UnOp); ok && u.Op == token.MUL {
		if al, ok := u.X.(*ssa.Alloc); ok {
			// the last store to the cell that dominates the return
			var best *ssa.Store
			for _, ref := range *al.Referrers() {
				if st, ok := ref.(*ssa.Store); ok && st.Addr == ssa.Value(al) && prog.InstrDominates(st, r) {
					if best == nil || prog.InstrDominates(best, st) {
						best = st
					}
				}
			}
			if best != nil {
				return best.Val
			}
		}
	}
	return v
}

// sharedLoc identifies memory shared between a spawner and its closures.
type sharedLoc struct {
	Var   ssa.Value // the captured variable (an *ssa.Alloc captured by reference, or a pointer value)
	Field string    // "" for the variable itself, else the field written through the pointer
}

type locAccess struct {
	loc   sharedLoc
	write bool
	in    ssa.Instruction
	fn    *ssa.Function
	held  map[string]bool
}

// closureAccesses lists the accesses a closure performs on captured state:
// loads/stores of by-reference captured variables and field accesses through captured pointers.
func closureAccesses(cl *ssa.Function, mc *ssa.MakeClosure) []locAccess {
	var out []locAccess
	if mc == nil {
		return nil
	}
	bind := map[*ssa.FreeVar]ssa.Value{}
	for i, fv := range cl.FreeVars {
		if i < len(mc.Bindings) {
			bind[fv] = mc.Bindings[i]
		}
	}
	var visit func(f *ssa.Function)
	visit = func(f *ssa.Function) {
		for _, b := range f.Blocks {
			for _, in := range b.Instrs {
				switch x := in.(type) {
				case *ssa.Store:
					if fv, ok := x.Addr.(*ssa.FreeVar); ok && bind[fv] != nil {
						out = append(out, locAccess{sharedLoc{bind[fv], ""}, true, in, f, lockedFields(f, in)})
					}
					if fa, ok := x.Addr.(*ssa.FieldAddr); ok {
						if base := capturedBase(fa.X, bind); base != nil {
							out = append(out, locAccess{sharedLoc{base, fieldName(fa)}, true, in, f, lockedFields(f, in)})
						}
					}
				case *ssa.UnOp:
					if x.Op != token.MUL {
						continue
					}
					if fv, ok := x.X.(*ssa.FreeVar); ok && bind[fv] != nil {
						if _, isAlloc := bind[fv].(*ssa.Alloc); isAlloc {
							out = append(out, locAccess{sharedLoc{bind[fv], ""}, false, in, f, lockedFields(f, in)})
						}
					}
					if fa, ok := x.X.(*ssa.FieldAddr); ok {
						if base := capturedBase(fa.X, bind); base != nil {
							out = append(out, locAccess{sharedLoc{base, fieldName(fa)}, false, in, f, lockedFields(f, in)})
						}
					}
				}
			}
		}
	}
	visit(cl)
	return out
}

// capturedBase: v is (a load of) a captured variable holding a pointer; returns the captured variable.
func capturedBase(v ssa.Value, bind map[*ssa.FreeVar]ssa.Value) ssa.Value {
	switch x := v.(type) {
	case *ssa.FreeVar:
		return bind[x]
	case *ssa.UnOp:
		if x.Op == token.MUL {
			if fv, ok := x.X.(*ssa.FreeVar); ok {
				return bind[fv]
			}
		}
	}
	return nil
}

// spawnerAccesses lists accesses of the spawning function to the same locations.
func spawnerAccesses(fn *ssa.Function, locs map[sharedLoc]bool) []locAccess {
	var out []locAccess
	base := func(v ssa.Value) ssa.Value {
		// the variable a pointer was loaded from, or the pointer value itself
		if u, ok := v.(*ssa.UnOp); ok && u.Op == token.MUL {
			return u.X
		}
		return v
	}
	for _, b := range fn.Blocks {
		for _, in := range b.Instrs {
			switch x := in.(type) {
			case *ssa.Store:
				if locs[sharedLoc{x.Addr, ""}] {
					out = append(out, locAccess{sharedLoc{x.Addr, ""}, true, in, fn, lockedFields(fn, in)})
				}
				if fa, ok := x.Addr.(*ssa.FieldAddr); ok {
					for _, bv := range []ssa.Value{fa.X, base(fa.X)} {
						if l := (sharedLoc{bv, fieldName(fa)}); locs[l] {
							out = append(out, locAccess{l, true, in, fn, lockedFields(fn, in)})
						}
					}
				}
			case *ssa.UnOp:
				if x.Op != token.MUL {
					continue
				}
				if locs[sharedLoc{x.X, ""}] {
					out = append(out, locAccess{sharedLoc{x.X, ""}, false, in, fn, lockedFields(fn, in)})
				}
				if fa, ok := x.X.(*ssa.FieldAddr); ok {
					for _, bv := range []ssa.Value{fa.X, base(fa.X)} {
						if l := (sharedLoc{bv, fieldName(fa)}); locs[l] {
							out = append(out, locAccess{l, false, in, fn, lockedFields(fn, in)})
						}
					}
				}
			}
		}
	}
	return out
}

func (c *Ctx) locName(l sharedLoc) string {
	n := c.P.KeyTerm(l.Var, 2)
	if a, ok := l.Var.(*ssa.Alloc); ok && a.Comment != "" {
		n = "var " + a.Comment
	}
	if l.Field != "" {
		return n + "." + l.Field
	}
	return n
}

func sameLock(a, b map[string]bool) bool {
	for k := range a {
		if b[k] {
			return true
		}
	}
	return false
}

// waitCalls returns the errgroup Wait calls in fn.
func waitCalls(fn *ssa.Function) []ssa.CallInstruction {
	return callSites(fn, func(com *ssa.CallCommon) bool { return staticName(com) == errgroupWait })
}

// FanOut checks R2 (captured state), R4 (join) and R5 (channel capacity) for
// every function of the module that spawns goroutines.
func (c *Ctx) FanOut(rule string, scopePkgs ...string) []report.Obligation {
	var out []report.Obligation
	inScope := func(f *ssa.Function) bool {
		if len(scopePkgs) == 0 {
			return true
		}
		for g := f; g != nil; g = g.Parent() {
			pk := g.Pkg
			if pk == nil && g.Origin() != nil {
				pk = g.Origin().Pkg
			}
			if pk != nil {
				for _, p := range scopePkgs {
					if c.P.Rel(pk.Pkg) == p {
						return true
					}
				}
				return false
			}
		}
		return false
	}
	found := 0
	for _, fn := range c.P.Funcs {
		if !inScope(fn) {
			continue
		}
		sps := spawnsIn(fn)
		if len(sps) == 0 {
			continue
		}
		found++
		id := c.P.FuncID(fn)
		waits := waitCalls(fn)
		// ---- R2
		locs := map[sharedLoc]bool{}
		var all [][]locAccess
		for _, sp := range sps {
			if sp.Closure == nil || sp.MC == nil {
				out = append(out, bad(rule+"-R2", id+" :: spawn of a non-literal function", c.P.InstrPos(sp.In), "cannot see the spawned body: undecided"))
				all = append(all, nil)
				continue
			}
			accs := closureAccesses(sp.Closure, sp.MC)
			all = append(all, accs)
			for _, a := range accs {
				if a.write {
					locs[a.loc] = true
				}
			}
		}
		conflicts := 0
		for i, sp := range sps {
			for _, a := range all[i] {
				if !a.write {
					continue
				}
				// (a) spawner, between spawn and join
				for _, sa := range spawnerAccesses(fn, map[sharedLoc]bool{a.loc: true}) {
					if !reachesInstr(sp.In, sa.in) {
						continue // before the spawn
					}
					joined := false
					for _, w := range waits {
						if prog.InstrDominates(w, sa.in) {
							joined = true
						}
					}
					if joined || sameLock(a.held, sa.held) {
						continue
					}
					conflicts++
					kind := "reads"
					if sa.write {
						kind = "writes"
					}
					out = append(out, report.Obligation{Rule: rule + "-R2", Key: fmt.Sprintf("%s :: %s written by spawned closure, spawner %s it before the join", id, c.locName(a.loc), kind),
						Pos: c.P.InstrPos(sa.in), Status: report.Violation,
						Why: fmt.Sprintf("closure %s writes %s (%s) while the spawning function %s it at %s after the spawn and before Wait; no common mutex; channel ordering is not modelled",
							c.P.FuncID(sp.Closure), c.locName(a.loc), c.P.InstrPos(a.in), kind, c.P.InstrPos(sa.in))})
				}
				// (b) other closures (and other instances of itself when spawned in a loop)
				for j, sp2 := range sps {
					if j == i && !prog.Info(fn).InLoop(sp.In.Block()) {
						continue
					}
					for _, b := range all[j] {
						if b.loc != a.loc || sameLock(a.held, b.held) {
							continue
						}
						if j == i && !b.write {
							continue
						}
						// per-iteration variables: an Alloc inside the loop body is a fresh cell per iteration
						if al, ok := a.loc.Var.(*ssa.Alloc); ok && j == i && a.loc.Field == "" && al.Block() != nil && prog.Info(fn).InLoop(al.Block()) {
							continue
						}
						conflicts++
						out = append(out, report.Obligation{Rule: rule + "-R2", Key: fmt.Sprintf("%s :: %s shared between spawned closures", id, c.locName(a.loc)),
							Pos: c.P.InstrPos(b.in), Status: report.Violation,
							Why: fmt.Sprintf("closure %s writes %s and closure %s accesses it concurrently without a common mutex", c.P.FuncID(sp.Closure), c.locName(a.loc), c.P.FuncID(sp2.Closure))})
					}
				}
			}
		}
		if conflicts == 0 {
			out = append(out, ok(rule+"-R2", id+" :: captured state", c.P.Pos(fn.Pos()),
				fmt.Sprintf("%d spawn site(s), %d captured location(s) written by spawned closures; none is accessed by the spawner between spawn and Wait nor by a sibling closure without a common mutex", len(sps), len(locs))))
		}
		// ---- R4: the owner of the group joins on every path after a spawn
		owns := false
		for _, b := range fn.Blocks {
			for _, in := range b.Instrs {
				if call, okc := in.(*ssa.Call); okc && strings.HasPrefix(staticName(&call.Call), "golang.org/x/sync/errgroup.WithContext") {
					owns = true
				}
				if al, oka := in.(*ssa.Alloc); oka && recvTypeName(al.Type()) == "Group" {
					owns = true
				}
			}
		}
		if owns {
			// spawn points: own spawns and calls that hand the group to another function
			var points []ssa.Instruction
			for _, sp := range sps {
				points = append(points, sp.In)
			}
			for _, b := range fn.Blocks {
				for _, in := range b.Instrs {
					if ci, okc := in.(*ssa.Call); okc && staticName(&ci.Call) != errgroupGo {
						for _, a := range ci.Call.Args {
							if recvTypeName(a.Type()) == "Group" && c.P.InModule(ci.Call.StaticCallee()) {
								points = append(points, in)
							}
						}
					}
				}
			}
			for _, r := range returnsOf(fn) {
				after := false
				for _, pt := range points {
					if reachesInstr(pt, r) {
						after = true
					}
				}
				key := fmt.Sprintf("%s :: return %s", id, c.P.KeyTerm(retLast(r), 3))
				if !after {
					out = append(out, ok(rule+"-R4", key, c.P.InstrPos(r), "return precedes every spawn"))
					continue
				}
				joined, retWait := false, false
				for _, w := range waits {
					if prog.InstrDominates(w, r) {
						joined = true
						if wv, okv := w.(ssa.Value); okv && len(r.Results) > 0 && retValue(r, len(r.Results)-1) == wv {
							retWait = true
						}
					}
				}
				switch {
				case joined && (retWait || len(r.Results) == 0 || !isErrorType(r.Results[len(r.Results)-1].Type())):
					out = append(out, ok(rule+"-R4", key, c.P.InstrPos(r), "dominated by Wait(); the returned error is Wait's result"))
				case joined:
					out = append(out, bad(rule+"-R4", key, c.P.InstrPos(r), "joined, but the returned error is not the result of Wait(): the first error of the spawned functions is lost"))
				default:
					out = append(out, bad(rule+"-R4", key, c.P.InstrPos(r), "a path from a spawn reaches this return without passing Wait(): the function returns while spawned goroutines still run"))
				}
			}
		}
		// ---- R5: channels sent on from spawned closures
		for _, sp := range sps {
			if sp.Closure == nil {
				continue
			}
			// the spawned closure, or the one function it hands over to
			bodies := []*ssa.Function{sp.Closure}
			if d := c.thinDelegate(sp.Closure); d != nil {
				bodies = append(bodies, d)
			}
			for _, body := range bodies {
				for _, b := range body.Blocks {
					for _, in := range b.Instrs {
						snd, oks := in.(*ssa.Send)
						if !oks {
							continue
						}
						key := fmt.Sprintf("%s :: send in %s", id, c.P.FuncID(sp.Closure))
						mk := c.chanOrigin(snd.Chan, 8)
						switch {
						case prog.Info(body).InLoop(b):
							out = append(out, bad(rule+"-R5", key, c.P.InstrPos(in), "send inside a loop: more than one send per spawned closure, the buffer bound does not apply"))
						case mk == nil:
							out = append(out, bad(rule+"-R5", key, c.P.InstrPos(in), "one send per closure execution; the channel's creation is not visible from here (undecided capacity)"))
						default:
							if n, isConst := constInt(mk.Size); isConst {
								if n == 0 {
									out = append(out, bad(rule+"-R5", key, c.P.InstrPos(mk), "unbuffered channel: a spawned closure blocks in its send once the receiver has stopped (error / cancellation), and Wait() never returns"))
								} else {
									out = append(out, bad(rule+"-R5", key, c.P.InstrPos(mk), "constant channel capacity: not related to the number of senders"))
								}
							} else if derivedFromLen(mk.Size, 4) {
								out = append(out, ok(rule+"-R5", key, c.P.InstrPos(mk), "one send per closure execution; capacity is len(...) of the collection the closures are spawned for, so no send can block"))
							} else {
								out = append(out, bad(rule+"-R5", key, c.P.InstrPos(mk), "channel capacity is not derived from len(...)"))
							}
						}
					}
				}
			}
		}
	}
	if found == 0 {
		out = append(out, anchorViolation(rule, "a function that spawns goroutines"))
	}
	c.Stats[rule+".spawning_functions"] = found
	return out
}

func retLast(r *ssa.Return) ssa.Value {
	if len(r.Results) == 0 {
		return nil
	}
	return retValue(r, len(r.Results)-1)
}

// chanOrigin finds the MakeChan behind a channel value used in a spawned closure,
// looking through captured variables and, for channels received as parameters,
// through the module's call sites of the spawning function.
func (c *Ctx) chanOrigin(v ssa.Value, depth int) *ssa.MakeChan {
	if depth == 0 || v == nil {
		return nil
	}
	switch x := v.(type) {
	case *ssa.MakeChan:
		return x
	case *ssa.UnOp:
		if x.Op != token.MUL {
			return nil
		}
		return c.chanOrigin(c.cellValue(x.X), depth-1)
	case *ssa.FreeVar:
		return c.chanOrigin(c.bindingOf(x), depth-1)
	case *ssa.ChangeType:
		return c.chanOrigin(x.X, depth) // chan T handed on as chan<- T / <-chan T
	case *ssa.Parameter:
		fn := x.Parent()
		idx := -1
		for i, pa := range fn.Params {
			if pa == x {
				idx = i
			}
		}
		var found *ssa.MakeChan
		n := 0
		for _, caller := range c.P.Funcs {
			for _, site := range callSites(caller, func(com *ssa.CallCommon) bool { return com.StaticCallee() == fn }) {
				args := site.Common().Args
				if idx < len(args) {
					n++
					mk := c.chanOrigin(args[idx], depth-1)
					if mk == nil {
						return nil
					}
					if found != nil && found != mk {
						return nil
					}
					found = mk
				}
			}
		}
		if n == 0 {
			return nil
		}
		return found
	}
	return nil
}

// cellValue: the value held by a variable cell (an Alloc with a single store, or a captured variable).
func (c *Ctx) cellValue(cell ssa.Value) ssa.Value {
	switch x := cell.(type) {
	case *ssa.Alloc:
		var val ssa.Value
		n := 0
		for _, r := range *x.Referrers() {
			if st, ok := r.(*ssa.Store); ok && st.Addr == ssa.Value(x) {
				val = st.Val
				n++
			}
		}
		if n == 1 {
			return val
		}
	case *ssa.FreeVar:
		return c.cellValue(c.bindingOf(x))
	}
	return nil
}

// bindingOf: what a free variable is bound to at the (unique) closure creation.
func (c *Ctx) bindingOf(fv *ssa.FreeVar) ssa.Value {
	cl := fv.Parent()
	parent := cl.Parent()
	if parent == nil {
		return nil
	}
	idx := -1
	for i, f := range cl.FreeVars {
		if f == fv {
			idx = i
		}
	}
	var res ssa.Value
	for _, b := range parent.Blocks {
		for _, in := range b.Instrs {
			if mc, ok := in.(*ssa.MakeClosure); ok && mc.Fn == ssa.Value(cl) && idx < len(mc.Bindings) {
				res = mc.Bindings[idx]
			}
		}
	}
	return res
}

func derivedFromLen(v ssa.Value, depth int) bool {
	if depth == 0 || v == nil {
		return false
	}
	switch x := v.(type) {
	case *ssa.Call:
		if b, ok := x.Call.Value.(*ssa.Builtin); ok && b.Name() == "len" {
			return true
		}
	case *ssa.UnOp:
		if al, ok := x.X.(*ssa.Alloc); ok {
			// by-reference captured counter: initial store decides
			// every value stored in the cell must be a length (a smaller bound chosen on some path is not one)
			n := 0
			for _, r := range *al.Referrers() {
				if st, ok := r.(*ssa.Store); ok && st.Addr == al {
					n++
					if !derivedFromLen(st.Val, depth-1) {
						return false
					}
				}
			}
			return n > 0
		}
	case *ssa.Phi:
		// on every path: `min(len(x), limit)` written as a branch is not the number of senders
		for _, e := range x.Edges {
			if !derivedFromLen(e, depth-1) {
				return false
			}
		}
		return len(x.Edges) > 0
	case *ssa.Convert:
		return derivedFromLen(x.X, depth-1)
	}
	return false
}

// ---------------------------------------------------------------------------
// PAIR: what is taken is given back on every path. Tokens are (a) a mutex
// (Lock / RLock ... Unlock / RUnlock, explicit or deferred), (b) a slot of a
// semaphore channel (`ch <- struct{}{}` ... `<-ch` on a chan struct{} field),
// (c) a call of a helper of the same package that only takes, resp. only gives
// back, such a token. In every function that both takes and gives back a
// token, every path from the take to an exit of the function passes through a
// give-back (or through the defer statement that registers one).
// ---------------------------------------------------------------------------

type tokenOp struct {
	key     string
	acquire bool
	in      ssa.Instruction
}

func tokenKeyOf(v ssa.Value) string {
	switch x := v.(type) {
	case *ssa.FieldAddr:
		return fieldOwner(x) + "." + fieldName(x)
	case *ssa.UnOp:
		if fa, ok := x.X.(*ssa.FieldAddr); ok {
			return fieldOwner(fa) + "." + fieldName(fa)
		}
		if g, ok := x.X.(*ssa.Global); ok {
			return g.Name()
		}
	case *ssa.Global:
		return x.Name()
	}
	return ""
}

func isEmptyStructChan(t types.Type) bool {
	ch, ok := t.Underlying().(*types.Chan)
	if !ok {
		return false
	}
	st, ok := ch.Elem().Underlying().(*types.Struct)
	return ok && st.NumFields() == 0
}

// directTokenOps lists the take / give-back operations written in fn itself.
func directTokenOps(fn *ssa.Function) []tokenOp {
	var ops []tokenOp
	for _, b := range fn.Blocks {
		for _, in := range b.Instrs {
			switch x := in.(type) {
			case ssa.CallInstruction:
				n := staticName(x.Common())
				switch n {
				case "(*sync.Mutex).Lock", "(*sync.RWMutex).Lock", "(*sync.RWMutex).RLock":
					if k := tokenKeyOf(x.Common().Args[0]); k != "" {
						if _, isCall := in.(*ssa.Call); isCall {
							ops = append(ops, tokenOp{k, true, in})
						}
					}
				case "(*sync.Mutex).Unlock", "(*sync.RWMutex).Unlock", "(*sync.RWMutex).RUnlock":
					if k := tokenKeyOf(x.Common().Args[0]); k != "" {
						ops = append(ops, tokenOp{k, false, in})
					}
				}
			case *ssa.Send:
				if isEmptyStructChan(x.Chan.Type()) {
					if k := tokenKeyOf(x.Chan); k != "" {
						ops = append(ops, tokenOp{k, true, in})
					}
				}
			case *ssa.UnOp:
				if x.Op == token.ARROW && isEmptyStructChan(x.X.Type()) {
					if k := tokenKeyOf(x.X); k != "" {
						ops = append(ops, tokenOp{k, false, in})
					}
				}
			}
		}
	}
	return ops
}

func (c *Ctx) PAIR(rule string, pkgs ...string) []report.Obligation {
	var out []report.Obligation
	inPkgs := func(f *ssa.Function) bool {
		id := c.P.FuncID(f)
		for _, p := range pkgs {
			if strings.HasPrefix(id, p+".") {
				return true
			}
		}
		return false
	}
	// helper summaries: only takes / only gives back
	type summ struct {
		key     string
		acquire bool
	}
	helper := map[*ssa.Function]summ{}
	for _, f := range c.P.Funcs {
		if !inPkgs(f) {
			continue
		}
		ops := directTokenOps(f)
		if len(ops) == 0 {
			continue
		}
		acq, rel := map[string]bool{}, map[string]bool{}
		for _, o := range ops {
			if o.acquire {
				acq[o.key] = true
			} else {
				rel[o.key] = true
			}
		}
		for k := range acq {
			if !rel[k] && len(acq) == 1 {
				helper[f] = summ{k, true}
			}
		}
		for k := range rel {
			if !acq[k] && len(rel) == 1 && len(acq) == 0 {
				helper[f] = summ{k, false}
			}
		}
	}
	n := 0
	for _, f := range c.P.Funcs {
		if !inPkgs(f) {
			continue
		}
		ops := directTokenOps(f)
		for _, b := range f.Blocks {
			for _, in := range b.Instrs {
				if ci, ok := in.(ssa.CallInstruction); ok {
					if cal := ci.Common().StaticCallee(); cal != nil {
						if o := cal.Origin(); o != nil {
							cal = o
						}
						for hf, s := range helper {
							hfo := hf
							if o := hf.Origin(); o != nil {
								hfo = o
							}
							if hfo == cal || hf == ci.Common().StaticCallee() {
								ops = append(ops, tokenOp{s.key, s.acquire, in})
								break
							}
						}
					}
				}
			}
		}
		relAt := map[ssa.Instruction]string{}
		hasRel := map[string]bool{}
		for _, o := range ops {
			if !o.acquire {
				relAt[o.in] = o.key
				hasRel[o.key] = true
			}
		}
		for _, o := range ops {
			if !o.acquire || !hasRel[o.key] {
				continue // a helper that only takes: checked at its callers
			}
			n++
			// every path from the take to an exit passes a give-back of the same token
			leak := ""
			seen := map[*ssa.BasicBlock]bool{}
			var walk func(b *ssa.BasicBlock, from int)
			walk = func(b *ssa.BasicBlock, from int) {
				if leak != "" {
					return
				}
				for i := from; i < len(b.Instrs); i++ {
					if relAt[b.Instrs[i]] == o.key {
						return
					}
					switch b.Instrs[i].(type) {
					case *ssa.Return, *ssa.Panic:
						leak = c.P.InstrPos(b.Instrs[i])
						if leak == "" {
							leak = "an exit of " + c.P.FuncID(f)
						}
						return
					}
				}
				for _, s := range b.Succs {
					if !seen[s] {
						seen[s] = true
						walk(s, 0)
					}
				}
			}
			walk(o.in.Block(), prog.InstrIndex(o.in)+1)
			key := c.P.FuncID(f) + " :: " + o.key + " taken, given back on every path"
			out = append(out, verdict(leak == "", rule, key, c.P.InstrPos(o.in), "every path from the take to an exit passes through a give-back (explicit or deferred)",
				"a path from the take reaches "+leak+" without giving "+o.key+" back: the next taker blocks forever"))
		}
	}
	if n == 0 {
		out = append(out, bad(rule, "tokens", "", "no function takes and gives back a mutex or a semaphore slot: the rule sees nothing"))
	}
	return out
}

// FanLimit (C13, C19): a limit set on an errgroup counts every function started on it, also the one that only
// waits for the others (a coordinator / collector: a closure that receives from a channel). Wherever the module
// calls SetLimit on a group on which the same function starts such a closure,
//   - the limit has the form n + k with k at least the number of those closures (with a bare n the collector takes
//     one of the n slots: at n = 1 no worker can ever start, and the caller blocks forever in Go);
//   - the closure is started on every path that reaches Wait (a fast path that skips it leaves the slot reserved
//     for it to a worker: n + 1 of them run at once).
func (c *Ctx) FanLimit(rule string) []report.Obligation {
	var out []report.Obligation
	n := 0
	receives := func(f *ssa.Function) bool {
		if f == nil {
			return false
		}
		for _, b := range f.Blocks {
			for _, in := range b.Instrs {
				switch x := in.(type) {
				case *ssa.UnOp:
					if x.Op == token.ARROW {
						return true
					}
				case *ssa.Select:
					for _, st := range x.States {
						if st.Dir == types.RecvOnly {
							return true
						}
					}
				}
			}
		}
		return false
	}
	for _, fn := range c.P.Funcs {
		sls := callSites(fn, func(com *ssa.CallCommon) bool { return staticName(com) == errgroupSetLimit })
		if len(sls) == 0 {
			continue
		}
		for _, sl := range sls {
			group := sl.Common().Args[0]
			var consumers []spawn
			for _, sp := range spawnsIn(fn) {
				if sameCell(sp.Group, group) && receives(sp.Closure) {
					consumers = append(consumers, sp)
				}
			}
			if len(consumers) == 0 {
				continue
			}
			n++
			arg := sl.Common().Args[1]
			extra := int64(0)
			if bo, ok := arg.(*ssa.BinOp); ok && bo.Op == token.ADD {
				if k, isC := constInt(bo.Y); isC {
					extra = k
				} else if k, isC := constInt(bo.X); isC {
					extra = k
				}
			}
			out = append(out, verdict(extra >= int64(len(consumers)), rule, c.P.FuncID(fn)+" :: the limit counts the closures that only wait", c.P.InstrPos(sl),
				fmt.Sprintf("SetLimit(%s): %d slot(s) added for %d waiting closure(s) started on the same group", c.P.KeyTerm(arg, 3), extra, len(consumers)),
				fmt.Sprintf("SetLimit(%s) adds %d slot(s) but %d closure(s) that only wait for the others are started on the same group: they occupy slots meant for workers (with a limit of 1 nothing can start and the caller blocks in Go forever)", c.P.KeyTerm(arg, 3), extra, len(consumers))))
			for _, w := range callSites(fn, func(com *ssa.CallCommon) bool {
				return staticName(com) == errgroupWait && len(com.Args) > 0 && sameCell(com.Args[0], group)
			}) {
				for _, sp := range consumers {
					out = append(out, verdict(prog.InstrDominates(sp.In, w), rule, c.P.FuncID(fn)+" :: the waiting closure is started before every Wait", c.P.InstrPos(w),
						"the closure the extra slot is reserved for is started on every path to this Wait", "a path reaches Wait without having started the closure the extra slot of the limit is reserved for: workers use that slot too, one more than the configured maximum run at once"))
				}
			}
		}
	}
	out = append(out, report.Obligation{Rule: rule, Key: "inventory", Status: report.Discharged, Why: fmt.Sprintf("%d limited errgroups with a waiting closure", n)})
	return out
}

// FanSlot (C13, C19): the slot the limit adds for the waiting closure is only taken while that closure runs. A
// return it takes because the context was cancelled (a select arm receiving from ctx.Done()) happens while the
// function that set the limit may still be starting workers: from then on n + 1 of them fit. Such a return is
// therefore preceded by a receive from a channel which that function closes after the last point where it can
// start a worker (directly or through a callee that does).
func (c *Ctx) FanSlot(rule string) []report.Obligation {
	var out []report.Obligation
	n := 0
	var spawnsDeep func(f *ssa.Function, depth int) bool
	spawnsDeep = func(f *ssa.Function, depth int) bool {
		if f == nil || f.Blocks == nil || depth > 2 {
			return false
		}
		if len(spawnsIn(f)) > 0 {
			return true
		}
		for _, cs := range callSites(f, func(com *ssa.CallCommon) bool { return true }) {
			if cal := cs.Common().StaticCallee(); cal != nil && c.P.InModule(cal) && spawnsDeep(cal, depth+1) {
				return true
			}
		}
		return false
	}
	for _, fn := range c.P.Funcs {
		sls := callSites(fn, func(com *ssa.CallCommon) bool { return staticName(com) == errgroupSetLimit })
		if len(sls) == 0 {
			continue
		}
		group := sls[0].Common().Args[0]
		for _, sp := range spawnsIn(fn) {
			if !sameCell(sp.Group, group) || sp.Closure == nil || sp.MC == nil {
				continue
			}
			cl := sp.Closure
			// the cancellation arms of the closure's selects
			for _, b := range cl.Blocks {
				for _, in := range b.Instrs {
					sel, ok := in.(*ssa.Select)
					if !ok {
						continue
					}
					for si, st := range sel.States {
						call, isCall := st.Chan.(*ssa.Call)
						if st.Dir != types.RecvOnly || !isCall || !call.Call.IsInvoke() || call.Call.Method.Name() != "Done" {
							continue
						}
						// returns reached only through this arm
						for _, rb := range cl.Blocks {
							ret, isRet := rb.Instrs[len(rb.Instrs)-1].(*ssa.Return)
							if !isRet {
								continue
							}
							inArm := factHolds(rb, func(cond ssa.Value, val bool) bool {
								bo, ok := cond.(*ssa.BinOp)
								if !ok || bo.Op != token.EQL || !val {
									return false
								}
								ex, ok := bo.X.(*ssa.Extract)
								k, isK := constInt(bo.Y)
								return ok && ex.Tuple == ssa.Value(sel) && ex.Index == 0 && isK && int(k) == si
							})
							if !inArm {
								continue
							}
							n++
							key := c.P.FuncID(cl) + " :: the waiting closure keeps its slot on cancellation until " + c.P.FuncID(fn) + " has stopped starting workers"
							// a receive, before the return, from a channel of the starter
							var gate ssa.Value
							for _, b2 := range cl.Blocks {
								for _, in2 := range b2.Instrs {
									rcv, ok := in2.(*ssa.UnOp)
									if !ok || rcv.Op != token.ARROW || !prog.InstrDominates(rcv, ret) {
										continue
									}
									ch := rcv.X
									if ld, isLd := ch.(*ssa.UnOp); isLd && ld.Op == token.MUL {
										ch = ld.X
									}
									if fv, isFV := ch.(*ssa.FreeVar); isFV {
										for i, f2 := range cl.FreeVars {
											if f2 == fv && i < len(sp.MC.Bindings) {
												gate = sp.MC.Bindings[i]
											}
										}
									}
								}
							}
							if gate == nil {
								out = append(out, bad(rule, key, c.P.InstrPos(ret), "the closure returns as soon as the context is cancelled: the slot the limit reserves for it becomes a worker slot while "+c.P.FuncID(fn)+" may still be starting workers, so one more than the configured maximum can run at once"))
								continue
							}
							// the starter closes that channel, and cannot start a worker afterwards
							okClose, why := false, "the starter never closes the channel the closure waits for"
							for _, cs := range callSites(fn, func(com *ssa.CallCommon) bool {
								bi, isB := com.Value.(*ssa.Builtin)
								return isB && bi.Name() == "close"
							}) {
								arg := cs.Common().Args[0]
								if ld, isLd := arg.(*ssa.UnOp); isLd && ld.Op == token.MUL {
									arg = ld.X
								}
								if arg != gate {
									continue
								}
								if _, isDefer := cs.(*ssa.Defer); isDefer {
									why = "the channel is closed by a deferred call, which runs after Wait"
									continue
								}
								okClose, why = true, ""
								fi := prog.Info(fn)
								for _, cs2 := range callSites(fn, func(com *ssa.CallCommon) bool { return true }) {
									starts := false
									if staticName(cs2.Common()) == errgroupGo {
										starts = true
									} else if cal := cs2.Common().StaticCallee(); cal != nil && c.P.InModule(cal) && spawnsDeep(cal, 0) {
										starts = true
									}
									if !starts {
										continue
									}
									after := (cs2.Block() == cs.Block() && prog.InstrIndex(cs2) > prog.InstrIndex(cs)) || (cs2.Block() != cs.Block() && fi.Reaches(cs.Block(), cs2.Block()))
									if after {
										okClose, why = false, "a worker can still be started after the channel is closed ("+c.P.InstrPos(cs2)+")"
									}
								}
							}
							out = append(out, verdict(okClose, rule, key, c.P.InstrPos(ret), "returns on cancellation only after a receive from a channel that the starter closes after its last start", why))
						}
					}
				}
			}
		}
	}
	out = append(out, report.Obligation{Rule: rule, Key: "inventory", Status: report.Discharged, Why: fmt.Sprintf("%d cancellation returns of waiting closures on limited errgroups", n)})
	return out
}

// sameCell: the same SSA value, or two loads of the same local variable (a variable captured by a closure lives in
// a cell and every use loads it).
func sameCell(a, b ssa.Value) bool {
	if a == b {
		return a != nil
	}
	la, ok1 := a.(*ssa.UnOp)
	lb, ok2 := b.(*ssa.UnOp)
	if ok1 && ok2 && la.Op == token.MUL && lb.Op == token.MUL {
		if al, isA := la.X.(*ssa.Alloc); isA && la.X == lb.X {
			n := 0
			for _, r := range *al.Referrers() {
				if st, isSt := r.(*ssa.Store); isSt && st.Addr == ssa.Value(al) {
					n++
				}
			}
			return n == 1
		}
	}
	return false
}

// thinDelegate: the closure only hands over to one module function (a single call in a single block).
func (c *Ctx) thinDelegate(cl *ssa.Function) *ssa.Function {
	if cl == nil || len(cl.Blocks) != 1 {
		return nil
	}
	var only *ssa.Function
	n := 0
	for _, in := range cl.Blocks[0].Instrs {
		if call, ok := in.(*ssa.Call); ok {
			n++
			if cal := call.Call.StaticCallee(); cal != nil && c.P.InModule(cal) && cal.Blocks != nil {
				only = cal
			}
		}
	}
	if n == 1 {
		return only
	}
	return nil
}
