package rules

import (
	"go/token"
	"go/types"
	"strings"

	"golang.org/x/tools/go/ssa"
	"verifcheck/internal/prog"
	"verifcheck/internal/report"
)

// stripAssert removes assertions / extracts of assertions / conversions.
func stripAssert(v ssa.Value) ssa.Value {
	for i := 0; i < 6; i++ {
		switch x := v.(type) {
		case *ssa.TypeAssert:
			v = x.X
		case *ssa.ChangeType:
			v = x.X
		case *ssa.MakeInterface:
			v = x.X
		case *ssa.Extract:
			if ta, ok := x.Tuple.(*ssa.TypeAssert); ok {
				v = ta.X
				continue
			}
			return v
		default:
			return v
		}
	}
	return v
}

// fieldStores: constant boolean stores `x.f = b` on the struct value v points to, that dominate instruction at.
func (c *Ctx) boolFieldStores(fn *ssa.Function, obj ssa.Value, at ssa.Instruction) map[string]bool {
	res := map[string]bool{}
	// the object is built by a helper: start from what the helper stores into the value it returns
	if call, ok := obj.(*ssa.Call); ok {
		if g := call.Call.StaticCallee(); g != nil && c.P.InModule(g) && g != fn && g.Blocks != nil {
			first := true
			for _, r := range returnsOf(g) {
				rv := retValue(r, 0)
				sub := c.boolFieldStores(g, rv, r)
				if first {
					for k, v := range sub {
						res[k] = v
					}
					first = false
					continue
				}
				for k, v := range res {
					if sv, ok := sub[k]; !ok || sv != v {
						delete(res, k)
					}
				}
			}
		}
	}
	for _, b := range fn.Blocks {
		for _, in := range b.Instrs {
			st, ok := in.(*ssa.Store)
			if !ok {
				continue
			}
			fa, ok := st.Addr.(*ssa.FieldAddr)
			if !ok || fa.X != obj {
				continue
			}
			if bv, isC := constBool(st.Val); isC && prog.InstrDominates(in, at) {
				res[fieldName(fa)] = bv
			}
		}
	}
	return res
}

// EXT: structure of extends resolution (C05).
func (c *Ctx) EXT(rule string) []report.Obligation {
	var out []report.Obligation
	// the function that calls override.ExtendService
	var host *ssa.Function
	var ext ssa.CallInstruction
	for _, f := range c.P.Funcs {
		if cs := c.callsTo(f, "override.ExtendService"); len(cs) > 0 && strings.HasPrefix(c.P.FuncID(f), "loader.") {
			host, ext = f, cs[0]
		}
	}
	if host == nil {
		return []report.Obligation{anchorViolation(rule, "the loader function that calls override.ExtendService")}
	}
	hid := c.P.FuncID(host)
	// EXT-1: the base handed to ExtendService is a fresh clone
	// which argument ExtendService merges into: the map parameter it writes through (ownership analysis)
	baseIdx := 0
	if es := ext.Common().StaticCallee(); es != nil {
		for i, pa := range es.Params {
			if _, isMap := pa.Type().Underlying().(*types.Map); !isMap {
				continue
			}
			sum := c.imm().summary(es, i)
			c.imm().solve()
			if sum.Writes {
				baseIdx = i
				break
			}
		}
	}
	base := stripAssert(ext.Common().Args[baseIdx])
	call, isCall := base.(*ssa.Call)
	fresh := false
	why := "the merged-into argument of ExtendService is " + c.P.KeyTerm(base, 3)
	if isCall {
		if cal := call.Call.StaticCallee(); cal != nil && c.P.InModule(cal) {
			r := c.imm().analyse(cal, 0, true)
			c.imm().solve()
			r = c.imm().analyse(cal, 0, true)
			onlyScalars := len(r.RetOwned) == 0
			if onlyScalars && len(r.Events) == 0 {
				fresh = true
				why = "the first argument is the result of " + c.P.FuncID(cal) + ", whose result shares no map or slice with its argument (ownership analysis) and which does not write through it"
			} else {
				why = c.P.FuncID(cal) + " returns a value that aliases its argument"
			}
		}
	}
	out = append(out, verdict(fresh, rule+"-1", hid+" :: base is deep-cloned before the merge", c.P.InstrPos(ext), why,
		"ExtendService merges into its first argument; "+why+": the base service is modified in place, so a second service extending the same base (or a different visit order) sees a polluted base"))
	// EXT-2: returns of the merged service are dominated by delete(merged,"extends") and the memoising store.
	// The function that calls ExtendService may be a step of the resolution: then its only caller in the package
	// receives the merged service from it, and may be the one that deletes / memoises.
	var outer *ssa.Function
	var outerCall *ssa.Call
	nCallers := 0
	for _, f := range c.P.Funcs {
		if f == host || !strings.HasPrefix(c.P.FuncID(f), "loader.") {
			continue
		}
		for _, cs := range callSites(f, func(com *ssa.CallCommon) bool { return com.StaticCallee() == host }) {
			if cl, ok := cs.(*ssa.Call); ok {
				nCallers++
				outer, outerCall = f, cl
			}
		}
	}
	if nCallers != 1 || c.P.FuncID(outer) == "loader.ApplyExtends" {
		outer, outerCall = nil, nil
	}
	firstResult := func(v ssa.Value) ssa.Value {
		for _, r := range *v.Referrers() {
			if ex, ok := r.(*ssa.Extract); ok && ex.Index == 0 {
				return ex
			}
		}
		return nil
	}
	merged := ssa.Value(nil)
	if v, ok := ext.(ssa.Value); ok {
		merged = firstResult(v)
	}
	check2 := func(f *ssa.Function, merged ssa.Value) (okDel, okMemo bool, nret int) {
		if merged == nil {
			return false, false, 0
		}
		var del, memo ssa.Instruction
		for _, b := range f.Blocks {
			for _, in := range b.Instrs {
				if ci, ok := in.(ssa.CallInstruction); ok {
					if bi, ok := ci.Common().Value.(*ssa.Builtin); ok && bi.Name() == "delete" && ci.Common().Args[0] == merged {
						if k, _ := prog.ConstString(ci.Common().Args[1]); k == "extends" {
							del = in
						}
					}
				}
				if mu, ok := in.(*ssa.MapUpdate); ok && stripAssert(mu.Value) == merged {
					memo = in
				}
			}
		}
		okDel, okMemo = del != nil, memo != nil
		for _, r := range returnsOf(f) {
			if len(r.Results) > 0 && stripAssert(retValue(r, 0)) == merged {
				nret++
				if del == nil || !prog.InstrDominates(del, r) {
					okDel = false
				}
				if memo == nil || !prog.InstrDominates(memo, r) {
					okMemo = false
				}
			}
		}
		return okDel, okMemo, nret
	}
	okDel, okMemo, nret := check2(host, merged)
	if outer != nil {
		d2, m2, n2 := check2(outer, firstResult(outerCall))
		if n2 > 0 && nret > 0 {
			okDel, okMemo = okDel || d2, okMemo || m2
		}
	}
	out = append(out, verdict(okDel && nret > 0, rule+"-2", hid+" :: extends attribute removed from the result", c.P.Pos(host.Pos()),
		"every return of the merged service is dominated by delete(merged, \"extends\")", "the merged service is returned with its `extends` attribute (it would be resolved again / rendered)"))
	out = append(out, verdict(okMemo && nret > 0, rule+"-2", hid+" :: resolved service memoised", c.P.Pos(host.Pos()),
		"every return of the merged service is dominated by services[name] = merged", "the resolved service is not stored back: another service extending it resolves it again from the raw definition"))
	// EXT-4: base lookups have an error return on the absent edge
	for _, fid := range []string{hid, "loader.getExtendsBaseFromFile"} {
		f := c.P.Func(fid)
		if f == nil {
			out = append(out, anchorViolation(rule+"-4", fid))
			continue
		}
		if fid == hid && outer != nil {
			// the lookups of the base are where the resolution starts: in the caller, when the merge is a step of it
			hasLookup := false
			for _, b := range f.Blocks {
				for _, in := range b.Instrs {
					if lk, ok := in.(*ssa.Lookup); ok && lk.CommaOk {
						if _, isConst := prog.ConstString(lk.Index); !isConst {
							hasLookup = true
						}
					}
				}
			}
			if !hasLookup {
				f = outer
			}
		}
		n := 0
		for _, b := range f.Blocks {
			for _, in := range b.Instrs {
				lk, ok := in.(*ssa.Lookup)
				if !ok || !lk.CommaOk {
					continue
				}
				ks, isConst := prog.ConstString(lk.Index)
				if isConst && ks != "services" {
					continue // lookups of attributes of one service (extends, file, ...)
				}
				if !isConst {
					// service lookups by reference name only
					if _, isMap := lk.X.Type().Underlying().(interface{ Key() interface{} }); isMap {
						_ = isMap
					}
				}
				// find the If on ok
				for _, r := range *lk.Referrers() {
					ex, ok := r.(*ssa.Extract)
					if !ok || ex.Index != 1 {
						continue
					}
					for _, rr := range *ex.Referrers() {
						iff, ok := rr.(*ssa.If)
						if !ok {
							continue
						}
						absent := iff.Block().Succs[1]
						n++
						errRet := false
						for _, ret := range returnsOf(f) {
							if (absent == ret.Block() || absent.Dominates(ret.Block())) && len(ret.Results) > 0 {
								if c.dyn.definitelyNonNil(retValue(ret, len(ret.Results)-1), ret.Block(), 2) {
									errRet = true
								}
							}
						}
						key := fid + " :: missing base " + c.P.KeyTerm(lk, 2)
						out = append(out, verdict(errRet, rule+"-4", key, c.P.InstrPos(lk),
							"the absent edge of the lookup returns an error", "the absent edge of the base lookup does not return an error: a missing base is silently ignored"))
					}
				}
			}
		}
		if n == 0 {
			out = append(out, bad(rule+"-4", fid+" :: base lookups", c.P.Pos(f.Pos()), "no comma-ok lookup of the base found"))
		}
	}
	// EXT-5: the other file is loaded without path resolution and resolved once against its own directory
	if f := c.P.Func("loader.getExtendsBaseFromFile"); f != nil {
		lf := c.callsTo(f, "loader.loadYamlFile")
		rp := c.callsTo(f, "paths.ResolveRelativePaths")
		if len(lf) != 1 || len(rp) != 1 {
			out = append(out, bad(rule+"-5", "getExtendsBaseFromFile :: loads then resolves", c.P.Pos(f.Pos()), "expected one loadYamlFile and one ResolveRelativePaths call"))
		} else {
			opts := lf[0].Common().Args[2]
			st := c.boolFieldStores(f, opts, lf[0])
			v, has := st["ResolvePaths"]
			out = append(out, verdict(has && !v, rule+"-5", "getExtendsBaseFromFile :: nested load does not resolve paths", c.P.InstrPos(lf[0]),
				"the options handed to loadYamlFile have ResolvePaths=false (paths are resolved exactly once, below)",
				"the nested load resolves paths itself (against the wrong base) and they are resolved a second time afterwards"))
			// base directory of the resolution derives from loader.Dir(refPath)
			baseArg := rp[0].Common().Args[1]
			fromDir := false
			if ci, ok := baseArg.(*ssa.Call); ok && ci.Call.IsInvoke() && ci.Call.Method.Name() == "Dir" {
				// the argument of Dir is the path that was handed to the resource loader's Load (the extended file)
				if len(ci.Call.Args) == 1 {
					for _, lc := range callSites(f, func(com *ssa.CallCommon) bool { return com.IsInvoke() && com.Method.Name() == "Load" }) {
						la := lc.Common().Args
						if len(la) >= 2 && (la[1] == ci.Call.Args[0] || sameFieldLoad(la[1], ci.Call.Args[0])) {
							fromDir = true
						}
					}
				}
			}
			out = append(out, verdict(fromDir, rule+"-5", "getExtendsBaseFromFile :: paths resolved against the extended file's directory", c.P.InstrPos(rp[0]),
				"ResolveRelativePaths receives loader.Dir(refPath)", "the base directory of the inherited paths is "+c.P.KeyTerm(baseArg, 3)+", not the directory of the extended file"))
			// on every success path
			okAll := true
			for _, ret := range returnsOf(f) {
				if isNilOrConst(errRet(ret)) && !isNilOrConst(retValue(ret, 0)) && !prog.InstrDominates(rp[0], ret) {
					okAll = false
				}
			}
			out = append(out, verdict(okAll, rule+"-5", "getExtendsBaseFromFile :: resolution on every success path", c.P.InstrPos(rp[0]),
				"every successful return is dominated by the ResolveRelativePaths call", "a successful return skips path resolution"))
		}
	} else {
		out = append(out, anchorViolation(rule+"-5", "loader.getExtendsBaseFromFile"))
	}
	// EXT-6: ApplyExtends visits all services and stores each result
	if f := c.P.Func("loader.ApplyExtends"); f != nil {
		good := false
		for _, l := range findMapLoops(f) {
			for b := range l.region {
				for _, in := range b.Instrs {
					if mu, ok := in.(*ssa.MapUpdate); ok && l.sameMap(mu.Map) && l.isIterKey(mu.Key) {
						if ex, ok := mu.Value.(*ssa.Extract); ok {
							if cl, ok := ex.Tuple.(*ssa.Call); ok && (cl.Call.StaticCallee() == host || (outer != nil && cl.Call.StaticCallee() == outer)) {
								good = true
							}
						}
					}
				}
			}
		}
		out = append(out, verdict(good, rule+"-6", "ApplyExtends :: every service resolved and stored", c.P.Pos(f.Pos()),
			"a range over the services map stores "+hid+"(...) under the iteration key", "ApplyExtends does not store the resolved definition of every service"))
	} else {
		out = append(out, anchorViolation(rule+"-6", "loader.ApplyExtends"))
	}
	// EXT-8: the post-processors (!reset / !override tags) of every file of the chain apply to the base, the
	// extending file's own included: the list ranged over to post-process the cloned base, and the one handed to the
	// recursive resolution, is the list received plus additions (append) - never a list started afresh.
	if f := c.P.Func("loader.applyServiceExtends"); f != nil {
		var postParam *ssa.Parameter
		for _, pa := range f.Params {
			if sl, ok := pa.Type().Underlying().(*types.Slice); ok {
				if nt, isN := sl.Elem().(*types.Named); isN && strings.Contains(nt.Obj().Name(), "PostProcessor") {
					postParam = pa
				}
			}
		}
		if postParam == nil {
			out = append(out, bad(rule+"-8", "applyServiceExtends :: post-processors accumulate", c.P.Pos(f.Pos()), "cannot find the post-processor list parameter"))
		} else {
			var fromParam func(v ssa.Value, d int, seen map[ssa.Value]bool) bool
			fromParam = func(v ssa.Value, d int, seen map[ssa.Value]bool) bool {
				if v == ssa.Value(postParam) {
					return true
				}
				if d == 0 || seen[v] {
					return seen[v]
				}
				seen[v] = true
				switch x := v.(type) {
				case *ssa.Phi:
					for _, e := range x.Edges {
						if !fromParam(e, d-1, seen) {
							return false
						}
					}
					return true
				case *ssa.Call:
					if bi, ok := x.Call.Value.(*ssa.Builtin); ok && bi.Name() == "append" {
						return fromParam(x.Call.Args[0], d-1, seen)
					}
				case *ssa.Slice:
					return fromParam(x.X, d-1, seen)
				}
				return false
			}
			good, n := true, 0
			where := c.P.Pos(f.Pos())
			check := func(v ssa.Value, pos string) {
				n++
				if !fromParam(v, 8, map[ssa.Value]bool{}) {
					good, where = false, pos
				}
			}
			// the list handed to the recursive call
			for _, rc := range c.recursiveCalls(f) {
				for i, a := range rc.Common().Args {
					if i < len(f.Params) && f.Params[i] == postParam {
						check(a, c.P.InstrPos(rc))
					}
				}
			}
			// the list ranged over where Apply is invoked
			for _, b := range f.Blocks {
				for _, in := range b.Instrs {
					call, ok := in.(*ssa.Call)
					if !ok || !call.Call.IsInvoke() || call.Call.Method.Name() != "Apply" {
						continue
					}
					if ld, isLd := call.Call.Value.(*ssa.UnOp); isLd {
						if ia, isIA := ld.X.(*ssa.IndexAddr); isIA {
							check(ia.X, c.P.InstrPos(call))
						}
					}
				}
			}
			// ... or handed to a helper of the package that applies it
			for _, cs := range callSites(f, func(com *ssa.CallCommon) bool {
				cal := com.StaticCallee()
				return cal != nil && cal != f && c.P.InModule(cal) && strings.HasPrefix(c.P.FuncID(cal), "loader.")
			}) {
				for _, a := range cs.Common().Args {
					if types.Identical(a.Type(), postParam.Type()) {
						check(a, c.P.InstrPos(cs))
					}
				}
			}
			out = append(out, verdict(good && n >= 2, rule+"-8", "applyServiceExtends :: post-processors accumulate", where,
				"the list applied to the base and the list handed down are the received list, extended with append", "the list of post-processors is started afresh on some path: the !reset / !override tags of the extending file (or of the files before it in the chain) are no longer applied to the base it inherits"))
		}
	}
	// EXT-7: an `extends` that names a file is resolved by loading that file. Whether the loading function is
	// reached depends only on what the document says (presence tests, type tests, nil tests) and on errors - not
	// on a predicate computed from paths or options ("it is the current file anyway"): such a shortcut resolves
	// the base among the services of another document than the one `file` designates.
	for _, fn := range c.P.Funcs {
		if !strings.HasPrefix(c.P.FuncID(fn), "loader.") {
			continue
		}
		for _, cs := range c.callsTo(fn, "loader.getExtendsBaseFromFile") {
			var conds []ssa.Value
			seenB := map[*ssa.BasicBlock]bool{}
			addDeps := func(b *ssa.BasicBlock) {
				if seenB[b] {
					return
				}
				seenB[b] = true
				for _, d := range prog.Info(fn).TransitiveControlDeps(b) {
					if iff, ok := d.Branch.Instrs[len(d.Branch.Instrs)-1].(*ssa.If); ok {
						conds = append(conds, iff.Cond)
					}
				}
			}
			addDeps(cs.Block())
			// one level through the variables the conditions test: where their values were chosen
			for i := 0; i < len(conds) && i < 64; i++ {
				var ops []ssa.Value
				if bo, ok := conds[i].(*ssa.BinOp); ok {
					ops = []ssa.Value{bo.X, bo.Y}
				}
				for _, op := range ops {
					if phi, ok := op.(*ssa.Phi); ok {
						for j := range phi.Edges {
							addDeps(phi.Block().Preds[j])
						}
					}
				}
			}
			offending := ""
			for _, cnd := range conds {
				v, _ := unwrapNot(cnd)
				switch x := v.(type) {
				case *ssa.BinOp:
					if prog.IsNilConst(x.X) || prog.IsNilConst(x.Y) {
						continue
					}
					if _, isC := x.Y.(*ssa.Const); isC {
						continue // comparison of a document value with a constant
					}
					offending = c.P.KeyTerm(v, 3)
				case *ssa.Extract:
					switch x.Tuple.(type) {
					case *ssa.TypeAssert, *ssa.Lookup:
						continue
					}
					offending = c.P.KeyTerm(v, 3)
				case *ssa.Call:
					offending = c.P.KeyTerm(v, 3)
				default:
					offending = c.P.KeyTerm(v, 3)
				}
			}
			out = append(out, verdict(offending == "", rule+"-7", c.P.FuncID(fn)+" :: a named file is always loaded", c.P.InstrPos(cs),
				"reaching getExtendsBaseFromFile depends on presence / type / nil / error tests only", "whether the file named by `extends.file` is loaded depends on "+offending+": when the shortcut is taken the base is looked up among the services of the current document, which is not the document the path designates in every case (relative top-level names, multi-document files)"))
		}
	}
	return out
}

// INC: structure of include (C06).
func (c *Ctx) INC(rule string) []report.Obligation {
	var out []report.Obligation
	// INC-1
	if f := c.P.Func("loader.importResource"); f != nil {
		loops := findMapLoops(f)
		n := 0
		for _, b := range f.Blocks {
			for _, in := range b.Instrs {
				mu, ok := in.(*ssa.MapUpdate)
				if !ok {
					continue
				}
				inLoop := false
				for _, l := range loops {
					if l.region[b] && l.isIterKey(mu.Key) {
						inLoop = true
					}
				}
				if !inLoop {
					continue
				}
				n++
				cls := c.dfltClass(f, mu, nil)
				// a resource declared with an empty body (`volumes: {data: }`) is a key with a nil value: presence is the comma-ok result, not a nil test
				out = append(out, verdict(strings.HasPrefix(cls, "guarded: reachable only when the key is absent"), rule+"-1", "importResource :: import only when absent", c.P.InstrPos(in),
					"the imported resource is stored only on the absent edge of the comma-ok lookup in the including model", "an included resource overwrites a resource the including model already defines: the store is not confined to the key-absent edge of a comma-ok lookup (a nil test treats a resource declared with an empty body as undefined) ["+cls+"]"))
			}
		}
		if n == 0 {
			out = append(out, bad(rule+"-1", "importResource :: import store", c.P.Pos(f.Pos()), "no store keyed by the iteration key"))
		}
		de := callSites(f, func(com *ssa.CallCommon) bool { return staticName(com) == "reflect.DeepEqual" })
		good := false
		for _, d := range de {
			// the edge taken when the two definitions differ: the false edge of `if DeepEqual`, the true edge of `if !DeepEqual`
			var diffs []*ssa.BasicBlock
			for _, r := range *d.(ssa.Value).Referrers() {
				switch x := r.(type) {
				case *ssa.If:
					diffs = append(diffs, x.Block().Succs[1])
				case *ssa.UnOp:
					if x.Op == token.NOT {
						for _, rr := range *x.Referrers() {
							if iff, ok := rr.(*ssa.If); ok {
								diffs = append(diffs, iff.Block().Succs[0])
							}
						}
					}
				}
			}
			for _, diff := range diffs {
				for _, ret := range returnsOf(f) {
					if (diff == ret.Block() || diff.Dominates(ret.Block())) && c.dyn.definitelyNonNil(retValue(ret, 0), ret.Block(), 2) {
						good = true
					}
				}
			}
		}
		out = append(out, verdict(good, rule+"-1", "importResource :: conflict is an error, identical redefinition accepted", c.P.Pos(f.Pos()),
			"the present edge compares with reflect.DeepEqual and returns an error when the definitions differ", "a resource defined differently on both sides is not reported as a conflict"))
	} else {
		out = append(out, anchorViolation(rule+"-1", "loader.importResource"))
	}
	f := c.P.Func("loader.ApplyInclude")
	if f == nil {
		return append(out, anchorViolation(rule, "loader.ApplyInclude"))
	}
	// INC-6: below the first level the workingDir parameter is relative to the parent project (ORIGIN: the nested
	// ConfigDetails.WorkingDir is loader.Dir(...)). A path joined to it alone is looked up from the directory the
	// process happens to run in. Wherever ApplyInclude joins a directory that comes from that parameter with a
	// relative env_file / project_directory, the directory is (also) taken from the local resource loader, whose
	// WorkingDir is the same directory in absolute form.
	if wd := paramByType(f, "string"); wd != nil {
		nJoin := 0
		for _, cs := range callSites(f, func(com *ssa.CallCommon) bool { return staticName(com) == "path/filepath.Join" }) {
			sl, ok := cs.Common().Args[0].(*ssa.Slice)
			if !ok {
				continue
			}
			al, ok := sl.X.(*ssa.Alloc)
			if !ok {
				continue
			}
			var base ssa.Value
			for _, r := range *al.Referrers() {
				if ia, isIA := r.(*ssa.IndexAddr); isIA {
					if k, _ := constInt(ia.Index); k == 0 {
						for _, rr := range *ia.Referrers() {
							if st, isSt := rr.(*ssa.Store); isSt && st.Addr == ssa.Value(ia) {
								base = st.Val
							}
						}
					}
				}
			}
			if base == nil {
				continue
			}
			fromParam, fromLoader := false, false
			seen := map[ssa.Value]bool{}
			var walk func(v ssa.Value, d int)
			walk = func(v ssa.Value, d int) {
				if v == nil || d == 0 || seen[v] {
					return
				}
				seen[v] = true
				switch x := v.(type) {
				case *ssa.Parameter:
					if x == wd {
						fromParam = true
					}
				case *ssa.Phi:
					for _, e := range x.Edges {
						walk(e, d-1)
					}
				case *ssa.Field:
					if fieldName(x) == "WorkingDir" {
						fromLoader = true
					}
				case *ssa.UnOp:
					if loadedField(x) == "WorkingDir" {
						fromLoader = true
					} else {
						walk(x.X, d-1)
					}
				case *ssa.ChangeType:
					walk(x.X, d-1)
				}
			}
			walk(base, 6)
			if !fromParam {
				continue
			}
			nJoin++
			out = append(out, verdict(fromLoader, rule+"-6", "ApplyInclude :: a relative path of an include entry is anchored at the local loader's directory", c.P.InstrPos(cs),
				"the directory joined is the local resource loader's WorkingDir when there is one", "a relative env_file / project_directory is joined to the workingDir parameter alone: for a nested include that directory is relative to the parent project, so the file is looked up from the directory the process runs in (found or not depending on it)"))
		}
		if nJoin == 0 {
			out = append(out, ok2(rule+"-6", "ApplyInclude :: a relative path of an include entry is anchored at the local loader's directory", c.P.Pos(f.Pos()), "no path is joined to the workingDir parameter"))
		}
	}
	lm := c.callsTo(f, "loader.loadYamlModel")
	if len(lm) != 1 {
		return append(out, bad(rule+"-4", "ApplyInclude :: nested load", c.P.Pos(f.Pos()), "expected exactly one loadYamlModel call"))
	}
	// INC-4: options of the nested load
	opts := lm[0].Common().Args[2]
	isClone := false
	isCloneOf := func(g *ssa.Function, v ssa.Value) bool {
		cl, ok := v.(*ssa.Call)
		return ok && c.calleeID(&cl.Call) == "loader.(*Options).clone" && sameParam(cl.Call.Args[0], paramByType(g, "*Options"))
	}
	if isCloneOf(f, opts) {
		isClone = true
	} else if hc, ok := opts.(*ssa.Call); ok {
		// built by a helper that receives the caller's options and returns a clone of them
		if g := hc.Call.StaticCallee(); g != nil && c.P.InModule(g) && g.Blocks != nil {
			passes := false
			for i, a := range hc.Call.Args {
				if sameParam(a, paramByType(f, "*Options")) && i < len(g.Params) && g.Params[i] == paramByType(g, "*Options") {
					passes = true
				}
			}
			all := passes
			for _, r := range returnsOf(g) {
				if !isCloneOf(g, retValue(r, 0)) {
					all = false
				}
			}
			isClone = all
		}
	}
	out = append(out, verdict(isClone, rule+"-4", "ApplyInclude :: nested options are a clone", c.P.InstrPos(lm[0]),
		"the nested load works on options.clone()", "the nested load mutates the caller's options"))
	st := c.boolFieldStores(f, opts, lm[0])
	for _, fl := range []string{"ResolvePaths", "SkipNormalization", "SkipConsistencyCheck"} {
		v, has := st[fl]
		out = append(out, verdict(has && v, rule+"-4", "ApplyInclude :: nested load "+fl+"=true", c.P.InstrPos(lm[0]),
			fl+" is set on the nested options before the load", fl+" is not forced to true for the included project"))
	}
	// environment: Merge(receiver = Clone(parent), argument = env file values)
	cfgArg := lm[0].Common().Args[1]
	envOK, envWhy := false, "the nested ConfigDetails.Environment is not environment.Clone().Merge(envFromFile)"
	if ld, ok := cfgArg.(*ssa.UnOp); ok {
		for _, b := range f.Blocks {
			for _, in := range b.Instrs {
				st, ok := in.(*ssa.Store)
				if !ok {
					continue
				}
				fa, ok := st.Addr.(*ssa.FieldAddr)
				if !ok || fa.X != ld.X || fieldName(fa) != "Environment" {
					continue
				}
				mc, ok := st.Val.(*ssa.Call)
				if !ok || c.calleeID(&mc.Call) != "types.(Mapping).Merge" {
					continue
				}
				recv, arg := mc.Call.Args[0], mc.Call.Args[1]
				cc, ok := recv.(*ssa.Call)
				if !ok || c.calleeID(&cc.Call) != "types.(Mapping).Clone" || !sameParam(stripAssert(cc.Call.Args[0]), paramByType(f, "Mapping")) {
					envWhy = "the receiver of Merge is not a fresh Clone of the parent environment: the parent environment is mutated, or the env-file values take precedence"
					continue
				}
				gf := c.callsTo(f, "dotenv.GetEnvFromFile")
				if len(gf) == 1 && c.derivedFrom(arg, gf[0].(ssa.Value), 4) {
					envOK = true
				} else {
					envWhy = "the argument of Merge is not the result of dotenv.GetEnvFromFile"
				}
			}
		}
	}
	out = append(out, verdict(envOK, rule+"-4", "ApplyInclude :: parent environment wins over the included env file", c.P.InstrPos(lm[0]),
		"Environment = environment.Clone().Merge(envFromFile): receiver fresh (parent not mutated), Merge only adds absent keys", envWhy))
	// working directory of the nested config is the include's project directory
	// INC-5
	var del ssa.Instruction
	for _, b := range f.Blocks {
		for _, in := range b.Instrs {
			if ci, ok := in.(ssa.CallInstruction); ok {
				if bi, ok := ci.Common().Value.(*ssa.Builtin); ok && bi.Name() == "delete" && sameParam(ci.Common().Args[0], paramByType(f, "map[string]any")) {
					if k, _ := prog.ConstString(ci.Common().Args[1]); k == "include" {
						del = in
					}
				}
			}
		}
	}
	okDel := del != nil
	for _, r := range returnsOf(f) {
		if isNilOrConst(retValue(r, 0)) && (del == nil || !prog.InstrDominates(del, r)) {
			okDel = false
		}
	}
	out = append(out, verdict(okDel, rule+"-5", "ApplyInclude :: include attribute removed", c.P.Pos(f.Pos()),
		"every successful return is dominated by delete(model, \"include\")", "the model keeps its `include` attribute after the resources were imported"))
	// import of the loaded model
	ir := c.callsTo(f, "loader.importResources")
	okImp := len(ir) == 1 && prog.InstrDominates(lm[0], ir[0]) && c.derivedFrom(ir[0].Common().Args[0], lm[0].(ssa.Value), 3) && sameParam(ir[0].Common().Args[1], paramByType(f, "map[string]any"))
	out = append(out, verdict(okImp, rule+"-5", "ApplyInclude :: loaded model imported into the including model", c.P.Pos(f.Pos()),
		"importResources(result of the nested load, model)", "the nested model is not imported into the including model"))
	return out
}

var _ = token.ADD
var _ = report.Info

// sameFieldLoad: both values are loads of the same field of the same struct value.
func sameFieldLoad(a, b ssa.Value) bool {
	la, ok1 := a.(*ssa.UnOp)
	lb, ok2 := b.(*ssa.UnOp)
	if !ok1 || !ok2 {
		fa, okA := a.(*ssa.Field)
		fb, okB := b.(*ssa.Field)
		return okA && okB && fa.X == fb.X && fa.Field == fb.Field
	}
	fa, ok1 := la.X.(*ssa.FieldAddr)
	fb, ok2 := lb.X.(*ssa.FieldAddr)
	return ok1 && ok2 && fa.X == fb.X && fa.Field == fb.Field
}
