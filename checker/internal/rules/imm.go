package rules

import (
	"fmt"

	"go/types"
	"sort"
	"strings"
	"verifcheck/internal/prog"

	"golang.org/x/tools/go/ssa"
	"verifcheck/internal/report"
)

// ---------------------------------------------------------------------------
// IMM: ownership / alias analysis with function summaries.
//
// For a function F and a source parameter S (the receiver / *Project argument)
// the analysis computes, flow-insensitively over F and its closures:
//   owned(v): v may point into memory owned by S (or be a struct/interface
//             value holding such a reference);
//   reach(r): the object rooted at r (an Alloc, MakeMap, call result, other
//             parameter, ...) may hold references into S's memory.
// Writes through owned addresses are I1 events; a result that is owned or
// whose root is reach is an I2 event. Callees are handled by summaries
// (does the result alias parameter i, does the callee write through
// parameter i, into which other parameters does it store references derived
// from parameter i), computed to a fix-point.
// ---------------------------------------------------------------------------

type immSummary struct {
	RetAlias bool         // some result may alias / contain references into the source parameter
	Writes   bool         // the function writes through the source parameter
	Deep     bool         // ... through a reference loaded from it (matters even when the argument is a local copy)
	WriteAt  string       // first write found (for messages)
	Kinds    map[string]bool // kinds of the primitive writes found, here or in the callees the value is handed to ("map update .extended")
	Callees  map[string]bool // module functions the value is handed to and which write through it
	Flows    map[int]bool // references derived from the source are stored into parameter j's memory
}

type immKey struct {
	fn  *ssa.Function
	src int // index into fn.Params
}

type immEngine struct {
	c     *Ctx
	sums  map[immKey]*immSummary
	keys  []immKey
	dirty bool
}

func (c *Ctx) imm() *immEngine {
	if c.immE == nil {
		c.immE = &immEngine{c: c, sums: map[immKey]*immSummary{}}
	}
	return c.immE
}

func progFacts(b *ssa.BasicBlock) []prog.Fact { return prog.DominatingFacts(b) }

// hasRefs: values of this type can carry a reference to shared mutable memory.
func hasRefs(t types.Type) bool { return hasRefsSeen(t, map[types.Type]bool{}) }

func hasRefsSeen(t types.Type, seen map[types.Type]bool) bool {
	if seen[t] {
		return false
	}
	seen[t] = true
	switch u := t.Underlying().(type) {
	case *types.Pointer, *types.Map, *types.Slice, *types.Chan, *types.Interface, *types.Signature:
		return true
	case *types.Struct:
		for i := 0; i < u.NumFields(); i++ {
			if hasRefsSeen(u.Field(i).Type(), seen) {
				return true
			}
		}
	case *types.Array:
		return hasRefsSeen(u.Elem(), seen)
	case *types.Tuple:
		for i := 0; i < u.Len(); i++ {
			if hasRefsSeen(u.At(i).Type(), seen) {
				return true
			}
		}
	}
	return false
}

// immEvent is a write through owned memory or an escape.
type immEvent struct {
	Deep  bool   // not a plain field store through the (pointer) source parameter itself
	Key   string // short, line-free identity
	Kind  string // "store", "mapupdate", "delete", "append", "copy", "call-writes", "escape"
	Instr ssa.Instruction
	Fn    *ssa.Function
	What  string
	Callee      *ssa.Function // call-writes: the module function the value is handed to
	CalleeParam int
}

type immResult struct {
	Events    []immEvent
	RetOwned  []ssa.Instruction // return instructions whose operand is owned / reach
	RetWhy    []string
	ReachPar  map[int]bool
	CallbackE []immEvent // owned values handed to dynamic callees
}

// unit is a function together with its (transitively) nested closures.
func unitFuncs(f *ssa.Function) []*ssa.Function {
	out := []*ssa.Function{f}
	for _, a := range f.AnonFuncs {
		out = append(out, unitFuncs(a)...)
	}
	return out
}

type immState struct {
	e       *immEngine
	top     *ssa.Function
	owned   map[ssa.Value]bool
	reach   map[ssa.Value]bool // keyed by root values
	binding map[*ssa.FreeVar]ssa.Value
	src     *ssa.Parameter
	why     map[ssa.Value]string // root -> where a source-owned reference was first stored into it
	cur     ssa.Instruction
}

// roots of an address/value: the objects it may denote.
func (s *immState) roots(v ssa.Value, seen map[ssa.Value]bool, out *[]ssa.Value) {
	if v == nil || seen[v] {
		return
	}
	if _, isConst := v.(*ssa.Const); isConst {
		return // constants (nil maps, nil pointers) denote no object
	}
	seen[v] = true
	switch x := v.(type) {
	case *ssa.FieldAddr:
		s.roots(x.X, seen, out)
	case *ssa.IndexAddr:
		s.roots(x.X, seen, out)
	case *ssa.Slice:
		s.roots(x.X, seen, out)
	case *ssa.ChangeType:
		s.roots(x.X, seen, out)
	case *ssa.Convert:
		s.roots(x.X, seen, out)
	case *ssa.MakeInterface:
		s.roots(x.X, seen, out)
	case *ssa.ChangeInterface:
		s.roots(x.X, seen, out)
	case *ssa.TypeAssert:
		s.roots(x.X, seen, out)
	case *ssa.Phi:
		for _, e := range x.Edges {
			s.roots(e, seen, out)
		}
	case *ssa.FreeVar:
		if b, ok := s.binding[x]; ok {
			s.roots(b, seen, out)
		} else {
			*out = append(*out, v)
		}
	case *ssa.Extract:
		// tuple from call / lookup / next / typeassert: the tuple is the root, except
		// for map lookups and assertions where the value derives from the operand
		switch t := x.Tuple.(type) {
		case *ssa.TypeAssert:
			s.roots(t.X, seen, out)
		default:
			*out = append(*out, v)
		}
	case *ssa.Call:
		if b, ok := x.Call.Value.(*ssa.Builtin); ok && b.Name() == "append" {
			// the result shares the backing array of the first operand (or is new)
			if !zeroCap(x.Call.Args[0]) {
				s.roots(x.Call.Args[0], seen, out)
			}
			*out = append(*out, v)
			return
		}
		*out = append(*out, v)
	default:
		*out = append(*out, v)
	}
}

func (s *immState) rootsOf(v ssa.Value) []ssa.Value {
	var out []ssa.Value
	s.roots(v, map[ssa.Value]bool{}, &out)
	return out
}

func (s *immState) isReach(v ssa.Value) bool {
	for _, r := range s.rootsOf(v) {
		if s.reach[r] || s.owned[r] {
			return true
		}
	}
	return false
}

// isOwned: v may denote / carry a reference into the source's memory.
func (s *immState) isOwned(v ssa.Value) bool {
	if v == nil {
		return false
	}
	if s.owned[v] {
		return true
	}
	for _, r := range s.rootsOf(v) {
		if s.owned[r] {
			return true
		}
	}
	return false
}

func (s *immState) setOwned(v ssa.Value) bool {
	if s.owned[v] {
		return false
	}
	s.owned[v] = true
	return true
}

func (s *immState) setReach(v ssa.Value) bool {
	ch := false
	for _, r := range s.rootsOf(v) {
		if !s.reach[r] && !s.owned[r] {
			s.reach[r] = true
			if s.cur != nil {
				s.why[r] = s.e.c.P.InstrPos(s.cur)
			}
			ch = true
		}
	}
	return ch
}

// tainted: owned or loaded-from-reach semantics handled at loads; for values
// passed around, "carries receiver references" = owned or reach root.
func (s *immState) carries(v ssa.Value) bool { return s.isOwned(v) || s.isReach(v) }

// externalWriters: dependency functions that write through an argument (index).
var externalWriters = map[string][]int{
	"sort.Strings": {0}, "sort.Ints": {0}, "sort.Slice": {0}, "sort.SliceStable": {0}, "sort.Sort": {0}, "sort.Stable": {0},
	"golang.org/x/exp/slices.Sort": {0}, "golang.org/x/exp/slices.SortFunc": {0}, "golang.org/x/exp/slices.SortStableFunc": {0},
	"slices.Sort": {0}, "slices.SortFunc": {0}, "slices.SortStableFunc": {0}, "slices.Reverse": {0},
	"encoding/json.Unmarshal": {1}, "gopkg.in/yaml.v3.Unmarshal": {1},
}

func calleeName(f *ssa.Function) string {
	if f == nil {
		return ""
	}
	if o := f.Origin(); o != nil {
		f = o
	}
	if f.Pkg != nil && f.Signature.Recv() == nil {
		return f.Pkg.Pkg.Path() + "." + f.Name()
	}
	return f.String()
}

// analyse runs the ownership analysis of fn with parameter src as the source.
func (e *immEngine) analyse(fn *ssa.Function, src int, collect bool) *immResult {
	st := &immState{e: e, top: fn, owned: map[ssa.Value]bool{}, reach: map[ssa.Value]bool{}, binding: map[*ssa.FreeVar]ssa.Value{}, why: map[ssa.Value]string{}}
	res := &immResult{ReachPar: map[int]bool{}}
	if src >= len(fn.Params) {
		return res
	}
	funcs := unitFuncs(fn)
	// closure bindings
	for _, f := range funcs {
		for _, b := range f.Blocks {
			for _, in := range b.Instrs {
				if mc, ok := in.(*ssa.MakeClosure); ok {
					cf := mc.Fn.(*ssa.Function)
					for i, fv := range cf.FreeVars {
						if i < len(mc.Bindings) {
							st.binding[fv] = mc.Bindings[i]
						}
					}
				}
			}
		}
	}
	st.owned[fn.Params[src]] = true
	st.src = fn.Params[src]
	// fix-point propagation
	for iter := 0; iter < 50; iter++ {
		changed := false
		for _, f := range funcs {
			for _, b := range f.Blocks {
				for _, in := range b.Instrs {
					if st.step(in) {
						changed = true
					}
				}
			}
		}
		if !changed {
			break
		}
	}
	// collect events
	for _, f := range funcs {
		for _, b := range f.Blocks {
			for _, in := range b.Instrs {
				st.events(in, f, res, collect)
			}
		}
	}
	for j, pa := range fn.Params {
		if j != src && st.isReach(pa) {
			res.ReachPar[j] = true
		}
	}
	return res
}

// step propagates ownership through one instruction; reports change.
func (s *immState) step(in ssa.Instruction) bool {
	ch := false
	s.cur = in
	own := func(v ssa.Value) {
		if hasRefs(v.Type()) && s.setOwned(v) {
			ch = true
		}
	}
	switch x := in.(type) {
	case *ssa.UnOp:
		if x.Op.String() == "*" {
			// load: from owned memory, or from an object that holds receiver references
			if s.isOwned(x.X) || s.isReach(x.X) {
				own(x)
			}
		}
	case *ssa.FieldAddr:
		if s.isOwned(x.X) {
			if s.setOwned(x) {
				ch = true
			}
		}
	case *ssa.Field:
		if s.isOwned(x.X) {
			own(x)
		}
	case *ssa.IndexAddr:
		if s.isOwned(x.X) {
			if s.setOwned(x) {
				ch = true
			}
		}
	case *ssa.Index:
		if s.isOwned(x.X) || s.isReach(x.X) {
			own(x)
		}
	case *ssa.Lookup:
		if s.isOwned(x.X) || s.isReach(x.X) {
			own(x)
		}
	case *ssa.Slice:
		if s.isOwned(x.X) {
			own(x)
		}
	case *ssa.Range:
		if s.isOwned(x.X) || s.isReach(x.X) {
			if s.setOwned(x) {
				ch = true
			}
		}
	case *ssa.Next:
		if s.owned[x.Iter] {
			if s.setOwned(x) {
				ch = true
			}
		}
	case *ssa.Extract:
		if s.owned[x.Tuple] || s.isOwned(x.Tuple) {
			own(x)
		}
	case *ssa.Phi:
		for _, e := range x.Edges {
			if s.owned[e] {
				own(x)
			}
		}
	case *ssa.ChangeType:
		if s.isOwned(x.X) {
			own(x)
		}
	case *ssa.Convert:
		if s.isOwned(x.X) {
			own(x)
		}
	case *ssa.MakeInterface:
		if s.isOwned(x.X) {
			own(x)
		}
	case *ssa.ChangeInterface:
		if s.isOwned(x.X) {
			own(x)
		}
	case *ssa.TypeAssert:
		if s.isOwned(x.X) {
			if s.setOwned(x) {
				ch = true
			}
		}
	case *ssa.MakeClosure:
		for _, b := range x.Bindings {
			if s.carries(b) && hasRefs(b.Type()) {
				// a closure capturing receiver references carries them
				if s.setReach(x) {
					ch = true
				}
			}
		}
	case *ssa.Store:
		if hasRefs(x.Val.Type()) && s.carries(x.Val) && !s.isOwned(x.Addr) {
			if s.setReach(x.Addr) {
				ch = true
			}
		}
	case *ssa.MapUpdate:
		if ((hasRefs(x.Value.Type()) && s.carries(x.Value)) || (hasRefs(x.Key.Type()) && s.carries(x.Key))) && !s.isOwned(x.Map) {
			if s.setReach(x.Map) {
				ch = true
			}
		}
	case *ssa.Send:
		if hasRefs(x.X.Type()) && s.carries(x.X) {
			if s.setReach(x.Chan) {
				ch = true
			}
		}
	case *ssa.Call:
		if s.call(x, x) {
			ch = true
		}
	case *ssa.Go:
		if s.call(x, nil) {
			ch = true
		}
	case *ssa.Defer:
		if s.call(x, nil) {
			ch = true
		}
	}
	return ch
}

func (s *immState) call(site ssa.CallInstruction, val ssa.Value) bool {
	ch := false
	com := site.Common()
	args := com.Args
	if b, ok := com.Value.(*ssa.Builtin); ok {
		switch b.Name() {
		case "append":
			// result = first operand's array (or new) + copied elements
			if val != nil {
				if s.isOwned(args[0]) && hasRefs(val.Type()) && !zeroCap(args[0]) {
					if s.setOwned(val) {
						ch = true
					}
				}
				if len(args) > 1 {
					if sl, ok := args[1].Type().Underlying().(*types.Slice); ok && hasRefs(sl.Elem()) && s.carries(args[1]) {
						if !s.isOwned(val) && s.setReach(val) {
							ch = true
						}
					}
				}
			}
		case "copy":
			if sl, ok := args[1].Type().Underlying().(*types.Slice); ok && hasRefs(sl.Elem()) && s.carries(args[1]) && !s.isOwned(args[0]) {
				if s.setReach(args[0]) {
					ch = true
				}
			}
		}
		return ch
	}
	var all []ssa.Value
	if com.IsInvoke() {
		all = append(all, com.Value)
	}
	all = append(all, args...)
	callee := com.StaticCallee()
	if callee != nil && s.exemptCallee(callee) {
		return false
	}
	if callee != nil && s.e.c.P.InModule(callee) && callee.Blocks != nil {
		for i, a := range all {
			if i >= len(callee.Params) || !hasRefs(a.Type()) || !s.carries(a) {
				continue
			}
			sum := s.e.summary(callee, i)
			if sum.RetAlias && val != nil && hasRefs(val.Type()) {
				if s.setOwned(val) {
					ch = true
				}
			}
			for j := range sum.Flows {
				if j < len(all) && !s.isOwned(all[j]) {
					if s.setReach(all[j]) {
						ch = true
					}
				}
			}
		}
		return ch
	}
	// closures created in this unit are analysed inline through their bindings;
	// their parameters receive the arguments
	if mc, ok := com.Value.(*ssa.MakeClosure); ok {
		cf := mc.Fn.(*ssa.Function)
		for i, a := range args {
			if i < len(cf.Params) && hasRefs(a.Type()) && s.carries(a) {
				if s.setOwned(cf.Params[i]) {
					ch = true
				}
			}
		}
	}
	// unknown / external callee: the result may alias any reference argument
	if val != nil && hasRefs(val.Type()) {
		for _, a := range all {
			if hasRefs(a.Type()) && s.carries(a) {
				if pureResult(callee) {
					continue
				}
				if s.setOwned(val) {
					ch = true
				}
			}
		}
	}
	return ch
}

// pureResult: external functions whose result never aliases their arguments.
func pureResult(f *ssa.Function) bool {
	if f == nil {
		return false
	}
	n := calleeName(f)
	for _, p := range []string{"fmt.", "strings.", "strconv.", "errors.", "path.", "path/filepath.", "os.", "encoding/json.Marshal", "bytes.", "sort.", "regexp.", "reflect.DeepEqual",
		"golang.org/x/exp/maps.Keys", "maps.Keys", "unicode.", "time.", "math.", "reflect."} {
		if strings.HasPrefix(n, p) {
			return true
		}
	}
	return false
}

func (s *immState) exemptCallee(f *ssa.Function) bool {
	// opaque extension payloads are exempt by the property statement itself
	return s.e.c.P.FuncID(f) == "types.(Extensions).DeepCopy"
}

func (s *immState) events(in ssa.Instruction, f *ssa.Function, res *immResult, collect bool) {
	deep := true
	key := ""
	add := func(kind, what string) {
		k := key
		if k == "" {
			k = what
		}
		res.Events = append(res.Events, immEvent{Kind: kind, Instr: in, Fn: f, What: what, Deep: deep, Key: k})
	}
	p := s.e.c.P
	switch x := in.(type) {
	case *ssa.Store:
		if s.isOwned(x.Addr) && !isLocalAlloc(x.Addr) {
			// shallow: the address is a field/element chain of the pointer-typed source parameter itself
			if rs := s.rootsOf(x.Addr); len(rs) == 1 && rs[0] == ssa.Value(s.src) {
				if _, isPtr := s.src.Type().Underlying().(*types.Pointer); isPtr {
					deep = false
				}
			}
			add("store", "store through "+p.KeyTerm(x.Addr, 4))
		}
	case *ssa.MapUpdate:
		if s.isOwned(x.Map) {
			add("mapupdate", "map update on "+p.KeyTerm(x.Map, 4))
		}
	case *ssa.Return:
		for _, r := range x.Results {
			if scalarByExhaustion(r, x.Block()) {
				continue // an `any` that is neither map[string]any nor []any on this path: an immutable YAML scalar
			}
			if hasRefs(r.Type()) && s.carries(r) && f == s.top {
				res.RetOwned = append(res.RetOwned, x)
				var at []string
				for _, rt := range s.rootsOf(r) {
					if w, ok := s.why[rt]; ok {
						at = append(at, w)
					}
				}
				sort.Strings(at)
				w := "returns " + p.KeyTerm(r, 3) + " which may hold references into the source"
				if len(at) > 0 {
					w += " (stored at " + strings.Join(at, ", ") + ")"
				}
				res.RetWhy = append(res.RetWhy, w)
			}
		}
	case ssa.CallInstruction:
		com := x.Common()
		if b, ok := com.Value.(*ssa.Builtin); ok {
			switch b.Name() {
			case "delete":
				if s.isOwned(com.Args[0]) {
					add("delete", "delete on "+p.KeyTerm(com.Args[0], 4))
				}
			case "append":
				if s.isOwned(com.Args[0]) && !zeroCap(com.Args[0]) {
					add("append", "append to "+p.KeyTerm(com.Args[0], 4)+" (may write into the shared backing array)")
				}
			case "copy":
				if s.isOwned(com.Args[0]) {
					add("copy", "copy into "+p.KeyTerm(com.Args[0], 4))
				}
			}
			return
		}
		var all []ssa.Value
		if com.IsInvoke() {
			all = append(all, com.Value)
		}
		all = append(all, com.Args...)
		callee := com.StaticCallee()
		if callee != nil && s.exemptCallee(callee) {
			return
		}
		if callee != nil && p.InModule(callee) && callee.Blocks != nil {
			for i, a := range all {
				if i < len(callee.Params) && hasRefs(a.Type()) && s.carries(a) {
					if sum := s.e.summary(callee, i); (sum.Writes && s.isOwned(a)) || sum.Deep {
						key = "-> " + p.FuncID(callee)
						add("call-writes", fmt.Sprintf("passes %s to %s which writes through it (%s)", p.KeyTerm(a, 3), p.FuncID(callee), sum.WriteAt))
						res.Events[len(res.Events)-1].Callee, res.Events[len(res.Events)-1].CalleeParam = callee, i
					}
				}
			}
			return
		}
		if callee != nil {
			if idx, ok := externalWriters[calleeName(callee)]; ok {
				for _, i := range idx {
					if i < len(all) && s.isOwned(all[i]) {
						add("call-writes", "passes "+p.KeyTerm(all[i], 3)+" to "+calleeName(callee)+" which writes through it")
					}
				}
			}
			return
		}
		if _, isClosure := com.Value.(*ssa.MakeClosure); isClosure {
			return
		}
		// dynamic callee (function value supplied from outside / interface method)
		for _, a := range all[boolInt(com.IsInvoke()):] {
			if hasRefs(a.Type()) && s.isOwned(a) && mutableRef(a.Type()) {
				res.CallbackE = append(res.CallbackE, immEvent{Kind: "escape", Instr: in, Fn: f,
					What: "hands " + p.KeyTerm(a, 3) + " (" + p.TypeStr(a.Type()) + ") to a dynamic callee"})
			}
		}
	}
}

// scalarByExhaustion: v has static type `any` and the block is reached only
// after comma-ok assertions of v to both map[string]any and []any failed.
// Decoded YAML values are maps, lists or scalars (trusted base), so v is an immutable scalar here.
func scalarByExhaustion(v ssa.Value, b *ssa.BasicBlock) bool {
	it, ok := v.Type().Underlying().(*types.Interface)
	if !ok || it.NumMethods() != 0 {
		return false
	}
	failedMap, failedList := false, false
	for _, f := range progFacts(b) {
		ex, ok := f.Cond.(*ssa.Extract)
		if !ok || f.Val || ex.Index != 1 {
			continue
		}
		ta, ok := ex.Tuple.(*ssa.TypeAssert)
		if !ok || ta.X != v {
			continue
		}
		switch u := ta.AssertedType.Underlying().(type) {
		case *types.Map:
			failedMap = true
		case *types.Slice:
			_ = u
			failedList = true
		}
	}
	return failedMap && failedList
}

func boolInt(b bool) int {
	if b {
		return 1
	}
	return 0
}

// mutableRef: the callee could mutate shared state through a value of this type.
func mutableRef(t types.Type) bool {
	switch u := t.Underlying().(type) {
	case *types.Pointer, *types.Map, *types.Slice, *types.Chan:
		return true
	case *types.Struct:
		for i := 0; i < u.NumFields(); i++ {
			if mutableRef(u.Field(i).Type()) {
				return true
			}
		}
	case *types.Interface:
		return true
	}
	return false
}

// isLocalAlloc: the address is a stack/heap cell created in this function
// (a local variable holding a copy), not receiver memory.
func isLocalAlloc(addr ssa.Value) bool {
	_, ok := addr.(*ssa.Alloc)
	return ok
}

// summary returns the current summary of fn for source parameter i, registering
// the key so that solve() brings it to its fix-point.
func (e *immEngine) summary(fn *ssa.Function, i int) *immSummary {
	k := immKey{fn, i}
	if s, ok := e.sums[k]; ok {
		return s
	}
	s := &immSummary{Flows: map[int]bool{}}
	e.sums[k] = s
	e.keys = append(e.keys, k)
	e.dirty = true
	return s
}

// solve iterates all registered summaries to a fix-point (facts only grow).
func (e *immEngine) solve() {
	for round := 0; e.dirty && round < 100; round++ {
		e.dirty = false
		for idx := 0; idx < len(e.keys); idx++ {
			k := e.keys[idx]
			cur := e.sums[k]
			r := e.analyse(k.fn, k.src, false)
			ret := len(r.RetOwned) > 0
			writes, deep := false, false
			at := cur.WriteAt
			for _, ev := range r.Events {
				writes = true
				if ev.Deep {
					deep = true
				}
				if at == "" {
					at = e.c.P.FuncID(ev.Fn) + ": " + ev.What
				}
				if ev.Kind == "call-writes" && ev.Callee != nil {
					// what the callee does with it counts as done here (so that moving a write into a helper, or
					// renaming the helper, changes nothing)
					if sub := e.sums[immKey{ev.Callee, ev.CalleeParam}]; sub != nil {
						for kind := range sub.Kinds {
							if !cur.Kinds[kind] && len(cur.Kinds) < 24 {
								if cur.Kinds == nil {
									cur.Kinds = map[string]bool{}
								}
								cur.Kinds[kind] = true
								e.dirty = true
							}
						}
					}
					continue
				}
				k := eventKind(ev)
				if !cur.Kinds[k] && len(cur.Kinds) < 24 {
					if cur.Kinds == nil {
						cur.Kinds = map[string]bool{}
					}
					cur.Kinds[k] = true
					e.dirty = true
				}
			}
			if ret && !cur.RetAlias {
				cur.RetAlias, e.dirty = true, true
			}
			if writes && !cur.Writes {
				cur.Writes, cur.WriteAt, e.dirty = true, at, true
			}
			if deep && !cur.Deep {
				cur.Deep, e.dirty = true, true
			}
			for j := range r.ReachPar {
				if !cur.Flows[j] {
					cur.Flows[j], e.dirty = true, true
				}
			}
		}
	}
}

// IMM runs I1/I2 for the given (function, source parameter) pairs.
type immTarget struct {
	Fn        *ssa.Function
	Src       int
	CheckRet  bool // I2: results must not alias the source
	WhatSrc   string
	Callbacks bool // owned values handed to dynamic callees are reported
}

func (c *Ctx) IMM(rule string, targets []immTarget) []report.Obligation {
	var out []report.Obligation
	e := c.imm()
	// register the summaries the targets need and bring them to a fix-point
	for n := -1; n != len(e.keys) || e.dirty; {
		n = len(e.keys)
		for _, t := range targets {
			e.analyse(t.Fn, t.Src, false)
		}
		e.solve()
	}
	c.Stats[rule+".summaries"] = len(e.keys)
	for _, t := range targets {
		id := c.P.FuncID(t.Fn)
		r := e.analyse(t.Fn, t.Src, true)
		// I1
		if len(r.Events) == 0 {
			out = append(out, report.Obligation{Rule: rule + "-I1", Key: id + " :: no write through " + t.WhatSrc, Status: report.Discharged, Pos: c.P.Pos(t.Fn.Pos()),
				Why: "no store, map update, delete, append, copy or writing callee is applied to memory owned by the source (value-flow over the function, its closures and callee summaries)"})
		}
		seen := map[string]bool{}
		for _, ev := range r.Events {
			k := id + " :: " + ev.Kind + " " + ev.Key
			if seen[k] {
				continue
			}
			seen[k] = true
			out = append(out, report.Obligation{Rule: rule + "-I1", Key: k, Status: report.Violation, Pos: c.P.InstrPos(ev.Instr),
				Why: "writes memory owned by " + t.WhatSrc + ": " + ev.What})
		}
		if t.Callbacks {
			for _, ev := range r.CallbackE {
				k := id + " :: " + ev.What
				if seen[k] {
					continue
				}
				seen[k] = true
				out = append(out, report.Obligation{Rule: rule + "-I1", Key: k, Status: report.Violation, Pos: c.P.InstrPos(ev.Instr),
					Why: "a mutable reference into " + t.WhatSrc + " is handed to caller-supplied code: " + ev.What})
			}
		}
		// I2
		if t.CheckRet {
			if len(r.RetOwned) == 0 {
				out = append(out, report.Obligation{Rule: rule + "-I2", Key: id + " :: result does not alias " + t.WhatSrc, Status: report.Discharged, Pos: c.P.Pos(t.Fn.Pos()),
					Why: "every returned reference is fresh (deep copies, make, literals) and nothing owned by the source is stored into it"})
			}
			for i, ri := range r.RetOwned {
				k := id + " :: result aliases " + t.WhatSrc
				if seen[k] {
					continue
				}
				seen[k] = true
				out = append(out, report.Obligation{Rule: rule + "-I2", Key: k, Status: report.Violation, Pos: c.P.InstrPos(ri),
					Why: "the result shares mutable state with " + t.WhatSrc + ": " + r.RetWhy[i]})
			}
		}
	}
	return out
}

// immWhy lists where a reach root got its references (debug aid for reports).
func sortedInts(m map[int]bool) []int {
	var o []int
	for k := range m {
		o = append(o, k)
	}
	sort.Ints(o)
	return o
}

// zeroCap: v is `x[:0:0]` (or any three-index slice whose capacity is its low bound): appending to it always
// allocates, so the result shares nothing with x.
func zeroCap(v ssa.Value) bool {
	sl, ok := v.(*ssa.Slice)
	if !ok || sl.Max == nil {
		return false
	}
	mx, isC := constInt(sl.Max)
	if !isC {
		return false
	}
	lo := int64(0)
	if sl.Low != nil {
		l, isC := constInt(sl.Low)
		if !isC {
			return false
		}
		lo = l
	}
	return mx == lo
}

// eventKind: the operation of a primitive write and the struct field it goes through (spelling-independent).
func eventKind(ev immEvent) string {
	field := ""
	var addr ssa.Value
	switch x := ev.Instr.(type) {
	case *ssa.Store:
		addr = x.Addr
	case *ssa.MapUpdate:
		addr = x.Map
	case ssa.CallInstruction:
		if len(x.Common().Args) > 0 {
			addr = x.Common().Args[0]
		}
	}
	for d := 0; d < 6 && addr != nil; d++ {
		switch a := addr.(type) {
		case *ssa.FieldAddr:
			field = "." + fieldOwner(a) + "." + fieldName(a)
			addr = nil
		case *ssa.UnOp:
			addr = a.X
		case *ssa.IndexAddr:
			addr = a.X
		case *ssa.Slice:
			addr = a.X
		default:
			addr = nil
		}
	}
	return ev.Kind + field
}

// KindList: the write kinds of a summary, sorted.
func (s *immSummary) KindList() []string {
	var out []string
	for k := range s.Kinds {
		out = append(out, k)
	}
	sort.Strings(out)
	return out
}
