package rules

import (
	"go/token"
	"go/types"
	"sort"

	"golang.org/x/tools/go/ssa"
	"verifcheck/internal/prog"
	"verifcheck/internal/report"
)

// DFLT: defaults are written only under an absence test. In the functions
// that introduce defaults, every update m[K] = v of a map that the function
// did not create itself must be
//
//	guarded  - control dependent on `_, ok := m[K]` being false, on m[K] == nil,
//	           or (for a range over m itself) on the current value being nil;
//	alias    - control dependent on m[K] == <constant> (documented alias rewrite);
//	rewrite  - v is computed from the previous m[K] (normalisation of an existing
//	           value), or control dependent on a type test of the previous m[K];
//	current  - the update of the entry a range over m is currently visiting.
//
// Anything else overwrites what the user wrote.
func (c *Ctx) DFLT(rule string, roots []string, extra []string) []report.Obligation {
	var out []report.Obligation
	var rs []*ssa.Function
	for _, id := range roots {
		if f := c.P.Func(id); f != nil {
			rs = append(rs, f)
		} else {
			out = append(out, anchorViolation(rule, id))
		}
	}
	reach := c.P.Reachable(rs)
	scope := map[*ssa.Function]bool{}
	for f := range reach.Set {
		// stay inside the packages that implement defaults; parsers reached from transformers build fresh values
		switch c.P.Rel(pkgOfFn(f)) {
		case "transform", "loader":
			scope[f] = true
		}
	}
	for _, id := range extra {
		if f := c.P.Func(id); f != nil {
			scope[f] = true
		} else {
			out = append(out, anchorViolation(rule, id))
		}
	}
	var fns []*ssa.Function
	for f := range scope {
		fns = append(fns, f)
	}
	sort.Slice(fns, func(i, j int) bool { return c.P.FuncID(fns[i]) < c.P.FuncID(fns[j]) })
	for _, f := range fns {
		loops := findMapLoops(f)
		for _, b := range f.Blocks {
			for _, in := range b.Instrs {
				mu, ok := in.(*ssa.MapUpdate)
				if !ok || isFreshMap(mu.Map, 4) {
					continue
				}
				if _, isStr := mu.Key.Type().Underlying().(*types.Basic); !isStr {
					continue
				}
				keyDesc := c.P.KeyTerm(mu.Key, 2)
				o := report.Obligation{Rule: rule, Pos: c.P.InstrPos(in), Key: c.P.FuncID(f) + " :: " + c.P.KeyTerm(mu.Map, 2) + "[" + keyDesc + "] = " + c.P.KeyTerm(mu.Value, 2)}
				if why := c.dfltClass(f, mu, loops); why != "" {
					o.Status, o.Why = report.Discharged, why
				} else {
					o.Status = report.Violation
					o.Why = "the map entry is written without testing that it is absent and without deriving the value from the previous one: an explicit user value is overwritten"
				}
				out = append(out, o)
			}
		}
	}
	// ... and nothing the user wrote is removed: no delete on a map the function did not create
	for _, f := range fns {
		for _, cs := range callSites(f, func(com *ssa.CallCommon) bool {
			bi, ok := com.Value.(*ssa.Builtin)
			return ok && bi.Name() == "delete"
		}) {
			m := cs.Common().Args[0]
			if isFreshMap(m, 4) {
				continue
			}
			k := c.P.KeyTerm(cs.Common().Args[1], 2)
			o := report.Obligation{Rule: rule, Pos: c.P.InstrPos(cs), Key: c.P.FuncID(f) + " :: delete(" + c.P.KeyTerm(m, 2) + ", " + k + ")"}
			// removing the entry the enclosing code just moved elsewhere (a rename of a deprecated key) reads it first
			moved := false
			for _, b := range f.Blocks {
				for _, in := range b.Instrs {
					if lk, ok := in.(*ssa.Lookup); ok && sameMapVal(lk.X, m) && sameKey(lk.Index, cs.Common().Args[1]) {
						for _, u := range valueUses(lk, 4) {
							if mu, isMU := u.(*ssa.MapUpdate); isMU && !sameKey(mu.Key, lk.Index) {
								moved = true
							}
						}
					}
				}
			}
			if moved {
				o.Status, o.Why = report.Discharged, "the value is stored under another key before the entry is removed (a rename)"
			} else {
				o.Status = report.Violation
				o.Why = "an entry the user wrote is deleted from the model while defaults are applied: the default then takes its place (an explicit 0 / false / empty value is replaced)"
			}
			out = append(out, o)
		}
	}
	c.Stats[rule+".functions"] = len(fns)
	return out
}

func pkgOfFn(f *ssa.Function) *types.Package {
	for g := f; g != nil; g = g.Parent() {
		if g.Pkg != nil {
			return g.Pkg.Pkg
		}
		if g.Origin() != nil && g.Origin().Pkg != nil {
			return g.Origin().Pkg.Pkg
		}
	}
	return nil
}

// isFreshMap: the map was created in this function (make / literal), possibly merged through phis with nil.
func isFreshMap(v ssa.Value, depth int) bool {
	if depth == 0 {
		return false
	}
	switch x := v.(type) {
	case *ssa.MakeMap:
		return true
	case *ssa.ChangeType:
		return isFreshMap(x.X, depth-1)
	case *ssa.Phi:
		for _, e := range x.Edges {
			if isNilOrConst(e) {
				continue
			}
			if !isFreshMap(e, depth-1) {
				return false
			}
		}
		return true
	case *ssa.UnOp:
		// a local variable that only ever holds fresh maps
		if al, ok := x.X.(*ssa.Alloc); ok && x.Op == token.MUL {
			n := 0
			for _, r := range *al.Referrers() {
				if st, ok := r.(*ssa.Store); ok && st.Addr == ssa.Value(al) {
					n++
					if !isFreshMap(st.Val, depth-1) && !isNilOrConst(st.Val) {
						return false
					}
				}
			}
			return n > 0
		}
	}
	return false
}

// sameKey: constant-equal strings or the same SSA value.
func sameKey(a, b ssa.Value) bool {
	if a == b {
		return true
	}
	sa, ok1 := prog.ConstString(a)
	sb, ok2 := prog.ConstString(b)
	if ok1 && ok2 && sa == sb {
		return true
	}
	// two loads of the same element of a local slice (spec[0] ... spec[0])
	la, okA := a.(*ssa.UnOp)
	lb, okB := b.(*ssa.UnOp)
	if okA && okB && la.Op == token.MUL && lb.Op == token.MUL {
		ia, okA := la.X.(*ssa.IndexAddr)
		ib, okB := lb.X.(*ssa.IndexAddr)
		if okA && okB && ia.X == ib.X {
			ca, okA := constInt(ia.Index)
			cb, okB := constInt(ib.Index)
			if okA && okB && ca == cb && !storedThrough(ia.X) {
				return true
			}
		}
	}
	return false
}

// storedThrough: some element of the slice value is assigned in the function.
func storedThrough(slice ssa.Value) bool {
	for _, r := range *slice.Referrers() {
		if ia, ok := r.(*ssa.IndexAddr); ok {
			for _, rr := range *ia.Referrers() {
				if st, ok := rr.(*ssa.Store); ok && st.Addr == ssa.Value(ia) {
					return true
				}
			}
		}
	}
	return false
}

// mapRoot strips conversions / assertions so that `service` and `service.(map[string]any)` compare equal.
func mapRoot(v ssa.Value) ssa.Value {
	for i := 0; i < 6; i++ {
		switch x := v.(type) {
		case *ssa.ChangeType:
			v = x.X
		case *ssa.TypeAssert:
			v = x.X
		case *ssa.Extract:
			if ta, ok := x.Tuple.(*ssa.TypeAssert); ok && x.Index == 0 {
				v = ta.X
				continue
			}
			return v
		case *ssa.MakeInterface:
			v = x.X
		default:
			return v
		}
	}
	return v
}

func sameMapVal(a, b ssa.Value) bool {
	ra, rb := mapRoot(a), mapRoot(b)
	if ra == rb {
		return true
	}
	// two loads of the same field of the same object, with no assignment of that field in the function
	la, okA := ra.(*ssa.UnOp)
	lb, okB := rb.(*ssa.UnOp)
	if okA && okB && la.Op == token.MUL && lb.Op == token.MUL && la.X == lb.X {
		// two loads of one captured variable / cell that is assigned once
		switch x := la.X.(type) {
		case *ssa.FreeVar:
			return true
		case *ssa.Alloc:
			n := 0
			for _, r := range *x.Referrers() {
				if st, ok := r.(*ssa.Store); ok && st.Addr == ssa.Value(x) {
					n++
				}
			}
			if n == 1 {
				return true
			}
		}
	}
	if okA && okB && la.Op == token.MUL && lb.Op == token.MUL {
		fa, okA := la.X.(*ssa.FieldAddr)
		fb, okB := lb.X.(*ssa.FieldAddr)
		if okA && okB && fa.X == fb.X && fa.Field == fb.Field {
			for _, blk := range la.Parent().Blocks {
				for _, in := range blk.Instrs {
					if st, ok := in.(*ssa.Store); ok {
						if f3, ok := st.Addr.(*ssa.FieldAddr); ok && f3.X == fa.X && f3.Field == fa.Field {
							return false
						}
					}
				}
			}
			return true
		}
	}
	return false
}

// lookupOf: v is (derived from) a lookup m[k]; returns the lookup.
func lookupOf(v ssa.Value, depth int) *ssa.Lookup {
	for i := 0; i < depth; i++ {
		switch x := v.(type) {
		case *ssa.Lookup:
			return x
		case *ssa.Extract:
			v = x.Tuple
		case *ssa.TypeAssert:
			v = x.X
		case *ssa.ChangeType:
			v = x.X
		case *ssa.MakeInterface:
			v = x.X
		default:
			return nil
		}
	}
	return nil
}

func (c *Ctx) dfltClass(f *ssa.Function, mu *ssa.MapUpdate, loops []*mapLoop) string {
	b := mu.Block()
	// current entry of an enclosing range over the same map
	for _, l := range loops {
		if l.region[b] && l.sameMap(mu.Map) && l.isIterKey(mu.Key) {
			// guarded form inside the loop (Resolve): current value is nil
			return "update of the entry the enclosing range over this map is visiting"
		}
	}
	matches := func(lk *ssa.Lookup) bool { return lk != nil && sameMapVal(lk.X, mu.Map) && sameKey(lk.Index, mu.Key) }
	for _, fct := range prog.DominatingFacts(b) {
		switch cnd := fct.Cond.(type) {
		case *ssa.Extract:
			// _, ok := m[K]
			if lk, ok := cnd.Tuple.(*ssa.Lookup); ok && cnd.Index == 1 && matches(lk) {
				if !fct.Val {
					return "guarded: reachable only when the key is absent (`_, ok := m[K]; !ok`)"
				}
			}
			// type test of the previous value
			if ta, ok := cnd.Tuple.(*ssa.TypeAssert); ok && cnd.Index == 1 && fct.Val && matches(lookupOf(ta.X, 4)) {
				return "rewrite: control dependent on a type test of the previous value of the same entry"
			}
		case *ssa.BinOp:
			if cnd.Op != token.EQL && cnd.Op != token.NEQ {
				continue
			}
			holdsEq := (cnd.Op == token.EQL) == fct.Val
			for _, side := range [][2]ssa.Value{{cnd.X, cnd.Y}, {cnd.Y, cnd.X}} {
				if !matches(lookupOf(side[0], 4)) {
					continue
				}
				if prog.IsNilConst(side[1]) && holdsEq {
					return "guarded: reachable only when the entry is nil / absent (`m[K] == nil`)"
				}
				if mi, ok := side[1].(*ssa.MakeInterface); ok && holdsEq {
					if _, isConst := mi.X.(*ssa.Const); isConst {
						return "alias: reachable only when the entry equals a specific constant"
					}
				}
				if _, isConst := side[1].(*ssa.Const); isConst && holdsEq && !prog.IsNilConst(side[1]) {
					return "alias: reachable only when the entry equals a specific constant"
				}
			}
		}
	}
	// `named` style: the ok of the lookup stored in a variable and tested later is handled by DominatingFacts (same SSA value)
	if c.valueFromLookup(mu.Value, mu, 6, map[ssa.Value]bool{}) {
		return "rewrite: the stored value is computed from the previous value of the same entry"
	}
	return ""
}

// valueFromLookup: v is derived from a lookup of the same (map, key).
func (c *Ctx) valueFromLookup(v ssa.Value, mu *ssa.MapUpdate, depth int, seen map[ssa.Value]bool) bool {
	if v == nil || depth == 0 || seen[v] {
		return false
	}
	seen[v] = true
	switch x := v.(type) {
	case *ssa.Lookup:
		return sameMapVal(x.X, mu.Map) && sameKey(x.Index, mu.Key)
	case *ssa.Const, *ssa.Parameter, *ssa.Global, *ssa.FreeVar, *ssa.MakeMap, *ssa.Alloc:
		return false
	case *ssa.Phi:
		for _, e := range x.Edges {
			if c.valueFromLookup(e, mu, depth-1, seen) {
				return true
			}
		}
		return false
	}
	in, ok := v.(ssa.Instruction)
	if !ok {
		return false
	}
	for _, op := range in.Operands(nil) {
		if *op != nil && c.valueFromLookup(*op, mu, depth-1, seen) {
			return true
		}
	}
	return false
}

// RangeGuard: for the non-overriding merges (Mapping.Merge, MappingWithEquals.Resolve,
// WithOsEnv) every update keyed by the iteration key is guarded by absence /
// by the current value being nil; for OverrideBy it is unconditional.
func (c *Ctx) RangeGuard(rule string, id string, wantGuard bool) []report.Obligation {
	var out []report.Obligation
	f := c.P.Func(id)
	if f == nil {
		return []report.Obligation{anchorViolation(rule, id)}
	}
	n := 0
	for _, l := range findMapLoops(f) {
		l.computeOwn()
		for b := range l.region {
			for _, in := range b.Instrs {
				mu, ok := in.(*ssa.MapUpdate)
				if !ok || !l.isIterKey(mu.Key) {
					continue
				}
				n++
				guarded := false
				for _, fct := range prog.DominatingFacts(b) {
					switch cnd := fct.Cond.(type) {
					case *ssa.Extract:
						if lk, ok := cnd.Tuple.(*ssa.Lookup); ok && cnd.Index == 1 && !fct.Val && sameMapVal(lk.X, mu.Map) && l.isIterKey(lk.Index) {
							guarded = true
						}
					case *ssa.BinOp:
						if (cnd.Op == token.EQL) == fct.Val && (cnd.Op == token.EQL || cnd.Op == token.NEQ) {
							if (cnd.X == l.val && prog.IsNilConst(cnd.Y)) && l.sameMap(mu.Map) {
								guarded = true
							}
						}
					}
				}
				key := id + " :: m[k] = v"
				// an overriding merge writes on EVERY iteration: the update dominates every way back to the loop head
				skipped := ""
				if !wantGuard {
					for t := range l.region {
						for _, s := range t.Succs {
							if s == l.head && t != b && !b.Dominates(t) {
								skipped = c.P.InstrPos(t.Instrs[len(t.Instrs)-1])
							}
						}
					}
				}
				switch {
				case skipped != "":
					out = append(out, bad(rule, key, c.P.InstrPos(in), "some iterations go on to the next entry without the write (the jump at "+skipped+"): an entry of the argument that meets the condition does not override the accumulated value - e.g. a key listed without a value keeps the value of an env file"))
				case wantGuard && guarded:
					out = append(out, ok2(rule, key, c.P.InstrPos(in), "written only when the key is absent / the current value is nil: existing entries win"))
				case wantGuard:
					out = append(out, bad(rule, key, c.P.InstrPos(in), "the entry is written unconditionally: an existing (higher-precedence) value is overwritten"))
				case guarded:
					out = append(out, bad(rule, key, c.P.InstrPos(in), "the overriding helper only writes absent keys: the argument no longer wins"))
				default:
					out = append(out, ok2(rule, key, c.P.InstrPos(in), "written unconditionally: the argument's entries win"))
				}
			}
		}
	}
	// maps.Copy(dst, src) is the unconditional keyed update of every entry of src
	for _, cs := range callSites(f, func(com *ssa.CallCommon) bool {
		cal := com.StaticCallee()
		if cal == nil {
			return false
		}
		o := cal.Origin()
		return o != nil && o.Pkg != nil && o.Pkg.Pkg.Name() == "maps" && o.Name() == "Copy" && !c.P.IsModulePkg(o.Pkg.Pkg)
	}) {
		n++
		key := id + " :: m[k] = v"
		if len(f.Params) == 0 || cs.Common().Args[0] != ssa.Value(f.Params[0]) {
			out = append(out, bad(rule, key, c.P.InstrPos(cs), "maps.Copy does not copy into the receiver: the direction of the override is reversed"))
			continue
		}
		if wantGuard {
			out = append(out, bad(rule, key, c.P.InstrPos(cs), "maps.Copy writes every entry unconditionally: an existing (higher-precedence) value is overwritten"))
		} else {
			out = append(out, ok2(rule, key, c.P.InstrPos(cs), "maps.Copy writes every entry unconditionally: the argument's entries win"))
		}
	}
	// delegation to the library's own merges on the environment the function holds: Mapping.Merge only adds absent
	// keys, Mapping.OverrideBy / MappingWithEquals.OverrideBy replace (each is checked by this rule where it is claimed)
	for _, cs := range callSites(f, func(com *ssa.CallCommon) bool {
		id := c.calleeID(com)
		return id == "types.(Mapping).Merge" || id == "types.(Mapping).OverrideBy" || id == "types.(MappingWithEquals).OverrideBy"
	}) {
		if f == cs.Common().StaticCallee() || loadedField(cs.Common().Args[0]) == "" {
			continue // only a merge into a field of the object the function works on (o.Environment)
		}
		n++
		key := id + " :: m[k] = v"
		guarded := c.calleeID(cs.Common()) == "types.(Mapping).Merge"
		switch {
		case wantGuard && guarded:
			out = append(out, ok2(rule, key, c.P.InstrPos(cs), "delegated to Mapping.Merge, which writes only absent keys: existing entries win"))
		case wantGuard:
			out = append(out, bad(rule, key, c.P.InstrPos(cs), "delegated to OverrideBy: an existing (higher-precedence) value is overwritten"))
		case guarded:
			out = append(out, bad(rule, key, c.P.InstrPos(cs), "delegated to Mapping.Merge, which only writes absent keys: the argument no longer wins"))
		default:
			out = append(out, ok2(rule, key, c.P.InstrPos(cs), "delegated to OverrideBy: the argument's entries win"))
		}
	}
	if n == 0 {
		out = append(out, bad(rule, id+" :: keyed update present", c.P.Pos(f.Pos()), "no update keyed by the iteration key found"))
	}
	return out
}
