package rules

import (
	"encoding/json"
	"fmt"
	"go/types"
	"os"
	"path/filepath"
	"sort"
	"strings"

	"golang.org/x/tools/go/ssa"
	"verifcheck/internal/prog"
	"verifcheck/internal/report"
	"verifcheck/internal/tab"
)

type tabData struct {
	schema *tab.Schema
	model  *tab.Model
	tables map[string]*tab.Table
	err    error
}

// Table names used by the rules (resolved from the source, see tab.ExtractTables).
const (
	TMerge     = "override.mergeSpecials"
	TUnique    = "override.unique"
	TTransform = "transform.transformers"
	TDefaults  = "transform.defaultValues"
	TCast      = "loader.interpolateTypeCastMapping"
	TResolvers = "paths.relativePathsResolver.resolvers"
	TChecks    = "validation.checks"
	TOmit      = "loader.omitempty"
	TUserKeys  = "loader.userDefinedKeys"
)

var firstMatchTables = []string{TMerge, TUnique, TTransform, TDefaults, TCast, TResolvers, TChecks}

func (c *Ctx) tab() *tabData {
	if c.tabd != nil {
		return c.tabd
	}
	d := &tabData{}
	c.tabd = d
	d.schema, d.err = tab.LoadSchema(filepath.Join(c.P.Dir, "schema", "compose-spec.json"))
	if d.err != nil {
		return d
	}
	d.model, d.err = tab.ExtractModel(c.P)
	if d.err != nil {
		return d
	}
	d.tables, d.err = tab.ExtractTables(c.P)
	if d.err == nil {
		// a table whose variable was renamed keeps its identity: the reference snapshot (tables.json) records the
		// element type of each table; a missing name is given to the only unknown table of the same package and type
		if c.VerifDir != "" {
			if b, err := os.ReadFile(filepath.Join(c.VerifDir, "tables.json")); err == nil {
				ref := map[string]tab.TableRef{}
				if json.Unmarshal(b, &ref) == nil {
					var names []string
					for name := range ref {
						names = append(names, name)
					}
					sort.Strings(names)
					taken := map[string]bool{}
					for _, name := range names {
						if d.tables[name] != nil {
							continue
						}
						pkg := name[:strings.Index(name, ".")+1]
						want := map[string]bool{}
						for _, p := range ref[name].Patterns {
							want[p] = true
						}
						best, bestScore, tie := "", 0.0, false
						for n2, t2 := range d.tables {
							if _, known := ref[n2]; known || taken[n2] || !strings.HasPrefix(n2, pkg) || t2.ValType != ref[name].ValType {
								continue
							}
							inter := 0
							for _, row := range t2.Rows {
								if want[row.Pattern] {
									inter++
								}
							}
							score := float64(inter+1) / float64(len(want)+len(t2.Rows)-inter+1)
							switch {
							case score > bestScore:
								best, bestScore, tie = n2, score, false
							case score == bestScore:
								tie = true
							}
						}
						if best != "" && !tie && bestScore >= 0.3 {
							d.tables[name] = d.tables[best]
							taken[best] = true
							c.Notes = append(c.Notes, "table "+best+" is "+name+" of the reference tree, renamed")
						}
					}
				}
			}
		}
		c.Stats["schema.paths"] = len(d.schema.Nodes)
		c.Stats["model.paths"] = len(d.model.Nodes)
		for n, t := range d.tables {
			c.Stats["table."+n+".rows"] = len(t.Rows)
		}
	}
	return d
}

func (c *Ctx) tabErr(rule string) []report.Obligation {
	return []report.Obligation{{Rule: rule, Key: "extraction", Status: report.Violation, Why: "schema/model/table extraction failed: " + c.tab().err.Error()}}
}

// table returns the named table or an anchor violation.
func (c *Ctx) table(rule, name string, out *[]report.Obligation) *tab.Table {
	t := c.tab().tables[name]
	if t == nil || len(t.Rows) == 0 {
		*out = append(*out, anchorViolation(rule, "table "+name))
		return nil
	}
	for _, e := range t.Errs {
		*out = append(*out, report.Obligation{Rule: rule, Key: name + " :: non-constant row", Status: report.Violation, Why: e})
	}
	return t
}

func (c *Ctx) findRow(t *tab.Table, schemaPath string) *tab.Row {
	if t == nil {
		return nil
	}
	for i := range t.Rows {
		if tab.MatchPattern(schemaPath, t.Rows[i].Pattern) {
			return &t.Rows[i]
		}
	}
	return nil
}

// A1: pairwise exclusivity inside each first-match table. Two overlapping
// patterns bound to different functions make the `for pattern, f := range
// table { if p.Matches(pattern) ... }` loop depend on map iteration order.
func (c *Ctx) A1(rule string, tables ...string) []report.Obligation {
	var out []report.Obligation
	if c.tab().err != nil {
		return c.tabErr(rule)
	}
	for _, name := range tables {
		t := c.table(rule, name, &out)
		if t == nil {
			continue
		}
		pairs, bad := 0, 0
		for i := 0; i < len(t.Rows); i++ {
			for j := i + 1; j < len(t.Rows); j++ {
				a, b := t.Rows[i], t.Rows[j]
				pairs++
				if a.Pattern == b.Pattern {
					// same key assigned twice: one map entry, the later assignment wins (deterministic)
					out = append(out, report.Obligation{Rule: rule, Key: name + " :: duplicate key " + a.Pattern, Status: report.Info, Pos: b.Pos,
						Why: "key assigned twice (" + a.Func + ", " + b.Func + "); a single map entry, the later assignment wins"})
					continue
				}
				if tab.PatternsOverlap(a.Pattern, b.Pattern) && a.Func != b.Func {
					bad++
					out = append(out, report.Obligation{Rule: rule, Key: name + " :: overlap " + a.Pattern + " ~ " + b.Pattern, Status: report.Violation, Pos: b.Pos,
						Why: fmt.Sprintf("patterns overlap and bind different functions (%s vs %s): the first-match loop over the map picks either, depending on iteration order", a.Func, b.Func)})
				}
			}
		}
		out = append(out, report.Obligation{Rule: rule, Key: name + " :: exclusive", Status: statusIf(bad == 0), Why: fmt.Sprintf("%d rows, %d pattern pairs compared under Path.Matches semantics, %d overlapping", len(t.Rows), pairs, bad)})
		c.Stats[rule+".pairs"] += pairs
	}
	return out
}

func statusIf(ok bool) report.Status {
	if ok {
		return report.Discharged
	}
	return report.Violation
}

// A2: every pattern of the given tables denotes at least one schema path.
func (c *Ctx) A2(rule string, tables ...string) []report.Obligation {
	var out []report.Obligation
	d := c.tab()
	if d.err != nil {
		return c.tabErr(rule)
	}
	for _, name := range tables {
		t := c.table(rule, name, &out)
		if t == nil {
			continue
		}
		seen := map[string]bool{}
		for _, r := range t.Rows {
			if seen[r.Pattern] {
				continue
			}
			seen[r.Pattern] = true
			n := 0
			for sp := range d.schema.Nodes {
				if tab.MatchPattern(sp, r.Pattern) {
					n++
				}
			}
			o := report.Obligation{Rule: rule, Key: name + " :: " + r.Pattern, Pos: r.Pos}
			if n > 0 {
				o.Status = report.Discharged
				o.Why = fmt.Sprintf("matches %d schema path(s)", n)
			} else {
				o.Status = report.Violation
				o.Why = "dead row: the pattern matches no attribute path of schema/compose-spec.json, so the rule bound to it (" + r.Func + ") can never apply to a schema-valid document"
			}
			out = append(out, o)
		}
	}
	return out
}

// resourceRoots are the sections the override rules of C04 speak about.
var resourceRoots = []string{"services", "networks", "volumes", "secrets", "configs"}

func underResourceRoot(p string) bool {
	for _, r := range resourceRoots {
		if strings.HasPrefix(p, r+".") {
			return true
		}
	}
	return false
}

func hasListSeg(p string) bool {
	for _, s := range strings.Split(p, ".") {
		if s == "[]" {
			return true
		}
	}
	return false
}

// mergeKind classifies a merger function by what it does with its operands.
func (c *Ctx) mergerClass(fn *ssa.Function) string {
	if fn == nil {
		return "unknown"
	}
	// replace: returns its second parameter unchanged on every path
	allSecond := len(fn.Params) >= 2
	for _, b := range fn.Blocks {
		if ret, ok := b.Instrs[len(b.Instrs)-1].(*ssa.Return); ok {
			if len(ret.Results) == 0 || ret.Results[0] != ssa.Value(fn.Params[1]) {
				allSecond = false
			}
		}
	}
	if allSecond {
		return "replace"
	}
	// what the merger calls, directly or through helpers of its own package it delegates to (two levels)
	callsConv := map[string]bool{}
	seen := map[*ssa.Function]bool{}
	var scan func(f *ssa.Function, d int)
	scan = func(f *ssa.Function, d int) {
		if f == nil || seen[f] || d == 0 || f.Blocks == nil {
			return
		}
		seen[f] = true
		for _, b := range f.Blocks {
			for _, in := range b.Instrs {
				call, ok := in.(*ssa.Call)
				if !ok {
					continue
				}
				if cal := call.Call.StaticCallee(); cal != nil && c.P.InModule(cal) {
					rn := c.P.RefName(cal)
					callsConv[rn] = true
					if cal.Pkg == fn.Pkg && rn != "mergeMappings" && rn != "mergeYaml" {
						scan(cal, d-1)
					}
				}
				// membership test before the append, by == or by a predicate
				if sn := staticName(&call.Call); strings.HasSuffix(sn, "slices.Contains") || strings.HasSuffix(sn, "slices.ContainsFunc") {
					callsConv["slices.Contains"] = true
				}
			}
		}
	}
	scan(fn, 3)
	switch {
	case callsConv["convertIntoSequence"] && callsConv["slices.Contains"]:
		return "self-dedup"
	case callsConv["convertIntoMapping"] || callsConv["mergeMappings"]:
		return "mapping"
	case callsConv["convertIntoSequence"]:
		return "sequence"
	}
	return "other"
}

// A4: merge coverage (C04).
func (c *Ctx) A4(rule string) []report.Obligation {
	var out []report.Obligation
	d := c.tab()
	if d.err != nil {
		return c.tabErr(rule)
	}
	merge := c.table(rule, TMerge, &out)
	uniq := c.table(rule, TUnique, &out)
	if merge == nil || uniq == nil {
		return out
	}
	for _, sp := range d.schema.Paths() {
		n := d.schema.Nodes[sp]
		if !underResourceRoot(sp) || hasListSeg(sp) {
			continue // mergeYaml and enforceUnicity descend through mappings only
		}
		if anc := c.consumingAncestor(merge, sp); anc != nil {
			continue // an ancestor's merger handles the whole subtree without descending by path
		}
		row := c.findRow(merge, sp)
		// (i) dual spelling: list vs mapping, or string vs list
		dual := ""
		switch {
		case n.Kinds[tab.KArray] && n.Kinds[tab.KObject]:
			dual = "array|object"
		case n.Kinds[tab.KArray] && n.Kinds[tab.KString]:
			dual = "string|array"
		case n.Kinds[tab.KObject] && (n.Kinds[tab.KString] || n.Kinds[tab.KInt] || n.Kinds[tab.KNumber] || n.Kinds[tab.KBool]):
			dual = "scalar|object"
		case n.Kinds[tab.KArray] && (n.Kinds[tab.KInt] || n.Kinds[tab.KNumber] || n.Kinds[tab.KBool]):
			dual = "scalar|array"
		}
		if dual != "" {
			o := report.Obligation{Rule: rule + "-merge", Key: TMerge + " :: " + sp}
			if tr := c.findRow(c.tabTransformers(), sp); tr != nil && tr.Fn != nil && row == nil && dual == "scalar|object" {
				// the transformer registered at this very path turns the scalar spelling into a mapping
				builds := false
				for _, r := range returnsOf(tr.Fn) {
					v := retValue(r, 0)
					if mi, isMI := v.(*ssa.MakeInterface); isMI {
						v = mi.X
					}
					if _, isMk := v.(*ssa.MakeMap); isMk {
						builds = true
					}
				}
				if builds {
					o.Status, o.Pos = report.Discharged, tr.Pos
					o.Why = "schema admits " + dual + "; canonical transformer " + tr.Func + " turns the scalar spelling into a mapping before files are merged"
					out = append(out, o)
					continue
				}
			}
			if i := strings.LastIndex(sp, "."); i > 0 && row == nil && strings.HasPrefix(dual, "scalar|") {
				// each file is brought to canonical form before it is merged: when the transformer of the enclosing
				// mapping rewrites this very key, the merge only ever sees one kind
				if tr := c.findRow(c.tabTransformers(), sp[:i]); tr != nil && tr.Fn != nil {
					rewrites := false
					for _, k := range constMapUpdateKeys(tr.Fn) {
						if k == sp[i+1:] {
							rewrites = true
						}
					}
					if rewrites {
						o.Status, o.Pos = report.Discharged, tr.Pos
						o.Why = "schema admits " + dual + "; canonical transformer " + tr.Func + " rewrites `" + sp[i+1:] + "` to one spelling before files are merged"
						out = append(out, o)
						continue
					}
				}
			}
			if row != nil {
				o.Status, o.Pos = report.Discharged, row.Pos
				o.Why = "schema admits " + dual + "; converting merger " + row.Func + " (" + c.mergerClass(row.Fn) + ")"
			} else {
				o.Status = report.Violation
				o.Why = "schema admits " + dual + " at this path but mergeSpecials has no row: the default rule answers `cannot override` when base and override use different spellings"
			}
			out = append(out, o)
		}
		// (ii) uniqueItems lists are de-duplicated after the append
		if n.Kinds[tab.KArray] && n.UniqueItems {
			o := report.Obligation{Rule: rule + "-unique", Key: TUnique + " :: " + sp}
			urow := c.findRow(uniq, sp)
			cls := ""
			if row != nil {
				cls = c.mergerClass(row.Fn)
			}
			switch {
			case urow != nil:
				o.Status, o.Pos = report.Discharged, urow.Pos
				o.Why = "uniqueItems list de-duplicated by indexer " + urow.Func
			case cls == "mapping":
				o.Status, o.Pos = report.Discharged, row.Pos
				o.Why = "merger " + row.Func + " produces a mapping: keys are unique by construction"
			case cls == "replace":
				o.Status, o.Pos = report.Discharged, row.Pos
				o.Why = "merger replaces the value: nothing is appended"
			case cls == "self-dedup":
				o.Status, o.Pos = report.Discharged, row.Pos
				o.Why = "merger " + row.Func + " filters entries already present (slices.Contains / ContainsFunc) before appending"
			default:
				o.Status = report.Violation
				o.Why = "schema demands uniqueItems, sequences are appended on merge, and no unicity indexer (nor a mapping-producing merger) is registered: two files repeating an entry fail validation instead of collapsing it"
			}
			out = append(out, o)
		}
	}
	// (iii) replace-wholesale attributes
	for _, sp := range []string{"services.*.command", "services.*.entrypoint", "services.*.healthcheck.test"} {
		row := c.findRow(merge, sp)
		o := report.Obligation{Rule: rule + "-replace", Key: TMerge + " :: " + sp}
		switch {
		case d.schema.Nodes[sp] == nil:
			o.Status, o.Why = report.Violation, "attribute named by the property is not in the schema"
		case row == nil:
			o.Status, o.Why = report.Violation, "no mergeSpecials row: the attribute would be appended/merged instead of replaced"
		case c.mergerClass(row.Fn) != "replace":
			o.Status, o.Pos, o.Why = report.Violation, row.Pos, "bound to "+row.Func+" which does not return the overriding value unchanged"
		default:
			o.Status, o.Pos, o.Why = report.Discharged, row.Pos, "bound to "+row.Func+" which returns its second operand on every path"
		}
		out = append(out, o)
	}
	// (iv) each indexer has an arm for every kind the schema admits for the list items
	for _, r := range uniq.Rows {
		si := tab.AnalyseSwitch(c.P, r.Fn, 0)
		for _, sp := range d.schema.Paths() {
			if !tab.MatchPattern(sp, r.Pattern) {
				continue
			}
			items := d.schema.Nodes[sp+".[]"]
			if items == nil {
				continue
			}
			for _, k := range items.KindList() {
				o := report.Obligation{Rule: rule + "-indexer", Key: TUnique + " :: " + sp + " item kind " + k + " -> " + r.Func, Pos: r.Pos}
				// a `number` item is taken by the int arm: fractional ports / expose values have no meaning, and the
				// indexers answer them with an error, not a crash
				if k == "any" || si.Accepts(tab.Kind(k)) || (k == "number" && si.Cases[tab.KInt]) || si.Default == "passthrough" || len(si.GoCases) == 0 {
					o.Status = report.Discharged
					o.Why = "indexer has an arm for this kind"
					if len(si.GoCases) == 0 {
						o.Why = "indexer does not dispatch on the dynamic type (formats any value)"
					}
				} else {
					o.Status = report.Violation
					o.Why = fmt.Sprintf("schema admits %s items but the indexer only handles %v (default: %s)", k, si.GoCases, si.Default)
				}
				out = append(out, o)
			}
		}
	}
	return out
}

// consumingAncestor returns the mergeSpecials row of a strict ancestor of sp
// whose merger does not continue the path-keyed descent (it does not reach
// mergeMappings), so that no rule keyed by a longer path can apply below it.
func (c *Ctx) consumingAncestor(merge *tab.Table, sp string) *tab.Row {
	segs := strings.Split(sp, ".")
	for i := len(segs) - 1; i >= 1; i-- {
		if r := c.findRow(merge, strings.Join(segs[:i], ".")); r != nil {
			if !c.reachesFunc(r.Fn, "override.mergeMappings", 3) {
				return r
			}
			return nil
		}
	}
	return nil
}

// reachesFunc: fn calls target (statically) within depth calls.
func (c *Ctx) reachesFunc(fn *ssa.Function, target string, depth int) bool {
	if fn == nil || depth < 0 {
		return false
	}
	for _, b := range fn.Blocks {
		for _, in := range b.Instrs {
			call, ok := in.(ssa.CallInstruction)
			if !ok {
				continue
			}
			cal := call.Common().StaticCallee()
			if cal == nil {
				continue
			}
			if c.P.FuncID(cal) == target {
				return true
			}
			if c.P.InModule(cal) && c.reachesFunc(cal, target, depth-1) {
				return true
			}
		}
	}
	return false
}

// ancestorDecoder returns the nearest strict ancestor of sp whose model type has a custom decoder.
func (c *Ctx) ancestorDecoder(sp string) *tab.ModelNode {
	segs := strings.Split(sp, ".")
	for i := len(segs) - 1; i >= 1; i-- {
		if mn := c.tab().model.Nodes[strings.Join(segs[:i], ".")]; mn != nil && mn.Decoder != nil {
			return mn
		}
	}
	return nil
}

// decoderAsserts: the basic types a hand-written decoder asserts for the member it looks up under the constant key.
func decoderAsserts(dec *ssa.Function, key string) map[string]bool {
	out := map[string]bool{}
	if dec == nil {
		return out
	}
	for _, b := range dec.Blocks {
		for _, in := range b.Instrs {
			ta, ok := in.(*ssa.TypeAssert)
			if !ok {
				continue
			}
			lk := lookupOf(ta.X, 3)
			if lk == nil {
				continue
			}
			if k, _ := prog.ConstString(lk.Index); k != key {
				continue
			}
			if bt, isB := ta.AssertedType.Underlying().(*types.Basic); isB {
				out[bt.Name()] = true
			}
		}
	}
	return out
}

// goScalarKind names the scalar Go kind of a model type ("" when not a scalar).
func goScalarKind(t types.Type) string {
	if t == nil {
		return ""
	}
	if p, ok := t.(*types.Pointer); ok {
		t = p.Elem()
	}
	b, ok := t.Underlying().(*types.Basic)
	if !ok {
		return ""
	}
	return b.Name()
}

// castResultKind reads what a cast function returns (bool / int / int64 / float32 / float64).
func (c *Ctx) castResultKind(fn *ssa.Function) string {
	if fn == nil {
		return ""
	}
	kinds := map[string]bool{}
	var visit func(v ssa.Value, depth int)
	visit = func(v ssa.Value, depth int) {
		switch x := v.(type) {
		case *ssa.MakeInterface:
			if b, ok := x.X.Type().Underlying().(*types.Basic); ok {
				kinds[b.Name()] = true
			}
		case *ssa.Extract:
			if call, ok := x.Tuple.(*ssa.Call); ok && depth < 3 {
				if cal := call.Call.StaticCallee(); cal != nil {
					res := cal.Signature.Results()
					if x.Index < res.Len() {
						if b, ok := res.At(x.Index).Type().Underlying().(*types.Basic); ok {
							kinds[b.Name()] = true
						}
					}
				}
			}
		case *ssa.Phi:
			for _, e := range x.Edges {
				visit(e, depth+1)
			}
		}
	}
	for _, b := range fn.Blocks {
		if ret, ok := b.Instrs[len(b.Instrs)-1].(*ssa.Return); ok && len(ret.Results) > 0 {
			visit(ret.Results[0], 0)
		}
	}
	var ks []string
	for k := range kinds {
		ks = append(ks, k)
	}
	sort.Strings(ks)
	return strings.Join(ks, "|")
}

// hookKinds reads the Go kinds the decode-time `cast` hook converts a string to
// (the reflect.Kind constants compared against to.Kind() inside the
// reflect.String arm of loader.cast).
func (c *Ctx) hookKinds(out *[]report.Obligation, rule string) map[string]bool {
	fn := c.P.Func("loader.cast")
	if fn == nil {
		*out = append(*out, anchorViolation(rule, "loader.cast"))
		return nil
	}
	names := map[int64]string{1: "bool", 2: "int", 3: "int8", 4: "int16", 5: "int32", 6: "int64", 7: "uint", 8: "uint8", 9: "uint16", 10: "uint32", 11: "uint64", 13: "float32", 14: "float64", 24: "string"}
	res := map[string]bool{}
	// find comparisons (to.Kind() == K) that are control dependent on (from.Kind() == reflect.String)
	for _, b := range fn.Blocks {
		for _, in := range b.Instrs {
			bo, ok := in.(*ssa.BinOp)
			if !ok || bo.Op.String() != "==" {
				continue
			}
			cst, ok := bo.Y.(*ssa.Const)
			if !ok || cst.Value == nil {
				continue
			}
			call, ok := bo.X.(*ssa.Call)
			if !ok || call.Call.StaticCallee() == nil || call.Call.StaticCallee().Name() != "Kind" {
				continue
			}
			// receiver must be the `to` parameter (Param#1)
			if len(call.Call.Args) == 0 || len(fn.Params) < 2 || call.Call.Args[0] != ssa.Value(fn.Params[1]) {
				continue
			}
			// must sit under the string arm: some dominating fact compares a Kind() of from with 24
			under := false
			for _, f := range dominatingFactsOf(b) {
				if fb, ok := f.Cond.(*ssa.BinOp); ok && f.Val {
					if fc, ok := fb.Y.(*ssa.Const); ok && fc.Value != nil && fc.Int64() == 24 {
						under = true
					}
				}
			}
			if under {
				if n, ok := names[cst.Int64()]; ok {
					res[n] = true
				}
			}
		}
	}
	return res
}

// A5: cast coverage (C08). For every schema path that admits a string beside a
// typed scalar and whose model type is a Go scalar, a string is convertible:
// cast-table row with a fitting result kind, or the decode-time hook covers the
// Go kind, or the type's decoder has a string arm.
func (c *Ctx) A5(rule string) []report.Obligation {
	var out []report.Obligation
	d := c.tab()
	if d.err != nil {
		return c.tabErr(rule)
	}
	cast := c.table(rule, TCast, &out)
	transformers := c.table(rule, TTransform, &out)
	if cast == nil || transformers == nil {
		return out
	}
	hook := c.hookKinds(&out, rule)
	if hook == nil {
		return out
	}
	var hk []string
	for k := range hook {
		hk = append(hk, k)
	}
	sort.Strings(hk)
	c.Notef("decode-time cast hook converts strings to Go kinds %v", hk)
	var fits func(castKind, goKind string) bool
	fits = func(castKind, goKind string) bool {
		if castKind == "" {
			return false
		}
		for _, ck := range strings.Split(castKind, "|") {
			switch {
			case ck == goKind:
				return true
			case strings.HasPrefix(ck, "int") && (strings.HasPrefix(goKind, "int") || strings.HasPrefix(goKind, "uint") || strings.HasPrefix(goKind, "float")):
				return true // mapstructure converts between numeric kinds in strict mode
			case strings.HasPrefix(ck, "float") && (strings.HasPrefix(goKind, "float") || strings.HasPrefix(goKind, "int") || strings.HasPrefix(goKind, "uint")):
				return true
			}
		}
		return false
	}
	// inside a value decoded by hand no numeric conversion happens: the caster must yield the very type the decoder
	// asserts for that member (`hard.(int)`), else exactly the Go kind of the field
	loose := fits
	fits = func(castKind, goKind string) bool { return loose(castKind, goKind) }
	fitsAt := func(sp, castKind, goKind string) bool {
		ad := c.ancestorDecoder(sp)
		if ad == nil || castKind == "" {
			return loose(castKind, goKind)
		}
		segs := strings.Split(sp, ".")
		want := decoderAsserts(ad.Decoder, segs[len(segs)-1])
		if len(want) == 0 {
			want = map[string]bool{goKind: true}
		}
		for _, ck := range strings.Split(castKind, "|") {
			if !want[ck] {
				return false
			}
		}
		return true
	}
	for _, sp := range d.schema.Paths() {
		n := d.schema.Nodes[sp]
		if !n.Kinds[tab.KString] || !(n.Kinds[tab.KBool] || n.Kinds[tab.KInt] || n.Kinds[tab.KNumber]) {
			continue
		}
		mn := d.model.Nodes[sp]
		if mn == nil {
			continue // A7 reports attributes without a model field
		}
		gk := goScalarKind(mn.Type)
		o := report.Obligation{Rule: rule, Key: "typed-or-string :: " + sp}
		row := c.findRow(cast, sp)
		switch {
		case gk == "string":
			continue // model keeps the text: nothing to convert
		case gk == "" && mn.Decoder != nil:
			si := tab.AnalyseSwitch(c.P, mn.Decoder, 1)
			if si.Accepts(tab.KString) {
				o.Status, o.Why = report.Discharged, "decoder "+c.P.FuncID(mn.Decoder)+" has a string arm"
			} else if row != nil {
				o.Status, o.Why = report.Discharged, "cast row "+row.Func
			} else {
				o.Status, o.Why = report.Violation, "schema admits a string, the decoder "+c.P.FuncID(mn.Decoder)+" has no string arm and no cast row exists"
			}
		case gk == "":
			continue // not a scalar in the model (e.g. a struct or list): other rules
		case row != nil && fitsAt(sp, c.castResultKind(row.Fn), gk):
			o.Status, o.Pos = report.Discharged, row.Pos
			o.Why = fmt.Sprintf("cast row %s yields %s for Go %s", row.Func, c.castResultKind(row.Fn), gk)
		case row != nil:
			o.Status, o.Pos = report.Violation, row.Pos
			o.Why = fmt.Sprintf("cast row %s yields %s which does not fit Go %s", row.Func, c.castResultKind(row.Fn), gk)
		case c.ancestorDecoder(sp) != nil:
			ad := c.ancestorDecoder(sp)
			o.Status = report.Violation
			o.Why = fmt.Sprintf("schema admits a string here, there is no cast row, and the enclosing value is decoded by hand in %s (the decode-time hook does not run inside a custom decoder): a string reaches code written for Go %s", c.P.FuncID(ad.Decoder), gk)
		case hook[gk]:
			o.Status = report.Discharged
			o.Why = "no cast row, but the decode-time hook converts string -> " + gk
		default:
			o.Status = report.Violation
			o.Why = fmt.Sprintf("schema admits a string here (so `${VAR}` is legal), the model type is Go %s, but neither the interpolation cast table nor the decode-time hook (kinds %v) converts a string to it: the literal loads, the variable form fails", gk, hk)
		}
		out = append(out, o)
	}
	// every cast row names an existing scalar path whose kind fits
	for _, r := range cast.Rows {
		matched := 0
		for _, sp := range d.schema.Paths() {
			if !tab.MatchPattern(sp, r.Pattern) {
				continue
			}
			matched++
			mn := d.model.Nodes[sp]
			o := report.Obligation{Rule: rule + "-row", Key: TCast + " :: " + r.Pattern + " -> " + sp, Pos: r.Pos}
			ck := c.castResultKind(r.Fn)
			switch {
			case mn == nil:
				o.Status, o.Why = report.Info, "no model field at this path"
			case goScalarKind(mn.Type) == "" && mn.Decoder != nil:
				o.Status, o.Why = report.Discharged, "model type decodes through "+c.P.FuncID(mn.Decoder)
			case goScalarKind(mn.Type) == "":
				o.Status, o.Why = report.Info, "model type "+mn.TypeStr+" is not a scalar"
			case fitsAt(sp, ck, goScalarKind(mn.Type)):
				o.Status, o.Why = report.Discharged, fmt.Sprintf("cast yields %s, model is Go %s", ck, goScalarKind(mn.Type))
			default:
				o.Status, o.Why = report.Violation, fmt.Sprintf("cast yields %s, model is Go %s", ck, goScalarKind(mn.Type))
			}
			out = append(out, o)
		}
		if matched == 0 {
			out = append(out, report.Obligation{Rule: rule + "-row", Key: TCast + " :: " + r.Pattern, Status: report.Violation, Pos: r.Pos,
				Why: "cast row matches no schema path"})
		}
	}
	return out
}

// coveringTransformer: a transformer registered for sp or for an ancestor of sp.
func (c *Ctx) coveringTransformer(t *tab.Table, sp string) *tab.Row {
	segs := strings.Split(sp, ".")
	for i := len(segs); i >= 1; i-- {
		if r := c.findRow(t, strings.Join(segs[:i], ".")); r != nil {
			return r
		}
	}
	return nil
}

// tabTransformers: the canonical transformer table (nil-safe for findRow when it cannot be read).
func (c *Ctx) tabTransformers() *tab.Table {
	var sink []report.Obligation
	return c.table("A4", TTransform, &sink)
}
