package rules

import (
	"fmt"
	"go/token"
	"go/types"
	"sort"
	"strings"

	"golang.org/x/tools/go/ssa"
	"verifcheck/internal/prog"
	"verifcheck/internal/report"
)

// PanicTA: every unchecked type assertion (x.(T) without comma-ok) in code
// reachable from the entry sets is an obligation. It is discharged when the
// operand's dynamic type is provably T on every path (dyntype.go); everything
// else is undischarged and must be justified, a known finding, or a violation.
func (c *Ctx) PanicTA(rule string, entry ...string) []report.Obligation {
	var out []report.Obligation
	r, missing := c.Reach(entry...)
	for _, m := range missing {
		out = append(out, anchorViolation(rule, m))
	}
	for _, f := range r.Sorted(c.P) {
		for _, b := range f.Blocks {
			for _, in := range b.Instrs {
				ta, ok := in.(*ssa.TypeAssert)
				if !ok || ta.CommaOk {
					continue
				}
				o := report.Obligation{Rule: rule, Pos: c.P.InstrPos(ta),
					Key:  c.P.FuncID(f) + " :: " + c.P.KeyTerm(ta, 5),
					Path: r.Path(c.P, f)}
				if isBoundMethodNilCheck(ta) {
					o.Status = report.Discharged
					o.Why = "implicit non-nil check of an interface whose method value is taken; the operand is an element of a []ResourceLoader configured by the API user, not input data"
					// still an obligation of sorts: keep it visible but discharged only for
					// the ResourceLoader interface of package loader
					if !c.isLoaderResourceLoader(ta.AssertedType) {
						o.Status = report.Violation
						o.Why = "method value taken on a possibly nil interface"
					}
				} else if ok, why := c.dyn.AssertSafe(ta); ok {
					o.Status = report.Discharged
					o.Why = why
				} else {
					o.Status = report.Violation
					o.Why = "unchecked type assertion on a value whose dynamic type is not established on every path: panics when the operand is not " + c.P.TypeStr(ta.AssertedType)
				}
				out = append(out, o)
			}
		}
	}
	c.Stats[rule+".functions"] = len(r.Set)
	return out
}

// isBoundMethodNilCheck recognises the assertion go/ssa inserts for `iface.Method`
// used as a value: x.(I) with I the static type of x, whose only use is a closure of a bound-method thunk.
func isBoundMethodNilCheck(ta *ssa.TypeAssert) bool {
	if !types.IsInterface(ta.AssertedType) || !types.Identical(ta.X.Type(), ta.AssertedType) {
		return false
	}
	refs := ta.Referrers()
	return refs == nil || len(*refs) == 0
}

func (c *Ctx) isLoaderResourceLoader(t types.Type) bool {
	n, ok := t.(*types.Named)
	return ok && n.Obj().Name() == "ResourceLoader" && c.P.Rel(n.Obj().Pkg()) == "loader"
}

var _ = prog.Info

// ---------------------------------------------------------------------------
// PANIC-CMP: comparing two interface values panics at run time when both hold
// the same uncomparable dynamic type (a YAML list or mapping: []any,
// map[string]any). Sites: `==` / `!=` (and switch cases) on two values of an
// empty-interface type, generic library functions that compare elements
// (slices.Contains / Index / Equal / Compact) instantiated at an interface
// type, and map accesses with an interface-typed key. A site is safe when one
// operand can only hold comparable types (a constant, a converted string / int
// / bool, or a value whose inferred dynamic types are all comparable).
// ---------------------------------------------------------------------------

func comparableDyn(t types.Type) bool {
	switch u := t.Underlying().(type) {
	case *types.Basic, *types.Pointer, *types.Chan:
		return true
	case *types.Struct:
		for i := 0; i < u.NumFields(); i++ {
			if !comparableDyn(u.Field(i).Type()) {
				return false
			}
		}
		return true
	case *types.Array:
		return comparableDyn(u.Elem())
	}
	return false // slices, maps, funcs; interfaces are not dynamic types
}

func isEmptyInterface(t types.Type) bool {
	it, ok := t.Underlying().(*types.Interface)
	return ok && it.NumMethods() == 0
}

// onlyComparable: every dynamic type v can hold at block at is comparable.
func (c *Ctx) onlyComparable(v ssa.Value, at *ssa.BasicBlock) bool {
	if _, isC := v.(*ssa.Const); isC {
		return true // nil, or an untyped constant converted to the interface
	}
	ts := c.dyn.At(v, at, nil, 3)
	if ts.Top {
		return false
	}
	for _, t := range ts.Ts {
		if !comparableDyn(t) {
			return false
		}
	}
	return true
}

var comparingGenerics = map[string]bool{"Contains": true, "Index": true, "Equal": true, "Compact": true, "Compare": true}

func (c *Ctx) PanicCMP(rule string, entry ...string) []report.Obligation {
	var out []report.Obligation
	r, missing := c.Reach(entry...)
	for _, m := range missing {
		out = append(out, anchorViolation(rule, m))
	}
	n := 0
	for _, f := range r.Sorted(c.P) {
		for _, b := range f.Blocks {
			for _, in := range b.Instrs {
				switch x := in.(type) {
				case *ssa.BinOp:
					if x.Op != token.EQL && x.Op != token.NEQ {
						continue
					}
					if !isEmptyInterface(x.X.Type()) || !isEmptyInterface(x.Y.Type()) {
						continue
					}
					if prog.IsNilConst(x.X) || prog.IsNilConst(x.Y) {
						continue
					}
					n++
					key := c.P.FuncID(f) + " :: " + c.P.KeyTerm(x.X, 2) + " " + x.Op.String() + " " + c.P.KeyTerm(x.Y, 2)
					safe := c.onlyComparable(x.X, b) || c.onlyComparable(x.Y, b)
					out = append(out, report.Obligation{Rule: rule, Key: key, Pos: c.P.InstrPos(x), Path: r.Path(c.P, f), Status: statusOf(safe),
						Why: pick(safe, "one operand can only hold comparable dynamic types", "both operands are interface values whose dynamic type can be a list or a mapping: when both hold one (e.g. `[a]` on both sides) the comparison panics with `comparing uncomparable type`")})
				case *ssa.Call:
					callee := x.Call.StaticCallee()
					if callee == nil || callee.Pkg == nil && callee.Origin() == nil {
						continue
					}
					o := callee.Origin()
					if o == nil || o.Pkg == nil || (o.Pkg.Pkg.Name() != "slices" && o.Pkg.Pkg.Name() != "maps") || c.P.IsModulePkg(o.Pkg.Pkg) || !comparingGenerics[o.Name()] {
						continue
					}
					iface := false
					for _, ta := range callee.TypeArgs() {
						if types.IsInterface(ta) {
							iface = true
						}
					}
					if !iface {
						continue
					}
					n++
					key := c.P.FuncID(f) + " :: " + o.Pkg.Pkg.Name() + "." + o.Name() + " on interface elements"
					out = append(out, report.Obligation{Rule: rule, Key: key, Pos: c.P.InstrPos(x), Path: r.Path(c.P, f), Status: report.Violation,
						Why: o.Pkg.Pkg.Path() + "." + o.Name() + " compares elements with ==; instantiated at an interface type it panics when two elements hold the same uncomparable dynamic type (a list or a mapping)"})
				case *ssa.Lookup:
					if mt, ok := x.X.Type().Underlying().(*types.Map); ok && types.IsInterface(mt.Key()) {
						n++
						safe := c.onlyComparable(x.Index, b)
						out = append(out, report.Obligation{Rule: rule, Key: c.P.FuncID(f) + " :: " + c.P.KeyTerm(x, 3), Pos: c.P.InstrPos(x), Path: r.Path(c.P, f), Status: statusOf(safe),
							Why: pick(safe, "the key can only hold hashable dynamic types", "map access with an interface key whose dynamic type can be unhashable: panics with `hash of unhashable type`")})
					}
				case *ssa.MapUpdate:
					if mt, ok := x.Map.Type().Underlying().(*types.Map); ok && types.IsInterface(mt.Key()) {
						n++
						safe := c.onlyComparable(x.Key, b)
						out = append(out, report.Obligation{Rule: rule, Key: c.P.FuncID(f) + " :: MapUpdate(" + c.P.KeyTerm(x.Key, 3) + ")", Pos: c.P.InstrPos(x), Path: r.Path(c.P, f), Status: statusOf(safe),
							Why: pick(safe, "the key can only hold hashable dynamic types", "map update with an interface key whose dynamic type can be unhashable: panics with `hash of unhashable type`")})
					}
				}
			}
		}
	}
	c.Stats[rule+".sites"] = n
	out = append(out, report.Obligation{Rule: rule, Key: "inventory", Status: report.Discharged, Why: fmt.Sprintf("%d comparison sites on interface values in %d reachable functions", n, len(r.Sorted(c.P)))})
	return out
}

func statusOf(ok bool) report.Status {
	if ok {
		return report.Discharged
	}
	return report.Violation
}

func pick(b bool, x, y string) string {
	if b {
		return x
	}
	return y
}

// ---------------------------------------------------------------------------
// PANIC-REFL: the methods of reflect.Value that panic on the wrong Kind
// (MapRange, SetMapIndex, MapKeys, MapIndex, Elem, Field, NumField, Index, Len,
// IsNil) are applied to values made from the document. Each call is dominated
// by a test of the receiver's Kind() (or Type()) that holds on that path, or
// the receiver is made in place with a known kind (reflect.New).
// ---------------------------------------------------------------------------

var kindRestricted = map[string]bool{"MapRange": true, "SetMapIndex": true, "MapKeys": true, "MapIndex": true, "Elem": true,
	"Field": true, "NumField": true, "Index": true, "Len": true, "IsNil": true, "SetLen": true, "Cap": true, "FieldByName": true}

func isReflectValue(t types.Type) bool {
	nt, ok := t.(*types.Named)
	return ok && nt.Obj().Pkg() != nil && nt.Obj().Pkg().Path() == "reflect" && nt.Obj().Name() == "Value"
}

func (c *Ctx) PanicREFL(rule string, entry ...string) []report.Obligation {
	var out []report.Obligation
	r, missing := c.Reach(entry...)
	for _, m := range missing {
		out = append(out, anchorViolation(rule, m))
	}
	n := 0
	for _, f := range r.Sorted(c.P) {
		for _, b := range f.Blocks {
			for _, in := range b.Instrs {
				call, ok := in.(*ssa.Call)
				if !ok {
					continue
				}
				callee := call.Call.StaticCallee()
				if callee == nil || callee.Signature.Recv() == nil || !isReflectValue(callee.Signature.Recv().Type()) || !kindRestricted[callee.Name()] {
					continue
				}
				recv := call.Call.Args[0]
				n++
				key := c.P.FuncID(f) + " :: reflect.Value." + callee.Name() + " on " + c.P.KeyTerm(recv, 2)
				safe, why := false, ""
				// made in place with a known kind
				if rc, isC := recv.(*ssa.Call); isC {
					if cal := rc.Call.StaticCallee(); cal != nil && calleeName(cal) == "reflect.New" && callee.Name() == "Elem" {
						safe, why = true, "receiver is the result of reflect.New: a pointer"
					}
					// iter.Value() of a map range over map[string]any is an interface value: Elem is defined on it
				}
				// a dominating test of recv.Kind() / recv.Type()
				kindOf := func(v ssa.Value) bool {
					kc, isC := v.(*ssa.Call)
					if !isC {
						return false
					}
					cal := kc.Call.StaticCallee()
					if cal == nil || len(kc.Call.Args) == 0 {
						return false
					}
					switch cal.Name() {
					case "Kind":
						if kc.Call.Args[0] == recv {
							return true
						}
						// recv.Type().Kind()
						if tc, ok := kc.Call.Args[0].(*ssa.Call); ok && tc.Call.StaticCallee() != nil && tc.Call.StaticCallee().Name() == "Type" && len(tc.Call.Args) > 0 && tc.Call.Args[0] == recv {
							return true
						}
						if kc.Call.IsInvoke() {
							return false
						}
					case "Type":
						return kc.Call.Args[0] == recv
					}
					return false
				}
				if !safe {
					for _, fct := range prog.DominatingFacts(b) {
						bo, isB := fct.Cond.(*ssa.BinOp)
						if !isB || (bo.Op != token.EQL && bo.Op != token.NEQ) {
							continue
						}
						if (bo.Op == token.EQL) != fct.Val {
							continue // the test failed on this path: it says what the kind is not
						}
						if kindOf(bo.X) || kindOf(bo.Y) {
							safe, why = true, "dominated by a successful test of the receiver's Kind()/Type()"
						}
						// invoke form: Type().Kind() through the reflect.Type interface
						for _, side := range []ssa.Value{bo.X, bo.Y} {
							if kc, ok := side.(*ssa.Call); ok && kc.Call.IsInvoke() && kc.Call.Method.Name() == "Kind" {
								if tc, ok := kc.Call.Value.(*ssa.Call); ok && tc.Call.StaticCallee() != nil && tc.Call.StaticCallee().Name() == "Type" && len(tc.Call.Args) > 0 && tc.Call.Args[0] == recv {
									safe, why = true, "dominated by a successful test of the receiver's Type().Kind()"
								}
							}
						}
					}
				}
				out = append(out, report.Obligation{Rule: rule, Key: key, Pos: c.P.InstrPos(call), Path: r.Path(c.P, f), Status: statusOf(safe),
					Why: pick(safe, why, "reflect.Value."+callee.Name()+" panics when the value has another kind; no test of the receiver's Kind() holds on this path, and the value comes from the document")})
			}
		}
	}
	out = append(out, report.Obligation{Rule: rule, Key: "inventory", Status: report.Discharged, Why: fmt.Sprintf("%d kind-restricted reflect.Value calls in reachable functions", n)})
	return out
}

// ---------------------------------------------------------------------------
// NILRET: a module function with results (P, error), P a pointer, that has a
// `return nil, nil` path tells its callers "no value, no error". Every caller
// that dereferences the result (field access, load, method call on it) does so
// under a nil test of that result. (Contradiction rule: some callers test, so
// the others must.)
// ---------------------------------------------------------------------------

func (c *Ctx) NILRET(rule string, entry ...string) []report.Obligation {
	var out []report.Obligation
	r, missing := c.Reach(entry...)
	for _, m := range missing {
		out = append(out, anchorViolation(rule, m))
	}
	nilnil := map[*ssa.Function]bool{}
	for _, f := range r.Sorted(c.P) {
		res := f.Signature.Results()
		if res.Len() != 2 || !isErrorType(res.At(1).Type()) {
			continue
		}
		if _, isPtr := res.At(0).Type().Underlying().(*types.Pointer); !isPtr {
			continue
		}
		for _, ret := range returnsOf(f) {
			if prog.IsNilConst(retValue(ret, 0)) && prog.IsNilConst(retValue(ret, 1)) {
				nilnil[f] = true
			}
		}
	}
	n := 0
	for _, f := range r.Sorted(c.P) {
		for _, b := range f.Blocks {
			for _, in := range b.Instrs {
				call, ok := in.(*ssa.Call)
				if !ok {
					continue
				}
				callee := call.Call.StaticCallee()
				if callee == nil || !nilnil[callee] {
					continue
				}
				var res ssa.Value
				for _, rf := range *call.Referrers() {
					if ex, ok := rf.(*ssa.Extract); ok && ex.Index == 0 {
						res = ex
					}
				}
				if res == nil {
					continue
				}
				for _, use := range *res.Referrers() {
					deref := false
					switch u := use.(type) {
					case *ssa.FieldAddr:
						deref = u.X == res
					case *ssa.UnOp:
						deref = u.Op == token.MUL && u.X == res
					case *ssa.Call:
						// method call with the result as receiver
						if cal := u.Call.StaticCallee(); cal != nil && cal.Signature.Recv() != nil && len(u.Call.Args) > 0 && u.Call.Args[0] == res {
							deref = true
						}
					}
					if !deref {
						continue
					}
					n++
					ui := use.(ssa.Instruction)
					tested := factHolds(ui.Block(), func(cond ssa.Value, val bool) bool {
						bo, isB := cond.(*ssa.BinOp)
						if !isB {
							return false
						}
						if !(bo.X == res && prog.IsNilConst(bo.Y) || bo.Y == res && prog.IsNilConst(bo.X)) {
							return false
						}
						return bo.Op == token.NEQ && val || bo.Op == token.EQL && !val
					})
					key := c.P.FuncID(f) + " :: result of " + c.P.FuncID(callee) + " used by " + c.P.KeyTerm(use.(ssa.Value), 1)
					out = append(out, report.Obligation{Rule: rule, Key: key, Pos: c.P.InstrPos(ui), Path: r.Path(c.P, f), Status: statusOf(tested),
						Why: pick(tested, "dereferenced under a nil test of the result", c.P.FuncID(callee)+" can return (nil, nil); this use dereferences the result after testing only the error")})
				}
			}
		}
	}
	var names []string
	for f := range nilnil {
		names = append(names, c.P.FuncID(f))
	}
	sort.Strings(names)
	out = append(out, report.Obligation{Rule: rule, Key: "inventory", Status: report.Discharged, Why: fmt.Sprintf("functions returning (nil, nil): %v; %d dereferencing uses of their results", names, n)})
	return out
}

// ---------------------------------------------------------------------------
// PANIC-NIL (C01): optional parts of the model are pointers (deploy, build, healthcheck, resources.limits, ...).
// Wherever code reachable from the entry points dereferences a pointer it loaded from a struct field (a field
// access x.f.g, a load *x.f, a pointer-receiver method that dereferences), the access is dominated by a test that
// the same field path is not nil - or the value was just stored there non-nil in the same function.
// Guards are matched by field path (s.Deploy.Resources.Limits), so testing `limits` and then dereferencing
// `reservations` is reported.
// ---------------------------------------------------------------------------

func (c *Ctx) PANICNIL(rule string, entry ...string) []report.Obligation {
	var out []report.Obligation
	r, missing := c.Reach(entry...)
	for _, m := range missing {
		out = append(out, anchorViolation(rule, m))
	}
	n := 0
	for _, f := range r.Sorted(c.P) {
		if strings.HasPrefix(c.P.FuncID(f), "types.deriveDeepCopy") {
			continue // generated: every pointer is tested before it is followed (checked by DC)
		}
		// path key of a pointer value loaded from a field
		keyOf := func(v ssa.Value) string {
			ld, ok := v.(*ssa.UnOp)
			if !ok || ld.Op != token.MUL {
				return ""
			}
			fa, ok := ld.X.(*ssa.FieldAddr)
			if !ok {
				return ""
			}
			if _, isPtr := ld.Type().Underlying().(*types.Pointer); !isPtr {
				return ""
			}
			_ = fa
			return addrKey(ld.X, 5)
		}
		stored := map[string]bool{} // field paths assigned a fresh non-nil value in this function
		for _, b := range f.Blocks {
			for _, in := range b.Instrs {
				if st, ok := in.(*ssa.Store); ok {
					if k := addrKey(st.Addr, 5); k != "" {
						switch st.Val.(type) {
						case *ssa.Alloc, *ssa.MakeInterface:
							stored[k] = true
						}
					}
				}
			}
		}
		for _, b := range f.Blocks {
			for _, in := range b.Instrs {
				var base ssa.Value
				switch x := in.(type) {
				case *ssa.FieldAddr:
					base = x.X
				case *ssa.UnOp:
					if x.Op == token.MUL {
						if _, isPtrToStruct := x.X.Type().Underlying().(*types.Pointer); isPtrToStruct {
							if _, isFA := x.X.(*ssa.FieldAddr); !isFA {
								base = x.X
							}
						}
					}
				}
				if base == nil {
					continue
				}
				key := keyOf(base)
				if key == "" {
					continue
				}
				// optional scalars (*int, *bool, *string ...) are followed with a plain load
				if internalField(base) {
					continue // a private field of a private helper struct is set where the struct is built: not an optional part of the model or of the API
				}
				n++
				guarded := stored[key] || factHolds(b, func(cond ssa.Value, val bool) bool {
					bo, ok := cond.(*ssa.BinOp)
					if !ok || (bo.Op != token.NEQ && bo.Op != token.EQL) {
						return false
					}
					if (bo.Op == token.NEQ) != val {
						return false
					}
					for _, side := range [][2]ssa.Value{{bo.X, bo.Y}, {bo.Y, bo.X}} {
						if prog.IsNilConst(side[1]) && (side[0] == base || keyOf(side[0]) == key) {
							return true
						}
					}
					return false
				})
				if guarded {
					out = append(out, ok(rule, c.P.FuncID(f)+" :: "+c.P.KeyTerm(base, 4), c.P.InstrPos(in), "dominated by a non-nil test of the same field path"))
				} else {
					out = append(out, bad(rule, c.P.FuncID(f)+" :: "+c.P.KeyTerm(base, 4), c.P.InstrPos(in), "an optional part of the model is dereferenced without a dominating test that this very field path is not nil: a model that omits it panics"))
				}
			}
		}
	}
	c.Stats[rule+".sites"] = n
	return out
}

// internalField: v is loaded from an unexported field of an unexported struct type.
func internalField(v ssa.Value) bool {
	ld, ok := v.(*ssa.UnOp)
	if !ok {
		return false
	}
	fa, ok := ld.X.(*ssa.FieldAddr)
	if !ok {
		return false
	}
	pt, ok := fa.X.Type().Underlying().(*types.Pointer)
	if !ok {
		return false
	}
	named, ok := pt.Elem().(*types.Named)
	if !ok {
		return false
	}
	st, ok := named.Underlying().(*types.Struct)
	if !ok {
		return false
	}
	return !named.Obj().Exported() && !st.Field(fa.Field).Exported()
}
