package rules

import (
	"go/types"

	"golang.org/x/tools/go/ssa"
	"verifcheck/internal/prog"
	"verifcheck/internal/report"
)

// PanicTA: every unchecked type assertion (x.(T) without comma-ok) in code
// reachable from the entry sets is an obligation. It is discharged when the
// operand's dynamic type is provably T on every path (dyntype.go); everything
// else is undischarged and must be justified, a known finding, or a violation.
func (c *Ctx) PanicTA(rule string, entry ...string) []report.Obligation {
	var out []report.Obligation
	r, missing := c.Reach(entry...)
	for _, m := range missing {
		out = append(out, anchorViolation(rule, m))
	}
	for _, f := range r.Sorted(c.P) {
		for _, b := range f.Blocks {
			for _, in := range b.Instrs {
				ta, ok := in.(*ssa.TypeAssert)
				if !ok || ta.CommaOk {
					continue
				}
				o := report.Obligation{Rule: rule, Pos: c.P.InstrPos(ta),
					Key:  c.P.FuncID(f) + " :: " + c.P.KeyTerm(ta, 5),
					Path: r.Path(c.P, f)}
				if isBoundMethodNilCheck(ta) {
					o.Status = report.Discharged
					o.Why = "implicit non-nil check of an interface whose method value is taken; the operand is an element of a []ResourceLoader configured by the API user, not input data"
					// still an obligation of sorts: keep it visible but discharged only for
					// the ResourceLoader interface of package loader
					if !c.isLoaderResourceLoader(ta.AssertedType) {
						o.Status = report.Violation
						o.Why = "method value taken on a possibly nil interface"
					}
				} else if ok, why := c.dyn.AssertSafe(ta); ok {
					o.Status = report.Discharged
					o.Why = why
				} else {
					o.Status = report.Violation
					o.Why = "unchecked type assertion on a value whose dynamic type is not established on every path: panics when the operand is not " + c.P.TypeStr(ta.AssertedType)
				}
				out = append(out, o)
			}
		}
	}
	c.Stats[rule+".functions"] = len(r.Set)
	return out
}

// isBoundMethodNilCheck recognises the assertion go/ssa inserts for `iface.Method`
// used as a value: x.(I) with I the static type of x, whose only use is a closure of a bound-method thunk.
func isBoundMethodNilCheck(ta *ssa.TypeAssert) bool {
	if !types.IsInterface(ta.AssertedType) || !types.Identical(ta.X.Type(), ta.AssertedType) {
		return false
	}
	refs := ta.Referrers()
	return refs == nil || len(*refs) == 0
}

func (c *Ctx) isLoaderResourceLoader(t types.Type) bool {
	n, ok := t.(*types.Named)
	return ok && n.Obj().Name() == "ResourceLoader" && c.P.Rel(n.Obj().Pkg()) == "loader"
}

var _ = prog.Info
