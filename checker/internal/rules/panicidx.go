package rules

import (
	"fmt"
	"go/constant"
	"go/token"
	"go/types"
	"strings"

	"golang.org/x/tools/go/ssa"
	"verifcheck/internal/prog"
	"verifcheck/internal/report"
)

// ---------------------------------------------------------------------------
// PANIC-IDX: every index / slice expression on a slice, array or string is in
// bounds. Difference constraints `a - b <= w` over SSA integers, len(x) terms
// and zero (ABCD style): definitional facts (constants, +/- constants, len,
// make, append, slicing, library result ranges, return-range summaries of
// module functions) plus the branch facts that dominate the access.
// ---------------------------------------------------------------------------

type idxNode struct {
	kind byte // 'v' value, 'l' len(value), 'z' zero
	v    ssa.Value
}

var zeroNode = idxNode{kind: 'z'}

func vn(v ssa.Value) idxNode { return idxNode{'v', v} }
func ln(v ssa.Value) idxNode { return idxNode{'l', canonLenOperand(v)} }

// loadCanon maps repeated loads of the same field (x.f ... x.f) to one
// representative, when the function never assigns that field: the two loads
// then denote the same slice header, hence the same length.
var loadCanon = map[*ssa.Function]map[string]ssa.Value{}
var storeOf = map[ssa.Value]*ssa.Store{}

// writtenGlobals: package-level variables stored to (or whose address escapes) outside package initialisers.
var writtenGlobals map[*ssa.Global]bool
var globalCanon = map[*ssa.Global]ssa.Value{}

func canonLenOperand(v ssa.Value) ssa.Value {
	for {
		switch x := v.(type) {
		case *ssa.ChangeType:
			v = x.X
			continue
		case *ssa.Convert:
			// string <-> []byte keeps the length
			if isByteSeq(x.Type()) && isByteSeq(x.X.Type()) {
				v = x.X
				continue
			}
			return v
		case *ssa.UnOp:
			if x.Op != token.MUL {
				return v
			}
			if g, isG := x.X.(*ssa.Global); isG && writtenGlobals != nil && !writtenGlobals[g] {
				if rep, ok := globalCanon[g]; ok {
					return rep
				}
				globalCanon[g] = v
				return v
			}
			key := addrKey(x.X, 4)
			if key == "" {
				return v
			}
			fn := x.Parent()
			m := loadCanon[fn]
			if m == nil {
				m = map[string]ssa.Value{}
				loadCanon[fn] = m
				// fields / variables assigned anywhere in the function are not canonicalised
				for _, b := range fn.Blocks {
					for _, in := range b.Instrs {
						if st, ok := in.(*ssa.Store); ok {
							if k := addrKey(st.Addr, 4); k != "" {
								if _, twice := m["!"+k]; twice {
									m["!!"+k] = st.Val
								}
								m["!"+k] = st.Val
								storeOf[st.Val] = st
							}
						}
					}
				}
			}
			if sv, assigned := m["!"+key]; assigned {
				// assigned exactly once, by a store that dominates this load: the load yields the stored value
				if _, twice := m["!!"+key]; !twice {
					if st := storeOf[sv]; st != nil && prog.InstrDominates(st, x) {
						v = sv
						continue
					}
				}
				return v
			}
			if rep, ok := m[key]; ok {
				return rep
			}
			m[key] = v
			return v
		}
		return v
	}
}

func isByteSeq(t types.Type) bool {
	if isStringType(t) {
		return true
	}
	if sl, ok := t.Underlying().(*types.Slice); ok {
		if b, ok := sl.Elem().Underlying().(*types.Basic); ok && b.Kind() == types.Byte {
			return true
		}
	}
	return false
}

// addrKey renders a field-address chain rooted at a parameter / free variable / value: "p#0.HealthCheck.Test".
func addrKey(a ssa.Value, depth int) string {
	if depth == 0 {
		return ""
	}
	switch x := a.(type) {
	case *ssa.FieldAddr:
		base := ""
		switch bx := x.X.(type) {
		case *ssa.Parameter, *ssa.FreeVar, *ssa.Alloc:
			base = fmt.Sprintf("%p", bx)
		case *ssa.UnOp:
			if bx.Op != token.MUL {
				return ""
			}
			base = addrKey(bx.X, depth-1)
			if base == "" {
				base = fmt.Sprintf("%p", bx.X)
			}
			base = "*" + base
		case *ssa.FieldAddr:
			base = addrKey(bx, depth-1)
		default:
			// any other SSA value is an immutable pointer
			base = fmt.Sprintf("%p", bx)
		}
		if base == "" {
			return ""
		}
		return fmt.Sprintf("%s.%d", base, x.Field)
	}
	return ""
}

type idxCons struct {
	a, b idxNode // a - b <= w
	w    int64
}

type idxSolver struct {
	c         *Ctx
	fn        *ssa.Function
	defs      []idxCons // valid everywhere in fn
	facts     []idxCons // valid at the query point
	byA       map[idxNode][]idxCons
	byB       map[idxNode][]idxCons
	phiDepth  int
	edgeDepth int
}

type retRange struct {
	param    int
	ubLenM1  bool // result <= len(param) - 1
	ubLen    bool // result <= len(param)
	lbMinus1 bool // result >= -1
	lbZero   bool // result >= 0
}

func intConst(v ssa.Value) (int64, bool) {
	c, ok := v.(*ssa.Const)
	if !ok || c.Value == nil || c.Value.Kind() != constant.Int {
		return 0, false
	}
	i, exact := constant.Int64Val(c.Value)
	return i, exact
}

func isIntType(t types.Type) bool {
	b, ok := t.Underlying().(*types.Basic)
	return ok && b.Info()&types.IsInteger != 0
}

func (s *idxSolver) add(list *[]idxCons, a, b idxNode, w int64) {
	*list = append(*list, idxCons{a, b, w})
}

func (s *idxSolver) eq(list *[]idxCons, a, b idxNode, k int64) { // a = b + k
	s.add(list, a, b, k)
	s.add(list, b, a, -k)
}

// buildDefs collects the definitional constraints of fn.
func (s *idxSolver) buildDefs() {
	d := &s.defs
	for _, b := range s.fn.Blocks {
		for _, in := range b.Instrs {
			v, ok := in.(ssa.Value)
			if !ok {
				continue
			}
			switch x := in.(type) {
			case *ssa.BinOp:
				if !isIntType(x.Type()) {
					continue
				}
				if k, ok := intConst(x.Y); ok {
					switch x.Op {
					case token.ADD:
						s.eq(d, vn(v), vn(x.X), k)
					case token.SUB:
						s.eq(d, vn(v), vn(x.X), -k)
					}
				} else if k, ok := intConst(x.X); ok && x.Op == token.ADD {
					s.eq(d, vn(v), vn(x.Y), k)
				}
			case *ssa.Convert:
				if isIntType(x.Type()) && isIntType(x.X.Type()) {
					s.eq(d, vn(v), vn(x.X), 0)
				}
			case *ssa.MakeSlice:
				s.eq(d, ln(v), vn(x.Len), 0)
			case *ssa.Slice:
				s.sliceDefs(x)
			case *ssa.Call:
				s.callDefs(x)
			case *ssa.Extract:
				switch t := x.Tuple.(type) {
				case *ssa.Next:
					// index of a range over a string: 0 <= i <= len-1
					if rg, ok := t.Iter.(*ssa.Range); ok && x.Index == 1 && isStringType(rg.X.Type()) {
						s.add(d, zeroNode, vn(v), 0)
						base, k, _ := s.lenNodeOf(rg.X)
						s.add(d, vn(v), base, k-1)
					}
				case *ssa.Call:
					n := staticName(&t.Call)
					if x.Index == 1 && (n == "unicode/utf8.DecodeRuneInString" || n == "unicode/utf8.DecodeRune" || n == "unicode/utf8.DecodeLastRuneInString") {
						s.add(d, zeroNode, vn(v), 0) // width >= 0
						base, k, _ := s.lenNodeOf(t.Call.Args[0])
						s.add(d, vn(v), base, k) // width <= len
					}
				}
			}
		}
	}
}

func (s *idxSolver) lenNodeOf(x ssa.Value) (idxNode, int64, bool) {
	// arrays have a constant length
	t := x.Type()
	if p, ok := t.Underlying().(*types.Pointer); ok {
		if arr, ok := p.Elem().Underlying().(*types.Array); ok {
			return zeroNode, arr.Len(), true
		}
	}
	if arr, ok := t.Underlying().(*types.Array); ok {
		return zeroNode, arr.Len(), true
	}
	if c, ok := x.(*ssa.Const); ok && c.Value != nil && c.Value.Kind() == constant.String {
		return zeroNode, int64(len(constant.StringVal(c.Value))), true
	}
	return ln(x), 0, false
}

func (s *idxSolver) sliceDefs(x *ssa.Slice) {
	d := &s.defs
	base, bk, isConstLen := s.lenNodeOf(x.X)
	lo, hi := x.Low, x.High
	y := ln(x)
	switch {
	case lo == nil && hi == nil:
		s.eq(d, y, base, bk)
	case lo == nil:
		s.eq(d, y, vn(hi), 0)
	case hi == nil:
		if k, ok := intConst(lo); ok {
			s.eq(d, y, base, bk-k)
		} else {
			// len(y) = len(x) - lo : only the upper bound len(y) <= len(x) is expressible
			s.add(d, y, base, bk)
		}
	default:
		if k, ok := intConst(lo); ok {
			s.eq(d, y, vn(hi), -k)
		} else {
			s.add(d, y, vn(hi), 0)
		}
	}
	_ = isConstLen
}

var indexLike = map[string]bool{
	"strings.Index": true, "strings.IndexByte": true, "strings.IndexRune": true, "strings.IndexAny": true, "strings.IndexFunc": true,
	"strings.LastIndex": true, "strings.LastIndexByte": true, "strings.LastIndexAny": true, "strings.LastIndexFunc": true,
	"bytes.Index": true, "bytes.IndexByte": true, "bytes.IndexRune": true, "bytes.IndexAny": true, "bytes.IndexFunc": true, "bytes.LastIndex": true, "bytes.LastIndexByte": true,
	"golang.org/x/exp/slices.Index": true, "golang.org/x/exp/slices.IndexFunc": true, "slices.Index": true, "slices.IndexFunc": true,
}

func (s *idxSolver) callDefs(call *ssa.Call) {
	d := &s.defs
	v := ssa.Value(call)
	if b, ok := call.Call.Value.(*ssa.Builtin); ok {
		switch b.Name() {
		case "len":
			base, k, _ := s.lenNodeOf(call.Call.Args[0])
			s.eq(d, vn(v), base, k)
		case "append":
			// len(result) >= len(first) + number of appended elements (when given as a literal tail)
			first := call.Call.Args[0]
			k := int64(0)
			if len(call.Call.Args) > 1 {
				if sl, ok := call.Call.Args[1].(*ssa.Slice); ok && sl.Low == nil && sl.High == nil {
					if _, n, isArr := s.lenNodeOf(sl.X); isArr {
						k = n
					}
				}
			}
			if _, isConst := first.(*ssa.Const); isConst {
				s.add(d, zeroNode, ln(v), -k)
			} else {
				s.add(d, ln(first), ln(v), -k)
			}
		}
		return
	}
	name := staticName(&call.Call)
	switch {
	case indexLike[name]:
		s.add(d, zeroNode, vn(v), 1) // v >= -1
		base, k, _ := s.lenNodeOf(call.Call.Args[0])
		s.add(d, vn(v), base, k-1) // v <= len - 1
	case name == "strings.Split" || name == "strings.SplitN" || name == "strings.SplitAfter":
		if sep, ok := prog.ConstString(call.Call.Args[1]); ok && sep != "" {
			s.add(d, zeroNode, ln(v), -1) // at least one element
		}
		if name == "strings.SplitN" {
			if n, ok := intConst(call.Call.Args[2]); ok && n > 0 {
				s.add(d, ln(v), zeroNode, n)
			}
		}
	case name == "(*regexp.Regexp).FindStringSubmatch" || name == "(*regexp.Regexp).FindSubmatch":
		// nil or 1+NumSubexp elements: nothing usable without a nil test
	}
	// len(strings.Split(x, sep)) == strings.Count(x, sep) + 1 for a non-empty constant sep: links a split (made
	// here, or by a module function that only returns strings.Split(param, sep)) to a Count of the same string
	if op, sep, ok := s.splitOf(call); ok {
		for _, b := range s.fn.Blocks {
			for _, in := range b.Instrs {
				cc, isCall := in.(*ssa.Call)
				if !isCall || staticName(&cc.Call) != "strings.Count" {
					continue
				}
				csep, isC := prog.ConstString(cc.Call.Args[1])
				if isC && csep == sep && stripConvs(cc.Call.Args[0]) == stripConvs(op) {
					s.eq(d, ln(v), vn(cc), 1)
				}
			}
		}
	}
	// return-range summaries of module functions
	if cal := call.Call.StaticCallee(); cal != nil && s.c.P.InModule(cal) && isIntType(call.Type()) {
		for _, rr := range s.c.retRanges(cal) {
			if rr.param >= len(call.Call.Args) {
				continue
			}
			base, k, _ := s.lenNodeOf(call.Call.Args[rr.param])
			if rr.ubLenM1 {
				s.add(d, vn(v), base, k-1)
			} else if rr.ubLen {
				s.add(d, vn(v), base, k)
			}
			if rr.lbZero {
				s.add(d, zeroNode, vn(v), 0)
			} else if rr.lbMinus1 {
				s.add(d, zeroNode, vn(v), 1)
			}
		}
	}
}

// factsAt translates the branch conditions that dominate block b.
func (s *idxSolver) factsAt(b *ssa.BasicBlock) {
	s.factsFrom(prog.DominatingFacts(b))
	s.deriveSliceLens(b)
	s.index()
}

// factsOnEdge: the facts that hold when control passes from pred to succ.
func (s *idxSolver) factsOnEdge(pred, succ *ssa.BasicBlock) {
	fs := prog.DominatingFacts(pred)
	if iff, ok := pred.Instrs[len(pred.Instrs)-1].(*ssa.If); ok && pred.Succs[0] != pred.Succs[1] {
		fs = append(fs, prog.Fact{Cond: iff.Cond, Val: pred.Succs[0] == succ})
	}
	s.factsFrom(fs)
	s.deriveSliceLens(pred)
	s.index()
}

func (s *idxSolver) factsFrom(all []prog.Fact) {
	s.facts = s.facts[:0]
	f := &s.facts
	for _, fc := range all {
		switch c := fc.Cond.(type) {
		case *ssa.BinOp:
			x, y := c.X, c.Y
			if isIntType(x.Type()) && isIntType(y.Type()) {
				nx, ny := s.intNode(x), s.intNode(y)
				op := c.Op
				if !fc.Val {
					switch op {
					case token.LSS:
						op = token.GEQ
					case token.LEQ:
						op = token.GTR
					case token.GTR:
						op = token.LEQ
					case token.GEQ:
						op = token.LSS
					case token.EQL:
						op = token.NEQ
					case token.NEQ:
						op = token.EQL
					}
				}
				kx, cx := intConst(x)
				ky, cy := intConst(y)
				switch op {
				case token.LSS: // x < y
					s.addCmp(f, nx, kx, cx, ny, ky, cy, -1)
				case token.LEQ:
					s.addCmp(f, nx, kx, cx, ny, ky, cy, 0)
				case token.GTR: // y < x
					s.addCmp(f, ny, ky, cy, nx, kx, cx, -1)
				case token.GEQ:
					s.addCmp(f, ny, ky, cy, nx, kx, cx, 0)
				case token.EQL:
					s.addCmp(f, nx, kx, cx, ny, ky, cy, 0)
					s.addCmp(f, ny, ky, cy, nx, kx, cx, 0)
				case token.NEQ:
					// x != k together with x >= k gives x >= k+1 (used by the prover)
					if cy {
						s.add(f, idxNode{'n', x}, zeroNode, ky) // marker: x != ky
						// a % m != 0 implies a != 0
						if rem, ok := x.(*ssa.BinOp); ok && rem.Op == token.REM && ky == 0 {
							s.add(f, idxNode{'n', rem.X}, zeroNode, 0)
						}
					}
				}
			} else if isStringType(x.Type()) {
				// s != "" / s == ""
				if str, ok := prog.ConstString(y); ok && str == "" && (c.Op == token.NEQ || c.Op == token.EQL) {
					nonEmpty := (c.Op == token.NEQ) == fc.Val
					if nonEmpty {
						s.add(f, zeroNode, ln(x), -1)
					} else {
						s.add(f, ln(x), zeroNode, 0)
					}
				}
			}
		case *ssa.Call:
			name := staticName(&c.Call)
			if fc.Val && (name == "strings.HasPrefix" || name == "strings.HasSuffix" || name == "bytes.HasPrefix") {
				if p, ok := prog.ConstString(c.Call.Args[1]); ok {
					s.add(f, zeroNode, ln(c.Call.Args[0]), -int64(len(p)))
				} else {
					s.add(f, ln(c.Call.Args[1]), ln(c.Call.Args[0]), 0)
				}
			}
			if fc.Val && name == "strings.Contains" {
				if p, ok := prog.ConstString(c.Call.Args[1]); ok {
					s.add(f, zeroNode, ln(c.Call.Args[0]), -int64(len(p)))
				}
				// Split / SplitN(n >= 2) of the same string on the same separator then has at least 2 parts
				for _, blk := range s.fn.Blocks {
					for _, in := range blk.Instrs {
						sc, ok := in.(*ssa.Call)
						if !ok {
							continue
						}
						sn := staticName(&sc.Call)
						if (sn == "strings.Split" || sn == "strings.SplitN") && sc.Call.Args[0] == c.Call.Args[0] && sc.Call.Args[1] == c.Call.Args[1] {
							if sn == "strings.SplitN" {
								if n, ok := intConst(sc.Call.Args[2]); !ok || (n >= 0 && n < 2) {
									continue
								}
							}
							s.add(f, zeroNode, ln(sc), -2)
						}
					}
				}
			}
		}
	}
}

func isStringType(t types.Type) bool {
	b, ok := t.Underlying().(*types.Basic)
	return ok && b.Info()&types.IsString != 0
}

func (s *idxSolver) intNode(v ssa.Value) idxNode { return vn(v) }

// addCmp adds x - y <= w where either side may be a constant.
func (s *idxSolver) addCmp(f *[]idxCons, nx idxNode, kx int64, cx bool, ny idxNode, ky int64, cy bool, w int64) {
	switch {
	case cx && cy:
	case cx: // kx - y <= w  =>  zero - y <= w - kx
		s.add(f, zeroNode, ny, w-kx)
	case cy: // x - ky <= w  =>  x - zero <= w + ky
		s.add(f, nx, zeroNode, w+ky)
	default:
		s.add(f, nx, ny, w)
	}
}

// deriveSliceLens adds len(x[lo:]) >= 1 for slices defined in blocks dominating b when lo <= len(x)-1 is provable here.
func (s *idxSolver) deriveSliceLens(b *ssa.BasicBlock) {
	for round := 0; round < 2; round++ {
		s.index()
		var extra []idxCons
		for _, blk := range s.fn.Blocks {
			if !(blk == b || blk.Dominates(b)) {
				continue
			}
			for _, in := range blk.Instrs {
				sl, ok := in.(*ssa.Slice)
				if !ok || sl.Low == nil || sl.High != nil {
					continue
				}
				if _, isConst := intConst(sl.Low); isConst {
					continue
				}
				base, k, _ := s.lenNodeOf(sl.X)
				if s.ub(vn(sl.Low), base, k-1) {
					extra = append(extra, idxCons{zeroNode, ln(sl), -1})
				}
			}
		}
		if len(extra) == 0 {
			return
		}
		s.facts = append(s.facts, extra...)
	}
}

func (s *idxSolver) index() {
	s.byA, s.byB = map[idxNode][]idxCons{}, map[idxNode][]idxCons{}
	for _, l := range [][]idxCons{s.defs, s.facts} {
		for _, c := range l {
			s.byA[c.a] = append(s.byA[c.a], c)
			s.byB[c.b] = append(s.byB[c.b], c)
		}
	}
}

// activeEntry: budget of a node on the proof stack and the number of phi-edge
// expansions on the stack when it was pushed. Meeting the node again is a valid
// induction only if at least one phi expansion lies in between (the cycle runs
// around a loop); an algebraic cycle (x = y+1, y = x-1) proves nothing.
type activeEntry struct {
	c  int64
	pd int
}

type proveKey struct {
	n  idxNode
	up bool
}

// proveUB: n - src <= c.
func (s *idxSolver) proveUB(n, src idxNode, c int64, active map[proveKey]activeEntry, depth int) bool {
	if n == src {
		return c >= 0
	}
	if depth > 40 {
		return false
	}
	if n.kind == 'v' {
		if k, ok := intConst(n.v); ok {
			// constant: k - src <= c  <=>  zero - src <= c - k
			if src == zeroNode {
				return k <= c
			}
			return s.proveLB(src, zeroNode, c-k, active, depth+1) // zero - src <= c-k  i.e. src >= k - c
		}
	}
	key := proveKey{n, true}
	if b, on := active[key]; on {
		return s.phiDepth > b.pd && c >= b.c
	}
	active[key] = activeEntry{c, s.phiDepth}
	defer delete(active, key)
	for _, cons := range s.byA[n] { // n - b <= w  =>  need b - src <= c - w
		if cons.a.kind == 'n' {
			continue
		}
		if s.proveUB(cons.b, src, c-cons.w, active, depth+1) {
			return true
		}
	}
	if n.kind == 'v' {
		if phi, ok := n.v.(*ssa.Phi); ok {
			s.phiDepth++
			defer func() { s.phiDepth-- }()
			for i, e := range phi.Edges {
				if s.proveUB(vn(e), src, c, active, depth+1) {
					continue
				}
				// the value flows in along one edge: what holds on that edge may be used for it
				if !s.underEdge(phi.Block().Preds[i], phi.Block(), func() bool { return s.proveUB(vn(e), src, c, active, depth+1) }) {
					return false
				}
			}
			return true
		}
	}
	return false
}

// underEdge runs a sub-proof with the branch facts of the CFG edge pred->succ instead of those of the query
// point, then restores them. Sound for the value a phi receives along that edge: the facts hold at the moment
// the value flows in. Nested at most twice.
func (s *idxSolver) underEdge(pred, succ *ssa.BasicBlock, f func() bool) bool {
	if s.edgeDepth >= 2 {
		return false
	}
	s.edgeDepth++
	saveFacts, saveA, saveB := s.facts, s.byA, s.byB
	s.facts = nil
	s.factsOnEdge(pred, succ)
	ok := f()
	s.facts, s.byA, s.byB = saveFacts, saveA, saveB
	s.edgeDepth--
	return ok
}

// proveLB: src - n <= c   (n >= src - c).
func (s *idxSolver) proveLB(n, src idxNode, c int64, active map[proveKey]activeEntry, depth int) bool {
	if n == src {
		return c >= 0
	}
	if depth > 40 {
		return false
	}
	if n.kind == 'v' {
		if k, ok := intConst(n.v); ok {
			if src == zeroNode {
				return -k <= c
			}
			return s.proveUB(src, zeroNode, c+k, active, depth+1) // src - k <= c  <=> src - zero <= c + k
		}
	}
	if n.kind == 'l' && src == zeroNode && c >= 0 {
		return true // lengths are non-negative
	}
	key := proveKey{n, false}
	if b, on := active[key]; on {
		return s.phiDepth > b.pd && c >= b.c
	}
	active[key] = activeEntry{c, s.phiDepth}
	defer delete(active, key)
	if n.kind == 'v' {
		if phi, ok := n.v.(*ssa.Phi); ok {
			direct := false
			for _, cons := range s.byB[n] {
				if cons.a.kind != 'n' && s.proveLB(cons.a, src, c-cons.w, active, depth+1) {
					direct = true
					break
				}
			}
			if direct {
				return true
			}
			s.phiDepth++
			defer func() { s.phiDepth-- }()
			for i, e := range phi.Edges {
				if s.proveLB(vn(e), src, c, active, depth+1) {
					continue
				}
				if !s.underEdge(phi.Block().Preds[i], phi.Block(), func() bool { return s.proveLB(vn(e), src, c, active, depth+1) }) {
					return false
				}
			}
			return true
		}
	}
	for _, cons := range s.byB[n] { // a - n <= w  =>  src - n <= (src - a) + w : need src - a <= c - w
		if cons.a.kind == 'n' {
			continue
		}
		if s.proveLB(cons.a, src, c-cons.w, active, depth+1) {
			return true
		}
	}
	// n != k together with n >= k gives n >= k+1
	if src == zeroNode && n.kind == 'v' {
		for _, cons := range s.byA[idxNode{'n', n.v}] {
			k := cons.w
			if c == -(k+1) && s.proveLB(n, zeroNode, -k, map[proveKey]activeEntry{}, depth+1) {
				return true
			}
		}
	}
	return false
}

func (s *idxSolver) ub(n, src idxNode, c int64) bool {
	return s.proveUB(n, src, c, map[proveKey]activeEntry{}, 0)
}
func (s *idxSolver) lb(n, src idxNode, c int64) bool {
	return s.proveLB(n, src, c, map[proveKey]activeEntry{}, 0)
}

// inBounds proves 0 <= i <= len(x) + slack (slack -1 for element access, 0 for slice bounds).
func (s *idxSolver) inBounds(i ssa.Value, x ssa.Value, slack int64) (lower, upper bool) {
	base, k, _ := s.lenNodeOf(x)
	lower = s.lb(vn(i), zeroNode, 0)
	upper = s.ub(vn(i), base, k+slack)
	return
}

func (c *Ctx) newIdxSolver(fn *ssa.Function) *idxSolver {
	s := &idxSolver{c: c, fn: fn}
	s.buildDefs()
	return s
}

// definedBefore: v is defined outside block b (so its value is the same on every incoming edge), or is a constant / parameter.
func definedBefore(b *ssa.BasicBlock, v ssa.Value) bool {
	in, ok := v.(ssa.Instruction)
	if !ok {
		return true
	}
	return in.Block() != b
}

// checkSite returns the bound conditions that cannot be proved under the current facts.
func (s *idxSolver) checkSite(kind string, x, lo, hi ssa.Value) []string {
	var fails []string
	if kind == "index" {
		l, u := s.inBounds(lo, x, -1)
		if !l {
			fails = append(fails, "index >= 0")
		}
		if !u {
			fails = append(fails, "index <= len-1")
		}
		return fails
	}
	base, k, _ := s.lenNodeOf(x)
	if lo != nil {
		if !s.lb(vn(lo), zeroNode, 0) {
			fails = append(fails, "low >= 0")
		}
		if hi != nil {
			if !s.ub(vn(lo), vn(hi), 0) {
				fails = append(fails, "low <= high")
			}
		} else if !s.ub(vn(lo), base, k) {
			fails = append(fails, "low <= len")
		}
	}
	if hi != nil {
		if lo == nil && !s.lb(vn(hi), zeroNode, 0) {
			fails = append(fails, "high >= 0")
		}
		if !s.ub(vn(hi), base, k) {
			// slices may be re-sliced up to their capacity; only len is tracked
			fails = append(fails, "high <= len")
		}
	}
	return fails
}

// retRanges computes result-range summaries (relative to string/slice parameters) of a module function returning an int.
func (c *Ctx) retRanges(fn *ssa.Function) []retRange {
	if c.retRangeCache == nil {
		c.retRangeCache = map[*ssa.Function][]retRange{}
	}
	if r, ok := c.retRangeCache[fn]; ok {
		return r
	}
	c.retRangeCache[fn] = nil // recursion guard
	if fn.Blocks == nil || fn.Signature.Results().Len() != 1 || !isIntType(fn.Signature.Results().At(0).Type()) {
		return nil
	}
	s := c.newIdxSolver(fn)
	var out []retRange
	for pi, pa := range fn.Params {
		switch pa.Type().Underlying().(type) {
		case *types.Slice:
		case *types.Basic:
			if !isStringType(pa.Type()) {
				continue
			}
		default:
			continue
		}
		rr := retRange{param: pi, ubLenM1: true, ubLen: true, lbMinus1: true, lbZero: true}
		n := 0
		for _, r := range returnsOf(fn) {
			n++
			s.factsAt(r.Block())
			s.index()
			v := retValue(r, 0)
			if !s.ub(vn(v), ln(pa), -1) {
				rr.ubLenM1 = false
			}
			if !s.ub(vn(v), ln(pa), 0) {
				rr.ubLen = false
			}
			if !s.lb(vn(v), zeroNode, 1) {
				rr.lbMinus1 = false
			}
			if !s.lb(vn(v), zeroNode, 0) {
				rr.lbZero = false
			}
		}
		if n > 0 && (rr.ubLen || rr.lbMinus1) {
			out = append(out, rr)
		}
	}
	c.retRangeCache[fn] = out
	return out
}

// PanicIDX runs the bounds prover over every index/slice site in reachable code.
func (c *Ctx) PanicIDX(rule string, entry ...string) []report.Obligation {
	var out []report.Obligation
	r, missing := c.Reach(entry...)
	for _, m := range missing {
		out = append(out, anchorViolation(rule, m))
	}
	sites := 0
	for _, f := range r.Sorted(c.P) {
		if strings.HasPrefix(c.P.FuncID(f), "types.deriveDeepCopy") {
			continue // generated copy code indexes with range indices only; covered by DC/IMM
		}
		var s *idxSolver
		for _, b := range f.Blocks {
			for _, in := range b.Instrs {
				var x, lo, hi ssa.Value
				kind := ""
				switch t := in.(type) {
				case *ssa.IndexAddr:
					x, lo, kind = t.X, t.Index, "index"
				case *ssa.Index:
					x, lo, kind = t.X, t.Index, "index"
				case *ssa.Lookup:
					if !isStringType(t.X.Type()) {
						continue
					}
					x, lo, kind = t.X, t.Index, "index"
				case *ssa.Slice:
					x, lo, hi, kind = t.X, t.Low, t.High, "slice"
				default:
					continue
				}
				// literal arrays (varargs, composite literals) indexed by constants
				if _, n, isArr := (&idxSolver{}).lenNodeOf(x); isArr {
					if kind == "index" {
						if k, ok := intConst(lo); ok && k >= 0 && k < n {
							continue
						}
					} else if lo == nil && hi == nil {
						continue
					}
				}
				sites++
				if s == nil {
					s = c.newIdxSolver(f)
				}
				key := c.P.FuncID(f) + " :: " + c.P.KeyTerm(in.(ssa.Value), 3)
				o := report.Obligation{Rule: rule, Key: key, Pos: c.P.InstrPos(in), Path: r.Path(c.P, f)}
				s.factsAt(b)
				fails := s.checkSite(kind, x, lo, hi)
				joined := false
				if len(fails) > 0 && len(b.Preds) > 1 {
					// join over the predecessors (switch with fallthrough, merged branches): the access is
					// safe if it is safe under the facts of every incoming edge. Only sound when the
					// operands are defined before the merge.
					if definedBefore(b, x) && (lo == nil || definedBefore(b, lo)) && (hi == nil || definedBefore(b, hi)) {
						all := true
						for _, p := range b.Preds {
							s.factsOnEdge(p, b)
							if len(s.checkSite(kind, x, lo, hi)) > 0 {
								all = false
								break
							}
						}
						if all {
							fails, joined = nil, true
						}
					}
				}
				idiom := false
				if len(fails) > 0 && kind == "index" && indexMapIdiom(x, lo, b) {
					fails, idiom = nil, true
				}
				if len(fails) == 0 {
					o.Status, o.Why = report.Discharged, "bounds implied by the dominating comparisons and definitions (difference constraints)"
					if idiom {
						o.Why = "position map idiom: the index was stored as len(seq)-1 by the only update of a local map, and seq only grows"
					}
					if joined {
						o.Why = "bounds implied on every incoming edge of the block (join over predecessors)"
					}
				} else {
					o.Status = report.Violation
					o.Why = fmt.Sprintf("cannot prove %s for %s: an input that drives it out of range panics", strings.Join(fails, ", "), c.P.Term(in.(ssa.Value), 3))
				}
				out = append(out, o)
			}
		}
	}
	c.Stats[rule+".sites"] = sites
	return out
}

// indexMapIdiom recognises `if j, ok := pos[k]; ok { seq[j] = … } else { seq = append(seq, e); pos[k] = len(seq)-1 }`:
// a local map that only ever stores positions of a slice that only ever grows.
//
// Conditions, all read off the SSA form:
//  1. the index is the value of a comma-ok lookup in map m and the access is dominated by ok == true;
//  2. m is a local MakeMap used only by lookups and map updates (it does not escape);
//  3. every update of m stores len(A)-1 - or len(H), the update then preceding the append - where
//     A = append(H, one or more elements) is the single append of the
//     slice's "family" (the values connected to the indexed slice by phis and by A's first operand), whose only
//     other member is one initial value created in the same block as m (so a fresh slice never meets an old map);
//  4. after the update, in the same iteration, every phi edge of the family carries A (the grown slice is not
//     dropped), and the indexed access is not reachable from the update within the iteration;
//
// then every stored position p satisfies 0 <= p <= len(x)-1 for every family value x read later.
func indexMapIdiom(x, idx ssa.Value, at *ssa.BasicBlock) bool {
	ex, ok := idx.(*ssa.Extract)
	if !ok || ex.Index != 0 {
		return false
	}
	lk, ok := ex.Tuple.(*ssa.Lookup)
	if !ok || !lk.CommaOk {
		return false
	}
	okFact := false
	for _, f := range prog.DominatingFacts(at) {
		if e2, isE := f.Cond.(*ssa.Extract); isE && e2.Tuple == ssa.Value(lk) && e2.Index == 1 && f.Val {
			okFact = true
		}
	}
	if !okFact {
		return false
	}
	m, ok := lk.X.(*ssa.MakeMap)
	if !ok {
		return false
	}
	var updates []*ssa.MapUpdate
	for _, r := range *m.Referrers() {
		switch r := r.(type) {
		case *ssa.Lookup:
			if r.X != ssa.Value(m) {
				return false
			}
		case *ssa.MapUpdate:
			if r.Map != ssa.Value(m) || r.Key == ssa.Value(m) || r.Value == ssa.Value(m) {
				return false
			}
			updates = append(updates, r)
		case *ssa.DebugRef:
		default:
			return false
		}
	}
	if len(updates) != 1 {
		return false
	}
	u := updates[0]
	// value stored: len(A) - 1, or len(H) when the update precedes the append A = append(H, ...)
	isLen := func(v ssa.Value) (ssa.Value, bool) {
		lc, ok := v.(*ssa.Call)
		if !ok {
			return nil, false
		}
		if bi, isB := lc.Call.Value.(*ssa.Builtin); !isB || bi.Name() != "len" {
			return nil, false
		}
		return lc.Call.Args[0], true
	}
	isAppend := func(v ssa.Value) (*ssa.Call, bool) {
		app, ok := v.(*ssa.Call)
		if !ok {
			return nil, false
		}
		if bi, isB := app.Call.Value.(*ssa.Builtin); !isB || bi.Name() != "append" || len(app.Call.Args) != 2 {
			return nil, false
		}
		return app, true
	}
	var app *ssa.Call
	if bo, ok := u.Value.(*ssa.BinOp); ok && bo.Op == token.SUB {
		if k, isC := intConst(bo.Y); !isC || k != 1 {
			return false
		}
		arg, ok := isLen(bo.X)
		if !ok {
			return false
		}
		if app, ok = isAppend(arg); !ok {
			return false
		}
	} else if h, ok := isLen(u.Value); ok {
		n := 0
		for _, r := range *h.Referrers() {
			if a, isA := isAppend(valueOf(r)); isA && a.Call.Args[0] == h {
				app = a
				n++
			}
		}
		if n != 1 || !prog.InstrDominates(u, app) {
			return false
		}
	} else {
		return false
	}
	// appended part has a positive constant length
	if sl, isS := app.Call.Args[1].(*ssa.Slice); isS && sl.Low == nil && sl.High == nil {
		pt, isP := sl.X.Type().Underlying().(*types.Pointer)
		if !isP {
			return false
		}
		if at, isA := pt.Elem().Underlying().(*types.Array); !isA || at.Len() < 1 {
			return false
		}
	} else {
		return false
	}
	// family of the indexed slice
	fam := map[ssa.Value]bool{}
	var init ssa.Value
	var walk func(v ssa.Value) bool
	walk = func(v ssa.Value) bool {
		if fam[v] {
			return true
		}
		switch t := v.(type) {
		case *ssa.Phi:
			fam[v] = true
			for _, e := range t.Edges {
				if !walk(e) {
					return false
				}
			}
			return true
		case *ssa.Call:
			if t != app {
				return false
			}
			fam[v] = true
			return walk(t.Call.Args[0])
		case *ssa.Slice, *ssa.MakeSlice, *ssa.Const:
			if init != nil && init != v {
				return false
			}
			init = v
			fam[v] = true
			return true
		}
		return false
	}
	if !walk(x) || !fam[app] || init == nil {
		return false
	}
	if in, isI := init.(ssa.Instruction); isI {
		if in.Block() != m.Block() {
			return false
		}
	} else if m.Block() != m.Parent().Blocks[0] {
		return false // constant nil slice: the map must be created once, in the entry block
	}
	// blocks reachable from the update within the iteration (not through the block of the loop-head phi)
	var heads []*ssa.BasicBlock
	for v := range fam {
		if phi, isP := v.(*ssa.Phi); isP {
			for _, e := range phi.Edges {
				if e == init {
					heads = append(heads, phi.Block())
				}
			}
		}
	}
	isHead := func(b *ssa.BasicBlock) bool {
		for _, h := range heads {
			if h == b {
				return true
			}
		}
		return false
	}
	reach := map[*ssa.BasicBlock]bool{}
	var dfs func(b *ssa.BasicBlock)
	dfs = func(b *ssa.BasicBlock) {
		for _, s := range b.Succs {
			if reach[s] || isHead(s) {
				continue
			}
			reach[s] = true
			dfs(s)
		}
	}
	ub := u.Block()
	dfs(ub)
	if reach[at] || at == ub {
		return false
	}
	for v := range fam {
		phi, isP := v.(*ssa.Phi)
		if !isP {
			continue
		}
		for i, e := range phi.Edges {
			p := phi.Block().Preds[i]
			if p != ub && !reach[p] {
				continue
			}
			if e == ssa.Value(app) {
				continue
			}
			if ep, isPhi := e.(*ssa.Phi); isPhi && fam[e] && reach[ep.Block()] {
				continue
			}
			return false
		}
	}
	return true
}

func valueOf(in ssa.Instruction) ssa.Value {
	v, _ := in.(ssa.Value)
	return v
}

func stripConvs(v ssa.Value) ssa.Value {
	for {
		switch x := v.(type) {
		case *ssa.ChangeType:
			v = x.X
		case *ssa.Convert:
			v = x.X
		default:
			return v
		}
	}
}

// splitOf: the call yields strings.Split(op, sep) with a non-empty constant sep, directly or through a module
// function every return of which is such a split of one of its parameters.
func (s *idxSolver) splitOf(call *ssa.Call) (ssa.Value, string, bool) {
	if staticName(&call.Call) == "strings.Split" {
		if sep, ok := prog.ConstString(call.Call.Args[1]); ok && sep != "" {
			return call.Call.Args[0], sep, true
		}
		return nil, "", false
	}
	cal := call.Call.StaticCallee()
	if cal == nil || !s.c.P.InModule(cal) || cal.Blocks == nil {
		return nil, "", false
	}
	if cal.Signature.Results().Len() != 1 {
		return nil, "", false
	}
	if _, isSlice := cal.Signature.Results().At(0).Type().Underlying().(*types.Slice); !isSlice {
		return nil, "", false
	}
	pi, sep := -1, ""
	for _, r := range returnsOf(cal) {
		sc, ok := retValue(r, 0).(*ssa.Call)
		if !ok || staticName(&sc.Call) != "strings.Split" {
			return nil, "", false
		}
		sp, ok := prog.ConstString(sc.Call.Args[1])
		pa, isP := stripConvs(sc.Call.Args[0]).(*ssa.Parameter)
		if !ok || sp == "" || !isP {
			return nil, "", false
		}
		idx := -1
		for i, p := range cal.Params {
			if p == pa {
				idx = i
			}
		}
		if idx < 0 || (pi >= 0 && (pi != idx || sep != sp)) {
			return nil, "", false
		}
		pi, sep = idx, sp
	}
	if pi < 0 || pi >= len(call.Call.Args) {
		return nil, "", false
	}
	return call.Call.Args[pi], sep, true
}
