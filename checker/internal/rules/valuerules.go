package rules

import (
	"fmt"
	"go/constant"
	"go/token"
	"go/types"
	"sort"
	"strings"

	"golang.org/x/tools/go/ssa"

	"verifcheck/internal/report"
)

// Rules written after the "wrong value" round (DESIGN §0.19). A wrong constant is invisible to a rule about the
// shape of the code unless the value has a second description somewhere: the schema's `default`, the sibling arm
// of the same function, the inverse function, the platform the flag is named after. Each rule below compares one
// such pair. Where no second description exists the round's changes are documented misses.

// SCHEMADFLT (C01, C05, C10, C11): where the schema states the default of a boolean attribute, every constant the
// transformers and mergers write under that attribute's name is that default.
func (c *Ctx) SCHEMADFLT(rule string) []report.Obligation {
	var out []report.Obligation
	d := c.tab()
	if d.err != nil {
		return c.tabErr(rule)
	}
	// attribute name -> the default(s) the schema gives it
	want := map[string]map[bool]bool{}
	for _, sp := range d.schema.Paths() {
		n := d.schema.Nodes[sp]
		if n == nil || n.Default == nil {
			continue
		}
		b, ok := n.Default.(bool)
		if !ok {
			continue
		}
		k := sp[strings.LastIndex(sp, ".")+1:]
		if want[k] == nil {
			want[k] = map[bool]bool{}
		}
		want[k][b] = true
	}
	n := 0
	for _, fn := range c.P.Funcs {
		id := c.P.FuncID(fn)
		if !strings.HasPrefix(id, "transform.") && !strings.HasPrefix(id, "override.") {
			continue
		}
		for _, b := range fn.Blocks {
			for _, in := range b.Instrs {
				mu, ok := in.(*ssa.MapUpdate)
				if !ok {
					continue
				}
				k, isK := constStr(stripMI(mu.Key))
				w, has := want[k]
				if !isK || !has || len(w) != 1 {
					continue
				}
				cv, isC := stripMI(mu.Value).(*ssa.Const)
				if !isC || cv.Value == nil || cv.Value.Kind() != constant.Bool {
					continue
				}
				n++
				got := constant.BoolVal(cv.Value)
				var def bool
				for v := range w {
					def = v
				}
				out = append(out, verdict(got == def, rule, id+" :: the constant written under `"+k+"` is the schema's default", c.P.InstrPos(mu),
					fmt.Sprintf("%v, as in schema/compose-spec.json", def),
					fmt.Sprintf("the schema gives `%s` the default %v and this place writes %v: the same attribute left implicit gets a different value depending on the path it takes (a single file, an override, an extends)", k, def, got)))
			}
		}
	}
	c.Stats[rule+".constants"] = n
	if n == 0 {
		out = append(out, bad(rule, "schema :: boolean defaults written by transformers / mergers", "", "none found: the rule sees nothing"))
	}
	return out
}

// PLATFLAG (C02): the case-insensitive fallback of LookupEnv ranges over the environment map and takes the first
// key that matches ignoring case - acceptable only where the platform itself cannot hold two such keys. On the
// platform analysed (not windows) the flag that enables it is initialised to false.
func (c *Ctx) PLATFLAG(rule string) []report.Obligation {
	var out []report.Obligation
	n := 0
	for _, fn := range c.P.Funcs {
		if !isInitFunc(fn) || !strings.HasPrefix(c.P.FuncID(fn), "types.") {
			continue
		}
		for _, b := range fn.Blocks {
			for _, in := range b.Instrs {
				st, ok := in.(*ssa.Store)
				if !ok {
					continue
				}
				g, ok := st.Addr.(*ssa.Global)
				if !ok || !strings.Contains(strings.ToLower(g.Name()), "caseinsensitive") {
					continue
				}
				n++
				cv, isC := st.Val.(*ssa.Const)
				off := isC && cv.Value != nil && cv.Value.Kind() == constant.Bool && !constant.BoolVal(cv.Value)
				out = append(out, verdict(off, rule, "types."+g.Name()+" :: off on a platform with case-sensitive variable names", c.P.InstrPos(st),
					"initialised to false for this GOOS (the comparison with \"windows\" folds to false)",
					"the flag that lets LookupEnv fall back to a case-insensitive scan of the environment map is on for this platform: two variables that differ only in case make the value of a reference depend on map iteration order"))
			}
		}
	}
	if n == 0 {
		out = append(out, anchorViolation(rule, "the initialisation of the case-insensitive lookup flag in package types"))
	}
	return out
}

// STRFUNC: a few value-level agreements about which string function is applied to a marker.
//
//	-ext     the extension marker "x-" is only ever tested as a PREFIX (HasPrefix / CutPrefix / TrimPrefix) (C04)
//	-unesc   package tree replaces ALL occurrences of its escape marker, in both directions (C08)
//	-json    a hand-written MarshalJSON never puts a string between quotes with %s (it must be %q) (C09)
//	-regexp  no regular expression of package dotenv switches on the multi-line or dot-all flags: the source is
//	         matched from where the parser stands (C18)
//	-verbatim package template never trims by character class, folds case or splits on white space: literal text and
//	         operands are copied as written (C07, C08)
//	-fold    package override never folds case: list entries are keyed exactly as mapping keys are (C03, C04)
//	-mount   the key formats of one indexer agree: every Sprintf that starts with the default directory uses the
//	         same format (C11, C04)
func (c *Ctx) STRFUNC(rule string, only ...string) []report.Obligation {
	var out []report.Obligation
	want := func(s string) bool {
		if len(only) == 0 {
			return true
		}
		for _, o := range only {
			if o == s {
				return true
			}
		}
		return false
	}
	nExt, nUn, nJSON, nRe := 0, 0, 0, 0
	mountFmts := map[*ssa.Function]map[string]string{}
	for _, fn := range c.P.Funcs {
		id := c.P.FuncID(fn)
		for _, cs := range callSites(fn, func(com *ssa.CallCommon) bool { return strings.HasPrefix(staticName(com), "strings.") || staticName(com) == "fmt.Sprintf" || strings.HasPrefix(staticName(com), "regexp.") }) {
			sn := staticName(cs.Common())
			args := cs.Common().Args
			if want("ext") && strings.HasPrefix(sn, "strings.") && len(args) >= 2 {
				if k, ok := constStr(args[1]); ok && k == "x-" {
					nExt++
					good := sn == "strings.HasPrefix" || sn == "strings.CutPrefix" || sn == "strings.TrimPrefix"
					out = append(out, verdict(good, rule+"-ext", id+" :: the extension marker is tested as a prefix", c.P.InstrPos(cs),
						sn, "`x-` is looked for with "+sn+": a key that merely contains it (nginx-proxy, unix-socket) is taken for an extension and replaced instead of merged"))
				}
			}
			if want("verbatim") && strings.HasPrefix(id, "template.") {
				switch sn {
				case "strings.TrimSpace", "strings.Trim", "strings.TrimLeft", "strings.TrimRight", "strings.TrimFunc", "strings.TrimLeftFunc", "strings.TrimRightFunc",
					"strings.Fields", "strings.ToLower", "strings.ToUpper", "strings.Title", "strings.Map":
					out = append(out, bad(rule+"-verbatim", id+" :: "+sn+" applied to template text", c.P.InstrPos(cs),
						"package template rewrites text with "+sn+": the grammar copies literal text, defaults, replacements and messages verbatim (white space and case included), so `${V:- x}` no longer yields ` x`"))
				}
			}
			if want("fold") && strings.HasPrefix(id, "override.") {
				switch sn {
				case "strings.ToLower", "strings.ToUpper", "strings.EqualFold", "strings.Title", "strings.ToTitle":
					out = append(out, bad(rule+"-fold", id+" :: "+sn+" applied to a merge key", c.P.InstrPos(cs),
						"package override folds case with "+sn+": the keys of mappings are compared exactly (YAML keys, variable names, labels are case-sensitive), so two entries of a KEY=VALUE list that differ by case only collapse into one while their mapping spelling keeps both"))
				}
			}
			if want("unesc") && strings.HasPrefix(id, "tree.") && sn == "strings.Replace" && len(args) == 4 {
				nUn++
				k, isK := constInt(args[3])
				out = append(out, verdict(isK && k < 0, rule+"-unesc", id+" :: every occurrence of the marker is replaced", c.P.InstrPos(cs),
					"n < 0", "strings.Replace with a bounded count: only the first escaped separators are restored, the rest of the path keeps the marker"))
			}
			if want("unesc") && strings.HasPrefix(id, "tree.") && sn == "strings.ReplaceAll" {
				nUn++
			}
			if want("json") && sn == "fmt.Sprintf" && fn.Name() == "MarshalJSON" && strings.HasPrefix(id, "types.") {
				if f, ok := constStr(args[0]); ok {
					nJSON++
					out = append(out, verdict(!strings.Contains(f, `"%s"`) && !strings.Contains(f, `"%v"`), rule+"-json", id+" :: strings are rendered with %q", c.P.InstrPos(cs),
						fmt.Sprintf("format %q", f), fmt.Sprintf("the JSON text is built with format %q: a string put between quotes with %%s is not escaped, a backslash or a quote in it gives invalid JSON or another string", f)))
				}
			}
			if want("regexp") && strings.HasPrefix(id, "dotenv.") && (sn == "regexp.MustCompile" || sn == "regexp.Compile") {
				if f, ok := constStr(args[0]); ok {
					nRe++
					flags := ""
					if i := strings.Index(f, "(?"); i >= 0 {
						if j := strings.IndexAny(f[i:], ":)"); j > 0 {
							flags = f[i+2 : i+j]
						}
					}
					out = append(out, verdict(!strings.ContainsAny(flags, "ms"), rule+"-regexp", id+" :: "+fmt.Sprintf("%q", f)+" matches from where the parser stands", c.P.InstrPos(cs),
						"no multi-line / dot-all flag", "the expression switches on flag(s) `"+flags+"`: `^` / `.` then also match at or across later lines of the source, and a statement is parsed according to what FOLLOWS it"))
				}
			}
			if want("mount") && sn == "fmt.Sprintf" && strings.HasPrefix(id, "override.") && len(args) >= 1 {
				if f, ok := constStr(args[0]); ok && strings.Count(f, "%") == 2 {
					host := fn
					if mountFmts[host] == nil {
						mountFmts[host] = map[string]string{}
					}
					mountFmts[host][f] = c.P.InstrPos(cs)
				}
			}
		}
	}
	if want("verbatim") {
		nT := 0
		for _, fn := range c.P.Funcs {
			if strings.HasPrefix(c.P.FuncID(fn), "template.") {
				nT += len(callSites(fn, func(com *ssa.CallCommon) bool { return strings.HasPrefix(staticName(com), "strings.") }))
			}
		}
		out = append(out, ok2(rule+"-verbatim", "inventory", "", fmt.Sprintf("%d calls into package strings in package template, none trims by class, folds case or splits on white space", nT)))
		c.Stats[rule+"-verbatim.calls"] = nT
	}
	if want("fold") {
		nO := 0
		for _, fn := range c.P.Funcs {
			if strings.HasPrefix(c.P.FuncID(fn), "override.") {
				nO += len(callSites(fn, func(com *ssa.CallCommon) bool { return strings.HasPrefix(staticName(com), "strings.") }))
			}
		}
		out = append(out, ok2(rule+"-fold", "inventory", "", fmt.Sprintf("%d calls into package strings in package override, none folds case", nO)))
	}
	if want("range") {
		// -range: the endpoints of a letter range belong to it: a byte is compared with 'a', 'z', 'A', 'Z' by <= / >=
		nR := 0
		for _, fn := range c.P.Funcs {
			if !strings.HasPrefix(c.P.FuncID(fn), "paths.") {
				continue
			}
			for _, b := range fn.Blocks {
				for _, in := range b.Instrs {
					bo, ok := in.(*ssa.BinOp)
					if !ok {
						continue
					}
					switch bo.Op {
					case token.LSS, token.LEQ, token.GTR, token.GEQ:
					default:
						continue
					}
					var k int64
					isK := false
					if v, ok := constInt(bo.X); ok {
						k, isK = v, true
					} else if v, ok := constInt(bo.Y); ok {
						k, isK = v, true
					}
					if !isK || !(k == 'a' || k == 'z' || k == 'A' || k == 'Z') || !isByte(bo.X.Type()) {
						continue
					}
					nR++
					out = append(out, verdict(bo.Op == token.LEQ || bo.Op == token.GEQ, rule+"-range", fmt.Sprintf("%s :: the endpoint %q belongs to the letter range", c.P.FuncID(fn), rune(k)), c.P.InstrPos(bo),
						"compared with <= / >=", fmt.Sprintf("the byte is compared with %q by a strict inequality: that letter itself (drive %c:) falls outside the range", rune(k), rune(k))))
				}
			}
		}
		if nR == 0 {
			out = append(out, bad(rule+"-range", "paths :: letter-range comparisons", "", "none found: the rule sees nothing"))
		}
	}
	if want("mount") {
		var hosts []*ssa.Function
		for h := range mountFmts {
			hosts = append(hosts, h)
		}
		sort.Slice(hosts, func(i, j int) bool { return c.P.FuncID(hosts[i]) < c.P.FuncID(hosts[j]) })
		for _, h := range hosts {
			var fs []string
			for f := range mountFmts[h] {
				fs = append(fs, f)
			}
			sort.Strings(fs)
			if len(fs) < 1 {
				continue
			}
			out = append(out, verdict(len(fs) == 1, rule+"-mount", c.P.FuncID(h)+" :: one key format for both spellings", c.P.Pos(h.Pos()),
				fmt.Sprintf("every two-operand key is built with %q", fs[0]), fmt.Sprintf("the same indexer builds its keys with different formats %q: the short and the long spelling of one entry get different keys and both survive", fs)))
		}
	}
	if want("ext") && nExt == 0 {
		out = append(out, bad(rule+"-ext", "module :: tests of the extension marker", "", "none found: the rule sees nothing"))
	}
	if want("unesc") && nUn == 0 {
		out = append(out, bad(rule+"-unesc", "tree :: replacements of the escape marker", "", "none found: the rule sees nothing"))
	}
	if want("regexp") && nRe == 0 {
		out = append(out, bad(rule+"-regexp", "dotenv :: regular expressions", "", "none found: the rule sees nothing"))
	}
	_ = nJSON
	return out
}

var _ = token.ADD


func isByte(t types.Type) bool {
	b, ok := t.Underlying().(*types.Basic)
	return ok && (b.Kind() == types.Uint8 || b.Kind() == types.UntypedRune || b.Kind() == types.Int32)
}
