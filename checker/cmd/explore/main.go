package main

import (
	"fmt"
	"os"
	"sort"

	"verifcheck/internal/prog"
	"verifcheck/internal/tab"
)

func main() {
	p, err := prog.Load("/repo", false, nil)
	if err != nil {
		fmt.Println(err)
		os.Exit(2)
	}
	what := os.Args[1]
	switch what {
	case "tables":
		ts, _ := tab.ExtractTables(p)
		var names []string
		for n := range ts {
			names = append(names, n)
		}
		sort.Strings(names)
		for _, n := range names {
			t := ts[n]
			fmt.Println("==", n, len(t.Rows), t.Errs)
			for _, r := range t.Rows {
				fmt.Printf("   %-60s %s %v\n", r.Pattern, r.Func, r.Dup)
			}
		}
	case "schema":
		s, err := tab.LoadSchema("/repo/schema/compose-spec.json")
		if err != nil {
			fmt.Println(err)
			return
		}
		for _, pa := range s.Paths() {
			n := s.Nodes[pa]
			fmt.Printf("%-70s %v uniq=%v pat=%v open=%v ext=%v\n", pa, n.KindList(), n.UniqueItems, n.Pattern, n.Open, n.Extensions)
		}
		fmt.Println(len(s.Nodes))
	case "model":
		m, err := tab.ExtractModel(p)
		if err != nil {
			fmt.Println(err)
			return
		}
		for _, pa := range m.Paths() {
			n := m.Nodes[pa]
			d := ""
			if n.Decoder != nil {
				d += " D"
			}
			if n.MarshalY != nil {
				d += " MY"
			}
			if n.MarshalJ != nil {
				d += " MJ"
			}
			fmt.Printf("%-70s %-40s y=%s j=%s%s\n", pa, n.TypeStr, n.YAMLKey, n.JSONKey, d)
		}
		fmt.Println(len(m.Nodes), m.Issues)
	}
}
