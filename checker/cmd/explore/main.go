package main

import (
	"fmt"
	"os"
	"time"

	"golang.org/x/tools/go/ssa"
	"verifcheck/internal/prog"
)

func main() {
	t0 := time.Now()
	p, err := prog.Load("/repo", false, nil)
	if err != nil {
		fmt.Println(err)
		os.Exit(2)
	}
	fmt.Fprintln(os.Stderr, "loaded", len(p.Pkgs), "pkgs", len(p.Funcs), "funcs in", time.Since(t0))
	n := 0
	for _, f := range p.Funcs {
		for _, b := range f.Blocks {
			for _, in := range b.Instrs {
				if ta, ok := in.(*ssa.TypeAssert); ok && !ta.CommaOk {
					n++
					fmt.Printf("%s\t%s\t%s\n", p.InstrPos(ta), p.FuncID(f), p.Term(ta, 4))
				}
			}
		}
	}
	fmt.Println(n)
}
