package main

import (
	"encoding/json"
	"fmt"
	"os"
	"os/exec"
	"path/filepath"
	"sort"
	"strings"
	"sync"

	"verifcheck/internal/prog"
	"verifcheck/internal/report"
	"verifcheck/internal/rules"
)

type mutant struct {
	Property string `json:"property"`
	Name     string `json:"name"`
	Expect   string `json:"expect"` // K: must be reported, S: known to survive (value-level)
	File     string `json:"file"`
	What     string `json:"what"`
	Dir      string `json:"-"`
}

type mutantResult struct {
	Name    string `json:"name"`
	Source  string `json:"source"` // "catalogue" or "seeded"
	Expect  string `json:"expect"`
	What    string `json:"what"`
	Outcome string `json:"outcome"` // killed, survived, not-applicable (patch does not apply), not-compiling
	Detail  string `json:"detail,omitempty"`
}

// thoroughExtras: the deeper exploration of the thorough tier.
//  1. mutation self-test: every catalogue mutant of the property (and every kept
//     seeded change) is applied to a scratch copy of /repo and the property's
//     rules must report a violation there;
//  2. reachability cross-check: module functions reachable from the entry sets
//     under the whole-program VTA call graph must be a subset of what the
//     module-only CHA graph of the quick tier reaches.
func thoroughExtras(id, repo, verif string, seed int, p *prog.Program, ctx *rules.Ctx) (map[string]any, []report.Obligation) {
	info := map[string]any{}
	var out []report.Obligation
	// ---- 1. mutants
	var ms []mutant
	if b, err := os.ReadFile(filepath.Join(verif, "mutants", "index.json")); err == nil {
		var all []mutant
		if json.Unmarshal(b, &all) == nil {
			for _, m := range all {
				if m.Property == id {
					m.Dir = filepath.Join(verif, "mutants", id, m.Name+".diff")
					ms = append(ms, m)
				}
			}
		}
	}
	seeded, _ := filepath.Glob(filepath.Join(verif, "seeded", "*", "meta.json"))
	for _, mf := range seeded {
		var meta struct {
			Property string   `json:"property"`
			Detected []string `json:"detected_by"`
			Needs    string   `json:"needs"`
		}
		if b, err := os.ReadFile(mf); err == nil && json.Unmarshal(b, &meta) == nil && meta.Property == id {
			exp := "S"
			for _, d := range meta.Detected {
				if d == id {
					exp = "K"
				}
			}
			ms = append(ms, mutant{Property: id, Name: "seeded/" + filepath.Base(filepath.Dir(mf)), Expect: exp, What: meta.Needs, Dir: filepath.Join(filepath.Dir(mf), "patch.diff")})
		}
	}
	// behaviour-preserving refactorings written by independent reviewers: the rules must stay silent on them
	refs, _ := filepath.Glob(filepath.Join(verif, "refactorings", "*.diff"))
	for _, rf := range refs {
		what := "behaviour-preserving refactoring"
		if b, err := os.ReadFile(strings.TrimSuffix(rf, ".diff") + ".md"); err == nil {
			what = firstLine(string(b))
		}
		ms = append(ms, mutant{Property: id, Name: "refactoring/" + strings.TrimSuffix(filepath.Base(rf), ".diff"), Expect: "Q", What: what, Dir: rf})
	}
	// VERIF_SEED rotates the order (all mutants are always run)
	if len(ms) > 0 {
		r := seed % len(ms)
		if r < 0 {
			r = -r
		}
		ms = append(ms[r:], ms[:r]...)
	}
	results := make([]mutantResult, len(ms))
	self, _ := os.Executable()
	sem := make(chan struct{}, 4)
	var wg sync.WaitGroup
	for i, m := range ms {
		wg.Add(1)
		go func(i int, m mutant) {
			defer wg.Done()
			sem <- struct{}{}
			defer func() { <-sem }()
			res := mutantResult{Name: m.Name, Expect: m.Expect, What: m.What, Source: "catalogue"}
			if strings.HasPrefix(m.Name, "seeded/") {
				res.Source = "seeded"
			}
			if strings.HasPrefix(m.Name, "refactoring/") {
				res.Source = "refactoring"
			}
			tmp, err := os.MkdirTemp("", "verifmut-")
			if err != nil {
				res.Outcome, res.Detail = "not-applicable", err.Error()
				results[i] = res
				return
			}
			defer os.RemoveAll(tmp)
			scratch := filepath.Join(tmp, "repo")
			if b, err := exec.Command("rsync", "-a", "--exclude", ".git", repo+"/", scratch+"/").CombinedOutput(); err != nil {
				res.Outcome, res.Detail = "not-applicable", "copy failed: "+string(b)
				results[i] = res
				return
			}
			ap := exec.Command("git", "apply", "--whitespace=nowarn", m.Dir)
			ap.Dir = scratch
			ap.Env = append(os.Environ(), "GIT_CEILING_DIRECTORIES="+tmp)
			if b, err := ap.CombinedOutput(); err != nil {
				res.Outcome, res.Detail = "not-applicable", "patch does not apply to the current tree: "+firstLine(string(b))
				results[i] = res
				return
			}
			cmd := exec.Command(self, "-repo", scratch, "-verif", verif, "-prop", id, "-tier", "quick", "-no-evidence")
			b, err := cmd.CombinedOutput()
			o := string(b)
			switch {
			case strings.Contains(o, "RUN-ERROR") && strings.Contains(o, "type errors"):
				res.Outcome, res.Detail = "not-compiling", firstLine(o)
			case err != nil && strings.Contains(o, "VIOLATION property="):
				res.Outcome = "killed"
				for _, l := range strings.Split(o, "\n") {
					if strings.HasPrefix(l, "  ") {
						res.Detail = strings.TrimSpace(l)
						if len(res.Detail) > 300 {
							res.Detail = res.Detail[:300]
						}
						break
					}
				}
			default:
				res.Outcome = "survived"
			}
			results[i] = res
		}(i, m)
	}
	wg.Wait()
	sort.Slice(results, func(i, j int) bool { return results[i].Name < results[j].Name })
	killed, survivedK, na, quiet, alarms := 0, 0, 0, 0, 0
	var skipped []string
	for _, r := range results {
		switch {
		case r.Expect == "Q" && r.Outcome == "killed":
			alarms++
			out = append(out, report.Obligation{Rule: "SELFTEST", Key: r.Name, Status: report.Violation,
				Why: "the checker's own self-test failed: false alarm on a behaviour-preserving change (" + r.What + "): " + r.Detail})
			continue
		case r.Expect == "Q" && r.Outcome == "survived":
			quiet++
			out = append(out, report.Obligation{Rule: "SELFTEST", Key: r.Name, Status: report.Discharged, Why: "silent on a behaviour-preserving change: " + r.What})
			continue
		case r.Expect == "Q":
			na++
			skipped = append(skipped, r.Name+" ("+r.Outcome+")")
			continue
		case r.Outcome == "killed":
			killed++
		case r.Outcome == "survived" && r.Expect == "K":
			survivedK++
			out = append(out, report.Obligation{Rule: "SELFTEST", Key: "mutant " + r.Name, Status: report.Violation,
				Why: "the checker's own self-test failed: a mutation that breaks the property (" + r.What + ") is not reported by the rules of " + id})
		case r.Outcome == "not-applicable" || r.Outcome == "not-compiling":
			na++
			skipped = append(skipped, r.Name+" ("+r.Outcome+")")
		}
		if r.Outcome == "killed" || (r.Outcome == "survived" && r.Expect == "S") {
			out = append(out, report.Obligation{Rule: "SELFTEST", Key: "mutant " + r.Name, Status: report.Discharged, Why: r.Outcome + " as expected: " + r.What})
		}
	}
	if len(skipped) > 0 {
		// a variant that no longer applies or compiles tests nothing: port it (scripts/check_corpus.py)
		fmt.Fprintf(os.Stderr, "NOTE property=%s %d variants of the corpus were skipped: %s\n", id, len(skipped), strings.Join(skipped, ", "))
	}
	info["mutation_selftest"] = map[string]any{"mutants": len(results) - quiet - alarms, "killed": killed, "missed": survivedK, "skipped": na, "kill_matrix": results,
		"refactorings_silent": quiet, "refactorings_alarmed": alarms,
		"note": "mutants marked expect=S are value-level changes the static rules are known not to see; they document the limit of the claim"}
	// ---- 2. VTA reachability cross-check
	if vp, err := prog.Load(repo, true, nil); err != nil {
		out = append(out, report.Obligation{Rule: "VTA", Key: "whole-program load", Status: report.Violation, Why: err.Error()})
	} else {
		vctx := rules.NewCtx(vp, "thorough")
		names := []string{"LOAD", "RENDER", "SELECT", "GRAPH", "DOTENV", "TEMPLATE"}
		vr, _ := vctx.Reach(names...)
		qr, _ := ctx.Reach(names...)
		qset := map[string]bool{}
		for f := range qr.Set {
			qset[p.FuncID(f)] = true
		}
		var missing []string
		for f := range vr.Set {
			if id := vp.FuncID(f); !qset[id] {
				missing = append(missing, id)
			}
		}
		sort.Strings(missing)
		info["vta_crosscheck"] = map[string]any{"reachable_quick_cha": len(qr.Set), "reachable_vta": len(vr.Set), "reachable_only_under_vta": missing}
		if len(missing) == 0 {
			out = append(out, report.Obligation{Rule: "VTA", Key: "reachability", Status: report.Discharged,
				Why: fmt.Sprintf("every module function reachable under the whole-program VTA call graph (%d) is reachable under the quick tier's module-only CHA graph (%d)", len(vr.Set), len(qr.Set))})
		} else {
			out = append(out, report.Obligation{Rule: "VTA", Key: "reachability", Status: report.Violation,
				Why: "functions reachable under VTA but not in the quick tier's scope: " + strings.Join(missing, ", ")})
		}
	}
	return info, out
}

func firstLine(s string) string {
	s = strings.TrimSpace(s)
	if i := strings.Index(s, "\n"); i >= 0 {
		s = s[:i]
	}
	if len(s) > 300 {
		s = s[:300]
	}
	return s
}
